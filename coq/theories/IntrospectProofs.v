(* IntrospectProofs.v — proofs about the SchemaAdapter model (Introspect.v), property C20. *)
From Coq Require Import Lia Permutation.
From TF Require Import Values Ty TyProofs SchemaAst SchemaNew SchemaSpec Introspect.
From TF Require SchemaProofs.
Local Open Scope list_scope.
Local Open Scope string_scope.

(* ====================================================================================== *)
(* 0. Generic list / res lemmas                                                            *)
(* ====================================================================================== *)
Lemma rflat_ok {A B} (f : A -> res (list B)) (g : A -> list B) l :
  (forall x, In x l -> f x = Ok (g x)) -> rflat f l = Ok (flat_map g l).
Proof.
  induction l as [|x r IH]; intros H; cbn [rflat flat_map]; [reflexivity|].
  rewrite (H x (or_introl eq_refl)). cbn [bind]. rewrite IH by (intros; apply H; now right). reflexivity.
Qed.
Lemma rmap_ok {A B} (f : A -> res B) (g : A -> B) l :
  (forall x, In x l -> f x = Ok (g x)) -> rmap f l = Ok (map g l).
Proof.
  induction l as [|x r IH]; intros H; cbn [rmap map]; [reflexivity|].
  rewrite (H x (or_introl eq_refl)). cbn [bind]. rewrite IH by (intros; apply H; now right). reflexivity.
Qed.
Lemma rflat_map_ok {A B C} (h : A -> B) (k : B -> res (list C)) (g : A -> list C) l :
  (forall x, In x l -> k (h x) = Ok (g x)) -> rflat k (map h l) = Ok (flat_map g l).
Proof.
  intros H. rewrite (rflat_ok k (fun y => match rflat k [y] with Ok r => r | Panic _ => [] end)).
  - f_equal. induction l as [|x r IH]; cbn [map flat_map]; [reflexivity|].
    rewrite IH by (intros; apply H; now right). f_equal.
    cbn [rflat]. rewrite (H x (or_introl eq_refl)). cbn [bind]. now rewrite app_nil_r.
  - intros y Hy. apply in_map_iff in Hy. destruct Hy as (x & <- & Hx).
    cbn [rflat]. rewrite (H x Hx). cbn [bind]. now rewrite app_nil_r.
Qed.
Lemma flat_map_single {A B} (g : A -> B) l : flat_map (fun x => [g x]) l = map g l.
Proof. induction l; cbn; congruence. Qed.
Lemma flat_map_if {A B} (p : A -> bool) (g : A -> B) l :
  flat_map (fun x => if p x then [g x] else []) l = map g (filter p l).
Proof. induction l as [|x r IH]; cbn; [reflexivity|]. destruct (p x); cbn; now rewrite IH. Qed.
Lemma flat_map_ext_in {A B} (f g : A -> list B) l :
  (forall x, In x l -> f x = g x) -> flat_map f l = flat_map g l.
Proof.
  induction l as [|x r IH]; intros H; cbn; [reflexivity|].
  rewrite (H x (or_introl eq_refl)), IH by (intros; apply H; now right). reflexivity.
Qed.
Lemma flat_map_map {A B C} (h : A -> B) (g : B -> list C) l : flat_map g (map h l) = flat_map (fun x => g (h x)) l.
Proof. induction l; cbn; congruence. Qed.
Lemma map_flat_map {A B C} (h : B -> C) (g : A -> list B) l : map h (flat_map g l) = flat_map (fun x => map h (g x)) l.
Proof. induction l as [|x r IH]; cbn; [reflexivity|]. now rewrite map_app, IH. Qed.
Lemma flat_map_flat_map {A B C} (g : A -> list B) (h : B -> list C) l :
  flat_map h (flat_map g l) = flat_map (fun x => flat_map h (g x)) l.
Proof. induction l as [|x r IH]; cbn; [reflexivity|]. now rewrite flat_map_app, IH. Qed.

(* ====================================================================================== *)
(* 1. Well-formed schemas: what the proofs use of `valid_schema d /\ ~ Known d`              *)
(* ====================================================================================== *)
Record wf_schema (s : schema) : Prop := mkWf {
  w_unique : NoDup (map t_name (sc_types s));
  w_unique_fields : forall t, In t (sc_types s) -> NoDup (map f_name (t_fields t));
  w_root : exists root, In root (sc_types s) /\ t_name root = sc_query s;
  w_root_edges : forall f, In f (root_fields s) -> fld_is_property f = false;
  w_depth : forall t f, In t (sc_types s) -> In f (t_fields t) -> (gdepth (f_ty f) <= 30)%nat;
  w_kind : forall t f, In t (sc_types s) -> In f (t_fields t) ->
           shas s (gbase (f_ty f)) = negb (fld_is_property f);
  w_impl : forall t i, In t (sc_types s) -> In i (t_impl t) ->
           exists it, In it (sc_types s) /\ t_name it = i /\ is_interface it = true;
  w_defaults : forall t f a, In t (sc_types s) -> In f (t_fields t) -> In a (f_args f) -> a_default a <> BadDefault
}.

Lemma find_type_some n ts t : find_type n ts = Some t -> In t ts /\ t_name t = n.
Proof.
  induction ts as [|u r IH]; cbn [find_type]; [discriminate|].
  destruct (String.eqb (t_name u) n) eqn:E.
  - intros [= <-]. apply String.eqb_eq in E. split; [now left | exact E].
  - intros H. destruct (IH H). split; [now right | assumption].
Qed.
Lemma find_type_none n ts : find_type n ts = None -> forall t, In t ts -> t_name t <> n.
Proof.
  induction ts as [|u r IH]; cbn [find_type]; [intros _ t []|].
  destruct (String.eqb (t_name u) n) eqn:E; [discriminate|].
  intros H t [<-|Ht]; [now apply String.eqb_neq in E | now apply IH].
Qed.
Lemma find_type_nodup ts t : NoDup (map t_name ts) -> In t ts -> find_type (t_name t) ts = Some t.
Proof.
  induction ts as [|u r IH]; intros N H; [destruct H|].
  cbn [map] in N. inversion N as [|? ? Hn N']; subst. cbn [find_type].
  destruct H as [->|H].
  - now rewrite String.eqb_refl.
  - destruct (String.eqb (t_name u) (t_name t)) eqn:E; [|now apply IH].
    apply String.eqb_eq in E. exfalso. apply Hn. rewrite E. now apply in_map.
Qed.
Lemma has_type_true n ts : has_type n ts = true <-> exists t, In t ts /\ t_name t = n.
Proof.
  unfold has_type. destruct (find_type n ts) as [t|] eqn:E.
  - split; [|reflexivity]. intros _. exists t. now apply find_type_some.
  - split; [discriminate|]. intros (t & Ht & Hn). exfalso. exact (find_type_none _ _ E t Ht Hn).
Qed.

Lemma sget_in s t : wf_schema s -> In t (sc_types s) -> sget s (t_name t) = Some t.
Proof. intros W H. apply find_type_nodup; [apply (w_unique s W) | exact H]. Qed.
Lemma sget_some s n t : sget s n = Some t -> In t (sc_types s) /\ t_name t = n.
Proof. apply find_type_some. Qed.

(* ---------- from the declarative validity of SchemaSpec.v ---------- *)
Lemma builtin_cases b : builtin_scalar b = true ->
  b = "Int" \/ b = "Float" \/ b = "String" \/ b = "Boolean" \/ b = "ID".
Proof.
  unfold builtin_scalar. intros H.
  repeat (apply orb_prop in H; destruct H as [H|H]); apply String.eqb_eq in H; auto.
Qed.

Lemma existsb_false {A} (p : A -> bool) l : existsb p l = false -> forall x, In x l -> p x = false.
Proof.
  intros H x Hx. destruct (p x) eqn:E; [|reflexivity].
  assert (existsb p l = true) by (apply existsb_exists; eauto). congruence.
Qed.

Lemma doc_gtys_in d t f g : In t (doc_types d) -> In f (t_fields t) -> In g (fld_gtys f) -> In g (doc_gtys d).
Proof.
  intros Ht Hf Hg. unfold doc_gtys. apply in_flat_map. exists t. split; [exact Ht|].
  apply in_flat_map. exists f. now split.
Qed.

Theorem valid_wf d : valid_schema d -> ~ Known d -> wf_schema (schema_of_doc d).
Proof.
  intros (q & root & Hs & Hroot & Hq & Hk & R) NK.
  assert (K : known d = false) by (unfold Known in NK; destruct (known d); [now exfalso | reflexivity]).
  unfold known in K. repeat (apply orb_false_elim in K; destruct K as [K ?]).
  unfold schema_of_doc. rewrite Hs.
  constructor; cbn [sc_types sc_query].
  - exact (r_unique_types _ _ R).
  - exact (r_unique_fields _ _ R).
  - exists root. now split.
  - intros f Hf. unfold root_fields, sget in Hf. cbn [sc_types sc_query] in Hf.
    rewrite <- Hq in Hf. rewrite (find_type_nodup _ _ (r_unique_types _ _ R) Hroot) in Hf.
    pose proof (r_root_only_edges _ _ R f Hf) as P. unfold is_property in P. unfold fld_is_property.
    destruct (builtin_scalar (gbase (f_ty f))); [now exfalso | reflexivity].
  - intros t f Ht Hf.
    match goal with H : k_list_depth d = false |- _ => unfold k_list_depth in H;
      pose proof (existsb_false _ _ H (f_ty f) (doc_gtys_in d t f _ Ht Hf (or_introl eq_refl))) as L end.
    apply Nat.ltb_ge in L. exact L.
  - intros t f Ht Hf. unfold shas, fld_is_property. cbn [sc_types].
    match goal with H : k_builtin_scalar_redeclared d = false |- _ =>
      unfold k_builtin_scalar_redeclared in H; apply orb_false_elim in H; destruct H as [_ Hb] end.
    destruct (builtin_scalar (gbase (f_ty f))) eqn:B; cbn [negb].
    + destruct (has_type (gbase (f_ty f)) (doc_types d)) eqn:E; [|reflexivity].
      apply has_type_true in E. destruct E as (u & Hu & Hn).
      pose proof (existsb_false _ _ Hb u Hu) as F. cbn beta in F. rewrite Hn in F. congruence.
    + destruct (r_field_types _ _ R t f Ht Hf) as [P|(u & Hu & Hn)].
      * unfold is_property in P. congruence.
      * apply has_type_true. exists u. now split.
  - intros t i Ht Hi. destruct (r_implements_interfaces _ _ R t i Ht Hi) as (it & (Hit & Hn) & Hki).
    exists it. split; [exact Hit|]. split; [exact Hn|]. unfold is_interface. now rewrite Hki.
  - intros t f a Ht Hf Ha E. pose proof (r_defaults _ _ R t f a Ht Hf Ha) as D.
    unfold default_fits in D. now rewrite E in D.
Qed.

(* ====================================================================================== *)
(* 2. Types: from_type and the two Displays                                                 *)
(* ====================================================================================== *)
Lemma g_name_gbase g : g_name g = gbase g.
Proof. induction g; cbn; auto. Qed.
Lemma adepth_gdepth g : adepth (g_aty g) = gdepth g.
Proof. induction g; cbn; auto. Qed.
Lemma gty_text_render g : gty_text g = g_render g.
Proof.
  induction g as [n nl|i IH nl]; cbn [gty_text g_render].
  - destruct nl; reflexivity.
  - rewrite IH. reflexivity.
Qed.

Lemma from_type_ok g : (gdepth g <= 30)%nat -> from_type g = Ok (T (gbase g) (g_aty g)).
Proof.
  intros H. rewrite from_type_spec, g_name_gbase, adepth_gdepth.
  destruct (Nat.leb_spec (gdepth g) 30); [reflexivity | lia].
Qed.
(* Display of the converted type = Display of the parser's type *)
Lemma display_converted g : (gdepth g <= 30)%nat -> ty_display (T (gbase g) (g_aty g)) = gty_text g.
Proof.
  intros H. rewrite ty_display_T by (now rewrite adepth_gdepth).
  rewrite gty_text_render, g_render_render. reflexivity.
Qed.

(* ====================================================================================== *)
(* 3. The resolvers on a well-formed schema                                                 *)
(* ====================================================================================== *)
Lemma rflat_flat_map_ok {A B C} (F : A -> list B) (k : B -> res (list C)) (g : A -> list C) l :
  (forall x, In x l -> rflat k (F x) = Ok (g x)) -> rflat k (flat_map F l) = Ok (flat_map g l).
Proof.
  assert (App : forall a b ra rb, rflat k a = Ok ra -> rflat k b = Ok rb -> rflat k (a ++ b)%list = Ok (ra ++ rb)%list).
  { induction a as [|x a IH]; intros b ra rb Ha Hb; cbn [rflat app] in *.
    - injection Ha as <-. exact Hb.
    - destruct (k x) as [rx|] eqn:E; [|discriminate]. cbn [bind] in *.
      destruct (rflat k a) as [ra'|] eqn:E2; [|discriminate]. cbn [bind] in *. injection Ha as <-.
      rewrite (IH b ra' rb eq_refl Hb). cbn [bind]. now rewrite app_assoc. }
  induction l as [|x r IH]; intros H; cbn [flat_map]; [reflexivity|].
  apply App; [apply H; now left | apply IH; intros; apply H; now right].
Qed.

Section Resolvers.
  Variable s : schema.
  Hypothesis W : wf_schema s.

  Lemma visible_in t : In t (visible_types s) -> In t (sc_types s).
  Proof. unfold visible_types. intros H. now apply filter_In in H. Qed.

  Lemma starts_vertex_type : starts s "VertexType" HNone = Ok (map SVType (visible_types s)).
  Proof. reflexivity. Qed.

  Lemma root_def : exists root, sget s (sc_query s) = Some root /\ In root (sc_types s) /\ root_fields s = t_fields root.
  Proof.
    destruct (w_root s W) as (root & Hr & Hn). exists root.
    assert (E : sget s (sc_query s) = Some root) by (rewrite <- Hn; now apply sget_in).
    split; [exact E|]. split; [exact Hr|]. unfold root_fields. now rewrite E.
  Qed.

  Lemma from_vertex_types k g :
    (forall t, In t (visible_types s) -> k (SVType t) = Ok (g t)) ->
    from_start s "VertexType" HNone k = Ok (flat_map g (visible_types s)).
  Proof.
    intros H. unfold from_start. rewrite starts_vertex_type. cbn [bind]. now apply rflat_map_ok.
  Qed.

  Lemma from_entrypoints k g :
    (forall f, In f (root_fields s) -> k (SVEdge f) = Ok (g f)) ->
    from_start s "Entrypoint" HNone k = Ok (flat_map g (root_fields s)).
  Proof.
    intros H. unfold from_start. change (starts s "Entrypoint" HNone) with (Ok (map SVEdge (root_fields s))).
    cbn [bind]. now apply rflat_map_ok.
  Qed.

  Lemma name_cols t : cols "VertexType" ["name"] (SVType t) = Ok [Str (t_name t)].
  Proof. reflexivity. Qed.
  Lemma types_body_eq t : types_body (SVType t) = Ok [[Str (t_name t); Boolv (is_interface t)]].
  Proof. reflexivity. Qed.

  (* field classification *)
  Lemma field_kind_ok t f : In t (sc_types s) -> In f (t_fields t) ->
    field_kind s f = Ok (T (gbase (f_ty f)) (g_aty (f_ty f)), negb (fld_is_property f)).
  Proof.
    intros Ht Hf. unfold field_kind. rewrite from_type_ok by (apply (w_depth s W t f Ht Hf)). cbn [bind].
    unfold ty_base_type. rewrite base_T. now rewrite (w_kind s W t f Ht Hf).
  Qed.

  Lemma nbrs_property t : In t (sc_types s) ->
    nbrs s "VertexType" "property" HNone (SVType t) =
    Ok (map (fun f => SVProp t (f_name f) (T (gbase (f_ty f)) (g_aty (f_ty f)))) (type_properties t)).
  Proof.
    intros Ht. change (nbrs s "VertexType" "property" HNone (SVType t)) with (property_edge s (SVType t)).
    unfold property_edge. cbn [as_vertex_type bind].
    rewrite (rflat_ok _ (fun f => if fld_is_property f then [SVProp t (f_name f) (T (gbase (f_ty f)) (g_aty (f_ty f)))] else [])).
    - now rewrite flat_map_if.
    - intros f Hf. rewrite (field_kind_ok t f Ht Hf). cbn [bind fst snd]. now destruct (fld_is_property f).
  Qed.

  Lemma nbrs_edge t : In t (sc_types s) ->
    nbrs s "VertexType" "edge" HNone (SVType t) = Ok (map SVEdge (type_edges t)).
  Proof.
    intros Ht. change (nbrs s "VertexType" "edge" HNone (SVType t)) with (edge_edge s (SVType t)).
    unfold edge_edge. cbn [as_vertex_type bind].
    rewrite (rflat_ok _ (fun f => if negb (fld_is_property f) then [SVEdge f] else [])).
    - unfold type_edges. now rewrite (flat_map_if (fun f => negb (fld_is_property f))).
    - intros f Hf. rewrite (field_kind_ok t f Ht Hf). cbn [bind fst snd]. reflexivity.
  Qed.

  (* an edge field of a type of the schema, or an entry point *)
  Definition schema_edge (f : fld) : Prop :=
    (exists t, In t (sc_types s) /\ In f (t_fields t)) /\ fld_is_property f = false.

  Lemma type_edge_schema_edge t f : In t (sc_types s) -> In f (type_edges t) -> schema_edge f.
  Proof.
    intros Ht Hf. unfold type_edges in Hf. apply filter_In in Hf. destruct Hf as [Hf Hp].
    split; [now exists t|]. now destruct (fld_is_property f).
  Qed.
  Lemma entry_schema_edge f : In f (root_fields s) -> schema_edge f.
  Proof.
    intros Hf. destruct root_def as (root & _ & Hr & E). split; [|now apply (w_root_edges s W)].
    exists root. split; [exact Hr | now rewrite <- E].
  Qed.

  Lemma edge_target f : schema_edge f ->
    via s "Edge" "target" (fun t => leaf (cols "VertexType" ["name"] t)) (SVEdge f) = Ok [[Str (gbase (f_ty f))]].
  Proof.
    intros [(t & Ht & Hf) Hp]. unfold via.
    change (nbrs s "Edge" "target" HNone (SVEdge f)) with (target_edge s (SVEdge f)).
    unfold target_edge. cbn [as_edge bind].
    rewrite from_type_ok by (apply (w_depth s W t f Ht Hf)). cbn [bind]. unfold ty_base_type. rewrite base_T.
    pose proof (w_kind s W t f Ht Hf) as K. rewrite Hp in K. cbn [negb] in K.
    unfold shas in K. apply has_type_true in K. destruct K as (d & Hd & Hn).
    rewrite <- Hn. rewrite (sget_in s d W Hd). cbn [rflat bind]. rewrite name_cols. reflexivity.
  Qed.

  Lemma nbrs_target f : schema_edge f ->
    exists d, nbrs s "Edge" "target" HNone (SVEdge f) = Ok [SVType d] /\ t_name d = gbase (f_ty f).
  Proof.
    intros [(t & Ht & Hf) Hp].
    change (nbrs s "Edge" "target" HNone (SVEdge f)) with (target_edge s (SVEdge f)).
    unfold target_edge. cbn [as_edge bind].
    rewrite from_type_ok by (apply (w_depth s W t f Ht Hf)). cbn [bind]. unfold ty_base_type. rewrite base_T.
    pose proof (w_kind s W t f Ht Hf) as K. rewrite Hp in K. cbn [negb] in K.
    unfold shas in K. apply has_type_true in K. destruct K as (d & Hd & Hn).
    exists d. split; [|exact Hn]. rewrite <- Hn. now rewrite (sget_in s d W Hd).
  Qed.

  Lemma edge_body_eq f : schema_edge f -> edge_body s (SVEdge f) = Ok [spec_edge_row f].
  Proof.
    intros H. unfold edge_body. rewrite (edge_target f H). reflexivity.
  Qed.

  Lemma param_cols a : a_default a <> BadDefault ->
    cols "EdgeParameter" ["name"; "type"; "default"] (SVParam a) =
    Ok [Str (a_name a); Str (gty_text (a_ty a)); spec_default a].
  Proof.
    intros H. unfold cols. cbn [rmap].
    change (prop_value "EdgeParameter" "name" (SVParam a)) with (Ok (Str (a_name a))).
    change (prop_value "EdgeParameter" "type" (SVParam a)) with (Ok (Str (gty_text (a_ty a)))).
    change (prop_value "EdgeParameter" "default" (SVParam a)) with (default_text a).
    cbn [bind]. unfold default_text, param_default, spec_default.
    destruct (a_default a) as [| |v]; [|now exfalso|]; cbn [bind opt_str].
    - destruct (gnullable (a_ty a)); reflexivity.
    - reflexivity.
  Qed.

  Lemma param_body_eq f : (forall a, In a (f_args f) -> a_default a <> BadDefault) ->
    param_body s (SVEdge f) = Ok (spec_param_rows f).
  Proof.
    intros H. unfold param_body, via.
    change (nbrs s "Edge" "parameter" HNone (SVEdge f)) with (Ok (map SVParam (f_args f))).
    change (cols "Edge" ["name"] (SVEdge f)) with (Ok [Str (f_name f)]). cbn [bind].
    rewrite (rflat_map_ok SVParam _ (fun a => [[Str (a_name a); Str (gty_text (a_ty a)); spec_default a]])).
    - unfold join. cbn [bind]. rewrite flat_map_single. unfold spec_param_rows. rewrite map_map. reflexivity.
    - intros a Ha. unfold leaf. rewrite (param_cols a (H a Ha)). reflexivity.
  Qed.

  Lemma schema_edge_defaults f : schema_edge f -> forall a, In a (f_args f) -> a_default a <> BadDefault.
  Proof. intros [(t & Ht & Hf) _] a Ha. exact (w_defaults s W t f a Ht Hf Ha). Qed.

  (* ---------- the canonical queries ---------- *)
  Theorem q_types_eq : q_types s = Ok (spec_types s).
  Proof.
    unfold q_types. rewrite (from_vertex_types _ (fun t => [[Str (t_name t); Boolv (is_interface t)]])).
    - unfold spec_types. now rewrite flat_map_single.
    - intros t _. apply types_body_eq.
  Qed.

  Theorem q_implements_eq : q_implements s = Ok (spec_implements s).
  Proof.
    unfold q_implements. apply from_vertex_types. intros t Ht. apply visible_in in Ht.
    rewrite name_cols. unfold via.
    change (nbrs s "VertexType" "implements" HNone (SVType t)) with (implements_edge s (SVType t)).
    unfold implements_edge. cbn [as_vertex_type bind].
    rewrite (rflat_flat_map_ok _ _ (fun i => [[Str i]])).
    - unfold join. cbn [bind]. rewrite flat_map_single, map_map. reflexivity.
    - intros i Hi. destruct (w_impl s W t i Ht Hi) as (it & Hit & Hn & _).
      rewrite <- Hn. rewrite (sget_in s it W Hit). reflexivity.
  Qed.

  Theorem q_properties_eq : q_properties s = Ok (spec_properties s).
  Proof.
    unfold q_properties. apply from_vertex_types. intros t Ht. apply visible_in in Ht.
    rewrite name_cols. unfold via. rewrite (nbrs_property t Ht). cbn [bind].
    rewrite (rflat_map_ok _ _ (fun f => [[Str (f_name f); Str (gty_text (f_ty f))]])).
    - unfold join. cbn [bind]. rewrite flat_map_single, map_map. reflexivity.
    - intros f Hf. unfold type_properties in Hf. apply filter_In in Hf. destruct Hf as [Hf _].
      change (leaf (cols "Property" ["name"; "type"] (SVProp t (f_name f) (T (gbase (f_ty f)) (g_aty (f_ty f))))))
        with (Ok [[Str (f_name f); Str (ty_display (T (gbase (f_ty f)) (g_aty (f_ty f))))]] : res (list row)).
      now rewrite display_converted by (apply (w_depth s W t f Ht Hf)).
  Qed.

  Theorem q_edges_eq : q_edges s = Ok (spec_edges s).
  Proof.
    unfold q_edges. apply from_vertex_types. intros t Ht. apply visible_in in Ht.
    rewrite name_cols. unfold via. rewrite (nbrs_edge t Ht). cbn [bind].
    rewrite (rflat_map_ok _ _ (fun f => [spec_edge_row f])).
    - unfold join. cbn [bind]. rewrite flat_map_single, map_map. reflexivity.
    - intros f Hf. apply edge_body_eq. now apply (type_edge_schema_edge t).
  Qed.

  Theorem q_params_eq : q_params s = Ok (spec_params s).
  Proof.
    unfold q_params. apply from_vertex_types. intros t Ht. apply visible_in in Ht.
    rewrite name_cols. unfold via. rewrite (nbrs_edge t Ht). cbn [bind].
    rewrite (rflat_map_ok _ _ spec_param_rows).
    - unfold join. cbn [bind]. rewrite map_flat_map. reflexivity.
    - intros f Hf. apply param_body_eq. apply schema_edge_defaults. now apply (type_edge_schema_edge t).
  Qed.

  Theorem q_entrypoints_eq : q_entrypoints s = Ok (spec_entrypoints s).
  Proof.
    unfold q_entrypoints. rewrite (from_entrypoints _ (fun f => [spec_edge_row f])).
    - unfold spec_entrypoints. now rewrite flat_map_single.
    - intros f Hf. apply edge_body_eq. now apply entry_schema_edge.
  Qed.

  Theorem q_entry_params_eq : q_entry_params s = Ok (spec_entry_params s).
  Proof.
    unfold q_entry_params. apply from_entrypoints.
    intros f Hf. apply param_body_eq. apply schema_edge_defaults. now apply entry_schema_edge.
  Qed.

  (* through the Schema vertex *)
  Theorem q_schema_types_eq : q_schema_types s = Ok (spec_types s).
  Proof.
    unfold q_schema_types, from_start. change (starts s "Schema" HNone) with (Ok [SVSchema]). cbn [bind rflat].
    unfold via. change (nbrs s "Schema" "vertex_type" HNone SVSchema) with (Ok (map SVType (visible_types s))).
    cbn [bind]. rewrite (rflat_map_ok _ _ (fun t => [[Str (t_name t); Boolv (is_interface t)]])) by (intros; apply types_body_eq).
    cbn [bind]. rewrite app_nil_r. unfold spec_types. now rewrite flat_map_single.
  Qed.

  Theorem q_schema_entrypoints_eq : q_schema_entrypoints s = Ok (spec_entrypoints s).
  Proof.
    unfold q_schema_entrypoints, from_start. change (starts s "Schema" HNone) with (Ok [SVSchema]). cbn [bind rflat].
    unfold via. change (nbrs s "Schema" "entrypoint" HNone SVSchema) with (Ok (map SVEdge (root_fields s))).
    cbn [bind]. rewrite (rflat_map_ok _ _ (fun f => [spec_edge_row f])).
    - cbn [bind]. rewrite app_nil_r. unfold spec_entrypoints. now rewrite flat_map_single.
    - intros f Hf. apply edge_body_eq. now apply entry_schema_edge.
  Qed.
End Resolvers.

(* ====================================================================================== *)
(* 4. The implementer edge (F18, repaired in /repo by 00e79dd)                              *)
(* ====================================================================================== *)
Lemma perm_filter {A} (p : A -> bool) l l' : Permutation l l' -> Permutation (filter p l) (filter p l').
Proof.
  induction 1 as [|x l l' _ IH|x y l|l l' l'' _ IH1 _ IH2]; cbn [filter].
  - constructor.
  - destruct (p x); [now constructor | exact IH].
  - destruct (p x), (p y); try apply Permutation_refl. apply perm_swap.
  - now transitivity (filter p l').
Qed.
Lemma perm_flat_map_pointwise {A B} (f g : A -> list B) l :
  (forall x, In x l -> Permutation (f x) (g x)) -> Permutation (flat_map f l) (flat_map g l).
Proof.
  induction l as [|x r IH]; intros H; cbn [flat_map]; [constructor|].
  apply Permutation_app; [apply H; now left | apply IH; intros; apply H; now right].
Qed.
Lemma tins_perm t l : Permutation (tins t l) (t :: l).
Proof.
  induction l as [|u r IH]; cbn [tins]; [apply Permutation_refl|].
  destruct (String.leb (t_name t) (t_name u)); [apply Permutation_refl|].
  transitivity (u :: t :: r); [now constructor | apply perm_swap].
Qed.
Lemma sort_types_perm l : Permutation (sort_types l) l.
Proof.
  unfold sort_types. induction l as [|t r IH]; cbn [fold_right]; [constructor|].
  transitivity (t :: fold_right tins [] r); [apply tins_perm | now constructor].
Qed.
Lemma filter_map_comm {A B} (h : A -> B) (p : B -> bool) l : filter p (map h l) = map h (filter (fun x => p (h x)) l).
Proof. induction l as [|x r IH]; cbn [map filter]; [reflexivity|]. destruct (p (h x)); cbn [map]; now rewrite IH. Qed.
Lemma filter_filter {A} (p q : A -> bool) l : filter p (filter q l) = filter (fun x => q x && p x) l.
Proof.
  induction l as [|x r IH]; cbn [filter]; [reflexivity|].
  destruct (q x); cbn [filter andb]; [destruct (p x)|]; now rewrite IH.
Qed.
Lemma filter_none {A} (p : A -> bool) l : (forall x, In x l -> p x = false) -> filter p l = [].
Proof.
  induction l as [|x r IH]; intros H; cbn [filter]; [reflexivity|].
  rewrite (H x (or_introl eq_refl)). apply IH. intros; apply H; now right.
Qed.
Lemma mem_in n l : mem n l = true <-> In n l.
Proof.
  unfold mem. rewrite existsb_exists. split.
  - intros (x & Hx & Ex). apply String.eqb_eq in Ex. now subst x.
  - intros H. exists n. split; [exact H | apply String.eqb_refl].
Qed.

Section Implementer.
  Variable s : schema.
  Hypothesis W : wf_schema s.

  (* `Schema::subtypes(t)` keeps u: u is t or lists t in its `implements` *)
  Definition is_subtype_of (t u : tdef) : bool := String.eqb (t_name u) (t_name t) || mem (t_name t) (t_impl u).
  (* ... and the resolver then drops t's own name *)
  Definition is_implementer_of (t u : tdef) : bool := is_subtype_of t u && negb (String.eqb (t_name u) (t_name t)).

  Lemma is_implementer_of_eq t u :
    is_implementer_of t u = negb (String.eqb (t_name u) (t_name t)) && mem (t_name t) (t_impl u).
  Proof.
    unfold is_implementer_of, is_subtype_of.
    destruct (String.eqb (t_name u) (t_name t)), (mem (t_name t) (t_impl u)); reflexivity.
  Qed.

  (* the rows the model computes: as the specification, but in `Schema::subtypes` (name-sorted) order *)
  Definition implementer_rows : list row :=
    flat_map (fun t => map (fun u => [Str (t_name t); Str (t_name u)])
                           (filter (is_implementer_of t) (sort_types (sc_types s)))) (visible_types s).

  Lemma q_implementer_eq : q_implementer s = Ok implementer_rows.
  Proof.
    unfold q_implementer. apply from_vertex_types. intros t Ht. apply (visible_in s) in Ht.
    rewrite name_cols. unfold via.
    change (nbrs s "VertexType" "implementer" HNone (SVType t)) with (implementer_edge s (SVType t)).
    unfold implementer_edge. cbn [as_vertex_type bind]. unfold subtypes.
    assert (Hh : shas s (t_name t) = true) by (apply has_type_true; now exists t).
    rewrite Hh. rewrite filter_map_comm, filter_filter. fold (is_subtype_of t).
    change (filter (fun x => is_subtype_of t x && negb (String.eqb (t_name x) (t_name t))))
      with (filter (is_implementer_of t)).
    rewrite flat_map_map.
    rewrite (flat_map_ext_in _ (fun d => [SVType d])).
    - rewrite flat_map_single. cbn [bind].
      rewrite (rflat_map_ok _ _ (fun u => [[Str (t_name u)]])) by (intros; reflexivity).
      unfold join. cbn [bind]. rewrite flat_map_single, map_map. reflexivity.
    - intros d Hd. apply filter_In in Hd. destruct Hd as [Hd _].
      apply (Permutation_in _ (sort_types_perm _)) in Hd. now rewrite (sget_in s d W Hd).
  Qed.

  Theorem q_implementer_perm : exists rows, q_implementer s = Ok rows /\ Permutation rows (spec_implementer_actual s).
  Proof.
    exists implementer_rows. split; [apply q_implementer_eq|].
    unfold implementer_rows, spec_implementer_actual. apply perm_flat_map_pointwise. intros t _.
    apply Permutation_map.
    rewrite (filter_ext _ _ (is_implementer_of_eq t)).
    apply perm_filter. apply sort_types_perm.
  Qed.

  (* relational reading of the two specifications *)
  Lemma spec_implementer_actual_iff n m :
    In [Str n; Str m] (spec_implementer_actual s) <->
    exists t u, In t (visible_types s) /\ In u (sc_types s) /\ t_name t = n /\ t_name u = m /\
                m <> n /\ In n (t_impl u).
  Proof.
    unfold spec_implementer_actual. rewrite in_flat_map. split.
    - intros (t & Ht & Hr). apply in_map_iff in Hr. destruct Hr as (u & [= <- <-] & Hu).
      apply filter_In in Hu. destruct Hu as [Hu Hp]. exists t, u. repeat split; auto.
      + apply andb_prop in Hp. destruct Hp as [Hp _]. apply Bool.negb_true_iff in Hp.
        now apply String.eqb_neq in Hp.
      + apply andb_prop in Hp. destruct Hp as [_ Hp]. now apply mem_in.
    - intros (t & u & Ht & Hu & <- & <- & Hne & Hi). exists t. split; [exact Ht|].
      apply in_map_iff. exists u. split; [reflexivity|]. apply filter_In. split; [exact Hu|].
      apply andb_true_intro. split; [|now apply mem_in].
      apply Bool.negb_true_iff. now apply String.eqb_neq.
  Qed.

  Lemma spec_implementer_documented_iff n m :
    In [Str n; Str m] (spec_implementer_documented s) <->
    exists t u, In t (visible_types s) /\ In u (sc_types s) /\ t_name t = n /\ t_name u = m /\
                is_interface t = true /\ In n (t_impl u).
  Proof.
    unfold spec_implementer_documented. rewrite in_flat_map. split.
    - intros (t & Ht & Hr). destruct (is_interface t) eqn:Ei; [|destruct Hr].
      apply in_map_iff in Hr. destruct Hr as (u & [= <- <-] & Hu).
      apply filter_In in Hu. destruct Hu as [Hu Hp]. exists t, u. repeat split; auto.
      now apply mem_in.
    - intros (t & u & Ht & Hu & <- & <- & Hi & Hin). exists t. split; [exact Ht|]. rewrite Hi.
      apply in_map_iff. exists u. split; [reflexivity|]. apply filter_In. split; [exact Hu|].
      now apply mem_in.
  Qed.

  (* F18 repaired, general form: no type is reported as its own implementer (needs no hypothesis on s) *)
  Theorem implementer_excludes_self n : ~ In [Str n; Str n] (spec_implementer_actual s).
  Proof.
    unfold spec_implementer_actual. rewrite in_flat_map. intros (t & _ & Hr).
    apply in_map_iff in Hr. destruct Hr as (u & [= <- E] & Hu).
    apply filter_In in Hu. destruct Hu as [_ Hp]. apply andb_prop in Hp. destruct Hp as [Hp _].
    rewrite <- E, String.eqb_refl in Hp. discriminate.
  Qed.

  (* whatever is implemented is a visible (non-root) interface or the root: the type t with that name *)
  Lemma implemented_is_interface t u : In t (sc_types s) -> In u (sc_types s) -> In (t_name t) (t_impl u) ->
    is_interface t = true.
  Proof.
    intros Ht Hu Hi. destruct (w_impl s W u (t_name t) Hu Hi) as (it & Hit & Hitn & Hii).
    assert (it = t) as ->; [|exact Hii].
    pose proof (sget_in s it W Hit) as E1. pose proof (sget_in s t W Ht) as E2.
    rewrite Hitn in E1. congruence.
  Qed.

  (* the exact difference from the documentation on a well-formed schema: the documented relation has,
     in addition, the row (n, n) of an interface that lists ITSELF in its `implements` *)
  Theorem implementer_actual_vs_documented n m :
    In [Str n; Str m] (spec_implementer_documented s) <->
    In [Str n; Str m] (spec_implementer_actual s) \/
    (m = n /\ exists t, In t (visible_types s) /\ t_name t = n /\ In n (t_impl t)).
  Proof.
    rewrite spec_implementer_actual_iff, spec_implementer_documented_iff. split.
    - intros (t & u & Ht & Hu & Hn & Hm & Hi & Hin).
      destruct (string_dec m n) as [E|NE].
      + right. split; [exact E|]. exists t. split; [exact Ht|]. split; [exact Hn|].
        assert (u = t) as ->; [|exact Hin].
        pose proof (sget_in s u W Hu) as E1. pose proof (sget_in s t W (visible_in s t Ht)) as E2.
        rewrite Hm, E in E1. rewrite Hn in E2. congruence.
      + left. exists t, u. repeat split; auto.
    - intros [(t & u & Ht & Hu & Hn & Hm & _ & Hi)|[-> (t & Ht & Hn & Hi)]].
      + exists t, u. repeat split; auto. subst n.
        now apply (implemented_is_interface t u (visible_in s t Ht) Hu).
      + exists t, t. pose proof (visible_in s t Ht) as Ht'. repeat split; auto. subst n.
        now apply (implemented_is_interface t t Ht' Ht').
  Qed.

  (* no type lists itself in its `implements` (a consequence of validity: no implementation cycles) *)
  Definition no_self_impl : Prop := forall t, In t (sc_types s) -> ~ In (t_name t) (t_impl t).

  (* F18 repaired: on such a schema the code's relation IS the documented one, as lists *)
  Theorem implementer_actual_eq_documented : no_self_impl ->
    spec_implementer_actual s = spec_implementer_documented s.
  Proof.
    intros NS. unfold spec_implementer_actual, spec_implementer_documented.
    apply flat_map_ext_in. intros t Ht. apply (visible_in s) in Ht.
    destruct (is_interface t) eqn:Ei.
    - f_equal. apply filter_ext_in. intros u Hu.
      destruct (mem (t_name t) (t_impl u)) eqn:Em; [|apply Bool.andb_false_r].
      rewrite Bool.andb_true_r. apply Bool.negb_true_iff. apply String.eqb_neq. intros E.
      apply mem_in in Em. rewrite <- E in Em. exact (NS u Hu Em).
    - rewrite filter_none; [reflexivity|]. intros u Hu.
      apply Bool.andb_false_iff. right.
      destruct (mem (t_name t) (t_impl u)) eqn:Em; [|reflexivity]. apply mem_in in Em.
      rewrite (implemented_is_interface t u Ht Hu Em) in Ei. discriminate.
  Qed.

  Theorem q_implementer_documented : no_self_impl ->
    exists rows, q_implementer s = Ok rows /\ Permutation rows (spec_implementer_documented s).
  Proof. intros NS. rewrite <- (implementer_actual_eq_documented NS). exact q_implementer_perm. Qed.
End Implementer.

(* valid schemas have no self-implementing type *)
Theorem valid_no_self_impl d : valid_schema d -> no_self_impl (schema_of_doc d).
Proof.
  intros (q & root & _ & _ & _ & _ & R) t Ht Hi. cbn [schema_of_doc sc_types] in Ht.
  destruct (r_acyclic _ _ R) as (rank & Hr).
  assert (D : defined (doc_types d) (t_name t)).
  { destruct (r_implements_interfaces _ _ R t (t_name t) Ht Hi) as (it & Hd & _). now exists it. }
  pose proof (Hr t (t_name t) Ht Hi D). lia.
Qed.

(* ====================================================================================== *)
(* 5. Relational reading of the other specifications                                        *)
(* ====================================================================================== *)
Section SpecReading.
  Variable s : schema.

  Lemma visible_iff t : In t (visible_types s) <-> In t (sc_types s) /\ t_name t <> sc_query s.
  Proof.
    unfold visible_types, not_root, is_root. rewrite filter_In. split; intros [H1 H2]; split; auto.
    - intros E. apply String.eqb_eq in E. rewrite E in H2. discriminate.
    - apply Bool.negb_true_iff. now apply String.eqb_neq.
  Qed.

  Lemma spec_types_iff n b :
    In [Str n; Boolv b] (spec_types s) <->
    exists t, In t (sc_types s) /\ t_name t = n /\ n <> sc_query s /\ b = is_interface t.
  Proof.
    unfold spec_types. rewrite in_map_iff. split.
    - intros (t & [= <- <-] & Ht). apply visible_iff in Ht. destruct Ht. exists t. repeat split; auto.
    - intros (t & Ht & <- & Hn & ->). exists t. split; [reflexivity|]. now apply visible_iff.
  Qed.

  Lemma spec_implements_iff n i :
    In [Str n; Str i] (spec_implements s) <->
    exists t, In t (sc_types s) /\ t_name t = n /\ n <> sc_query s /\ In i (t_impl t).
  Proof.
    unfold spec_implements. rewrite in_flat_map. split.
    - intros (t & Ht & Hr). apply in_map_iff in Hr. destruct Hr as (x & [= <- <-] & Hx).
      apply visible_iff in Ht. destruct Ht. exists t. repeat split; auto.
    - intros (t & Ht & <- & Hn & Hi). exists t. split; [now apply visible_iff|].
      apply in_map_iff. now exists i.
  Qed.

  Lemma spec_properties_iff n p ty :
    In [Str n; Str p; Str ty] (spec_properties s) <->
    exists t f, In t (sc_types s) /\ t_name t = n /\ n <> sc_query s /\ In f (t_fields t) /\
                builtin_scalar (gbase (f_ty f)) = true /\ f_name f = p /\ gty_text (f_ty f) = ty.
  Proof.
    unfold spec_properties. rewrite in_flat_map. split.
    - intros (t & Ht & Hr). apply in_map_iff in Hr. destruct Hr as (f & [= <- <- <-] & Hf).
      unfold type_properties in Hf. apply filter_In in Hf. destruct Hf as [Hf Hp].
      apply visible_iff in Ht. destruct Ht. exists t, f. repeat split; auto.
    - intros (t & f & Ht & <- & Hn & Hf & Hp & <- & <-). exists t. split; [now apply visible_iff|].
      apply in_map_iff. exists f. split; [reflexivity|]. unfold type_properties. apply filter_In. now split.
  Qed.

  Lemma spec_edges_iff n e many alo tgt :
    In [Str n; Str e; Boolv many; Boolv alo; Str tgt] (spec_edges s) <->
    exists t f, In t (sc_types s) /\ t_name t = n /\ n <> sc_query s /\ In f (t_fields t) /\
                builtin_scalar (gbase (f_ty f)) = false /\ f_name f = e /\
                many = g_is_list (f_ty f) /\ alo = negb (gnullable (f_ty f)) /\ tgt = gbase (f_ty f).
  Proof.
    unfold spec_edges. rewrite in_flat_map. split.
    - intros (t & Ht & Hr). apply in_map_iff in Hr. destruct Hr as (f & E & Hf).
      unfold spec_edge_row in E. injection E as <- <- <- <- <-.
      unfold type_edges in Hf. apply filter_In in Hf. destruct Hf as [Hf Hp].
      apply visible_iff in Ht. destruct Ht. exists t, f. repeat split; auto.
      unfold fld_is_property in Hp. now destruct (builtin_scalar (gbase (f_ty f))).
    - intros (t & f & Ht & <- & Hn & Hf & Hp & <- & -> & -> & ->). exists t. split; [now apply visible_iff|].
      apply in_map_iff. exists f. split; [reflexivity|]. unfold type_edges. apply filter_In. split; [exact Hf|].
      unfold fld_is_property. now rewrite Hp.
  Qed.

  Lemma spec_params_iff n e p pty d :
    In [Str n; Str e; Str p; Str pty; d] (spec_params s) <->
    exists t f a, In t (sc_types s) /\ t_name t = n /\ n <> sc_query s /\ In f (t_fields t) /\
                  builtin_scalar (gbase (f_ty f)) = false /\ f_name f = e /\ In a (f_args f) /\
                  a_name a = p /\ gty_text (a_ty a) = pty /\ d = spec_default a.
  Proof.
    unfold spec_params. rewrite in_flat_map. split.
    - intros (t & Ht & Hr). apply in_flat_map in Hr. destruct Hr as (f & Hf & Hr).
      apply in_map_iff in Hr. destruct Hr as (r & E & Hr). unfold spec_param_rows in Hr.
      apply in_map_iff in Hr. destruct Hr as (a & <- & Ha). injection E as <- <- <- <- <-.
      unfold type_edges in Hf. apply filter_In in Hf. destruct Hf as [Hf Hp].
      apply visible_iff in Ht. destruct Ht. exists t, f, a. repeat split; auto.
      unfold fld_is_property in Hp. now destruct (builtin_scalar (gbase (f_ty f))).
    - intros (t & f & a & Ht & <- & Hn & Hf & Hp & <- & Ha & <- & <- & ->). exists t. split; [now apply visible_iff|].
      apply in_flat_map. exists f. split.
      + unfold type_edges. apply filter_In. split; [exact Hf|]. unfold fld_is_property. now rewrite Hp.
      + apply in_map_iff. exists [Str (f_name f); Str (a_name a); Str (gty_text (a_ty a)); spec_default a].
        split; [reflexivity|]. unfold spec_param_rows. apply in_map_iff. now exists a.
  Qed.

  Lemma spec_entrypoints_iff e many alo tgt :
    In [Str e; Boolv many; Boolv alo; Str tgt] (spec_entrypoints s) <->
    exists f, In f (root_fields s) /\ f_name f = e /\
              many = g_is_list (f_ty f) /\ alo = negb (gnullable (f_ty f)) /\ tgt = gbase (f_ty f).
  Proof.
    unfold spec_entrypoints. rewrite in_map_iff. split.
    - intros (f & E & Hf). unfold spec_edge_row in E. injection E as <- <- <- <-. exists f. repeat split; auto.
    - intros (f & Hf & <- & -> & -> & ->). exists f. now split.
  Qed.

  Lemma spec_entry_params_iff e p pty d :
    In [Str e; Str p; Str pty; d] (spec_entry_params s) <->
    exists f a, In f (root_fields s) /\ f_name f = e /\ In a (f_args f) /\
                a_name a = p /\ gty_text (a_ty a) = pty /\ d = spec_default a.
  Proof.
    unfold spec_entry_params. rewrite in_flat_map. split.
    - intros (f & Hf & Hr). unfold spec_param_rows in Hr. apply in_map_iff in Hr.
      destruct Hr as (a & [= <- <- <- <-] & Ha). exists f, a. repeat split; auto.
    - intros (f & a & Hf & <- & Ha & <- & <- & ->). exists f. split; [exact Hf|].
      unfold spec_param_rows. apply in_map_iff. now exists a.
  Qed.
End SpecReading.

(* ====================================================================================== *)
(* 6. The `name` hint of vertex_type_iter                                                   *)
(* ====================================================================================== *)
Section Hints.
  Variable s : schema.
  Hypothesis W : wf_schema s.

  Definition type_row (t : tdef) : row := [Str (t_name t); Boolv (is_interface t)].

  Lemma engine_filter_cons allowed (r : row) l :
    engine_filter allowed (r :: l) =
    if match r with Str n :: _ => allowed n | _ => false end then r :: engine_filter allowed l else engine_filter allowed l.
  Proof. reflexivity. Qed.

  Lemma engine_filter_absent n l : ~ In n (map t_name l) ->
    engine_filter (String.eqb n) (map type_row (filter (not_root s) l)) = [].
  Proof.
    induction l as [|x l IHl]; intros Hx; cbn [filter map]; [reflexivity|].
    assert (Hl : ~ In n (map t_name l)) by (intros Hi; apply Hx; now right).
    destruct (not_root s x); cbn [filter map]; [|now apply IHl].
    rewrite engine_filter_cons. unfold type_row at 1.
    destruct (String.eqb n (t_name x)) eqn:E2; [|now apply IHl].
    apply String.eqb_eq in E2. exfalso. apply Hx. cbn [map]. left. now symmetry.
  Qed.

  (* the rows contributed by looking one name up *)
  Lemma lookup_rows n :
    rflat types_body (get_non_root s n) = Ok (engine_filter (String.eqb n) (spec_types s)).
  Proof.
    unfold get_non_root, spec_types, visible_types, sget. fold type_row.
    change (fun t : tdef => [Str (t_name t); Boolv (is_interface t)]) with type_row.
    pose proof (w_unique s W) as N. revert N.
    induction (sc_types s) as [|u r IH]; intros N; cbn [find_type filter map]; [reflexivity|].
    cbn [map] in N. inversion N as [|? ? Hn N']; subst.
    destruct (String.eqb (t_name u) n) eqn:E.
    - apply String.eqb_eq in E. subst n.
      destruct (not_root s u); cbn [filter map rflat bind].
      + rewrite engine_filter_cons. unfold type_row at 1. rewrite String.eqb_refl.
        change (types_body (SVType u)) with (Ok [type_row u] : res (list row)). cbn [bind app].
        do 2 f_equal. symmetry. apply engine_filter_absent. exact Hn.
      + f_equal. symmetry. apply engine_filter_absent. exact Hn.
    - destruct (not_root s u); cbn [filter map].
      + rewrite engine_filter_cons. unfold type_row at 1. rewrite String.eqb_sym, E. now apply IH.
      + now apply IH.
  Qed.

  Theorem hinted_none : q_types_hinted s HNone = q_types s.
  Proof. reflexivity. Qed.
  Theorem hinted_other : q_types_hinted s HOther = q_types s.
  Proof. reflexivity. Qed.

  (* `=`: exactly the filtered full enumeration *)
  Theorem hinted_single n :
    q_types_hinted s (HSingleStr n) = Ok (engine_filter (String.eqb n) (spec_types s)).
  Proof. unfold q_types_hinted, from_start. change (starts s "VertexType" (HSingleStr n)) with (Ok (get_non_root s n)).
         cbn [bind]. apply lookup_rows. Qed.

  (* `one_of`: one lookup per ELEMENT of the list, repeated names included *)
  Theorem hinted_multiple names :
    q_types_hinted s (HMultiple (map Str names)) =
    Ok (flat_map (fun n => engine_filter (String.eqb n) (spec_types s)) names).
  Proof.
    unfold q_types_hinted, from_start.
    change (starts s "VertexType" (HMultiple (map Str names)))
      with (rflat (fun v => match v with Str n => Ok (get_non_root s n) | _ => Panic site_name_not_string end) (map Str names)).
    rewrite (rflat_map_ok Str _ (get_non_root s)) by (intros; reflexivity). cbn [bind].
    apply rflat_flat_map_ok. intros n _. apply lookup_rows.
  Qed.

  Lemma engine_filter_in allowed rows r :
    In r (engine_filter allowed rows) <-> In r rows /\ match r with Str n :: _ => allowed n = true | _ => False end.
  Proof.
    unfold engine_filter. rewrite filter_In. split; intros [H1 H2]; split; auto.
    - destruct r as [|[] ?]; try discriminate. exact H2.
    - destruct r as [|[] ?]; try contradiction. exact H2.
  Qed.

  (* as SETS, every hint denotes the filter the engine applies anyway *)
  Theorem hinted_iter_equiv h : hint_strings h ->
    exists rows, q_types_hinted s h = Ok rows /\
                 forall r, In r rows <-> In r (engine_filter (hint_allows h) (spec_types s)).
  Proof.
    intros Hs. destruct h as [|n|l|].
    - exists (spec_types s). split; [rewrite hinted_none; now apply q_types_eq|].
      intros r. rewrite engine_filter_in. split; [|tauto]. intros H. split; [exact H|].
      unfold spec_types in H. apply in_map_iff in H. destruct H as (t & <- & _). reflexivity.
    - eexists. split; [apply hinted_single|]. intros r. reflexivity.
    - cbn [hint_strings] in Hs.
      assert (E : exists names, l = map Str names).
      { clear -Hs. induction l as [|v l IH]; [now exists []|].
        destruct (Hs v (or_introl eq_refl)) as (n & ->).
        destruct IH as (ns & ->); [intros; apply Hs; now right|]. now exists (n :: ns). }
      destruct E as (names & ->). eexists. split; [apply hinted_multiple|].
      intros r. rewrite in_flat_map, engine_filter_in. split.
      + intros (n & Hn & Hr). apply engine_filter_in in Hr. destruct Hr as [Hr Ha]. split; [exact Hr|].
        destruct r as [|[] ?]; try contradiction. cbn [hint_allows]. apply existsb_exists.
        exists (Str n). split; [now apply in_map | exact Ha].
      + intros [Hr Ha]. destruct r as [|[] ?]; try contradiction. cbn [hint_allows] in Ha.
        apply existsb_exists in Ha. destruct Ha as (v & Hv & Hm). apply in_map_iff in Hv.
        destruct Hv as (n & <- & Hn). exists n. split; [exact Hn|]. apply engine_filter_in. now split.
    - exists (spec_types s). split; [rewrite hinted_other; now apply q_types_eq|].
      intros r. rewrite engine_filter_in. split; [|tauto]. intros H. split; [exact H|].
      unfold spec_types in H. apply in_map_iff in H. destruct H as (t & <- & _). reflexivity.
  Qed.

  (* ... and for a list WITHOUT repetitions also as multisets: the defect class is exactly "a repeated name" *)
  Lemma nodup_map_filter {A B} (f : A -> B) (p : A -> bool) l : NoDup (map f l) -> NoDup (map f (filter p l)).
  Proof.
    induction l as [|x l IH]; cbn [map filter]; intros N; [constructor|].
    inversion N as [|? ? Hx N']; subst. destruct (p x); cbn [map]; [|now apply IH].
    constructor; [|now apply IH]. intros Hi. apply Hx. apply in_map_iff in Hi. destruct Hi as (y & E & Hy).
    apply filter_In in Hy. destruct Hy as [Hy _]. rewrite <- E. now apply in_map.
  Qed.
  Lemma nodup_spec_types : NoDup (spec_types s).
  Proof.
    unfold spec_types, visible_types. pose proof (nodup_map_filter t_name (not_root s) _ (w_unique s W)) as N.
    induction (filter (not_root s) (sc_types s)) as [|x l IH]; cbn [map] in *; [constructor|].
    inversion N as [|? ? Hx N']; subst. constructor; [|now apply IH].
    intros Hi. apply Hx. apply in_map_iff in Hi. destruct Hi as (y & [= E _] & Hy). rewrite <- E. now apply in_map.
  Qed.
  Lemma nodup_app_disjoint {A} (a b : list A) :
    NoDup a -> NoDup b -> (forall x, In x a -> ~ In x b) -> NoDup (a ++ b)%list.
  Proof.
    induction a as [|x a IH]; cbn [app]; intros Na Nb D; [exact Nb|].
    inversion Na as [|? ? Hx Na']; subst. constructor.
    - intros Hi. apply in_app_or in Hi. destruct Hi as [Hi|Hi]; [now apply Hx | apply (D x); [now left | exact Hi]].
    - apply IH; auto. intros y Hy. apply D. now right.
  Qed.

  Theorem hinted_multiple_nodup names : NoDup names ->
    exists rows, q_types_hinted s (HMultiple (map Str names)) = Ok rows /\
                 Permutation rows (engine_filter (fun n => mem n names) (spec_types s)).
  Proof.
    intros N. eexists. split; [apply hinted_multiple|].
    apply NoDup_Permutation.
    - induction names as [|n ns IH]; cbn [flat_map]; [constructor|].
      inversion N as [|? ? Hn N']; subst. apply nodup_app_disjoint.
      + unfold engine_filter. apply NoDup_filter. apply nodup_spec_types.
      + now apply IH.
      + intros r Hr Hr2. apply engine_filter_in in Hr. destruct Hr as [_ Hr].
        apply in_flat_map in Hr2. destruct Hr2 as (m & Hm & Hr2). apply engine_filter_in in Hr2. destruct Hr2 as [_ Hr2].
        destruct r as [|[] ?]; try contradiction. apply String.eqb_eq in Hr, Hr2.
        apply Hn. rewrite Hr, <- Hr2. exact Hm.
    - unfold engine_filter. apply NoDup_filter. apply nodup_spec_types.
    - intros r. rewrite in_flat_map, engine_filter_in. split.
      + intros (n & Hn & Hr). apply engine_filter_in in Hr. destruct Hr as [Hr Ha]. split; [exact Hr|].
        destruct r as [|[] ?]; try contradiction. apply String.eqb_eq in Ha. rewrite <- Ha.
        unfold mem. apply existsb_exists. exists n. split; [exact Hn | apply String.eqb_refl].
      + intros [Hr Ha]. destruct r as [|[] ?]; try contradiction. unfold mem in Ha.
        apply existsb_exists in Ha. destruct Ha as (n & Hn & E). apply String.eqb_eq in E.
        exists n. split; [exact Hn|]. apply engine_filter_in. split; [exact Hr | rewrite E; apply String.eqb_refl].
  Qed.

  (* a non-string element in a Multiple hint is a panic (unreachable from a type-checked query) *)
  Theorem hinted_non_string l : ~ hint_strings (HMultiple l) -> exists site, q_types_hinted s (HMultiple l) = Panic site.
  Proof.
    intros H. unfold q_types_hinted, from_start.
    change (starts s "VertexType" (HMultiple l))
      with (rflat (fun v => match v with Str n => Ok (get_non_root s n) | _ => Panic site_name_not_string end) l).
    assert (P : exists site, rflat (fun v => match v with Str n => Ok (get_non_root s n) | _ => Panic site_name_not_string end) l = Panic site).
    { induction l as [|v l IH]; [exfalso; apply H; intros ? []|].
      cbn [rflat]. destruct v; try (eexists; reflexivity).
      cbn [bind]. destruct IH as (site & ->).
      - intros Hl. apply H. intros v [<-|Hv]; [now eexists | now apply Hl].
      - eexists. reflexivity. }
    destruct P as (site & ->). now exists site.
  Qed.
End Hints.

(* ====================================================================================== *)
(* 7. The adapter contract (resolve_*_with)                                                 *)
(* ====================================================================================== *)
Lemma rmap_fst {A B} (f : A -> res (A * B)) l out :
  (forall x y, f x = Ok y -> fst y = x) -> rmap f l = Ok out -> map fst out = l.
Proof.
  intros Hf. revert out. induction l as [|x r IH]; intros out; cbn [rmap].
  - now intros [= <-].
  - destruct (f x) as [y|] eqn:E; [|discriminate]. cbn [bind].
    destruct (rmap f r) as [ys|]; [|discriminate]. cbn [bind]. intros [= <-]. cbn [map].
    now rewrite (Hf x y E), (IH ys eq_refl).
Qed.
Lemma rmap_in {A B} (f : A -> res B) l out y : rmap f l = Ok out -> In y out -> exists x, In x l /\ f x = Ok y.
Proof.
  revert out. induction l as [|x r IH]; intros out; cbn [rmap].
  - intros [= <-] [].
  - destruct (f x) as [y'|] eqn:E; [|discriminate]. cbn [bind].
    destruct (rmap f r) as [ys|]; [|discriminate]. cbn [bind]. intros [= <-] [<-|Hy].
    + exists x. split; [now left | exact E].
    + destruct (IH ys eq_refl Hy) as (x' & Hx & Ex). exists x'. split; [now right | exact Ex].
Qed.

(* every context comes out exactly once, in the order it went in, and a context without an active
   vertex gets Null / no neighbours *)
Theorem property_contract {C} f (cs : list (ctx C)) out :
  resolve_property_with f cs = Ok out ->
  map fst out = cs /\ forall c x, In (c, x) out -> snd c = None -> x = Null.
Proof.
  intros H. split.
  - unfold resolve_property_with in H. apply (rmap_fst _ _ _) in H; [exact H|].
    intros c y. destruct (snd c) as [v|]; [|now intros [= <-]].
    destruct (f v); [|discriminate]. now intros [= <-].
  - intros c x Hin Hn. destruct (rmap_in _ _ _ _ H Hin) as (c' & _ & E).
    destruct (snd c') as [v|] eqn:Ev.
    + destruct (f v); [|discriminate]. injection E as <- <-. congruence.
    + now injection E as <- <-.
Qed.
Theorem neighbors_contract {C} f (cs : list (ctx C)) out :
  resolve_neighbors_with f cs = Ok out ->
  map fst out = cs /\ forall c x, In (c, x) out -> snd c = None -> x = [].
Proof.
  intros H. split.
  - unfold resolve_neighbors_with in H. apply (rmap_fst _ _ _) in H; [exact H|].
    intros c y. destruct (snd c) as [v|]; [|now intros [= <-]].
    destruct (f v); [|discriminate]. now intros [= <-].
  - intros c x Hin Hn. destruct (rmap_in _ _ _ _ H Hin) as (c' & _ & E).
    destruct (snd c') as [v|] eqn:Ev.
    + destruct (f v); [|discriminate]. injection E as <- <-. congruence.
    + now injection E as <- <-.
Qed.
(* on vertex-less contexts the helpers cannot panic *)
Theorem property_vertexless {C} f (cs : list (ctx C)) : (forall c, In c cs -> snd c = None) ->
  resolve_property_with f cs = Ok (map (fun c => (c, Null)) cs).
Proof. intros H. apply rmap_ok. intros c Hc. now rewrite (H c Hc). Qed.
Theorem neighbors_vertexless {C} f (cs : list (ctx C)) : (forall c, In c cs -> snd c = None) ->
  resolve_neighbors_with f cs = Ok (map (fun c => (c, [])) cs).
Proof. intros H. apply rmap_ok. intros c Hc. now rewrite (H c Hc). Qed.

(* ====================================================================================== *)
(* 8. Witnesses                                                                             *)
(* ====================================================================================== *)
(* schema { query: Q }  type Q { l: Letter  v: [Vowel!]! }  interface Letter { x: Int  next(n: Int! = 1, tag: String): [Letter] }
   type Vowel implements Letter { x: Int!  next(n: Int! = 1, tag: String): [Vowel]  pair(other: Int!): Vowel } *)
Definition wit_args : list arg :=
  [mkArg "n" (GNamed "Int" false) (Default (I64 1)); mkArg "tag" (GNamed "String" true) NoDefault].
Definition wit_doc : doc :=
  [ DSchema (Some "Q");
    DType (mkT "Q" VObject [] [mkFld "l" [] (GNamed "Letter" true); mkFld "v" [] (GList (GNamed "Vowel" false) false)]);
    DType (mkT "Letter" VInterface []
             [mkFld "x" [] (GNamed "Int" true); mkFld "next" wit_args (GList (GNamed "Letter" true) true)]);
    DType (mkT "Vowel" VObject ["Letter"]
             [mkFld "x" [] (GNamed "Int" false); mkFld "next" wit_args (GList (GNamed "Vowel" true) true);
              mkFld "pair" [mkArg "other" (GNamed "Int" false) NoDefault] (GNamed "Vowel" true)]) ].
Definition wit : schema := schema_of_doc wit_doc.

Lemma wit_accepted : schema_new wit_doc = Ok [].
Proof. vm_compute. reflexivity. Qed.
Lemma wit_not_known : ~ Known wit_doc.
Proof. unfold Known. vm_compute. discriminate. Qed.

(* F18 regression (repaired in /repo by 00e79dd): Vowel is an object type implementing Letter; the model
   used to answer (Letter, Letter), (Letter, Vowel), (Vowel, Vowel); now only the documented row is left *)
Example implementer_regression :
  q_implementer wit = Ok [[Str "Letter"; Str "Vowel"]] /\
  ~ In [Str "Vowel"; Str "Vowel"] [[Str "Letter"; Str "Vowel"]] /\
  spec_implementer_documented wit = [[Str "Letter"; Str "Vowel"]] /\
  (exists t, sget wit "Vowel" = Some t /\ is_interface t = false).
Proof.
  split; [vm_compute; reflexivity|]. split; [|split].
  - intros [H|[]]. discriminate.
  - vm_compute. reflexivity.
  - eexists. split; vm_compute; reflexivity.
Qed.

(* a repeated name in a one_of filter repeats the vertex type: the hinted enumeration is NOT the
   filtered full enumeration as a multiset *)
Theorem hinted_duplicates_refuted :
  q_types_hinted wit (HMultiple [Str "Vowel"; Str "Vowel"]) = Ok [[Str "Vowel"; Boolv false]; [Str "Vowel"; Boolv false]]
  /\ engine_filter (hint_allows (HMultiple [Str "Vowel"; Str "Vowel"])) (spec_types wit) = [[Str "Vowel"; Boolv false]].
Proof. split; vm_compute; reflexivity. Qed.

(* the witness is a valid schema (by C19's exactness theorem: accepted by the model of Schema::new) *)
Lemma wit_valid : valid_schema wit_doc.
Proof. apply (SchemaProofs.schema_new_exact _ wit_not_known). exact wit_accepted. Qed.
Lemma wit_wf : wf_schema wit.
Proof. apply valid_wf; [exact wit_valid | exact wit_not_known]. Qed.

(* ====================================================================================== *)
(* 9. The statements of C20                                                                 *)
(* ====================================================================================== *)
(* "the query returns (without panicking) exactly these rows, as a multiset": the order of the real
   VertexType enumeration is HashMap order (F14), so nothing finer than a permutation is claimed *)
Definition answers (q : res (list row)) (spec : list row) : Prop :=
  exists rows, q = Ok rows /\ Permutation rows spec.
Lemma answers_of_eq q spec : q = Ok spec -> answers q spec.
Proof. intros ->. exists spec. split; [reflexivity | apply Permutation_refl]. Qed.

Section Statements.
  Variable s : schema.
  Hypothesis W : wf_schema s.
  Theorem intro_types_exact : answers (q_types s) (spec_types s).
  Proof. apply answers_of_eq. now apply q_types_eq. Qed.
  Theorem intro_implements_exact : answers (q_implements s) (spec_implements s).
  Proof. apply answers_of_eq. now apply q_implements_eq. Qed.
  Theorem intro_implementer_exact : answers (q_implementer s) (spec_implementer_actual s).
  Proof. now apply q_implementer_perm. Qed.
  (* the DOCUMENTED relation, when moreover no type implements itself (true of every valid schema) *)
  Theorem intro_implementer_documented : no_self_impl s -> answers (q_implementer s) (spec_implementer_documented s).
  Proof. now apply q_implementer_documented. Qed.
  Theorem intro_props_exact : answers (q_properties s) (spec_properties s).
  Proof. apply answers_of_eq. now apply q_properties_eq. Qed.
  Theorem intro_edges_exact : answers (q_edges s) (spec_edges s).
  Proof. apply answers_of_eq. now apply q_edges_eq. Qed.
  Theorem intro_params_exact : answers (q_params s) (spec_params s).
  Proof. apply answers_of_eq. now apply q_params_eq. Qed.
  Theorem intro_entrypoints_exact : answers (q_entrypoints s) (spec_entrypoints s).
  Proof. apply answers_of_eq. now apply q_entrypoints_eq. Qed.
  Theorem intro_entry_params_exact : answers (q_entry_params s) (spec_entry_params s).
  Proof. apply answers_of_eq. now apply q_entry_params_eq. Qed.
  Theorem intro_schema_types_exact : answers (q_schema_types s) (spec_types s).
  Proof. apply answers_of_eq. now apply q_schema_types_eq. Qed.
  Theorem intro_schema_entrypoints_exact : answers (q_schema_entrypoints s) (spec_entrypoints s).
  Proof. apply answers_of_eq. now apply q_schema_entrypoints_eq. Qed.
End Statements.

(* the whole property for a valid schema document *)
Theorem introspection_exact d : valid_schema d -> ~ Known d ->
  let s := schema_of_doc d in
  answers (q_types s) (spec_types s) /\
  answers (q_implements s) (spec_implements s) /\
  answers (q_implementer s) (spec_implementer_documented s) /\
  answers (q_properties s) (spec_properties s) /\
  answers (q_edges s) (spec_edges s) /\
  answers (q_params s) (spec_params s) /\
  answers (q_entrypoints s) (spec_entrypoints s) /\
  answers (q_entry_params s) (spec_entry_params s).
Proof.
  intros V K s. pose proof (valid_wf d V K) as W. fold s in W.
  repeat split.
  - now apply intro_types_exact.
  - now apply intro_implements_exact.
  - apply intro_implementer_documented; [exact W | now apply valid_no_self_impl].
  - now apply intro_props_exact.
  - now apply intro_edges_exact.
  - now apply intro_params_exact.
  - now apply intro_entrypoints_exact.
  - now apply intro_entry_params_exact.
Qed.

(* F18 repaired: on every valid schema the implementer query answers the DOCUMENTED relation, and the
   relation the code computes is literally the documented one *)
Theorem intro_implementer_valid d : valid_schema d -> ~ Known d ->
  answers (q_implementer (schema_of_doc d)) (spec_implementer_documented (schema_of_doc d)) /\
  spec_implementer_actual (schema_of_doc d) = spec_implementer_documented (schema_of_doc d).
Proof.
  intros V K. pose proof (valid_wf d V K) as W. pose proof (valid_no_self_impl d V) as NS. split.
  - now apply intro_implementer_documented.
  - now apply implementer_actual_eq_documented.
Qed.

Example wit_params :
  q_params wit = Ok [[Str "Letter"; Str "next"; Str "n"; Str "Int!"; Str "1"];
                     [Str "Letter"; Str "next"; Str "tag"; Str "String"; Str "null"];
                     [Str "Vowel"; Str "next"; Str "n"; Str "Int!"; Str "1"];
                     [Str "Vowel"; Str "next"; Str "tag"; Str "String"; Str "null"];
                     [Str "Vowel"; Str "pair"; Str "other"; Str "Int!"; Null]].
Proof. vm_compute. reflexivity. Qed.
