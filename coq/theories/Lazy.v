(* Lazy.v — C03 (laziness), definitions only.
   Exec.v models the iterator pipeline of execution.rs as functions `list ctx -> res (list ctx)`.
   What laziness means at that level: the root pipeline is a LIST HOMOMORPHISM in the starting
   vertices (every stage works context by context; a fold materialises per context only), so the
   first k rows are determined by a prefix of the starting vertices, and `need` says how long that
   prefix is.  Pull ORDER is not modelled (lists are not iterators): an added `collect()` is
   invisible here and is observed only by the run-time CountingAdapter (harness tfh_calls c03). *)
From TF Require Export Exec Run.
Local Open Scope string_scope.
Local Open Scope list_scope.

(* a stage distributes over concatenation of its input, in both directions, for Ok outcomes *)
Definition homo {A B} (F : list A -> res (list B)) : Prop :=
  (forall l1 l2 r, F (l1 ++ l2) = Ok r ->
     exists r1 r2, F l1 = Ok r1 /\ F l2 = Ok r2 /\ r = r1 ++ r2) /\
  (forall l1 l2 r1 r2, F l1 = Ok r1 -> F l2 = Ok r2 -> F (l1 ++ l2) = Ok (r1 ++ r2)).

Definition pure_homo {A B} (h : list A -> list B) : Prop := forall l1 l2, h (l1 ++ l2) = h l1 ++ h l2.

Definition rows_or_nil {A} (r : res (list A)) : list A := match r with Ok l => l | Panic _ => [] end.

(* the same graph with the starting-vertex oracle replaced by a fixed list *)
Definition with_starts (g : graph) (l : list vertex) : graph :=
  mkGraph (fun _ _ => l) (g_prop g) (g_nbrs g) (g_coerce g).

Section Lazy.
  Variable re_match : string -> string -> option bool.
  Variable g : graph.
  Variable args : list (string * fv).

  (* interpret_ir's pipeline fed with an explicit list of starting vertices *)
  Definition rows_of_starts (q : ir_query) (starts : list vertex) : res (list (list (string * fv))) :=
    let c := q_comp q in
    do cs <- compute_component re_match g args c (map (fun v => ctx_new (Some v)) starts);
    mapM (construct_output_one g c (sort_names (map fst (c_outputs c)))) cs.

  (* the rows of the single starting vertex s *)
  Definition rows_of_start (q : ir_query) (s : vertex) : list (list (string * fv)) :=
    rows_or_nil (rows_of_starts q [s]).

  Definition start_counts (q : ir_query) (starts : list vertex) : list nat :=
    map (fun s => List.length (rows_of_start q s)) starts.
End Lazy.

(* number of starting vertices consumed to produce k rows, from the per-start row counts:
   the least m such that the first m starts yield at least k rows (all of them if there are fewer
   than k rows in total; none for k = 0) *)
Fixpoint need (counts : list nat) (k : nat) : nat :=
  match k with
  | O => O
  | S _ =>
      match counts with
      | [] => O
      | c :: r => if Nat.leb k c then 1%nat else S (need r (k - c))
      end
  end.

Definition sum_nat (l : list nat) : nat := fold_right Nat.add O l.

(* ---- entry point evaluated by the correspondence check ----
   COUNTS: rows contributed by each starting vertex (in starting order);
   NEED:   for k = 1 .. number of rows, how many starting vertices the k-th row needs. *)
Definition show_nats (l : list nat) : string := String.concat "," (map dnat l).

Definition run_c03 (re : string -> string -> option bool) (d : dataset) (rq : raw_query)
           (args : list (string * fv)) : string :=
  match lower_query rq with
  | Panic _ => "PANIC"
  | Ok q =>
      let g := graph_of_dataset d in
      match interpret re g args q with
      | Panic _ => "PANIC"
      | Ok rows =>
          let starts := g_starts g (q_root_name q) (q_root_params q) in
          let counts := start_counts re g args q starts in
          "COUNTS:" ++ show_nats counts ++ ";NEED:" ++
          show_nats (map (fun k => need counts (S k)) (seq 0 (List.length rows)))
      end
  end.
