(* LazyProofs.v — the root pipeline of Exec.v is a list homomorphism in its input contexts (C03). *)
From Coq Require Import Lia.
From TF Require Import Exec ExecLemmas SimComp Lazy.
Local Open Scope string_scope.
Local Open Scope list_scope.

(* ---------- combinators ---------- *)
Lemma filter_mapM_app_ok {A B} (f : A -> res (option B)) l1 l2 r1 r2 :
  filter_mapM f l1 = Ok r1 -> filter_mapM f l2 = Ok r2 -> filter_mapM f (l1 ++ l2) = Ok (r1 ++ r2).
Proof.
  revert r1. induction l1 as [|x l1 IH]; cbn; intros r1 H1 H2.
  - injection H1 as <-. exact H2.
  - inv_bind H1. inv_bind H1. injection H1 as <-. rewrite Hx. cbn. rewrite (IH _ Hx0 H2). cbn.
    destruct x0; reflexivity.
Qed.

Lemma homo_ext {A B} (F G : list A -> res (list B)) : (forall l, F l = G l) -> homo F -> homo G.
Proof.
  intros E [H1 H2]. split.
  - intros l1 l2 r H. rewrite <- E in H. destruct (H1 _ _ _ H) as (r1 & r2 & Ha & Hb & Hc).
    exists r1, r2. rewrite <- !E. auto.
  - intros l1 l2 r1 r2 Ha Hb. rewrite <- E in Ha. rewrite <- E in Hb. rewrite <- E. auto.
Qed.

Lemma homo_mapM {A B} (f : A -> res B) : homo (mapM f).
Proof. split; intros l1 l2; intros; [now apply mapM_app | now apply mapM_app_ok]. Qed.

Lemma homo_filter_mapM {A B} (f : A -> res (option B)) : homo (filter_mapM f).
Proof. split; intros l1 l2; intros; [now apply filter_mapM_app | now apply filter_mapM_app_ok]. Qed.

Lemma homo_pure {A B} (h : list A -> list B) : pure_homo h -> homo (fun l => Ok (h l)).
Proof.
  intros Hh. split.
  - intros l1 l2 r H. injection H as <-. exists (h l1), (h l2). auto.
  - intros l1 l2 r1 r2 Ha Hb. injection Ha as <-. injection Hb as <-. now rewrite Hh.
Qed.

Lemma homo_comp {A B C} (F : list A -> res (list B)) (G : list B -> res (list C)) :
  homo F -> homo G -> homo (fun l => bind (F l) G).
Proof.
  intros [F1 F2] [G1 G2]. split.
  - intros l1 l2 r H. inv_bind H. destruct (F1 _ _ _ Hx) as (x1 & x2 & Ha & Hb & ->).
    destruct (G1 _ _ _ H) as (r1 & r2 & Hc & Hd & ->). exists r1, r2. rewrite Ha, Hb. cbn. auto.
  - intros l1 l2 r1 r2 Ha Hb. inv_bind Ha. inv_bind Hb. rewrite (F2 _ _ _ _ Hx Hx0). cbn. auto.
Qed.

Lemma homo_pre {A B C} (h : list A -> list B) (F : list B -> res (list C)) :
  pure_homo h -> homo F -> homo (fun l => F (h l)).
Proof.
  intros Hh [F1 F2]. split.
  - intros l1 l2 r H. rewrite Hh in H. auto.
  - intros l1 l2 r1 r2 Ha Hb. rewrite Hh. auto.
Qed.

(* a computation that does not depend on the contexts (argument lookups, IR lookups) in front *)
Lemma homo_const {X A B} (r : res X) (K : X -> list A -> res (list B)) :
  (forall x, homo (K x)) -> homo (fun l => bind r (fun x => K x l)).
Proof.
  intros HK. destruct r as [x|s]; cbn.
  - apply (homo_ext (K x)); [reflexivity|apply HK].
  - split; intros; discriminate.
Qed.

Lemma homo_foldM {X A} (S : X -> list A -> res (list A)) (l : list X) :
  (forall a, homo (S a)) -> homo (fun cs => foldM (fun cs a => S a cs) l cs).
Proof.
  intros HS. induction l as [|a l IH]; cbn [foldM].
  - apply (homo_pure (fun cs => cs)). intros l1 l2. reflexivity.
  - apply (homo_comp (S a) (fun cs => foldM (fun cs a => S a cs) l cs)); [apply HS|exact IH].
Qed.

Lemma pure_homo_map {A B} (f : A -> B) : pure_homo (map f).
Proof. intros l1 l2. apply map_app. Qed.
Lemma pure_homo_filter {A} (p : A -> bool) : pure_homo (filter p).
Proof. intros l1 l2. apply filter_app. Qed.
Lemma pure_homo_flat_map {A B} (f : A -> list B) : pure_homo (flat_map f).
Proof. intros l1 l2. apply flat_map_app. Qed.
Lemma pure_homo_comp {A B C} (h1 : list A -> list B) (h2 : list B -> list C) :
  pure_homo h1 -> pure_homo h2 -> pure_homo (fun l => h2 (h1 l)).
Proof. intros H1 H2 l1 l2. now rewrite H1, H2. Qed.

(* a homomorphism sends the empty input to the empty output *)
Lemma homo_nil {A B} (F : list A -> res (list B)) r : homo F -> F [] = Ok r -> r = [].
Proof.
  intros [_ F2] H. pose proof (F2 [] [] r r H H) as H2. cbn [app] in H2. rewrite H in H2.
  injection H2 as H2. destruct r as [|x r]; [reflexivity|].
  apply (f_equal (@List.length B)) in H2. rewrite app_length in H2. cbn in H2. lia.
Qed.

(* Ok results of a homomorphism are the concatenation of the per-element results *)
Lemma homo_flat_map {A B} (F : list A -> res (list B)) : homo F ->
  forall l r, F l = Ok r -> r = flat_map (fun x => rows_or_nil (F [x])) l /\
                            Forall (fun x => exists rx, F [x] = Ok rx) l.
Proof.
  intros HF. induction l as [|x l IH]; intros r H.
  - split; [now apply (homo_nil F)|constructor].
  - change (x :: l) with ([x] ++ l) in H. destruct (proj1 HF _ _ _ H) as (r1 & r2 & Ha & Hb & ->).
    destruct (IH _ Hb) as (-> & HFa). cbn [flat_map]. rewrite Ha. cbn [rows_or_nil].
    split; [reflexivity|]. constructor; eauto.
Qed.

(* ---------- the stages of Exec.v ---------- *)
Section Stages.
  Variable re_match : string -> string -> option bool.
  Variable g : graph.
  Variable args : list (string * fv).

  Lemma homo_filter_stage vs ss cur cur_ty op arg :
    homo (filter_stage re_match g args vs ss cur cur_ty op arg).
  Proof. unfold filter_stage. apply homo_const. intros sr. apply homo_filter_mapM. Qed.

  Lemma homo_local_filter_stage vs ss v f : homo (local_filter_stage re_match g args vs ss v f).
  Proof.
    unfold local_filter_stage.
    apply (homo_pre (map (fun c => push_value c (resolve_prop g (v_type v) (vf_field f) c)))
                    (filter_stage re_match g args vs ss (v_vid v) (v_type v) (vf_op f) (vf_arg f))).
    - apply pure_homo_map.
    - apply homo_filter_stage.
  Qed.

  Lemma pure_homo_coerce_if_needed v : pure_homo (coerce_if_needed g v).
  Proof.
    unfold coerce_if_needed, perform_coercion. destruct (v_from v); [apply pure_homo_filter|].
    intros l1 l2. reflexivity.
  Qed.

  Lemma homo_enter_vertex vs ss v : homo (enter_vertex re_match g args vs ss v).
  Proof.
    unfold enter_vertex.
    apply (homo_comp (fun cs => foldM (fun cs f => local_filter_stage re_match g args vs ss v f cs)
                                      (v_filters v) (coerce_if_needed g v cs))
                     (mapM (fun c => record_vertex c (v_vid v)))); [|apply homo_mapM].
    apply (homo_pre (coerce_if_needed g v)
                    (fun cs => foldM (fun cs f => local_filter_stage re_match g args vs ss v f cs) (v_filters v) cs)).
    - apply pure_homo_coerce_if_needed.
    - apply (homo_foldM (fun f cs => local_filter_stage re_match g args vs ss v f cs)).
      intros f. apply homo_local_filter_stage.
  Qed.

  Lemma homo_expand_non_recursive_edge from e : homo (expand_non_recursive_edge g from e).
  Proof.
    unfold expand_non_recursive_edge.
    apply (homo_comp (mapM (fun c => activate_vertex c (v_vid from)))
                     (fun cs1 => Ok (flat_map (fun c => edge_expander (e_optional e) c
                                                  (resolve_nbrs g (v_type from) (e_name e) (e_params e) c)) cs1))).
    - apply homo_mapM.
    - apply (homo_pure (flat_map _)). apply pure_homo_flat_map.
  Qed.

  Lemma pure_homo_recursion_rounds k endpoint coerce rfrom e :
    pure_homo (recursion_rounds g k endpoint coerce rfrom e).
  Proof.
    induction k as [|k IH]; cbn [recursion_rounds]; intros l1 l2; [reflexivity|].
    unfold one_recursive_expansion. destruct coerce as [to|].
    - rewrite map_app, flat_map_app. apply IH.
    - rewrite flat_map_app. apply IH.
  Qed.

  Lemma homo_expand_recursive_edge from to e r : homo (expand_recursive_edge g from to e r).
  Proof.
    unfold expand_recursive_edge, post_process_recursive_expansion.
    match goal with
    | |- homo (fun cs => bind (mapM ?f cs) ?G) => apply (homo_comp (mapM f) G); [apply homo_mapM|]
    end.
    match goal with
    | |- homo (fun cs0 => mapM ?f (flat_map ?u (recursion_rounds g ?k ?a ?b ?c e (one_recursive_expansion g ?t e cs0)))) =>
        apply (homo_pre (fun cs0 => flat_map u (recursion_rounds g k a b c e (one_recursive_expansion g t e cs0))) (mapM f));
        [|apply homo_mapM]
    end.
    intros l1 l2. unfold one_recursive_expansion. rewrite flat_map_app.
    rewrite pure_homo_recursion_rounds. apply flat_map_app.
  Qed.

  Lemma homo_expand_edge vs ss e : homo (expand_edge re_match g args vs ss e).
  Proof.
    unfold expand_edge. apply homo_const. intros from. apply homo_const. intros to.
    match goal with
    | |- homo (fun cs => bind (@?F cs) ?G) => apply (homo_comp F G)
    end.
    - cbv beta. destruct (e_rec e) as [r|]; [apply homo_expand_recursive_edge|apply homo_expand_non_recursive_edge].
    - apply homo_enter_vertex.
  Qed.

  (* compute_fold: every sub-stage is per context; the sub-component is run once per context, so
     nothing is required of `sub_compute` *)
  Lemma homo_fold_step vs ss h sub sub_compute : homo (fold_step re_match g args vs ss h sub sub_compute).
  Proof.
    unfold fold_step. apply homo_const. intros from.
    match goal with
    | |- homo (fun cs => bind (foldM ?step ?l cs) ?G) =>
        apply (homo_comp (fun cs => foldM step l cs) G)
    end.
    - match goal with
      | |- homo (fun cs => foldM ?step ?l cs) =>
          apply (homo_foldM (fun t cs => step cs t) l)
      end.
      intros [cf|ff].
      + apply homo_const. intros fvtx. apply homo_mapM.
      + apply homo_mapM.
    - match goal with
      | |- homo (fun cs1 => bind (mapM ?f cs1) ?G) => apply (homo_comp (mapM f) G); [apply homo_mapM|]
      end.
      match goal with
      | |- homo (fun cs2 => bind ?r (fun maxl => @?K maxl cs2)) => apply (homo_const r K)
      end.
      intros maxl.
      match goal with
      | |- homo (fun cs2 => bind ?r (fun minl0 => @?K minl0 cs2)) => apply (homo_const r K)
      end.
      intros minl0. cbv beta.
      match goal with
      | |- homo (fun cs2 => bind (filter_mapM ?f cs2) ?G) =>
          apply (homo_comp (filter_mapM f) G); [apply homo_filter_mapM|]
      end.
      match goal with
      | |- homo (fun cs3 => bind (foldM ?step ?l cs3) ?G) =>
          apply (homo_comp (fun cs => foldM step l cs) G)
      end.
      + match goal with
        | |- homo (fun cs => foldM ?step ?l cs) =>
            apply (homo_foldM (fun pf cs => step cs pf) l)
        end.
        intros pf. cbv beta.
        match goal with
        | |- homo (fun cs => bind (mapM ?f cs) ?G) => apply (homo_comp (mapM f) G); [apply homo_mapM|]
        end.
        apply homo_filter_stage.
      + apply homo_mapM.
  Qed.

  Lemma homo_exec_steps vs ss todo : homo (exec_steps re_match g args vs ss todo).
  Proof.
    induction todo as [|[e|h sub] todo IH].
    - apply (homo_pure (fun cs => cs)). intros l1 l2. reflexivity.
    - apply (homo_comp (expand_edge re_match g args vs ss e) (exec_steps re_match g args vs ss todo));
        [apply homo_expand_edge|exact IH].
    - apply (homo_comp (fold_step re_match g args vs ss h sub (compute_component re_match g args sub))
                       (exec_steps re_match g args vs ss todo)); [apply homo_fold_step|exact IH].
  Qed.

  Theorem homo_compute_component c : homo (compute_component re_match g args c).
  Proof.
    destruct c as [root vs ss outs].
    apply (homo_ext (fun cs => do rootv <- vertex_of vs root;
                               do cs0 <- enter_vertex re_match g args vs ss rootv cs;
                               exec_steps re_match g args vs ss ss cs0)).
    - intros l. symmetry. apply compute_component_eq.
    - apply homo_const. intros rootv.
      apply (homo_comp (enter_vertex re_match g args vs ss rootv) (exec_steps re_match g args vs ss ss));
        [apply homo_enter_vertex|apply homo_exec_steps].
  Qed.

  Theorem compute_component_app c l1 l2 r :
    compute_component re_match g args c (l1 ++ l2) = Ok r ->
    exists r1 r2, compute_component re_match g args c l1 = Ok r1 /\
                  compute_component re_match g args c l2 = Ok r2 /\ r = r1 ++ r2.
  Proof. apply (proj1 (homo_compute_component c)). Qed.

  Theorem compute_component_app_ok c l1 l2 r1 r2 :
    compute_component re_match g args c l1 = Ok r1 -> compute_component re_match g args c l2 = Ok r2 ->
    compute_component re_match g args c (l1 ++ l2) = Ok (r1 ++ r2).
  Proof. apply (proj2 (homo_compute_component c)). Qed.

  Theorem homo_rows_of_starts q : homo (rows_of_starts re_match g args q).
  Proof.
    unfold rows_of_starts. cbv zeta.
    apply (homo_pre (map (fun v => ctx_new (Some v)))
                    (fun cs0 => do cs <- compute_component re_match g args (q_comp q) cs0;
                                mapM (construct_output_one g (q_comp q) (sort_names (map fst (c_outputs (q_comp q))))) cs)).
    - apply pure_homo_map.
    - apply (homo_comp (compute_component re_match g args (q_comp q)) (mapM _));
        [apply homo_compute_component|apply homo_mapM].
  Qed.

  Lemma interpret_rows_of_starts q :
    interpret re_match g args q = rows_of_starts re_match g args q (g_starts g (q_root_name q) (q_root_params q)).
  Proof. reflexivity. Qed.

  Theorem interpret_is_flat_map_over_starts q rows :
    interpret re_match g args q = Ok rows ->
    rows = flat_map (rows_of_start re_match g args q) (g_starts g (q_root_name q) (q_root_params q)).
  Proof.
    rewrite interpret_rows_of_starts. intros H.
    destruct (homo_flat_map _ (homo_rows_of_starts q) _ _ H) as (-> & _). reflexivity.
  Qed.
End Stages.

(* the pipeline does not look at the starting-vertex oracle *)
Lemma rows_of_starts_with_starts re g args q l l' :
  rows_of_starts re (with_starts g l') args q l = rows_of_starts re g args q l.
Proof. reflexivity. Qed.

(* ---------- prefixes ---------- *)
Lemma firstn_flat_map_need {A B} (f : A -> list B) : forall l k,
  firstn k (flat_map f l) =
  firstn k (flat_map f (firstn (need (map (fun x => List.length (f x)) l) k) l)).
Proof.
  induction l as [|x l IH]; intros k.
  - destruct k; reflexivity.
  - destruct k as [|k]; [reflexivity|]. cbn [map need]. destruct (Nat.leb (S k) (List.length (f x))) eqn:E.
    + apply Nat.leb_le in E. change (firstn 1 (x :: l)) with [x]. cbn [flat_map]. rewrite app_nil_r.
      rewrite firstn_app. replace (S k - List.length (f x))%nat with O by lia. rewrite firstn_O. now rewrite app_nil_r.
    + apply Nat.leb_gt in E. rewrite firstn_cons. cbn [flat_map]. rewrite !firstn_app.
      rewrite (IH (S k - List.length (f x))%nat). reflexivity.
Qed.

Lemma need_le_length : forall counts k, (need counts k <= List.length counts)%nat.
Proof.
  induction counts as [|c r IH]; intros [|k]; cbn [need List.length]; try lia.
  destruct (Nat.leb (S k) c); [lia|]. specialize (IH (S k - c)%nat). lia.
Qed.

(* sufficiency: the first `need` starts yield at least k rows (when k rows exist at all) *)
Lemma need_enough : forall counts k, (k <= sum_nat counts)%nat -> (k <= sum_nat (firstn (need counts k) counts))%nat.
Proof.
  induction counts as [|c r IH]; intros [|k] Hk; cbn [need sum_nat fold_right firstn] in *; try lia.
  destruct (Nat.leb (S k) c) eqn:E.
  - apply Nat.leb_le in E. cbn [firstn sum_nat fold_right]. lia.
  - apply Nat.leb_gt in E. cbn [firstn sum_nat fold_right]. fold (sum_nat r) in *.
    specialize (IH (S k - c)%nat). fold (sum_nat (firstn (need r (S k - c)) r)). lia.
Qed.

(* minimality: fewer starts than `need` yield fewer than k rows *)
Lemma need_minimal : forall counts k m, (m < need counts k)%nat -> (sum_nat (firstn m counts) < k)%nat.
Proof.
  induction counts as [|c r IH]; intros [|k] m Hm; cbn [need] in Hm; try lia.
  destruct (Nat.leb (S k) c) eqn:E.
  - assert (m = O) by lia. subst. cbn. lia.
  - apply Nat.leb_gt in E. destruct m as [|m]; [cbn; lia|].
    cbn [firstn sum_nat fold_right]. fold (sum_nat (firstn m r)).
    specialize (IH (S k - c)%nat m). lia.
Qed.

Lemma length_flat_map_sum {A B} (f : A -> list B) l :
  List.length (flat_map f l) = sum_nat (map (fun x => List.length (f x)) l).
Proof. induction l as [|x l IH]; [reflexivity|]. cbn [flat_map map sum_nat fold_right]. rewrite app_length, IH. reflexivity. Qed.

Section Prefix.
  Variable re_match : string -> string -> option bool.
  Variable g : graph.
  Variable args : list (string * fv).

  (* The first k rows are the first k rows of the run whose starting-vertex oracle is cut off after
     `need k` vertices — and that shorter run does not panic either. *)
  Theorem prefix_determinacy q rows k :
    interpret re_match g args q = Ok rows ->
    let starts := g_starts g (q_root_name q) (q_root_params q) in
    let n := need (start_counts re_match g args q starts) k in
    exists rows', interpret re_match (with_starts g (firstn n starts)) args q = Ok rows' /\
                  rows' = flat_map (rows_of_start re_match g args q) (firstn n starts) /\
                  firstn k rows = firstn k rows'.
  Proof.
    intros H starts n.
    pose proof (interpret_is_flat_map_over_starts _ _ _ _ _ H) as E. fold starts in E.
    rewrite interpret_rows_of_starts in H. fold starts in H.
    rewrite <- (firstn_skipn n starts) in H.
    destruct (proj1 (homo_rows_of_starts re_match g args q) _ _ _ H) as (r1 & r2 & Ha & _ & _).
    exists r1. split; [|split].
    - rewrite interpret_rows_of_starts. cbn [with_starts g_starts]. rewrite rows_of_starts_with_starts. exact Ha.
    - destruct (homo_flat_map _ (homo_rows_of_starts re_match g args q) _ _ Ha) as (-> & _). reflexivity.
    - destruct (homo_flat_map _ (homo_rows_of_starts re_match g args q) _ _ Ha) as (-> & _).
      rewrite E. unfold n, start_counts. apply firstn_flat_map_need.
  Qed.

  Theorem need_is_minimal q rows k m :
    interpret re_match g args q = Ok rows ->
    let starts := g_starts g (q_root_name q) (q_root_params q) in
    (m < need (start_counts re_match g args q starts) k)%nat ->
    (List.length (flat_map (rows_of_start re_match g args q) (firstn m starts)) < k)%nat.
  Proof.
    intros _ starts Hm. rewrite length_flat_map_sum.
    unfold start_counts in Hm. rewrite <- firstn_map. now apply need_minimal.
  Qed.

  Theorem need_is_sufficient q rows k :
    interpret re_match g args q = Ok rows -> (k <= List.length rows)%nat ->
    let starts := g_starts g (q_root_name q) (q_root_params q) in
    (k <= List.length (flat_map (rows_of_start re_match g args q)
                                (firstn (need (start_counts re_match g args q starts) k) starts)))%nat.
  Proof.
    intros H Hk starts. rewrite length_flat_map_sum, <- firstn_map.
    apply need_enough. rewrite (interpret_is_flat_map_over_starts _ _ _ _ _ H), length_flat_map_sum in Hk.
    exact Hk.
  Qed.
End Prefix.
