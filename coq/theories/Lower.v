(* Lower.v — from the Rust-shaped IR to processing order: the edge/fold merge loop of
   execution.rs::compute_component with its unreachable!() and visited-vid assert!s. *)
From TF Require Export IR.
Local Open Scope string_scope.
Local Open Scope N_scope.
Local Open Scope list_scope.

(* the loop `match fold.eid.cmp(&edge.eid)`: Greater -> edge first, Less -> fold first, Equal -> unreachable!() *)
Fixpoint merge_steps (es : list ir_edge) : list (fold_hdr * ir_component) -> res (list step) :=
  match es with
  | [] => fun fs => Ok (map (fun hc => SFold (fst hc) (snd hc)) fs)
  | e :: es' =>
      fix inner (fs : list (fold_hdr * ir_component)) : res (list step) :=
        match fs with
        | [] => Ok (SEdge e :: map SEdge es')
        | (h, c) :: fs' =>
            match N.compare (fo_eid h) (e_eid e) with
            | Gt => do r <- merge_steps es' fs; Ok (SEdge e :: r)
            | Lt => do r <- inner fs'; Ok (SFold h c :: r)
            | Eq => Panic "execution.rs:compute_component unreachable (fold.eid == edge.eid)"
            end
        end
  end.

Definition memN (x : N) (l : list N) : bool := existsb (N.eqb x) l.

(* visited_vids bookkeeping: assert!(!from_vid_unvisited); assert!(to_vid_unvisited) *)
Fixpoint check_visits (visited : list N) (ss : list step) : res unit :=
  match ss with
  | [] => Ok tt
  | s :: r =>
      let (from, to) := match s with SEdge e => (e_from e, e_to e) | SFold h _ => (fo_from h, fo_to h) end in
      if negb (memN from visited) then Panic "execution.rs:compute_component assert!(!from_vid_unvisited)"
      else if memN to (from :: visited) then Panic "execution.rs:compute_component assert!(to_vid_unvisited)"
      else check_visits (to :: visited) r
  end.

Fixpoint lower (c : raw_comp) : res ir_component :=
  match c with
  | RComp root vs es fs outs =>
      do fs' <- (fix lf (l : list raw_fold) : res (list (fold_hdr * ir_component)) :=
                   match l with
                   | [] => Ok []
                   | RFold h sub :: r => do s <- lower sub; do r' <- lf r; Ok ((h, s) :: r')
                   end) fs;
      do steps <- merge_steps es fs';
      do _ <- check_visits [root] steps;
      Ok (mkComp root vs steps outs)
  end.

Definition lower_query (q : raw_query) : res ir_query :=
  do c <- lower (rq_comp q);
  Ok (mkQ (rq_root_name q) (rq_root_params q) c (rq_vars q)).
