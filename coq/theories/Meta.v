(* Meta.v — query transformations with known effects (property C23), defined on the lowered IR.
   Definitions only; the theorems are in MetaProofs.v / Properties/C23.v.

   The transformations act on the component they are given (for a query: its ROOT component, i.e.
   on vertices / edges that are not under a @fold); `rename_comp` is the only one that recurses into
   folds.  Tags have no names in the IR: the frontend resolves `%tag` to a field reference
   (`ATag (FRContext ..)` / `ATag (FRFold ..)`), so renaming a tag is the identity on the IR; and
   swapping two sibling PROPERTY selections of one scope changes nothing in the IR except the order
   of that vertex' filter list (`set_filters` with a permutation). *)
From TF Require Export Sem OpsSpec.
Local Open Scope string_scope.
Local Open Scope N_scope.
Local Open Scope list_scope.

(* ---- order-preserving sub-sequence (stronger than sub-multiset) ---- *)
Inductive sublist {A : Type} : list A -> list A -> Prop :=
| sl_nil : sublist [] []
| sl_skip x l1 l2 : sublist l1 l2 -> sublist l1 (x :: l2)
| sl_keep x l1 l2 : sublist l1 l2 -> sublist (x :: l1) (x :: l2).

(* ---- generic updates ---- *)
Definition upd_vertex (vid : N) (F : ir_vertex -> ir_vertex) (vs : list ir_vertex) : list ir_vertex :=
  map (fun v => if N.eqb (v_vid v) vid then F v else v) vs.

Definition upd_edge (eid : N) (F : ir_edge -> ir_edge) (ss : list step) : list step :=
  map (fun s => match s with
                | SEdge e => if N.eqb (e_eid e) eid then SEdge (F e) else s
                | SFold _ _ => s
                end) ss.

Definition with_comp (q : ir_query) (c : ir_component) : ir_query :=
  mkQ (q_root_name q) (q_root_params q) c (q_vars q).

Definition set_filters (fs : list vfilter) (v : ir_vertex) : ir_vertex :=
  mkV (v_vid v) (v_type v) (v_from v) fs.

(* ---- 1. adding a filter to the vertex `vid` ---- *)
Definition with_filter (f : vfilter) (v : ir_vertex) : ir_vertex := set_filters (v_filters v ++ [f]) v.
Definition add_filter (vid : N) (f : vfilter) (c : ir_component) : ir_component :=
  match c with mkComp root vs ss outs => mkComp root (upd_vertex vid (with_filter f) vs) ss outs end.

(* adding a filter to the root vertex of the fold `eid` of this component (a filter INSIDE a fold) *)
Definition add_filter_in_fold (eid : N) (f : vfilter) (c : ir_component) : ir_component :=
  match c with
  | mkComp root vs ss outs =>
      mkComp root vs
             (map (fun s => match s with
                            | SFold h sub => if N.eqb (fo_eid h) eid then SFold h (add_filter (c_root sub) f sub) else s
                            | SEdge _ => s
                            end) ss) outs
  end.

(* swapping sibling PROPERTY selections of one scope = permuting the filter list of that vertex *)
Definition reorder_filters (vid : N) (fs' : list vfilter) (c : ir_component) : ir_component :=
  match c with mkComp root vs ss outs => mkComp root (upd_vertex vid (set_filters fs') vs) ss outs end.

(* ---- 2. raising the depth of the @recurse edge `eid` by k ---- *)
Definition deeper (k : N) (e : ir_edge) : ir_edge :=
  mkE (e_eid e) (e_from e) (e_to e) (e_name e) (e_params e) (e_optional e)
      (match e_rec e with Some r => Some (mkRec (r_depth r + k) (r_coerce r)) | None => None end).
Definition raise_depth (eid k : N) (c : ir_component) : ir_component :=
  match c with mkComp root vs ss outs => mkComp root vs (upd_edge eid (deeper k) ss) outs end.

(* ---- 3. making the edge `eid` @optional ---- *)
Definition optionalize (e : ir_edge) : ir_edge :=
  mkE (e_eid e) (e_from e) (e_to e) (e_name e) (e_params e) true (e_rec e).
Definition make_optional (eid : N) (c : ir_component) : ir_component :=
  match c with mkComp root vs ss outs => mkComp root vs (upd_edge eid optionalize ss) outs end.

(* ---- 4. a parameterised plain edge as the unparameterised edge plus a filter on its destination ---- *)
Definition set_params (ps : params) (e : ir_edge) : ir_edge :=
  mkE (e_eid e) (e_from e) (e_to e) (e_name e) ps (e_optional e) (e_rec e).
Definition param_to_filter (eid : N) (ps' : params) (tovid : N) (f : vfilter) (c : ir_component) : ir_component :=
  match c with
  | mkComp root vs ss outs => mkComp root (upd_vertex tovid (with_filter f) vs) (upd_edge eid (set_params ps') ss) outs
  end.
(* every edge other than `eid` leads elsewhere, and the root is another vertex: `tovid` is entered
   exactly by the edge `eid` (guaranteed by Lower.check_visits for lowered queries) *)
Definition entered_only_by (eid tovid : N) (c : ir_component) : bool :=
  negb (N.eqb (c_root c) tovid) &&
  forallb (fun s => match s with
                    | SEdge e => N.eqb (e_eid e) eid || negb (N.eqb (e_to e) tovid)
                    | SFold _ _ => true
                    end) (c_steps c).

(* ---- 5. `= $x`  ~>  `one_of $xs` ---- *)
Definition eq_to_one_of (x xs : string) (t' : ty) (f : vfilter) : vfilter :=
  match vf_op f, vf_arg f with
  | Equals, Some (AVar y _) =>
      if String.eqb y x then mkVF OneOf (vf_field f) (vf_fty f) (Some (AVar xs t')) else f
  | _, _ => f
  end.
Definition map_filters (vid : N) (F : vfilter -> vfilter) (c : ir_component) : ir_component :=
  match c with
  | mkComp root vs ss outs => mkComp root (upd_vertex vid (fun v => set_filters (map F (v_filters v)) v) vs) ss outs
  end.
Definition arg_or_null (args : list (string * fv)) (x : string) : fv :=
  match lookup_str x args with Some v => v | None => Null end.

(* ---- 6. negation ---- *)
Definition negate_op (o : opk) : opk :=
  match o with
  | IsNull => IsNotNull | IsNotNull => IsNull
  | Equals => NotEquals | NotEquals => Equals
  | Contains => NotContains | NotContains => Contains
  | OneOf => NotOneOf | NotOneOf => OneOf
  | HasPrefix => NotHasPrefix | NotHasPrefix => HasPrefix
  | HasSuffix => NotHasSuffix | NotHasSuffix => HasSuffix
  | HasSubstring => NotHasSubstring | NotHasSubstring => HasSubstring
  | RegexMatches => NotRegexMatches | NotRegexMatches => RegexMatches
  | o => o      (* the ordering operators have no negated form in the language *)
  end.
Definition has_negation (o : opk) : bool :=
  match o with LessThan | LessThanOrEqual | GreaterThan | GreaterThanOrEqual => false | _ => true end.
Definition negate_filter (f : vfilter) : vfilter := mkVF (negate_op (vf_op f)) (vf_field f) (vf_fty f) (vf_arg f).

(* the right operand cannot come from a missing @optional scope: a variable, or a tag on a property of
   the vertex being filtered itself (and a binary operator has a right operand at all) *)
Definition arg_local (vid : N) (f : vfilter) : bool :=
  match vf_arg f with
  | None => opk_unary (vf_op f)
  | Some (AVar _ _) => true
  | Some (ATag (FRContext cf)) => N.eqb (cf_vid cf) vid
  | Some (ATag (FRFold _)) => false
  end.

(* no edge of this step list leads (back) to `vid` *)
Definition never_entered (vid : N) (ss : list step) : bool :=
  forallb (fun s => match s with SEdge e => negb (N.eqb (e_to e) vid) | SFold _ _ => true end) ss.

(* the operator of `f` does not panic on the operands it meets at vertex (vid, ty) (C07 / C09 say when) *)
Definition filter_no_panic (re : string -> string -> option bool) (g : graph) (args : list (string * fv))
           (vid : N) (ty : string) (f : vfilter) : Prop :=
  forall s vs ss imp a r,
    option_map (arg_value g args vs ss imp a vid ty (Some s)) (vf_arg f) = Some (TSome r) ->
    exists b, apply_tagged re (vf_op f) (g_prop g ty (vf_field f) s) (Some r) true = Ok b.

(* ---- 7. renaming outputs (everywhere, including inside folds and the fold-count outputs) ---- *)
Definition rename_hdr (rho : string -> string) (h : fold_hdr) : fold_hdr :=
  mkFH (fo_eid h) (fo_from h) (fo_to h) (fo_name h) (fo_params h) (fo_imported h)
       (map rho (fo_fsout h)) (fo_post h).
Fixpoint rename_comp (rho : string -> string) (c : ir_component) {struct c} : ir_component :=
  match c with
  | mkComp root vs ss outs =>
      mkComp root vs
             ((fix go (ss : list step) : list step :=
                 match ss with
                 | [] => []
                 | SEdge e :: r => SEdge e :: go r
                 | SFold h sub :: r => SFold (rename_hdr rho h) (rename_comp rho sub) :: go r
                 end) ss)
             (map (fun o => (rho (fst o), snd o)) outs)
  end.
Fixpoint rename_steps (rho : string -> string) (ss : list step) : list step :=
  match ss with
  | [] => []
  | SEdge e :: r => SEdge e :: rename_steps rho r
  | SFold h sub :: r => SFold (rename_hdr rho h) (rename_comp rho sub) :: rename_steps rho r
  end.
Definition rename_row (rho : string -> string) (r : list (string * fv)) : list (string * fv) :=
  map (fun kv => (rho (fst kv), snd kv)) r.
(* r' is r with every key n renamed to rho n (and nothing else) *)
Definition row_renamed (rho : string -> string) (r' r : list (string * fv)) : Prop :=
  (forall n, lookup_str (rho n) r' = lookup_str n r) /\
  (forall m, (forall n, m <> rho n) -> lookup_str m r' = None).

(* ---- `edge(lo: k)` against `edge` + `id @filter(op: ">=", value: ["$p"])` (harness world.rs: the
   property "id" of a vertex is its number) ---- *)
Definition id_ge_filter (p : string) (fty t : ty) : vfilter :=
  mkVF GreaterThanOrEqual "id" fty (Some (AVar p t)).
(* edge parameters only filter the neighbour list (Graph.v datasets: params_keep) *)
Definition params_filter_nbrs (g : graph) : Prop :=
  forall ty name ps v, g_nbrs g ty name ps v = filter (params_keep ps) (g_nbrs g ty name [] v).
(* every vertex that occurs as a neighbour in the dataset carries its number as "id" *)
Definition ds_nbr_ids (d : dataset) : list N := flat_map (fun ve => flat_map snd (snd ve)) (d_edges d).
Definition ds_ids_ok (d : dataset) : bool :=
  forallb (fun n => match int_val (ds_prop d "" "id" n) with Some z => Z.eqb z (Z.of_N n) | None => false end)
          (ds_nbr_ids d).
(* every property value of the dataset is a well-formed FieldValue *)
Definition ds_props_wf (d : dataset) : bool :=
  forallb (fun vp => forallb (fun kv => wf (snd kv)) (snd vp)) (d_props d).
