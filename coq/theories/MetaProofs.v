(* MetaProofs.v — the effect of the C23 query transformations (Meta.v) on the SPECIFICATION `sem`
   (Sem.v), for all queries, graphs and arguments.  Transfer to the engine is property C01. *)
From Coq Require Import Lia Permutation.
From TF Require Import ValuesProofs OpsProofs Sem SemProofs SimComp SimOut Meta.
Local Open Scope string_scope.
Local Open Scope N_scope.
Local Open Scope list_scope.

(* ================= order-preserving sub-sequences ================= *)
Section Sublist.
  Context {A : Type}.

  Lemma sublist_refl (l : list A) : sublist l l.
  Proof. induction l; [apply sl_nil|apply sl_keep; assumption]. Qed.

  Lemma sublist_nil_l (l : list A) : sublist [] l.
  Proof. induction l; [apply sl_nil|apply sl_skip; assumption]. Qed.

  Lemma sublist_app (a b c d : list A) : sublist a b -> sublist c d -> sublist (a ++ c) (b ++ d).
  Proof. intros H1 H2. induction H1; cbn [app]; [assumption|apply sl_skip|apply sl_keep]; assumption. Qed.

  Lemma sublist_trans (l1 l2 l3 : list A) : sublist l1 l2 -> sublist l2 l3 -> sublist l1 l3.
  Proof.
    intros H12 H23. revert l1 H12. induction H23 as [|x l2 l3 H IH|x l2 l3 H IH]; intros l1 H12.
    - assumption.
    - apply sl_skip. now apply IH.
    - inversion H12; subst; [apply sl_skip|apply sl_keep]; now apply IH.
  Qed.

  Lemma sublist_length (l1 l2 : list A) : sublist l1 l2 -> (List.length l1 <= List.length l2)%nat.
  Proof. induction 1; cbn [List.length]; lia. Qed.

  Lemma sublist_length_eq (l1 l2 : list A) :
    sublist l1 l2 -> (List.length l2 <= List.length l1)%nat -> l1 = l2.
  Proof.
    induction 1 as [|x l1 l2 H IH|x l1 l2 H IH]; cbn [List.length]; intros Hl.
    - reflexivity.
    - apply sublist_length in H. lia.
    - f_equal. apply IH. lia.
  Qed.

  Lemma sublist_antisym (l1 l2 : list A) : sublist l1 l2 -> sublist l2 l1 -> l1 = l2.
  Proof. intros H1 H2. apply sublist_length_eq; [assumption|]. now apply sublist_length. Qed.

  Lemma sublist_In (l1 l2 : list A) : sublist l1 l2 -> forall x, In x l1 -> In x l2.
  Proof. induction 1; intros y Hy; cbn in *; intuition. Qed.

  Lemma sublist_filter (p : A -> bool) (l : list A) : sublist (filter p l) l.
  Proof.
    induction l as [|x l IH]; cbn [filter]; [constructor|].
    destruct (p x); [apply sl_keep|apply sl_skip]; assumption.
  Qed.

  (* a sub-sequence is a sub-multiset: the larger list is a permutation of the smaller plus a rest *)
  Lemma sublist_multiset (l1 l2 : list A) : sublist l1 l2 -> exists rest, Permutation l2 (l1 ++ rest).
  Proof.
    induction 1 as [|x l1 l2 H (r & IH)|x l1 l2 H (r & IH)].
    - exists []. constructor.
    - exists (x :: r). eapply perm_trans; [apply perm_skip; exact IH|]. apply Permutation_middle.
    - exists r. cbn [app]. now apply perm_skip.
  Qed.
End Sublist.

Lemma sublist_map {A B} (f : A -> B) (l1 l2 : list A) : sublist l1 l2 -> sublist (map f l1) (map f l2).
Proof. induction 1; cbn [map]; [apply sl_nil|apply sl_skip|apply sl_keep]; assumption. Qed.

Lemma sublist_flat_map {A B} (f' f : A -> list B) (l' l : list A) :
  sublist l' l -> (forall a, sublist (f' a) (f a)) -> sublist (flat_map f' l') (flat_map f l).
Proof.
  intros H Hf. induction H as [|x l1 l2 H IH|x l1 l2 H IH]; cbn [flat_map].
  - constructor.
  - change (flat_map f' l1) with ([] ++ flat_map f' l1). apply sublist_app; [apply sublist_nil_l|assumption].
  - apply sublist_app; [apply Hf|assumption].
Qed.

Lemma fold_left_ext {A B} (f f' : A -> B -> A) (l : list B) :
  (forall m t, f m t = f' m t) -> forall m, fold_left f l m = fold_left f' l m.
Proof. intros H. induction l as [|x l IH]; intros m; cbn [fold_left]; [reflexivity|]. now rewrite H, IH. Qed.

Lemma forallb_ext_in {A} (p q : A -> bool) (l : list A) :
  (forall x, In x l -> p x = q x) -> forallb p l = forallb q l.
Proof.
  induction l as [|x l IH]; intros H; cbn [forallb]; [reflexivity|].
  rewrite (H x (or_introl eq_refl)), IH; [reflexivity|]. intros y Hy. apply H. now right.
Qed.

Lemma flat_map_filter_cond {A B} (q p : A -> bool) (h : A -> B) (l : list A) :
  flat_map (fun n => if p n then [h n] else []) (filter q l) =
  flat_map (fun n => if q n && p n then [h n] else []) l.
Proof.
  induction l as [|x l IH]; [reflexivity|]. cbn [filter flat_map].
  destruct (q x); cbn [andb flat_map]; now rewrite IH.
Qed.

Lemma flat_map_app_perm {A B} (f1 f2 : A -> list B) (l : list A) :
  Permutation (flat_map (fun a => f1 a ++ f2 a) l) (flat_map f1 l ++ flat_map f2 l).
Proof.
  induction l as [|x l IH]; cbn [flat_map]; [constructor|].
  rewrite <- !app_assoc. apply Permutation_app_head.
  eapply perm_trans; [apply Permutation_app_head; exact IH|].
  rewrite !app_assoc. apply Permutation_app_tail. apply Permutation_app_comm.
Qed.

(* ================= nested induction on components ================= *)
Section CompInd.
  Variable P : ir_component -> Prop.
  Hypothesis H : forall root vs ss outs,
    Forall (fun s => match s with SFold _ sub => P sub | SEdge _ => True end) ss ->
    P (mkComp root vs ss outs).
  Fixpoint comp_nested_ind (c : ir_component) : P c :=
    match c with
    | mkComp root vs ss outs =>
        H root vs ss outs
          ((fix go (ss : list step)
              : Forall (fun s => match s with SFold _ sub => P sub | SEdge _ => True end) ss :=
              match ss with
              | [] => Forall_nil _
              | SEdge e :: r => Forall_cons (SEdge e) I (go r)
              | SFold h sub :: r => Forall_cons (SFold h sub) (comp_nested_ind sub) (go r)
              end) ss)
    end.
End CompInd.

(* ================= @recurse: deeper is a super-sequence ================= *)
Lemma rec_from_sublist g oty rf ety co edge ps : forall k k' first v,
  (k <= k')%nat ->
  sublist (rec_from g k first oty rf ety co edge ps v) (rec_from g k' first oty rf ety co edge ps v).
Proof.
  induction k as [|k IH]; intros k' first v Hk.
  - destruct k'; cbn [rec_from]; apply sl_keep; apply sublist_nil_l.
  - destruct k' as [|k']; [lia|]. cbn [rec_from]. apply sl_keep.
    destruct (first || match co with Some to => g_coerce g ety to v | None => true end); [|apply sl_nil].
    apply sublist_flat_map; [apply sublist_refl|]. intros w. apply IH. lia.
Qed.

(* ================= the monotonicity framework ================= *)
Section Mono.
  Variable re : string -> string -> option bool.
  Variable g : graph.
  Variable args : list (string * fv).

  Local Notation enter := (enter re g args).
  Local Notation step_edge := (step_edge re g args).
  Local Notation step_fold := (step_fold re g args).
  Local Notation sem_comp := (sem_comp re g args).
  Local Notation sem_steps := (sem_steps re g args).
  Local Notation sem := (sem re g args).

  Definition present (cand : option vertex) : bool := match cand with Some _ => true | None => false end.

  (* one filter of the vertex (vid, ty) evaluated on the candidate `cand` *)
  Definition fpass vs ss imp a (vid : N) (ty : string) (cand : option vertex) (f : vfilter) : bool :=
    filter_passes re (vf_op f) (present cand) (prop_of g ty (vf_field f) cand)
                  (option_map (arg_value g args vs ss imp a vid ty cand) (vf_arg f)).

  Definition coercion_ok (v : ir_vertex) (cand : option vertex) : bool :=
    match v_from v, cand with
    | Some from, Some x => g_coerce g from (v_type v) x
    | _, _ => true
    end.

  Lemma enter_fpass vs ss imp a v cand :
    enter vs ss imp a v cand =
    coercion_ok v cand && forallb (fpass vs ss imp a (v_vid v) (v_type v) cand) (v_filters v).
  Proof. reflexivity. Qed.

  (* ---- what the step functions read of the vertex list and of the step list ---- *)
  Definition types_agree (vs vs' : list ir_vertex) : Prop :=
    forall vid, option_map v_type (find_vertex vs vid) = option_map v_type (find_vertex vs' vid).
  Definition folds_agree (ss ss' : list step) : Prop := forall eid, has_fold ss eid = has_fold ss' eid.

  Lemma context_value_agree vs vs' a imp cf :
    types_agree vs vs' -> context_value g vs a imp cf = context_value g vs' a imp cf.
  Proof.
    intros Ht. unfold context_value. specialize (Ht (cf_vid cf)).
    destruct (find_vertex vs (cf_vid cf)), (find_vertex vs' (cf_vid cf)); cbn in Ht; try discriminate; [|reflexivity].
    injection Ht as ->. reflexivity.
  Qed.

  Lemma arg_value_agree vs vs' ss ss' imp a cur ty cand arg :
    types_agree vs vs' -> folds_agree ss ss' ->
    arg_value g args vs ss imp a cur ty cand arg = arg_value g args vs' ss' imp a cur ty cand arg.
  Proof.
    intros Ht Hf. destruct arg as [[cf|ff]|x t]; cbn [arg_value]; [| |reflexivity].
    - destruct (N.eqb (cf_vid cf) cur); [reflexivity|]. now apply context_value_agree.
    - unfold count_value. now rewrite (Hf (ff_eid ff)).
  Qed.

  Lemma fpass_agree vs vs' ss ss' imp a vid ty cand f :
    types_agree vs vs' -> folds_agree ss ss' ->
    fpass vs ss imp a vid ty cand f = fpass vs' ss' imp a vid ty cand f.
  Proof.
    intros Ht Hf. unfold fpass. destruct (vf_arg f) as [arg|]; cbn [option_map]; [|reflexivity].
    now rewrite (arg_value_agree vs vs' ss ss' imp a vid ty cand arg Ht Hf).
  Qed.

  Lemma import_value_agree vs vs' ss ss' imp a t :
    types_agree vs vs' -> import_value g vs ss imp a t = import_value g vs' ss' imp a t.
  Proof.
    intros Ht. destruct t as [cf|ff]; cbn [import_value]; [|reflexivity].
    specialize (Ht (cf_vid cf)).
    destruct (find_vertex vs (cf_vid cf)), (find_vertex vs' (cf_vid cf)); cbn in Ht; try discriminate; [|reflexivity].
    injection Ht as ->. reflexivity.
  Qed.

  Lemma step_fold_agree vs vs' ss ss' imp h sub_sem a :
    types_agree vs vs' -> folds_agree ss ss' ->
    step_fold vs ss imp h sub_sem a = step_fold vs' ss' imp h sub_sem a.
  Proof.
    intros Ht Hf. unfold Sem.step_fold. pose proof (Ht (fo_from h)) as Hfrom.
    destruct (find_vertex vs (fo_from h)) as [fv1|], (find_vertex vs' (fo_from h)) as [fv2|];
      cbn in Hfrom; try discriminate; [|reflexivity].
    injection Hfrom as Hty.
    destruct (lookup_N (fo_from h) (a_v a)) as [[v|]|]; [|reflexivity|reflexivity].
    rewrite Hty.
    rewrite (fold_left_ext _ (fun m t => insert_ref t (import_value g vs' ss' imp a t) m));
      [|intros m t; now rewrite (import_value_agree vs vs' ss ss' imp a t Ht)].
    match goal with |- (if forallb ?p ?l then _ else _) = (if forallb ?q ?l then _ else _) =>
      rewrite (forallb_ext_in p q l) end; [reflexivity|].
    intros pf _. destruct (pf_arg pf) as [arg|]; cbn [option_map]; [|reflexivity].
    now rewrite (arg_value_agree vs vs' ss ss' imp _ (fo_from h) (v_type fv2) (Some v) arg Ht Hf).
  Qed.

  (* ---- vertices: more filters (semantically: stronger filters) ---- *)
  Definition filter_imp (f' f : vfilter) : Prop :=
    forall vs ss imp a vid ty cand,
      fpass vs ss imp a vid ty cand f' = true -> fpass vs ss imp a vid ty cand f = true.

  Lemma filter_imp_refl f : filter_imp f f.
  Proof. intros vs ss imp a vid ty cand Hp. exact Hp. Qed.

  Definition vertex_le (v' v : ir_vertex) : Prop :=
    v_vid v' = v_vid v /\ v_type v' = v_type v /\ v_from v' = v_from v /\
    forall f, In f (v_filters v) -> exists f', In f' (v_filters v') /\ filter_imp f' f.

  Lemma vertex_le_refl v : vertex_le v v.
  Proof. repeat split. intros f Hf. exists f. split; [assumption|apply filter_imp_refl]. Qed.

  Definition verts_le (vs' vs : list ir_vertex) : Prop :=
    forall vid, match find_vertex vs' vid, find_vertex vs vid with
                | Some v', Some v => vertex_le v' v
                | None, None => True
                | _, _ => False
                end.

  Lemma verts_le_refl vs : verts_le vs vs.
  Proof. intros vid. destruct (find_vertex vs vid); [apply vertex_le_refl|exact I]. Qed.

  Lemma verts_le_types vs' vs : verts_le vs' vs -> types_agree vs' vs.
  Proof.
    intros Hv vid. specialize (Hv vid).
    destruct (find_vertex vs' vid), (find_vertex vs vid); try contradiction; [|reflexivity].
    destruct Hv as (_ & Ht & _). cbn. now rewrite Ht.
  Qed.

  Lemma enter_mono vs' vs ss' ss imp a v' v cand :
    types_agree vs' vs -> folds_agree ss' ss -> vertex_le v' v ->
    enter vs' ss' imp a v' cand = true -> enter vs ss imp a v cand = true.
  Proof.
    intros Ht Hf (Hvid & Hty & Hfrom & Hfil) He. rewrite enter_fpass in *.
    apply andb_prop in He. destruct He as (Hc & Hall). apply andb_true_intro. split.
    - unfold coercion_ok in *. now rewrite <- Hfrom, <- Hty.
    - apply forallb_forall. intros f Hin. destruct (Hfil f Hin) as (f' & Hin' & Himp).
      rewrite forallb_forall in Hall. specialize (Hall f' Hin').
      rewrite (fpass_agree vs' vs ss' ss imp a _ _ cand f' Ht Hf) in Hall.
      rewrite Hvid, Hty in Hall. now apply Himp.
  Qed.

  (* ---- edges: shallower recursion / not optional ---- *)
  Definition edge_le (e' e : ir_edge) : Prop :=
    e_eid e' = e_eid e /\ e_from e' = e_from e /\ e_to e' = e_to e /\ e_name e' = e_name e /\
    e_params e' = e_params e /\
    match e_rec e', e_rec e with
    | Some r', Some r => r_coerce r' = r_coerce r /\ r_depth r' <= r_depth r
    | None, None => e_optional e' = true -> e_optional e = true
    | _, _ => False
    end.

  Lemma edge_le_refl e : edge_le e e.
  Proof.
    unfold edge_le. repeat split. destruct (e_rec e); [split; [reflexivity|apply N.le_refl]|tauto].
  Qed.

  Lemma step_edge_mono vs' vs ss' ss imp e' e a :
    verts_le vs' vs -> folds_agree ss' ss -> edge_le e' e ->
    sublist (step_edge vs' ss' imp e' a) (step_edge vs ss imp e a).
  Proof.
    intros Hv Hf (Heid & Hfrom & Hto & Hname & Hps & Hrec).
    pose proof (verts_le_types _ _ Hv) as Ht.
    unfold Sem.step_edge. rewrite Hfrom, Hto, Hname, Hps.
    pose proof (Hv (e_from e)) as Hvf. pose proof (Hv (e_to e)) as Hvt.
    destruct (find_vertex vs' (e_from e)) as [fromv'|], (find_vertex vs (e_from e)) as [fromv|];
      try contradiction; try apply sublist_nil_l.
    destruct (find_vertex vs' (e_to e)) as [tov'|], (find_vertex vs (e_to e)) as [tov|];
      try contradiction; try apply sublist_nil_l.
    destruct Hvf as (_ & Hfty & _). pose proof Hvt as (_ & Htty & Htfrom & _).
    apply sublist_flat_map.
    - destruct (lookup_N (e_from e) (a_v a)) as [[v|]|]; try apply sublist_refl.
      destruct (e_rec e') as [r'|], (e_rec e) as [r|]; try contradiction.
      + destruct Hrec as (Hco & Hd). rewrite Hfty, Htty, Htfrom, Hco. apply sublist_map.
        apply rec_from_sublist. lia.
      + rewrite Hfty. destruct (g_nbrs g (v_type fromv) (e_name e) (e_params e) v); [|apply sublist_refl].
        destruct (e_optional e') eqn:E'; [rewrite (Hrec eq_refl); apply sublist_refl|apply sublist_nil_l].
    - intros c. destruct (enter vs' ss' imp a tov' c) eqn:E; [|apply sublist_nil_l].
      rewrite (enter_mono vs' vs ss' ss imp a tov' tov c Ht Hf Hvt E). apply sublist_refl.
  Qed.

  (* ---- steps ---- *)
  Definition step_fn vs ss imp (s : step) (a : asg) : list asg :=
    match s with
    | SEdge e => step_edge vs ss imp e a
    | SFold h sub => step_fold vs ss imp h (sem_comp sub) a
    end.

  Lemma sem_steps_cons vs ss imp s todo rows :
    sem_steps vs ss imp (s :: todo) rows = sem_steps vs ss imp todo (flat_map (step_fn vs ss imp s) rows).
  Proof. destruct s; reflexivity. Qed.

  Lemma sem_steps_sub vs' vs ss' ss imp : forall todo' todo,
    Forall2 (fun s' s => forall a, sublist (step_fn vs' ss' imp s' a) (step_fn vs ss imp s a)) todo' todo ->
    forall rows' rows, sublist rows' rows ->
    sublist (sem_steps vs' ss' imp todo' rows') (sem_steps vs ss imp todo rows).
  Proof.
    induction 1 as [|s' s t' t Hs _ IH]; intros rows' rows Hr; [exact Hr|].
    rewrite !sem_steps_cons. apply IH. now apply sublist_flat_map.
  Qed.

  Lemma sem_steps_ext vs' vs ss' ss imp : forall todo' todo,
    Forall2 (fun s' s => forall a, step_fn vs' ss' imp s' a = step_fn vs ss imp s a) todo' todo ->
    forall rows, sem_steps vs' ss' imp todo' rows = sem_steps vs ss imp todo rows.
  Proof.
    induction 1 as [|s' s t' t Hs _ IH]; intros rows; [reflexivity|].
    rewrite !sem_steps_cons, IH. f_equal. apply flat_map_ext. exact Hs.
  Qed.

  Definition step_le (s' s : step) : Prop :=
    match s', s with
    | SEdge e', SEdge e => edge_le e' e
    | SFold h' c', SFold h c => h' = h /\ c' = c
    | _, _ => False
    end.
  Definition steps_le (ss' ss : list step) : Prop := Forall2 step_le ss' ss.

  Lemma step_le_refl s : step_le s s.
  Proof. destruct s; cbn; [apply edge_le_refl|split; reflexivity]. Qed.
  Lemma steps_le_refl ss : steps_le ss ss.
  Proof. induction ss; constructor; [apply step_le_refl|assumption]. Qed.

  Lemma steps_le_folds ss' ss : steps_le ss' ss -> folds_agree ss' ss.
  Proof.
    intros H eid. induction H as [|s' s t' t Hs _ IH]; [reflexivity|].
    destruct s' as [e'|h' c'], s as [e|h c]; cbn in Hs; try contradiction; cbn [has_fold]; [exact IH|].
    destruct Hs as (-> & _). now rewrite IH.
  Qed.

  Lemma step_fn_mono vs' vs ss' ss imp s' s a :
    verts_le vs' vs -> folds_agree ss' ss -> step_le s' s ->
    sublist (step_fn vs' ss' imp s' a) (step_fn vs ss imp s a).
  Proof.
    intros Hv Hf Hs. destruct s' as [e'|h' c'], s as [e|h c]; cbn in Hs; try contradiction; cbn [step_fn].
    - now apply step_edge_mono.
    - destruct Hs as (-> & ->).
      rewrite (step_fold_agree vs' vs ss' ss imp h (sem_comp c) a (verts_le_types _ _ Hv) Hf).
      apply sublist_refl.
  Qed.

  Lemma steps_le_fn vs' vs ss' ss imp :
    verts_le vs' vs -> folds_agree ss' ss -> forall todo' todo, steps_le todo' todo ->
    Forall2 (fun s' s => forall a, sublist (step_fn vs' ss' imp s' a) (step_fn vs ss imp s a)) todo' todo.
  Proof.
    intros Hv Hf todo' todo Hall. induction Hall as [|s' s t' t Hs _ IH]; constructor; [|exact IH].
    intros a. now apply step_fn_mono.
  Qed.

  (* ---- components ---- *)
  Definition comp_le (c' c : ir_component) : Prop :=
    c_root c' = c_root c /\ verts_le (c_vertices c') (c_vertices c) /\ steps_le (c_steps c') (c_steps c).

  (* every assignment of the smaller component is an assignment of the larger one, in the same order *)
  Theorem sem_comp_mono c' c imp r :
    comp_le c' c -> sublist (sem_comp c' imp r) (sem_comp c imp r).
  Proof.
    destruct c' as [root' vs' ss' outs'], c as [root vs ss outs]. intros (Hr & Hv & Hs).
    cbn [c_root c_vertices c_steps] in *. subst root'. rewrite !sem_comp_eq.
    pose proof (Hv root) as Hroot. pose proof (steps_le_folds _ _ Hs) as Hf.
    destruct (find_vertex vs' root) as [rv'|], (find_vertex vs root) as [rv|];
      try contradiction; try apply sublist_nil_l.
    destruct (enter vs' ss' imp (Asg [] []) rv' r) eqn:E; [|apply sublist_nil_l].
    rewrite (enter_mono vs' vs ss' ss imp _ rv' rv r (verts_le_types _ _ Hv) Hf Hroot E).
    apply sem_steps_sub; [|apply sublist_refl].
    now apply steps_le_fn.
  Qed.

  Lemma project_agree c' c a :
    comp_le c' c -> c_outputs c' = c_outputs c -> project g c' a = project g c a.
  Proof.
    destruct c' as [root' vs' ss' outs'], c as [root vs ss outs]. intros (_ & Hv & Hs) Ho.
    cbn [c_root c_vertices c_steps c_outputs] in *. subst outs'. cbn [project].
    pose proof (verts_le_types _ _ Hv) as Ht. f_equal.
    - apply map_ext. intros [n cf]. cbn [fst snd]. f_equal. specialize (Ht (cf_vid cf)).
      destruct (find_vertex vs' (cf_vid cf)), (find_vertex vs (cf_vid cf)); cbn in Ht; try discriminate; [|reflexivity].
      injection Ht as ->. reflexivity.
    - unfold steps_le in Hs. induction Hs as [|s' s t' t Hs _ IH]; [reflexivity|].
      destruct s' as [e'|h' c'], s as [e|h c]; cbn in Hs; try contradiction; [exact IH|].
      destruct Hs as (-> & ->). now rewrite IH.
  Qed.

  (* ---- queries ---- *)
  Definition query_le (q' q : ir_query) : Prop :=
    q_root_name q' = q_root_name q /\ q_root_params q' = q_root_params q /\
    comp_le (q_comp q') (q_comp q) /\ c_outputs (q_comp q') = c_outputs (q_comp q).

  Theorem sem_mono q' q : query_le q' q -> sublist (sem q') (sem q).
  Proof.
    intros (Hn & Hp & Hc & Ho). unfold Sem.sem. rewrite Hn, Hp.
    rewrite (map_ext _ (fun a => sort_row (project g (q_comp q) a)));
      [|intros a; now rewrite (project_agree _ _ a Hc Ho)].
    apply sublist_map. apply sublist_flat_map; [apply sublist_refl|].
    intros s. now apply sem_comp_mono.
  Qed.

  Theorem sem_equal q' q : query_le q' q -> query_le q q' -> sem q' = sem q.
  Proof. intros H1 H2. apply sublist_antisym; now apply sem_mono. Qed.

  Theorem sem_comp_equal c' c imp r : comp_le c' c -> comp_le c c' -> sem_comp c' imp r = sem_comp c imp r.
  Proof. intros H1 H2. apply sublist_antisym; now apply sem_comp_mono. Qed.
End Mono.

(* ================= the transformations ================= *)
Section Transformations.
  Variable re : string -> string -> option bool.
  Variable g : graph.
  Variable args : list (string * fv).

  Local Notation sem_comp := (sem_comp re g args).
  Local Notation sem := (sem re g args).
  Local Notation comp_le := (comp_le re g args).
  Local Notation verts_le := (verts_le re g args).
  Local Notation vertex_le := (vertex_le re g args).
  Local Notation filter_imp := (filter_imp re g args).
  Local Notation query_le := (query_le re g args).

  Lemma find_vertex_vid' vs vid v : find_vertex vs vid = Some v -> v_vid v = vid.
  Proof.
    induction vs as [|x vs IH]; cbn [find_vertex]; [discriminate|].
    destruct (N.eqb_spec (v_vid x) vid); [now intros [= <-]|auto].
  Qed.

  Lemma find_upd_vertex vid F vs x :
    (forall v, v_vid (F v) = v_vid v) ->
    find_vertex (upd_vertex vid F vs) x =
    option_map (fun v => if N.eqb (v_vid v) vid then F v else v) (find_vertex vs x).
  Proof.
    intros HF. induction vs as [|w vs IH]; [reflexivity|]. cbn [upd_vertex map find_vertex].
    assert (Hw : v_vid (if N.eqb (v_vid w) vid then F w else w) = v_vid w) by (destruct (N.eqb (v_vid w) vid); [apply HF|reflexivity]).
    rewrite Hw. destruct (N.eqb (v_vid w) x); [reflexivity|]. exact IH.
  Qed.

  Lemma verts_le_upd vid F vs :
    (forall v, v_vid (F v) = v_vid v) ->
    (forall v, find_vertex vs vid = Some v -> vertex_le (F v) v) -> verts_le (upd_vertex vid F vs) vs.
  Proof.
    intros HF Hle x. rewrite (find_upd_vertex vid F vs x HF).
    destruct (find_vertex vs x) as [v|] eqn:E; cbn [option_map]; [|exact I].
    destruct (N.eqb_spec (v_vid v) vid) as [Hv|_]; [|apply vertex_le_refl].
    apply Hle. pose proof (find_vertex_vid' _ _ _ E). now subst.
  Qed.

  Lemma verts_ge_upd vid F vs :
    (forall v, v_vid (F v) = v_vid v) ->
    (forall v, find_vertex vs vid = Some v -> vertex_le v (F v)) -> verts_le vs (upd_vertex vid F vs).
  Proof.
    intros HF Hle x. rewrite (find_upd_vertex vid F vs x HF).
    destruct (find_vertex vs x) as [v|] eqn:E; cbn [option_map]; [|exact I].
    destruct (N.eqb_spec (v_vid v) vid) as [Hv|_]; [|apply vertex_le_refl].
    apply Hle. pose proof (find_vertex_vid' _ _ _ E). now subst.
  Qed.

  Lemma steps_le_upd eid F ss :
    (forall e, edge_le e (F e)) -> steps_le ss (upd_edge eid F ss).
  Proof.
    intros HF. induction ss as [|s ss IH]; cbn [upd_edge map]; constructor; [|exact IH].
    destruct s as [e|h c]; [|apply step_le_refl].
    destruct (N.eqb (e_eid e) eid); [apply HF|apply step_le_refl].
  Qed.

  (* ---------- 1. adding a filter never adds assignments / rows ---------- *)
  Lemma with_filter_le f v : vertex_le (with_filter f v) v.
  Proof.
    repeat split. intros f0 Hin. exists f0. split; [|apply filter_imp_refl].
    cbn [with_filter set_filters v_filters]. apply in_or_app. now left.
  Qed.

  Lemma add_filter_le vid f c : comp_le (add_filter vid f c) c.
  Proof.
    destruct c as [root vs ss outs]. split; [reflexivity|]. split; [|apply steps_le_refl].
    cbn [add_filter c_vertices]. apply verts_le_upd; [reflexivity|]. intros v _. apply with_filter_le.
  Qed.

  (* every assignment of the component with the extra filter is an assignment of the original
     component, in the same order — for ANY component (also one that owns folds, also the
     component of a fold), any imported tags and any root candidate *)
  Theorem add_filter_shrinks_asg vid f c imp r :
    sublist (sem_comp (add_filter vid f c) imp r) (sem_comp c imp r).
  Proof. apply sem_comp_mono. apply add_filter_le. Qed.

  Lemma with_comp_le q c' :
    comp_le c' (q_comp q) -> c_outputs c' = c_outputs (q_comp q) -> query_le (with_comp q c') q.
  Proof. intros Hc Ho. split; [reflexivity|]. split; [reflexivity|]. split; assumption. Qed.
  Lemma with_comp_ge q c' :
    comp_le (q_comp q) c' -> c_outputs c' = c_outputs (q_comp q) -> query_le q (with_comp q c').
  Proof. intros Hc Ho. split; [reflexivity|]. split; [reflexivity|]. split; [assumption|now symmetry]. Qed.

  (* rows: a filter on a vertex that is not under a fold *)
  Theorem add_filter_shrinks vid f q :
    sublist (sem (with_comp q (add_filter vid f (q_comp q)))) (sem q).
  Proof.
    apply sem_mono. apply with_comp_le; [apply add_filter_le|]. now destruct (q_comp q).
  Qed.

  Corollary add_filter_never_adds_rows vid f q :
    (List.length (sem (with_comp q (add_filter vid f (q_comp q)))) <= List.length (sem q))%nat.
  Proof. apply sublist_length. apply add_filter_shrinks. Qed.

  (* a filter INSIDE a fold: the fold's element list shrinks (for every source vertex) ... *)
  Theorem add_filter_in_fold_elements vid f sub imp n :
    sublist (sem_comp (add_filter vid f sub) imp (Some n)) (sem_comp sub imp (Some n)).
  Proof. apply add_filter_shrinks_asg. Qed.

  (* ---------- 2. raising a recursion depth never removes assignments / rows ---------- *)
  Lemma deeper_ge k e : edge_le e (deeper k e).
  Proof.
    unfold edge_le. cbn [deeper e_eid e_from e_to e_name e_params e_rec e_optional]. repeat split.
    destruct (e_rec e) as [r|]; [|tauto]. cbn [r_coerce r_depth]. split; [reflexivity|lia].
  Qed.

  Lemma raise_depth_ge eid k c : comp_le c (raise_depth eid k c).
  Proof.
    destruct c as [root vs ss outs]. split; [reflexivity|]. split; [apply verts_le_refl|].
    cbn [raise_depth c_steps]. apply steps_le_upd. intros e. apply deeper_ge.
  Qed.

  Theorem raise_depth_grows_asg eid k c imp r :
    sublist (sem_comp c imp r) (sem_comp (raise_depth eid k c) imp r).
  Proof. apply sem_comp_mono. apply raise_depth_ge. Qed.

  Theorem raise_depth_grows eid k q :
    sublist (sem q) (sem (with_comp q (raise_depth eid k (q_comp q)))).
  Proof.
    apply sem_mono. apply with_comp_ge; [apply raise_depth_ge|]. now destruct (q_comp q).
  Qed.

  (* ---------- 3. making an edge @optional keeps every assignment / row ---------- *)
  Lemma optionalize_ge e : edge_le e (optionalize e).
  Proof.
    unfold edge_le. cbn [optionalize e_eid e_from e_to e_name e_params e_rec e_optional]. repeat split.
    destruct (e_rec e) as [r|]; [split; [reflexivity|apply N.le_refl]|reflexivity].
  Qed.

  Lemma make_optional_ge eid c : comp_le c (make_optional eid c).
  Proof.
    destruct c as [root vs ss outs]. split; [reflexivity|]. split; [apply verts_le_refl|].
    cbn [make_optional c_steps]. apply steps_le_upd. intros e. apply optionalize_ge.
  Qed.

  Theorem make_optional_keeps_asg eid c imp r :
    sublist (sem_comp c imp r) (sem_comp (make_optional eid c) imp r).
  Proof. apply sem_comp_mono. apply make_optional_ge. Qed.

  Theorem make_optional_keeps_rows eid q :
    sublist (sem q) (sem (with_comp q (make_optional eid (q_comp q)))).
  Proof.
    apply sem_mono. apply with_comp_ge; [apply make_optional_ge|]. now destruct (q_comp q).
  Qed.

  (* ---------- reordering the filters of a vertex (= swapping sibling property selections) ---------- *)
  Lemma set_filters_le fs' v : (forall f, In f (v_filters v) -> In f fs') -> vertex_le (set_filters fs' v) v.
  Proof. intros Hin. repeat split. intros f Hf. exists f. split; [now apply Hin|apply filter_imp_refl]. Qed.
  Lemma set_filters_ge fs' v : (forall f, In f fs' -> In f (v_filters v)) -> vertex_le v (set_filters fs' v).
  Proof. intros Hin. repeat split. intros f Hf. exists f. split; [now apply Hin|apply filter_imp_refl]. Qed.

  Theorem reorder_filters_same_rows vid fs' q :
    (forall v, find_vertex (c_vertices (q_comp q)) vid = Some v -> Permutation (v_filters v) fs') ->
    sem (with_comp q (reorder_filters vid fs' (q_comp q))) = sem q.
  Proof.
    intros Hperm. destruct q as [rn rp c vars]. destruct c as [root vs ss outs].
    cbn [q_comp c_vertices] in Hperm. apply sem_equal.
    - apply with_comp_le; [|reflexivity]. split; [reflexivity|]. split; [|apply steps_le_refl].
      apply verts_le_upd; [reflexivity|]. intros v Hv. apply set_filters_le. intros f Hf.
      eapply Permutation_in; [apply (Hperm v Hv)|exact Hf].
    - apply with_comp_ge; [|reflexivity]. split; [reflexivity|]. split; [|apply steps_le_refl].
      apply verts_ge_upd; [reflexivity|]. intros v Hv. apply set_filters_ge. intros f Hf.
      eapply Permutation_in; [apply Permutation_sym, (Hperm v Hv)|exact Hf].
  Qed.

  (* ---------- 5. `=` and `one_of` with a single-element list agree ---------- *)
  Theorem eq_is_singleton_one_of l r :
    wf l = true -> wf r = true -> holds re Equals l r = holds re OneOf l (List [r]).
  Proof.
    intros Wl Wr. unfold holds.
    cbn [apply_tagged apply_filter_op_with_tagged_argument apply_filter_op negb].
    rewrite (equals_ok l r Wl Wr). rewrite (one_of_list l [r] Wl) by (cbn [forallb]; now rewrite Wr).
    cbn [existsb]. now rewrite Bool.orb_false_r.
  Qed.

  Section EqOneOf.
    Variables (x xs : string) (t' : ty).
    Hypothesis Hg : forall ty fld v, wf (g_prop g ty fld v) = true.
    Hypothesis Hx : wf (arg_or_null args x) = true.
    Hypothesis Hxs : lookup_str xs args = Some (List [arg_or_null args x]).

    Lemma eq_to_one_of_fpass vs ss imp a vid ty cand f :
      fpass re g args vs ss imp a vid ty cand (eq_to_one_of x xs t' f) = fpass re g args vs ss imp a vid ty cand f.
    Proof.
      unfold eq_to_one_of. destruct (vf_op f) eqn:Eop; try reflexivity.
      destruct (vf_arg f) as [[tg|y t]|] eqn:Earg; try reflexivity.
      destruct (String.eqb_spec y x) as [->|_]; [|reflexivity].
      unfold fpass. cbn [vf_op vf_field vf_arg]. rewrite Eop, Earg. cbn [option_map arg_value].
      rewrite Hxs. fold (arg_or_null args x). unfold filter_passes.
      destruct (present cand) eqn:Ep; cbn [negb opk_unary]; [|reflexivity].
      symmetry. apply eq_is_singleton_one_of; [|exact Hx].
      destruct cand as [v|]; cbn [prop_of]; [apply Hg|reflexivity].
    Qed.

    Lemma eq_to_one_of_equiv f : filter_imp f (eq_to_one_of x xs t' f) /\ filter_imp (eq_to_one_of x xs t' f) f.
    Proof. split; intros vs ss imp a vid ty cand Hp; [now rewrite eq_to_one_of_fpass|now rewrite eq_to_one_of_fpass in Hp]. Qed.

    Theorem eq_to_one_of_same_rows vid q :
      sem (with_comp q (map_filters vid (eq_to_one_of x xs t') (q_comp q))) = sem q.
    Proof.
      destruct q as [rn rp c vars]. destruct c as [root vs ss outs]. apply sem_equal.
      - apply with_comp_le; [|reflexivity]. split; [reflexivity|]. split; [|apply steps_le_refl].
        apply verts_le_upd; [reflexivity|]. intros v _. repeat split. intros f Hf.
        exists (eq_to_one_of x xs t' f). split; [cbn [set_filters v_filters]; now apply in_map|].
        apply eq_to_one_of_equiv.
      - apply with_comp_ge; [|reflexivity]. split; [reflexivity|]. split; [|apply steps_le_refl].
        apply verts_ge_upd; [reflexivity|]. intros v _. repeat split. intros f' Hf'.
        cbn [set_filters v_filters] in Hf'. apply in_map_iff in Hf'. destruct Hf' as (f & <- & Hf).
        exists f. split; [exact Hf|]. apply eq_to_one_of_equiv.
    Qed.
  End EqOneOf.
End Transformations.
