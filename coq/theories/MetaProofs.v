(* MetaProofs.v — the effect of the C23 query transformations (Meta.v) on the SPECIFICATION `sem`
   (Sem.v), for all queries, graphs and arguments.  Transfer to the engine is property C01. *)
From Coq Require Import Lia Permutation.
From TF Require Import ValuesProofs OpsProofs Sem SemProofs SimComp SimOut Meta.
Local Open Scope string_scope.
Local Open Scope N_scope.
Local Open Scope list_scope.

(* ================= order-preserving sub-sequences ================= *)
Section Sublist.
  Context {A : Type}.

  Lemma sublist_refl (l : list A) : sublist l l.
  Proof. induction l; [apply sl_nil|apply sl_keep; assumption]. Qed.

  Lemma sublist_nil_l (l : list A) : sublist [] l.
  Proof. induction l; [apply sl_nil|apply sl_skip; assumption]. Qed.

  Lemma sublist_app (a b c d : list A) : sublist a b -> sublist c d -> sublist (a ++ c) (b ++ d).
  Proof. intros H1 H2. induction H1; cbn [app]; [assumption|apply sl_skip|apply sl_keep]; assumption. Qed.

  Lemma sublist_trans (l1 l2 l3 : list A) : sublist l1 l2 -> sublist l2 l3 -> sublist l1 l3.
  Proof.
    intros H12 H23. revert l1 H12. induction H23 as [|x l2 l3 H IH|x l2 l3 H IH]; intros l1 H12.
    - assumption.
    - apply sl_skip. now apply IH.
    - inversion H12; subst; [apply sl_skip|apply sl_keep]; now apply IH.
  Qed.

  Lemma sublist_length (l1 l2 : list A) : sublist l1 l2 -> (List.length l1 <= List.length l2)%nat.
  Proof. induction 1; cbn [List.length]; lia. Qed.

  Lemma sublist_length_eq (l1 l2 : list A) :
    sublist l1 l2 -> (List.length l2 <= List.length l1)%nat -> l1 = l2.
  Proof.
    induction 1 as [|x l1 l2 H IH|x l1 l2 H IH]; cbn [List.length]; intros Hl.
    - reflexivity.
    - apply sublist_length in H. lia.
    - f_equal. apply IH. lia.
  Qed.

  Lemma sublist_antisym (l1 l2 : list A) : sublist l1 l2 -> sublist l2 l1 -> l1 = l2.
  Proof. intros H1 H2. apply sublist_length_eq; [assumption|]. now apply sublist_length. Qed.

  Lemma sublist_In (l1 l2 : list A) : sublist l1 l2 -> forall x, In x l1 -> In x l2.
  Proof. induction 1; intros y Hy; cbn in *; intuition. Qed.

  Lemma sublist_filter (p : A -> bool) (l : list A) : sublist (filter p l) l.
  Proof.
    induction l as [|x l IH]; cbn [filter]; [constructor|].
    destruct (p x); [apply sl_keep|apply sl_skip]; assumption.
  Qed.

  (* a sub-sequence is a sub-multiset: the larger list is a permutation of the smaller plus a rest *)
  Lemma sublist_multiset (l1 l2 : list A) : sublist l1 l2 -> exists rest, Permutation l2 (l1 ++ rest).
  Proof.
    induction 1 as [|x l1 l2 H (r & IH)|x l1 l2 H (r & IH)].
    - exists []. constructor.
    - exists (x :: r). eapply perm_trans; [apply perm_skip; exact IH|]. apply Permutation_middle.
    - exists r. cbn [app]. now apply perm_skip.
  Qed.
End Sublist.

Lemma sublist_map {A B} (f : A -> B) (l1 l2 : list A) : sublist l1 l2 -> sublist (map f l1) (map f l2).
Proof. induction 1; cbn [map]; [apply sl_nil|apply sl_skip|apply sl_keep]; assumption. Qed.

Lemma sublist_flat_map {A B} (f' f : A -> list B) (l' l : list A) :
  sublist l' l -> (forall a, sublist (f' a) (f a)) -> sublist (flat_map f' l') (flat_map f l).
Proof.
  intros H Hf. induction H as [|x l1 l2 H IH|x l1 l2 H IH]; cbn [flat_map].
  - constructor.
  - change (flat_map f' l1) with ([] ++ flat_map f' l1). apply sublist_app; [apply sublist_nil_l|assumption].
  - apply sublist_app; [apply Hf|assumption].
Qed.

Lemma fold_left_ext {A B} (f f' : A -> B -> A) (l : list B) :
  (forall m t, f m t = f' m t) -> forall m, fold_left f l m = fold_left f' l m.
Proof. intros H. induction l as [|x l IH]; intros m; cbn [fold_left]; [reflexivity|]. now rewrite H, IH. Qed.

Lemma forallb_ext_in {A} (p q : A -> bool) (l : list A) :
  (forall x, In x l -> p x = q x) -> forallb p l = forallb q l.
Proof.
  induction l as [|x l IH]; intros H; cbn [forallb]; [reflexivity|].
  rewrite (H x (or_introl eq_refl)), IH; [reflexivity|]. intros y Hy. apply H. now right.
Qed.

Lemma flat_map_filter_cond {A B} (q p : A -> bool) (h : A -> B) (l : list A) :
  flat_map (fun n => if p n then [h n] else []) (filter q l) =
  flat_map (fun n => if q n && p n then [h n] else []) l.
Proof.
  induction l as [|x l IH]; [reflexivity|]. cbn [filter flat_map].
  destruct (q x); cbn [andb flat_map]; now rewrite IH.
Qed.

Lemma flat_map_app_perm {A B} (f1 f2 : A -> list B) (l : list A) :
  Permutation (flat_map (fun a => f1 a ++ f2 a) l) (flat_map f1 l ++ flat_map f2 l).
Proof.
  induction l as [|x l IH]; cbn [flat_map]; [constructor|].
  rewrite <- !app_assoc. apply Permutation_app_head.
  eapply perm_trans; [apply Permutation_app_head; exact IH|].
  rewrite !app_assoc. apply Permutation_app_tail. apply Permutation_app_comm.
Qed.

(* ================= nested induction on components ================= *)
Section CompInd.
  Variable P : ir_component -> Prop.
  Hypothesis H : forall root vs ss outs,
    Forall (fun s => match s with SFold _ sub => P sub | SEdge _ => True end) ss ->
    P (mkComp root vs ss outs).
  Fixpoint comp_nested_ind (c : ir_component) : P c :=
    match c with
    | mkComp root vs ss outs =>
        H root vs ss outs
          ((fix go (ss : list step)
              : Forall (fun s => match s with SFold _ sub => P sub | SEdge _ => True end) ss :=
              match ss with
              | [] => Forall_nil _
              | SEdge e :: r => Forall_cons (SEdge e) I (go r)
              | SFold h sub :: r => Forall_cons (SFold h sub) (comp_nested_ind sub) (go r)
              end) ss)
    end.
End CompInd.

(* ================= @recurse: deeper is a super-sequence ================= *)
Lemma rec_from_sublist g oty rf ety co edge ps : forall k k' first v,
  (k <= k')%nat ->
  sublist (rec_from g k first oty rf ety co edge ps v) (rec_from g k' first oty rf ety co edge ps v).
Proof.
  induction k as [|k IH]; intros k' first v Hk.
  - destruct k'; cbn [rec_from]; apply sl_keep; apply sublist_nil_l.
  - destruct k' as [|k']; [lia|]. cbn [rec_from]. apply sl_keep.
    destruct (first || match co with Some to => g_coerce g ety to v | None => true end); [|apply sl_nil].
    apply sublist_flat_map; [apply sublist_refl|]. intros w. apply IH. lia.
Qed.

(* ================= the monotonicity framework ================= *)
Section Mono.
  Variable re : string -> string -> option bool.
  Variable g : graph.
  Variable args : list (string * fv).

  Local Notation enter := (enter re g args).
  Local Notation step_edge := (step_edge re g args).
  Local Notation step_fold := (step_fold re g args).
  Local Notation sem_comp := (sem_comp re g args).
  Local Notation sem_steps := (sem_steps re g args).
  Local Notation sem := (sem re g args).

  Definition present (cand : option vertex) : bool := match cand with Some _ => true | None => false end.

  (* one filter of the vertex (vid, ty) evaluated on the candidate `cand` *)
  Definition fpass vs ss imp a (vid : N) (ty : string) (cand : option vertex) (f : vfilter) : bool :=
    filter_passes re (vf_op f) (present cand) (prop_of g ty (vf_field f) cand)
                  (option_map (arg_value g args vs ss imp a vid ty cand) (vf_arg f)).

  Definition coercion_ok (v : ir_vertex) (cand : option vertex) : bool :=
    match v_from v, cand with
    | Some from, Some x => g_coerce g from (v_type v) x
    | _, _ => true
    end.

  Lemma enter_fpass vs ss imp a v cand :
    enter vs ss imp a v cand =
    coercion_ok v cand && forallb (fpass vs ss imp a (v_vid v) (v_type v) cand) (v_filters v).
  Proof. reflexivity. Qed.

  (* ---- what the step functions read of the vertex list and of the step list ---- *)
  Definition types_agree (vs vs' : list ir_vertex) : Prop :=
    forall vid, option_map v_type (find_vertex vs vid) = option_map v_type (find_vertex vs' vid).
  Definition folds_agree (ss ss' : list step) : Prop := forall eid, has_fold ss eid = has_fold ss' eid.

  Lemma context_value_agree vs vs' a imp cf :
    types_agree vs vs' -> context_value g vs a imp cf = context_value g vs' a imp cf.
  Proof.
    intros Ht. unfold context_value. specialize (Ht (cf_vid cf)).
    destruct (find_vertex vs (cf_vid cf)), (find_vertex vs' (cf_vid cf)); cbn in Ht; try discriminate; [|reflexivity].
    injection Ht as ->. reflexivity.
  Qed.

  Lemma arg_value_agree vs vs' ss ss' imp a cur ty cand arg :
    types_agree vs vs' -> folds_agree ss ss' ->
    arg_value g args vs ss imp a cur ty cand arg = arg_value g args vs' ss' imp a cur ty cand arg.
  Proof.
    intros Ht Hf. destruct arg as [[cf|ff]|x t]; cbn [arg_value]; [| |reflexivity].
    - destruct (N.eqb (cf_vid cf) cur); [reflexivity|]. now apply context_value_agree.
    - unfold count_value. now rewrite (Hf (ff_eid ff)).
  Qed.

  Lemma fpass_agree vs vs' ss ss' imp a vid ty cand f :
    types_agree vs vs' -> folds_agree ss ss' ->
    fpass vs ss imp a vid ty cand f = fpass vs' ss' imp a vid ty cand f.
  Proof.
    intros Ht Hf. unfold fpass. destruct (vf_arg f) as [arg|]; cbn [option_map]; [|reflexivity].
    now rewrite (arg_value_agree vs vs' ss ss' imp a vid ty cand arg Ht Hf).
  Qed.

  Lemma import_value_agree vs vs' ss ss' imp a t :
    types_agree vs vs' -> import_value g vs ss imp a t = import_value g vs' ss' imp a t.
  Proof.
    intros Ht. destruct t as [cf|ff]; cbn [import_value]; [|reflexivity].
    specialize (Ht (cf_vid cf)).
    destruct (find_vertex vs (cf_vid cf)), (find_vertex vs' (cf_vid cf)); cbn in Ht; try discriminate; [|reflexivity].
    injection Ht as ->. reflexivity.
  Qed.

  Lemma step_fold_agree vs vs' ss ss' imp h sub_sem a :
    types_agree vs vs' -> folds_agree ss ss' ->
    step_fold vs ss imp h sub_sem a = step_fold vs' ss' imp h sub_sem a.
  Proof.
    intros Ht Hf. unfold Sem.step_fold. pose proof (Ht (fo_from h)) as Hfrom.
    destruct (find_vertex vs (fo_from h)) as [fv1|], (find_vertex vs' (fo_from h)) as [fv2|];
      cbn in Hfrom; try discriminate; [|reflexivity].
    injection Hfrom as Hty.
    destruct (lookup_N (fo_from h) (a_v a)) as [[v|]|]; [|reflexivity|reflexivity].
    rewrite Hty.
    rewrite (fold_left_ext _ (fun m t => insert_ref t (import_value g vs' ss' imp a t) m));
      [|intros m t; now rewrite (import_value_agree vs vs' ss ss' imp a t Ht)].
    match goal with |- (if forallb ?p ?l then _ else _) = (if forallb ?q ?l then _ else _) =>
      rewrite (forallb_ext_in p q l) end; [reflexivity|].
    intros pf _. destruct (pf_arg pf) as [arg|]; cbn [option_map]; [|reflexivity].
    now rewrite (arg_value_agree vs vs' ss ss' imp _ (fo_from h) (v_type fv2) (Some v) arg Ht Hf).
  Qed.

  (* ---- vertices: more filters (semantically: stronger filters) ---- *)
  Definition filter_imp (f' f : vfilter) : Prop :=
    forall vs ss imp a vid ty cand,
      fpass vs ss imp a vid ty cand f' = true -> fpass vs ss imp a vid ty cand f = true.

  Lemma filter_imp_refl f : filter_imp f f.
  Proof. intros vs ss imp a vid ty cand Hp. exact Hp. Qed.

  Definition vertex_le (v' v : ir_vertex) : Prop :=
    v_vid v' = v_vid v /\ v_type v' = v_type v /\ v_from v' = v_from v /\
    forall f, In f (v_filters v) -> exists f', In f' (v_filters v') /\ filter_imp f' f.

  Lemma vertex_le_refl v : vertex_le v v.
  Proof. repeat split. intros f Hf. exists f. split; [assumption|apply filter_imp_refl]. Qed.

  Definition verts_le (vs' vs : list ir_vertex) : Prop :=
    forall vid, match find_vertex vs' vid, find_vertex vs vid with
                | Some v', Some v => vertex_le v' v
                | None, None => True
                | _, _ => False
                end.

  Lemma verts_le_refl vs : verts_le vs vs.
  Proof. intros vid. destruct (find_vertex vs vid); [apply vertex_le_refl|exact I]. Qed.

  Lemma verts_le_types vs' vs : verts_le vs' vs -> types_agree vs' vs.
  Proof.
    intros Hv vid. specialize (Hv vid).
    destruct (find_vertex vs' vid), (find_vertex vs vid); try contradiction; [|reflexivity].
    destruct Hv as (_ & Ht & _). cbn. now rewrite Ht.
  Qed.

  Lemma enter_mono vs' vs ss' ss imp a v' v cand :
    types_agree vs' vs -> folds_agree ss' ss -> vertex_le v' v ->
    enter vs' ss' imp a v' cand = true -> enter vs ss imp a v cand = true.
  Proof.
    intros Ht Hf (Hvid & Hty & Hfrom & Hfil) He. rewrite enter_fpass in *.
    apply andb_prop in He. destruct He as (Hc & Hall). apply andb_true_intro. split.
    - unfold coercion_ok in *. now rewrite <- Hfrom, <- Hty.
    - apply forallb_forall. intros f Hin. destruct (Hfil f Hin) as (f' & Hin' & Himp).
      rewrite forallb_forall in Hall. specialize (Hall f' Hin').
      rewrite (fpass_agree vs' vs ss' ss imp a _ _ cand f' Ht Hf) in Hall.
      rewrite Hvid, Hty in Hall. now apply Himp.
  Qed.

  (* ---- edges: shallower recursion / not optional ---- *)
  Definition edge_le (e' e : ir_edge) : Prop :=
    e_eid e' = e_eid e /\ e_from e' = e_from e /\ e_to e' = e_to e /\ e_name e' = e_name e /\
    e_params e' = e_params e /\
    match e_rec e', e_rec e with
    | Some r', Some r => r_coerce r' = r_coerce r /\ r_depth r' <= r_depth r
    | None, None => e_optional e' = true -> e_optional e = true
    | _, _ => False
    end.

  Lemma edge_le_refl e : edge_le e e.
  Proof.
    unfold edge_le. repeat split. destruct (e_rec e); [split; [reflexivity|apply N.le_refl]|tauto].
  Qed.

  Lemma step_edge_mono vs' vs ss' ss imp e' e a :
    verts_le vs' vs -> folds_agree ss' ss -> edge_le e' e ->
    sublist (step_edge vs' ss' imp e' a) (step_edge vs ss imp e a).
  Proof.
    intros Hv Hf (Heid & Hfrom & Hto & Hname & Hps & Hrec).
    pose proof (verts_le_types _ _ Hv) as Ht.
    unfold Sem.step_edge. rewrite Hfrom, Hto, Hname, Hps.
    pose proof (Hv (e_from e)) as Hvf. pose proof (Hv (e_to e)) as Hvt.
    destruct (find_vertex vs' (e_from e)) as [fromv'|], (find_vertex vs (e_from e)) as [fromv|];
      try contradiction; try apply sublist_nil_l.
    destruct (find_vertex vs' (e_to e)) as [tov'|], (find_vertex vs (e_to e)) as [tov|];
      try contradiction; try apply sublist_nil_l.
    destruct Hvf as (_ & Hfty & _). pose proof Hvt as (_ & Htty & Htfrom & _).
    apply sublist_flat_map.
    - destruct (lookup_N (e_from e) (a_v a)) as [[v|]|]; try apply sublist_refl.
      destruct (e_rec e') as [r'|], (e_rec e) as [r|]; try contradiction.
      + destruct Hrec as (Hco & Hd). rewrite Hfty, Htty, Htfrom, Hco. apply sublist_map.
        apply rec_from_sublist. lia.
      + rewrite Hfty. destruct (g_nbrs g (v_type fromv) (e_name e) (e_params e) v); [|apply sublist_refl].
        destruct (e_optional e') eqn:E'; [rewrite (Hrec eq_refl); apply sublist_refl|apply sublist_nil_l].
    - intros c. destruct (enter vs' ss' imp a tov' c) eqn:E; [|apply sublist_nil_l].
      rewrite (enter_mono vs' vs ss' ss imp a tov' tov c Ht Hf Hvt E). apply sublist_refl.
  Qed.

  (* ---- steps ---- *)
  Definition step_fn vs ss imp (s : step) (a : asg) : list asg :=
    match s with
    | SEdge e => step_edge vs ss imp e a
    | SFold h sub => step_fold vs ss imp h (sem_comp sub) a
    end.

  Lemma sem_steps_cons vs ss imp s todo rows :
    sem_steps vs ss imp (s :: todo) rows = sem_steps vs ss imp todo (flat_map (step_fn vs ss imp s) rows).
  Proof. destruct s; reflexivity. Qed.

  Lemma sem_steps_sub vs' vs ss' ss imp : forall todo' todo,
    Forall2 (fun s' s => forall a, sublist (step_fn vs' ss' imp s' a) (step_fn vs ss imp s a)) todo' todo ->
    forall rows' rows, sublist rows' rows ->
    sublist (sem_steps vs' ss' imp todo' rows') (sem_steps vs ss imp todo rows).
  Proof.
    induction 1 as [|s' s t' t Hs _ IH]; intros rows' rows Hr; [exact Hr|].
    rewrite !sem_steps_cons. apply IH. now apply sublist_flat_map.
  Qed.

  Lemma sem_steps_ext vs' vs ss' ss imp : forall todo' todo,
    Forall2 (fun s' s => forall a, step_fn vs' ss' imp s' a = step_fn vs ss imp s a) todo' todo ->
    forall rows, sem_steps vs' ss' imp todo' rows = sem_steps vs ss imp todo rows.
  Proof.
    induction 1 as [|s' s t' t Hs _ IH]; intros rows; [reflexivity|].
    rewrite !sem_steps_cons, IH. f_equal. apply flat_map_ext. exact Hs.
  Qed.

  Definition step_le (s' s : step) : Prop :=
    match s', s with
    | SEdge e', SEdge e => edge_le e' e
    | SFold h' c', SFold h c => h' = h /\ c' = c
    | _, _ => False
    end.
  Definition steps_le (ss' ss : list step) : Prop := Forall2 step_le ss' ss.

  Lemma step_le_refl s : step_le s s.
  Proof. destruct s; cbn; [apply edge_le_refl|split; reflexivity]. Qed.
  Lemma steps_le_refl ss : steps_le ss ss.
  Proof. induction ss; constructor; [apply step_le_refl|assumption]. Qed.

  Lemma steps_le_folds ss' ss : steps_le ss' ss -> folds_agree ss' ss.
  Proof.
    intros H eid. induction H as [|s' s t' t Hs _ IH]; [reflexivity|].
    destruct s' as [e'|h' c'], s as [e|h c]; cbn in Hs; try contradiction; cbn [has_fold]; [exact IH|].
    destruct Hs as (-> & _). now rewrite IH.
  Qed.

  Lemma step_fn_mono vs' vs ss' ss imp s' s a :
    verts_le vs' vs -> folds_agree ss' ss -> step_le s' s ->
    sublist (step_fn vs' ss' imp s' a) (step_fn vs ss imp s a).
  Proof.
    intros Hv Hf Hs. destruct s' as [e'|h' c'], s as [e|h c]; cbn in Hs; try contradiction; cbn [step_fn].
    - now apply step_edge_mono.
    - destruct Hs as (-> & ->).
      rewrite (step_fold_agree vs' vs ss' ss imp h (sem_comp c) a (verts_le_types _ _ Hv) Hf).
      apply sublist_refl.
  Qed.

  Lemma steps_le_fn vs' vs ss' ss imp :
    verts_le vs' vs -> folds_agree ss' ss -> forall todo' todo, steps_le todo' todo ->
    Forall2 (fun s' s => forall a, sublist (step_fn vs' ss' imp s' a) (step_fn vs ss imp s a)) todo' todo.
  Proof.
    intros Hv Hf todo' todo Hall. induction Hall as [|s' s t' t Hs _ IH]; constructor; [|exact IH].
    intros a. now apply step_fn_mono.
  Qed.

  (* ---- components ---- *)
  Definition comp_le (c' c : ir_component) : Prop :=
    c_root c' = c_root c /\ verts_le (c_vertices c') (c_vertices c) /\ steps_le (c_steps c') (c_steps c).

  (* every assignment of the smaller component is an assignment of the larger one, in the same order *)
  Theorem sem_comp_mono c' c imp r :
    comp_le c' c -> sublist (sem_comp c' imp r) (sem_comp c imp r).
  Proof.
    destruct c' as [root' vs' ss' outs'], c as [root vs ss outs]. intros (Hr & Hv & Hs).
    cbn [c_root c_vertices c_steps] in *. subst root'. rewrite !sem_comp_eq.
    pose proof (Hv root) as Hroot. pose proof (steps_le_folds _ _ Hs) as Hf.
    destruct (find_vertex vs' root) as [rv'|], (find_vertex vs root) as [rv|];
      try contradiction; try apply sublist_nil_l.
    destruct (enter vs' ss' imp (Asg [] []) rv' r) eqn:E; [|apply sublist_nil_l].
    rewrite (enter_mono vs' vs ss' ss imp _ rv' rv r (verts_le_types _ _ Hv) Hf Hroot E).
    apply sem_steps_sub; [|apply sublist_refl].
    now apply steps_le_fn.
  Qed.

  Lemma project_agree c' c a :
    comp_le c' c -> c_outputs c' = c_outputs c -> project g c' a = project g c a.
  Proof.
    destruct c' as [root' vs' ss' outs'], c as [root vs ss outs]. intros (_ & Hv & Hs) Ho.
    cbn [c_root c_vertices c_steps c_outputs] in *. subst outs'. cbn [project].
    pose proof (verts_le_types _ _ Hv) as Ht. f_equal.
    - apply map_ext. intros [n cf]. cbn [fst snd]. f_equal. specialize (Ht (cf_vid cf)).
      destruct (find_vertex vs' (cf_vid cf)), (find_vertex vs (cf_vid cf)); cbn in Ht; try discriminate; [|reflexivity].
      injection Ht as ->. reflexivity.
    - unfold steps_le in Hs. induction Hs as [|s' s t' t Hs _ IH]; [reflexivity|].
      destruct s' as [e'|h' c'], s as [e|h c]; cbn in Hs; try contradiction; [exact IH|].
      destruct Hs as (-> & ->). now rewrite IH.
  Qed.

  (* ---- queries ---- *)
  Definition query_le (q' q : ir_query) : Prop :=
    q_root_name q' = q_root_name q /\ q_root_params q' = q_root_params q /\
    comp_le (q_comp q') (q_comp q) /\ c_outputs (q_comp q') = c_outputs (q_comp q).

  Theorem sem_mono q' q : query_le q' q -> sublist (sem q') (sem q).
  Proof.
    intros (Hn & Hp & Hc & Ho). unfold Sem.sem. rewrite Hn, Hp.
    rewrite (map_ext _ (fun a => sort_row (project g (q_comp q) a)));
      [|intros a; now rewrite (project_agree _ _ a Hc Ho)].
    apply sublist_map. apply sublist_flat_map; [apply sublist_refl|].
    intros s. now apply sem_comp_mono.
  Qed.

  Theorem sem_equal q' q : query_le q' q -> query_le q q' -> sem q' = sem q.
  Proof. intros H1 H2. apply sublist_antisym; now apply sem_mono. Qed.

  Theorem sem_comp_equal c' c imp r : comp_le c' c -> comp_le c c' -> sem_comp c' imp r = sem_comp c imp r.
  Proof. intros H1 H2. apply sublist_antisym; now apply sem_comp_mono. Qed.
End Mono.

(* ================= the transformations ================= *)
Section Transformations.
  Variable re : string -> string -> option bool.
  Variable g : graph.
  Variable args : list (string * fv).

  Local Notation sem_comp := (sem_comp re g args).
  Local Notation sem := (sem re g args).
  Local Notation comp_le := (comp_le re g args).
  Local Notation verts_le := (verts_le re g args).
  Local Notation vertex_le := (vertex_le re g args).
  Local Notation filter_imp := (filter_imp re g args).
  Local Notation query_le := (query_le re g args).

  Lemma find_vertex_vid' vs vid v : find_vertex vs vid = Some v -> v_vid v = vid.
  Proof.
    induction vs as [|x vs IH]; cbn [find_vertex]; [discriminate|].
    destruct (N.eqb_spec (v_vid x) vid); [now intros [= <-]|auto].
  Qed.

  Lemma find_upd_vertex vid F vs x :
    (forall v, v_vid (F v) = v_vid v) ->
    find_vertex (upd_vertex vid F vs) x =
    option_map (fun v => if N.eqb (v_vid v) vid then F v else v) (find_vertex vs x).
  Proof.
    intros HF. induction vs as [|w vs IH]; [reflexivity|]. cbn [upd_vertex map find_vertex].
    assert (Hw : v_vid (if N.eqb (v_vid w) vid then F w else w) = v_vid w) by (destruct (N.eqb (v_vid w) vid); [apply HF|reflexivity]).
    rewrite Hw. destruct (N.eqb (v_vid w) x); [reflexivity|]. exact IH.
  Qed.

  Lemma verts_le_upd vid F vs :
    (forall v, v_vid (F v) = v_vid v) ->
    (forall v, find_vertex vs vid = Some v -> vertex_le (F v) v) -> verts_le (upd_vertex vid F vs) vs.
  Proof.
    intros HF Hle x. rewrite (find_upd_vertex vid F vs x HF).
    destruct (find_vertex vs x) as [v|] eqn:E; cbn [option_map]; [|exact I].
    destruct (N.eqb_spec (v_vid v) vid) as [Hv|_]; [|apply vertex_le_refl].
    apply Hle. pose proof (find_vertex_vid' _ _ _ E). now subst.
  Qed.

  Lemma verts_ge_upd vid F vs :
    (forall v, v_vid (F v) = v_vid v) ->
    (forall v, find_vertex vs vid = Some v -> vertex_le v (F v)) -> verts_le vs (upd_vertex vid F vs).
  Proof.
    intros HF Hle x. rewrite (find_upd_vertex vid F vs x HF).
    destruct (find_vertex vs x) as [v|] eqn:E; cbn [option_map]; [|exact I].
    destruct (N.eqb_spec (v_vid v) vid) as [Hv|_]; [|apply vertex_le_refl].
    apply Hle. pose proof (find_vertex_vid' _ _ _ E). now subst.
  Qed.

  Lemma steps_le_upd eid F ss :
    (forall e, edge_le e (F e)) -> steps_le ss (upd_edge eid F ss).
  Proof.
    intros HF. induction ss as [|s ss IH]; cbn [upd_edge map]; constructor; [|exact IH].
    destruct s as [e|h c]; [|apply step_le_refl].
    destruct (N.eqb (e_eid e) eid); [apply HF|apply step_le_refl].
  Qed.

  (* ---------- 1. adding a filter never adds assignments / rows ---------- *)
  Lemma with_filter_le f v : vertex_le (with_filter f v) v.
  Proof.
    repeat split. intros f0 Hin. exists f0. split; [|apply filter_imp_refl].
    cbn [with_filter set_filters v_filters]. apply in_or_app. now left.
  Qed.

  Lemma add_filter_le vid f c : comp_le (add_filter vid f c) c.
  Proof.
    destruct c as [root vs ss outs]. split; [reflexivity|]. split; [|apply steps_le_refl].
    cbn [add_filter c_vertices]. apply verts_le_upd; [reflexivity|]. intros v _. apply with_filter_le.
  Qed.

  (* every assignment of the component with the extra filter is an assignment of the original
     component, in the same order — for ANY component (also one that owns folds, also the
     component of a fold), any imported tags and any root candidate *)
  Theorem add_filter_shrinks_asg vid f c imp r :
    sublist (sem_comp (add_filter vid f c) imp r) (sem_comp c imp r).
  Proof. apply sem_comp_mono. apply add_filter_le. Qed.

  Lemma with_comp_le q c' :
    comp_le c' (q_comp q) -> c_outputs c' = c_outputs (q_comp q) -> query_le (with_comp q c') q.
  Proof. intros Hc Ho. split; [reflexivity|]. split; [reflexivity|]. split; assumption. Qed.
  Lemma with_comp_ge q c' :
    comp_le (q_comp q) c' -> c_outputs c' = c_outputs (q_comp q) -> query_le q (with_comp q c').
  Proof. intros Hc Ho. split; [reflexivity|]. split; [reflexivity|]. split; [assumption|now symmetry]. Qed.

  (* rows: a filter on a vertex that is not under a fold *)
  Theorem add_filter_shrinks vid f q :
    sublist (sem (with_comp q (add_filter vid f (q_comp q)))) (sem q).
  Proof.
    apply sem_mono. apply with_comp_le; [apply add_filter_le|]. now destruct (q_comp q).
  Qed.

  Corollary add_filter_never_adds_rows vid f q :
    (List.length (sem (with_comp q (add_filter vid f (q_comp q)))) <= List.length (sem q))%nat.
  Proof. apply sublist_length. apply add_filter_shrinks. Qed.

  (* a filter INSIDE a fold: the fold's element list shrinks (for every source vertex) ... *)
  Theorem add_filter_in_fold_elements vid f sub imp n :
    sublist (sem_comp (add_filter vid f sub) imp (Some n)) (sem_comp sub imp (Some n)).
  Proof. apply add_filter_shrinks_asg. Qed.

  (* ---------- 2. raising a recursion depth never removes assignments / rows ---------- *)
  Lemma deeper_ge k e : edge_le e (deeper k e).
  Proof.
    unfold edge_le. cbn [deeper e_eid e_from e_to e_name e_params e_rec e_optional]. repeat split.
    destruct (e_rec e) as [r|]; [|tauto]. cbn [r_coerce r_depth]. split; [reflexivity|lia].
  Qed.

  Lemma raise_depth_ge eid k c : comp_le c (raise_depth eid k c).
  Proof.
    destruct c as [root vs ss outs]. split; [reflexivity|]. split; [apply verts_le_refl|].
    cbn [raise_depth c_steps]. apply steps_le_upd. intros e. apply deeper_ge.
  Qed.

  Theorem raise_depth_grows_asg eid k c imp r :
    sublist (sem_comp c imp r) (sem_comp (raise_depth eid k c) imp r).
  Proof. apply sem_comp_mono. apply raise_depth_ge. Qed.

  Theorem raise_depth_grows eid k q :
    sublist (sem q) (sem (with_comp q (raise_depth eid k (q_comp q)))).
  Proof.
    apply sem_mono. apply with_comp_ge; [apply raise_depth_ge|]. now destruct (q_comp q).
  Qed.

  (* ---------- 3. making an edge @optional keeps every assignment / row ---------- *)
  Lemma optionalize_ge e : edge_le e (optionalize e).
  Proof.
    unfold edge_le. cbn [optionalize e_eid e_from e_to e_name e_params e_rec e_optional]. repeat split.
    destruct (e_rec e) as [r|]; [split; [reflexivity|apply N.le_refl]|reflexivity].
  Qed.

  Lemma make_optional_ge eid c : comp_le c (make_optional eid c).
  Proof.
    destruct c as [root vs ss outs]. split; [reflexivity|]. split; [apply verts_le_refl|].
    cbn [make_optional c_steps]. apply steps_le_upd. intros e. apply optionalize_ge.
  Qed.

  Theorem make_optional_keeps_asg eid c imp r :
    sublist (sem_comp c imp r) (sem_comp (make_optional eid c) imp r).
  Proof. apply sem_comp_mono. apply make_optional_ge. Qed.

  Theorem make_optional_keeps_rows eid q :
    sublist (sem q) (sem (with_comp q (make_optional eid (q_comp q)))).
  Proof.
    apply sem_mono. apply with_comp_ge; [apply make_optional_ge|]. now destruct (q_comp q).
  Qed.

  (* ---------- reordering the filters of a vertex (= swapping sibling property selections) ---------- *)
  Lemma set_filters_le fs' v : (forall f, In f (v_filters v) -> In f fs') -> vertex_le (set_filters fs' v) v.
  Proof. intros Hin. repeat split. intros f Hf. exists f. split; [now apply Hin|apply filter_imp_refl]. Qed.
  Lemma set_filters_ge fs' v : (forall f, In f fs' -> In f (v_filters v)) -> vertex_le v (set_filters fs' v).
  Proof. intros Hin. repeat split. intros f Hf. exists f. split; [now apply Hin|apply filter_imp_refl]. Qed.

  Theorem reorder_filters_same_rows vid fs' q :
    (forall v, find_vertex (c_vertices (q_comp q)) vid = Some v -> Permutation (v_filters v) fs') ->
    sem (with_comp q (reorder_filters vid fs' (q_comp q))) = sem q.
  Proof.
    intros Hperm. destruct q as [rn rp c vars]. destruct c as [root vs ss outs].
    cbn [q_comp c_vertices] in Hperm. apply sem_equal.
    - apply with_comp_le; [|reflexivity]. split; [reflexivity|]. split; [|apply steps_le_refl].
      apply verts_le_upd; [reflexivity|]. intros v Hv. apply set_filters_le. intros f Hf.
      eapply Permutation_in; [apply (Hperm v Hv)|exact Hf].
    - apply with_comp_ge; [|reflexivity]. split; [reflexivity|]. split; [|apply steps_le_refl].
      apply verts_ge_upd; [reflexivity|]. intros v Hv. apply set_filters_ge. intros f Hf.
      eapply Permutation_in; [apply Permutation_sym, (Hperm v Hv)|exact Hf].
  Qed.

  (* ---------- 5. `=` and `one_of` with a single-element list agree ---------- *)
  Theorem eq_is_singleton_one_of l r :
    wf l = true -> wf r = true -> holds re Equals l r = holds re OneOf l (List [r]).
  Proof.
    intros Wl Wr. unfold holds.
    cbn [apply_tagged apply_filter_op_with_tagged_argument apply_filter_op negb].
    rewrite (equals_ok l r Wl Wr). rewrite (one_of_list l [r] Wl) by (cbn [forallb]; now rewrite Wr).
    cbn [existsb]. now rewrite Bool.orb_false_r.
  Qed.

  Section EqOneOf.
    Variables (x xs : string) (t' : ty).
    Hypothesis Hg : forall ty fld v, wf (g_prop g ty fld v) = true.
    Hypothesis Hx : wf (arg_or_null args x) = true.
    Hypothesis Hxs : lookup_str xs args = Some (List [arg_or_null args x]).

    Lemma eq_to_one_of_fpass vs ss imp a vid ty cand f :
      fpass re g args vs ss imp a vid ty cand (eq_to_one_of x xs t' f) = fpass re g args vs ss imp a vid ty cand f.
    Proof.
      unfold eq_to_one_of. destruct (vf_op f) eqn:Eop; try reflexivity.
      destruct (vf_arg f) as [[tg|y t]|] eqn:Earg; try reflexivity.
      destruct (String.eqb_spec y x) as [->|_]; [|reflexivity].
      unfold fpass. cbn [vf_op vf_field vf_arg]. rewrite Eop, Earg. cbn [option_map arg_value].
      rewrite Hxs. fold (arg_or_null args x). unfold filter_passes.
      destruct (present cand) eqn:Ep; cbn [negb opk_unary]; [|reflexivity].
      symmetry. apply eq_is_singleton_one_of; [|exact Hx].
      destruct cand as [v|]; cbn [prop_of]; [apply Hg|reflexivity].
    Qed.

    Lemma eq_to_one_of_equiv f : filter_imp f (eq_to_one_of x xs t' f) /\ filter_imp (eq_to_one_of x xs t' f) f.
    Proof. split; intros vs ss imp a vid ty cand Hp; [now rewrite eq_to_one_of_fpass|now rewrite eq_to_one_of_fpass in Hp]. Qed.

    Theorem eq_to_one_of_same_rows vid q :
      sem (with_comp q (map_filters vid (eq_to_one_of x xs t') (q_comp q))) = sem q.
    Proof.
      destruct q as [rn rp c vars]. destruct c as [root vs ss outs]. apply sem_equal.
      - apply with_comp_le; [|reflexivity]. split; [reflexivity|]. split; [|apply steps_le_refl].
        apply verts_le_upd; [reflexivity|]. intros v _. repeat split. intros f Hf.
        exists (eq_to_one_of x xs t' f). split; [cbn [set_filters v_filters]; now apply in_map|].
        apply eq_to_one_of_equiv.
      - apply with_comp_ge; [|reflexivity]. split; [reflexivity|]. split; [|apply steps_le_refl].
        apply verts_ge_upd; [reflexivity|]. intros v _. repeat split. intros f' Hf'.
        cbn [set_filters v_filters] in Hf'. apply in_map_iff in Hf'. destruct Hf' as (f & <- & Hf).
        exists f. split; [exact Hf|]. apply eq_to_one_of_equiv.
    Qed.
  End EqOneOf.
End Transformations.

(* ================= 6. a filter and its negation ================= *)
Section Negation.
  Variable re : string -> string -> option bool.

  Lemma negate_op_unary op : opk_unary (negate_op op) = opk_unary op.
  Proof. destruct op; reflexivity. Qed.

  Lemma negate_op_involutive op : negate_op (negate_op op) = op.
  Proof. destruct op; reflexivity. Qed.

  (* the two dispatch-table entries are exact complements whenever the operator returns at all *)
  Lemma holds_negate op l r b :
    opk_unary op = false -> has_negation op = true ->
    apply_tagged re op l (Some r) true = Ok b ->
    holds re (negate_op op) l r = negb (holds re op l r).
  Proof.
    intros Hu Hn H. unfold holds.
    destruct op; try discriminate Hu; try discriminate Hn;
      cbn [negate_op apply_tagged apply_filter_op_with_tagged_argument apply_filter_op negb] in *;
      unfold not_ in *;
      match type of H with
      | bind ?x _ = _ => destruct x; cbn [bind] in *; [now rewrite Bool.negb_involutive|discriminate H]
      | ?x = Ok _ => rewrite H; cbn [bind]; reflexivity
      end.
  Qed.

  (* present candidate, right operand present: exactly one of the two filters passes *)
  Theorem filter_negation_exact op left r b :
    opk_unary op = false -> has_negation op = true ->
    apply_tagged re op left (Some r) true = Ok b ->
    filter_passes re (negate_op op) true left (Some (TSome r)) =
    negb (filter_passes re op true left (Some (TSome r))).
  Proof.
    intros Hu Hn H. unfold filter_passes. cbn [negb]. rewrite negate_op_unary, Hu.
    now apply (holds_negate op left r b).
  Qed.

  Theorem filter_negation_unary op left right :
    opk_unary op = true ->
    filter_passes re (negate_op op) true left right = negb (filter_passes re op true left right).
  Proof.
    intros Hu. unfold filter_passes. cbn [negb]. rewrite negate_op_unary, Hu.
    destruct op; try discriminate Hu; unfold holds_unary; cbn [negate_op apply_unary negb orb];
      [reflexivity|now rewrite Bool.negb_involutive].
  Qed.

  (* inside a missing @optional scope, or against a tag from a missing @optional scope, BOTH pass *)
  Theorem filter_negation_missing_scope op left right :
    filter_passes re op false left right = true /\ filter_passes re (negate_op op) false left right = true.
  Proof. split; reflexivity. Qed.

  Theorem filter_negation_missing_tag op left present :
    opk_unary op = false ->
    filter_passes re op present left (Some TNone) = true /\
    filter_passes re (negate_op op) present left (Some TNone) = true.
  Proof.
    intros Hu. split; apply filter_passes_missing_tag; [assumption|now rewrite negate_op_unary].
  Qed.

  (* and a panicking operator counts as "no" for both (the reason for the no-panic hypothesis) *)
  Theorem filter_negation_panic op l r site :
    opk_unary op = false -> apply_tagged re op l (Some r) true = Panic site ->
    holds re op l r = false /\ holds re (negate_op op) l r = false.
  Proof.
    intros Hu H. unfold holds. rewrite H. split; [reflexivity|].
    destruct op; try discriminate Hu;
      cbn [negate_op apply_tagged apply_filter_op_with_tagged_argument apply_filter_op negb] in *;
      unfold not_ in *;
      try (rewrite H; reflexivity);
      match type of H with
      | bind ?x _ = _ => destruct x; cbn [bind] in *; [discriminate H|reflexivity]
      | _ => idtac
      end.
  Qed.
End Negation.

(* ================= changes confined to one vertex ================= *)
Section Local.
  Variable re : string -> string -> option bool.
  Variable g : graph.
  Variable args : list (string * fv).

  Local Notation enter := (enter re g args).
  Local Notation step_edge := (step_edge re g args).
  Local Notation sem_comp := (sem_comp re g args).
  Local Notation sem_steps := (sem_steps re g args).
  Local Notation sem := (sem re g args).
  Local Notation fp := (fpass re g args).
  Local Notation stepf := (step_fn re g args).

  Lemma enter_agree vs vs' ss ss' imp a v cand :
    types_agree vs vs' -> folds_agree ss ss' -> enter vs ss imp a v cand = enter vs' ss' imp a v cand.
  Proof.
    intros Ht Hf. rewrite !enter_fpass. f_equal. apply forallb_ext_in. intros f _.
    now apply fpass_agree.
  Qed.

  Definition keeps_key (F : ir_vertex -> ir_vertex) : Prop :=
    forall v, v_vid (F v) = v_vid v /\ v_type (F v) = v_type v /\ v_from (F v) = v_from v.

  Lemma keeps_key_vid F : keeps_key F -> forall v, v_vid (F v) = v_vid v.
  Proof. intros H v. apply H. Qed.

  Lemma upd_vertex_types vid F vs : keeps_key F -> types_agree (upd_vertex vid F vs) vs.
  Proof.
    intros HF x. rewrite (find_upd_vertex vid F vs x (keeps_key_vid F HF)).
    destruct (find_vertex vs x) as [v|]; cbn [option_map]; [|reflexivity].
    destruct (N.eqb (v_vid v) vid); [|reflexivity]. f_equal. apply HF.
  Qed.

  Lemma upd_edge_folds eid F ss : folds_agree (upd_edge eid F ss) ss.
  Proof.
    intros x. induction ss as [|[e|h c] ss IH]; cbn [upd_edge map has_fold]; [reflexivity| |].
    - destruct (N.eqb (e_eid e) eid); exact IH.
    - fold (upd_edge eid F ss). now rewrite IH.
  Qed.

  Lemma find_upd_other vid F vs x v :
    keeps_key F -> find_vertex vs x = Some v -> x <> vid -> find_vertex (upd_vertex vid F vs) x = Some v.
  Proof.
    intros HF E Hne. rewrite (find_upd_vertex vid F vs x (keeps_key_vid F HF)), E. cbn [option_map].
    pose proof (find_vertex_vid' _ _ _ E) as Hv. destruct (N.eqb_spec (v_vid v) vid); [congruence|reflexivity].
  Qed.

  (* an edge that does not lead to `vid` does not see the filters of `vid` *)
  Lemma step_edge_except vid F vs ss' ss imp e a :
    keeps_key F -> folds_agree ss' ss -> e_to e <> vid ->
    step_edge (upd_vertex vid F vs) ss' imp e a = step_edge vs ss imp e a.
  Proof.
    intros HF Hf Hne. pose proof (upd_vertex_types vid F vs HF) as Ht.
    unfold Sem.step_edge. pose proof (Ht (e_from e)) as Hfrom.
    destruct (find_vertex vs (e_to e)) as [tov|] eqn:Eto.
    - rewrite (find_upd_other vid F vs (e_to e) tov HF Eto Hne).
      destruct (find_vertex (upd_vertex vid F vs) (e_from e)) as [fromv'|],
               (find_vertex vs (e_from e)) as [fromv|]; cbn in Hfrom; try discriminate; [|reflexivity].
      injection Hfrom as ->.
      apply flat_map_ext. intros c. now rewrite (enter_agree _ vs ss' ss imp a tov c Ht Hf).
    - rewrite (find_upd_vertex vid F vs (e_to e) (keeps_key_vid F HF)), Eto. cbn [option_map].
      destruct (find_vertex (upd_vertex vid F vs) (e_from e)), (find_vertex vs (e_from e)); reflexivity.
  Qed.

  Lemma step_fn_except vid F vs ss' ss imp s a :
    keeps_key F -> folds_agree ss' ss ->
    match s with SEdge e => e_to e <> vid | SFold _ _ => True end ->
    stepf (upd_vertex vid F vs) ss' imp s a = stepf vs ss imp s a.
  Proof.
    intros HF Hf Hs. destruct s as [e|h c]; cbn [step_fn].
    - now apply step_edge_except.
    - apply step_fold_agree; [now apply upd_vertex_types|assumption].
  Qed.

  Lemma sem_steps_except vid F vs ss imp : keeps_key F -> forall todo rows,
    never_entered vid todo = true ->
    sem_steps (upd_vertex vid F vs) ss imp todo rows = sem_steps vs ss imp todo rows.
  Proof.
    intros HF todo rows Hn. apply sem_steps_ext.
    induction todo as [|s todo IH]; constructor.
    - intros a. apply step_fn_except; [assumption|intros x; reflexivity|].
      cbn [never_entered forallb] in Hn. apply andb_prop in Hn. destruct Hn as (Hs & _).
      destruct s as [e|h c]; [|exact I]. destruct (N.eqb_spec (e_to e) vid); [discriminate|assumption].
    - apply IH. cbn [never_entered forallb] in Hn. apply andb_prop in Hn. apply Hn.
  Qed.

  Lemma with_filter_keeps f : keeps_key (with_filter f).
  Proof. intros v. repeat split. Qed.

  Lemma enter_with_filter vs' vs ss' ss imp a f v cand :
    types_agree vs' vs -> folds_agree ss' ss ->
    enter vs' ss' imp a (with_filter f v) cand =
    enter vs ss imp a v cand && fp vs ss imp a (v_vid v) (v_type v) cand f.
  Proof.
    intros Ht Hf. rewrite (enter_agree vs' vs ss' ss imp a _ cand Ht Hf). rewrite !enter_fpass.
    cbn [with_filter set_filters v_filters v_vid v_type]. rewrite forallb_app. cbn [forallb].
    rewrite Bool.andb_true_r, Bool.andb_assoc. reflexivity.
  Qed.

  (* a filter on the root vertex of a component keeps exactly the root candidates that satisfy it *)
  Lemma sem_comp_add_filter_root root vs ss outs f rv imp r :
    find_vertex vs root = Some rv -> never_entered root ss = true ->
    sem_comp (add_filter root f (mkComp root vs ss outs)) imp r =
    if fp vs ss imp (Asg [] []) root (v_type rv) r f then sem_comp (mkComp root vs ss outs) imp r else [].
  Proof.
    intros Er Hn. cbn [add_filter]. rewrite !sem_comp_eq.
    rewrite (find_upd_vertex root (with_filter f) vs root (keeps_key_vid _ (with_filter_keeps f))), Er.
    cbn [option_map]. pose proof (find_vertex_vid' _ _ _ Er) as Hvid. rewrite Hvid, N.eqb_refl.
    rewrite (enter_with_filter _ vs ss ss imp (Asg [] []) f rv r
               (upd_vertex_types root _ vs (with_filter_keeps f)) (fun x => eq_refl)).
    rewrite Hvid. rewrite (sem_steps_except root _ vs ss imp (with_filter_keeps f) ss _ Hn).
    destruct (enter vs ss imp (Asg [] []) rv r), (fp vs ss imp (Asg [] []) root (v_type rv) r f); reflexivity.
  Qed.

  (* ---------- 6'. a filter on the root vertex and its negation partition the rows ---------- *)
  Lemma fpass_negate vs ss imp a vid ty s f :
    arg_local vid f = true -> has_negation (vf_op f) = true -> filter_no_panic re g args vid ty f ->
    fp vs ss imp a vid ty (Some s) (negate_filter f) = negb (fp vs ss imp a vid ty (Some s) f).
  Proof.
    intros Hl Hn Hnp. unfold fpass. cbn [negate_filter vf_op vf_field vf_arg present].
    destruct (opk_unary (vf_op f)) eqn:Hu; [now apply filter_negation_unary|].
    specialize (Hnp s vs ss imp a). unfold arg_local in Hl.
    destruct (vf_arg f) as [[[cf|ff]|x t]|]; cbn [option_map arg_value] in *; try congruence.
    - rewrite Hl in *. destruct (Hnp _ eq_refl) as (b & Hb). cbn [prop_of] in *.
      now apply (filter_negation_exact re (vf_op f) _ _ b).
    - destruct (Hnp _ eq_refl) as (b & Hb). cbn [prop_of].
      now apply (filter_negation_exact re (vf_op f) _ _ b).
  Qed.

  Theorem filter_negation_partitions_root q root vs ss outs rv f :
    q_comp q = mkComp root vs ss outs ->
    find_vertex vs root = Some rv -> never_entered root ss = true ->
    arg_local root f = true -> has_negation (vf_op f) = true ->
    filter_no_panic re g args root (v_type rv) f ->
    Permutation (sem q)
                (sem (with_comp q (add_filter root f (q_comp q))) ++
                 sem (with_comp q (add_filter root (negate_filter f) (q_comp q)))).
  Proof.
    intros Hq Er Hn Hl Hneg Hnp. unfold Sem.sem. cbn [with_comp q_comp q_root_name q_root_params].
    set (c := q_comp q).
    assert (Hproj : forall f0 a, project g (add_filter root f0 c) a = project g c a).
    { intros f0 a. apply (project_agree re g args); [apply add_filter_le|]. now destruct c. }
    rewrite (map_ext (fun a => sort_row (project g (add_filter root f c) a))
                     (fun a => sort_row (project g c a))) by (intros a; now rewrite Hproj).
    rewrite (map_ext (fun a => sort_row (project g (add_filter root (negate_filter f) c) a))
                     (fun a => sort_row (project g c a))) by (intros a; now rewrite Hproj).
    rewrite <- map_app. apply Permutation_map.
    set (starts := g_starts g (q_root_name q) (q_root_params q)).
    eapply perm_trans; [|apply flat_map_app_perm].
    rewrite (flat_map_ext (fun s => sem_comp c [] (Some s))
                          (fun s => sem_comp (add_filter root f c) [] (Some s) ++
                                    sem_comp (add_filter root (negate_filter f) c) [] (Some s))); [apply Permutation_refl|].
    intros s. subst c. rewrite Hq.
    rewrite !(sem_comp_add_filter_root root vs ss outs _ rv [] (Some s) Er Hn).
    rewrite (fpass_negate vs ss [] (Asg [] []) root (v_type rv) s f Hl Hneg Hnp).
    destruct (fp vs ss [] (Asg [] []) root (v_type rv) (Some s) f); cbn [negb app]; [now rewrite app_nil_r|reflexivity].
  Qed.
End Local.

(* ================= 4. a parameterised plain edge = the base edge + a filter ================= *)
Lemma filter_true_id {A} (p : A -> bool) (l : list A) : (forall x, p x = true) -> filter p l = l.
Proof. intros H. induction l as [|x l IH]; cbn [filter]; [reflexivity|]. now rewrite H, IH. Qed.

Lemma filter_filter {A} (p q : A -> bool) (l : list A) :
  filter p (filter q l) = filter (fun x => q x && p x) l.
Proof.
  induction l as [|x l IH]; [reflexivity|]. cbn [filter].
  destruct (q x); cbn [filter andb]; [destruct (p x)|]; now rewrite IH.
Qed.

(* datasets (Graph.v): a parameterised edge yields the neighbours of the unparameterised edge that
   the parameters keep, in the same order *)
Theorem ds_nbrs_params d ty name ps v :
  ds_nbrs d ty name ps v = filter (params_keep ps) (ds_nbrs d ty name [] v).
Proof.
  unfold ds_nbrs. destruct (lookup_N v (d_edges d)) as [es|]; [|reflexivity].
  destruct (lookup_str name es) as [ns|]; [|reflexivity].
  now rewrite (filter_true_id (params_keep []) ns) by reflexivity.
Qed.

Theorem dataset_params_filter_nbrs d : params_filter_nbrs (graph_of_dataset d).
Proof. intros ty name ps v. apply ds_nbrs_params. Qed.

(* adding one more parameter filters the neighbour list further *)
Theorem ds_nbrs_more_params d ty name p ps v :
  ds_nbrs d ty name (p :: ps) v = filter (param_keeps p) (ds_nbrs d ty name ps v).
Proof.
  rewrite (ds_nbrs_params d ty name (p :: ps)), (ds_nbrs_params d ty name ps), filter_filter.
  apply filter_ext. intros n. cbn [params_keep forallb]. apply Bool.andb_comm.
Qed.

Lemma flat_map_ext_in' {A B} (f h : A -> list B) (l : list A) :
  (forall x, In x l -> f x = h x) -> flat_map f l = flat_map h l.
Proof.
  induction l as [|x l IH]; intros H; [reflexivity|]. cbn [flat_map].
  rewrite (H x (or_introl eq_refl)), IH; [reflexivity|]. intros y Hy. apply H. now right.
Qed.

Lemma flat_map_map_l {A B C} (f : A -> B) (h : B -> list C) (l : list A) :
  flat_map h (map f l) = flat_map (fun x => h (f x)) l.
Proof. induction l as [|x l IH]; [reflexivity|]. cbn [map flat_map]. now rewrite IH. Qed.

Section ParamEdge.
  Variable re : string -> string -> option bool.
  Variable g : graph.
  Variable args : list (string * fv).
  Hypothesis Hg : params_filter_nbrs g.

  Local Notation enter := (enter re g args).
  Local Notation step_edge := (step_edge re g args).
  Local Notation sem_comp := (sem_comp re g args).
  Local Notation sem_steps := (sem_steps re g args).
  Local Notation sem := (sem re g args).
  Local Notation fp := (fpass re g args).
  Local Notation stepf := (step_fn re g args).

  Variables (eid tovid : N) (ps' : params) (f : vfilter) (keepf : N -> bool).
  (* the vertices that occur as neighbours at all *)
  Variable dom : N -> Prop.
  Hypothesis Hdom : forall ty name v n, In n (g_nbrs g ty name [] v) -> dom n.
  (* on those, the added filter depends only on the destination vertex itself *)
  Hypothesis Hf : forall vs ss imp a ty n, dom n -> fp vs ss imp a tovid ty (Some n) f = keepf n.

  Definition edge_splits (e : ir_edge) : Prop :=
    e_to e = tovid /\ e_rec e = None /\ e_optional e = false /\
    forall n, params_keep (e_params e) n = params_keep ps' n && keepf n.

  Lemma plain_cands (l : list vertex) :
    match l with [] => [] | v0 :: l0 => map Some (v0 :: l0) end = map (@Some vertex) l.
  Proof. destruct l; reflexivity. Qed.

  Lemma step_edge_param vs ss' ss imp e a :
    folds_agree ss' ss -> edge_splits e ->
    step_edge (upd_vertex tovid (with_filter f) vs) ss' imp (set_params ps' e) a = step_edge vs ss imp e a.
  Proof.
    intros Hfo (Hto & Hrec & Hopt & Hkeep).
    pose proof (upd_vertex_types tovid _ vs (with_filter_keeps f)) as Ht.
    unfold Sem.step_edge. cbn [set_params e_from e_to e_rec e_optional e_name e_params].
    rewrite Hrec, Hopt, Hto. pose proof (Ht (e_from e)) as Hfrom.
    rewrite (find_upd_vertex tovid (with_filter f) vs tovid (keeps_key_vid _ (with_filter_keeps f))).
    destruct (find_vertex vs tovid) as [tov|] eqn:Eto; cbn [option_map].
    2:{ destruct (find_vertex (upd_vertex tovid (with_filter f) vs) (e_from e)), (find_vertex vs (e_from e)); reflexivity. }
    pose proof (find_vertex_vid' _ _ _ Eto) as Hvid. rewrite Hvid, N.eqb_refl.
    destruct (find_vertex (upd_vertex tovid (with_filter f) vs) (e_from e)) as [fromv'|],
             (find_vertex vs (e_from e)) as [fromv|]; cbn in Hfrom; try discriminate; [|reflexivity].
    injection Hfrom as ->.
    destruct (lookup_N (e_from e) (a_v a)) as [[v|]|].
    - rewrite (Hg (v_type fromv) (e_name e) ps' v), (Hg (v_type fromv) (e_name e) (e_params e) v).
      rewrite !plain_cands, !flat_map_map_l, !flat_map_filter_cond.
      apply flat_map_ext_in'. intros n Hn.
      rewrite (enter_with_filter re g args _ vs ss' ss imp a f tov (Some n) Ht Hfo), Hvid, Hf, Hkeep
        by (eapply Hdom; exact Hn).
      destruct (params_keep ps' n), (keepf n), (enter vs ss imp a tov (Some n)); reflexivity.
    - cbn [flat_map]. now rewrite !enter_missing_optional.
    - cbn [flat_map]. now rewrite !enter_missing_optional.
  Qed.

  Lemma steps_param vs ss' ss imp : folds_agree ss' ss -> forall todo,
    (forall e, In (SEdge e) todo -> e_eid e = eid -> edge_splits e) ->
    forallb (fun s => match s with
                      | SEdge e => N.eqb (e_eid e) eid || negb (N.eqb (e_to e) tovid)
                      | SFold _ _ => true
                      end) todo = true ->
    Forall2 (fun s' s => forall a, stepf (upd_vertex tovid (with_filter f) vs) ss' imp s' a = stepf vs ss imp s a)
            (upd_edge eid (set_params ps') todo) todo.
  Proof.
    intros Hfo todo. induction todo as [|s todo IH]; intros He Hall; cbn [upd_edge map]; constructor.
    - intros a. cbn [forallb] in Hall. apply andb_prop in Hall. destruct Hall as (Hs & _).
      destruct s as [e|h c].
      + destruct (N.eqb_spec (e_eid e) eid) as [Heq|Hne].
        * cbn [step_fn]. apply step_edge_param; [assumption|]. apply He; [now left|assumption].
        * apply step_fn_except; [apply with_filter_keeps|assumption|].
          cbn [orb] in Hs. destruct (N.eqb_spec (e_to e) tovid); [discriminate|assumption].
      + apply step_fn_except; [apply with_filter_keeps|assumption|exact I].
    - apply IH.
      + intros e Hin. apply He. now right.
      + cbn [forallb] in Hall. apply andb_prop in Hall. apply Hall.
  Qed.

  (* the query with the parameter replaced by a filter on the destination vertex has exactly the
     same assignments, in the same order *)
  Theorem param_edge_is_filter_asg root vs ss outs imp r :
    entered_only_by eid tovid (mkComp root vs ss outs) = true ->
    (forall e, In (SEdge e) ss -> e_eid e = eid -> edge_splits e) ->
    sem_comp (param_to_filter eid ps' tovid f (mkComp root vs ss outs)) imp r = sem_comp (mkComp root vs ss outs) imp r.
  Proof.
    intros Hent He. unfold entered_only_by in Hent. cbn [c_root c_steps] in Hent.
    apply andb_prop in Hent. destruct Hent as (Hroot & Hall).
    cbn [param_to_filter]. rewrite !sem_comp_eq.
    pose proof (upd_vertex_types tovid _ vs (with_filter_keeps f)) as Ht.
    pose proof (upd_edge_folds eid (set_params ps') ss) as Hfo.
    rewrite (find_upd_vertex tovid (with_filter f) vs root (keeps_key_vid _ (with_filter_keeps f))).
    destruct (find_vertex vs root) as [rv|] eqn:Er; cbn [option_map]; [|reflexivity].
    pose proof (find_vertex_vid' _ _ _ Er) as Hvid. rewrite Hvid.
    destruct (N.eqb root tovid); [discriminate|].
    rewrite (enter_agree re g args _ vs _ ss imp (Asg [] []) rv r Ht Hfo).
    destruct (enter vs ss imp (Asg [] []) rv r); [|reflexivity].
    apply sem_steps_ext. now apply steps_param.
  Qed.

  Theorem param_edge_is_filter_rows q root vs ss outs :
    q_comp q = mkComp root vs ss outs ->
    entered_only_by eid tovid (q_comp q) = true ->
    (forall e, In (SEdge e) ss -> e_eid e = eid -> edge_splits e) ->
    sem (with_comp q (param_to_filter eid ps' tovid f (q_comp q))) = sem q.
  Proof.
    intros Hq Hent He. unfold Sem.sem. cbn [with_comp q_comp q_root_name q_root_params]. rewrite Hq in *.
    rewrite (flat_map_ext _ (fun s => sem_comp (mkComp root vs ss outs) [] (Some s)))
      by (intros s; now apply param_edge_is_filter_asg).
    apply map_ext. intros a. f_equal. cbn [param_to_filter project]. f_equal.
    - apply map_ext. intros [n cf]. cbn [fst snd]. f_equal.
      pose proof (upd_vertex_types tovid _ vs (with_filter_keeps f) (cf_vid cf)) as Ht.
      destruct (find_vertex (upd_vertex tovid (with_filter f) vs) (cf_vid cf)), (find_vertex vs (cf_vid cf));
        cbn in Ht; try discriminate; [|reflexivity].
      injection Ht as ->. reflexivity.
    - clear. induction ss as [|[e|h c] t IH]; cbn [upd_edge map]; [reflexivity| |].
      + destruct (N.eqb (e_eid e) eid); exact IH.
      + fold (upd_edge eid (set_params ps') t). now rewrite IH.
  Qed.
End ParamEdge.

(* the instance tested by the harness: `edge(lo: k)`  =  `edge` + `id @filter(op: ">=", value: ["$p"])`, p = k *)
Section LoParam.
  Variable re : string -> string -> option bool.
  Variable g : graph.
  Variable args : list (string * fv).
  Variable dom : N -> Prop.
  Hypothesis Hid : forall ty n, dom n -> int_val (g_prop g ty "id" n) = Some (Z.of_N n).
  Variables (p : string) (kv : fv) (k : Z) (fty t : ty).
  Hypothesis Hp : lookup_str p args = Some kv.
  Hypothesis Hk : int_val kv = Some k.


  Lemma id_ge_fpass vs ss imp a vid ty n :
    dom n -> fpass re g args vs ss imp a vid ty (Some n) (id_ge_filter p fty t) = Z.leb k (Z.of_N n).
  Proof.
    intros Hn. unfold fpass, id_ge_filter. cbn [vf_op vf_field vf_arg present option_map arg_value prop_of]. rewrite Hp.
    unfold filter_passes, holds. cbn [negb opk_unary apply_tagged apply_filter_op_with_tagged_argument apply_filter_op].
    now rewrite (ge_ints _ _ _ _ (Hid ty n Hn) Hk).
  Qed.

  Lemma lo_param_keeps n : param_keeps ("lo", kv) n = Z.leb k (Z.of_N n).
  Proof. unfold param_keeps. cbn [fst snd]. destruct kv; try discriminate Hk; injection Hk as ->; reflexivity. Qed.

  Lemma lo_params_split ps1 ps2 n :
    params_keep (ps1 ++ ("lo", kv) :: ps2) n = params_keep (ps1 ++ ("lo", Null) :: ps2) n && Z.leb k (Z.of_N n).
  Proof.
    unfold params_keep. rewrite !forallb_app. cbn [forallb]. rewrite lo_param_keeps.
    change (param_keeps ("lo", Null) n) with true.
    destruct (forallb (fun p0 => param_keeps p0 n) ps1), (forallb (fun p0 => param_keeps p0 n) ps2), (Z.leb k (Z.of_N n)); reflexivity.
  Qed.
End LoParam.

(* ================= 7. renaming outputs ================= *)
Section Rename.
  Variable re : string -> string -> option bool.
  Variable g : graph.
  Variable args : list (string * fv).
  Variable rho : string -> string.

  Local Notation enter := (enter re g args).
  Local Notation step_edge := (step_edge re g args).
  Local Notation step_fold := (step_fold re g args).
  Local Notation sem_comp := (sem_comp re g args).
  Local Notation sem_steps := (sem_steps re g args).
  Local Notation sem := (sem re g args).
  Local Notation stepf := (step_fn re g args).

  Lemma rename_comp_eq root vs ss outs :
    rename_comp rho (mkComp root vs ss outs) =
    mkComp root vs (rename_steps rho ss) (map (fun o => (rho (fst o), snd o)) outs).
  Proof.
    cbn [rename_comp]. f_equal.
    induction ss as [|[e|h c] t IH]; cbn [rename_steps]; [reflexivity| |]; now rewrite IH.
  Qed.

  Lemma rename_steps_folds ss : folds_agree (rename_steps rho ss) ss.
  Proof.
    intros x. induction ss as [|[e|h c] t IH]; cbn [rename_steps has_fold rename_hdr fo_eid]; [reflexivity|exact IH|].
    now rewrite IH.
  Qed.

  Lemma step_edge_agree vs ss' ss imp e a :
    folds_agree ss' ss -> step_edge vs ss' imp e a = step_edge vs ss imp e a.
  Proof.
    intros Hf. apply sublist_antisym.
    - apply step_edge_mono; [apply verts_le_refl|assumption|apply edge_le_refl].
    - apply step_edge_mono; [apply verts_le_refl|intros x; symmetry; apply Hf|apply edge_le_refl].
  Qed.

  Lemma step_fold_sub_ext vs ss imp h (s1 s2 : imports -> option vertex -> list asg) a :
    (forall i r, s1 i r = s2 i r) -> step_fold vs ss imp h s1 a = step_fold vs ss imp h s2 a.
  Proof.
    intros Hs. unfold Sem.step_fold.
    destruct (find_vertex vs (fo_from h)) as [fromv|]; [|reflexivity].
    destruct (lookup_N (fo_from h) (a_v a)) as [[v|]|]; [|reflexivity|reflexivity].
    rewrite (flat_map_ext (fun n => s1 _ (Some n)) (fun n => s2 _ (Some n))) by (intros n; apply Hs).
    reflexivity.
  Qed.

  Lemma rename_steps_fn vs ss' ss0 imp : folds_agree ss' ss0 -> forall todo,
    Forall (fun s => match s with
                     | SFold _ sub => forall imp r, sem_comp (rename_comp rho sub) imp r = sem_comp sub imp r
                     | SEdge _ => True
                     end) todo ->
    Forall2 (fun s' s => forall a, stepf vs ss' imp s' a = stepf vs ss0 imp s a) (rename_steps rho todo) todo.
  Proof.
    intros Hf todo IH. induction IH as [|s t Hs _ IHt]; cbn [rename_steps]; [constructor|].
    destruct s as [e|h sub]; constructor; try exact IHt; intros a; cbn [step_fn].
    - now apply step_edge_agree.
    - rewrite (step_fold_agree re g args vs vs ss' ss0 imp _ _ a (fun x => eq_refl) Hf).
      rewrite (step_fold_sub_ext vs ss0 imp _ _ (sem_comp sub) a Hs). reflexivity.
  Qed.

  (* assignments do not depend on output names at all *)
  Theorem sem_comp_rename c : forall imp r, sem_comp (rename_comp rho c) imp r = sem_comp c imp r.
  Proof.
    induction c as [root vs ss outs IH] using comp_nested_ind. intros imp r.
    rewrite rename_comp_eq, !sem_comp_eq.
    destruct (find_vertex vs root) as [rv|]; [|reflexivity].
    pose proof (rename_steps_folds ss) as Hf.
    rewrite (enter_agree re g args vs vs _ ss imp (Asg [] []) rv r (fun x => eq_refl) Hf).
    destruct (enter vs ss imp (Asg [] []) rv r); [|reflexivity].
    apply sem_steps_ext. now apply rename_steps_fn.
  Qed.

  (* ---- projection ---- *)
  Hypothesis rho_inj : forall a b, rho a = rho b -> a = b.

  Fixpoint names_steps (ss : list step) : list string :=
    match ss with
    | [] => []
    | SEdge _ :: r => names_steps r
    | SFold h sub :: r => fo_fsout h ++ all_output_names sub ++ names_steps r
    end.

  Lemma all_output_names_eq root vs ss outs :
    all_output_names (mkComp root vs ss outs) = map fst outs ++ names_steps ss.
  Proof.
    reflexivity.
  Qed.

  Lemma all_output_names_rename c : all_output_names (rename_comp rho c) = map rho (all_output_names c).
  Proof.
    induction c as [root vs ss outs IH] using comp_nested_ind.
    rewrite rename_comp_eq, !all_output_names_eq, map_app, !map_map. cbn [fst]. f_equal.
    induction IH as [|s t Hs _ IHt]; [reflexivity|].
    destruct s as [e|h sub]; cbn [rename_steps names_steps]; [exact IHt|].
    rewrite !map_app, <- IHt, Hs. reflexivity.
  Qed.

  Definition fold_row (a : asg) (h : fold_hdr) (sub : ir_component) : row :=
    match lookup_N (fo_eid h) (a_f a) with
    | Some (Some l) =>
        map (fun n => (n, U64 (Z.of_nat (List.length l)))) (fo_fsout h) ++
        (let rows := map (project g sub) l in
         map (fun n => (n, List (map (fun r => row_get r n) rows))) (all_output_names sub))
    | _ => map (fun n => (n, Null)) (fo_fsout h ++ all_output_names sub)
    end.

  Fixpoint project_steps (a : asg) (ss : list step) : row :=
    match ss with
    | [] => []
    | SEdge _ :: r => project_steps a r
    | SFold h sub :: r => fold_row a h sub ++ project_steps a r
    end.

  Lemma project_eq root vs ss outs a :
    project g (mkComp root vs ss outs) a =
    map (fun o => (fst o, match find_vertex vs (cf_vid (snd o)), lookup_N (cf_vid (snd o)) (a_v a) with
                          | Some vtx, Some (Some v) => g_prop g (v_type vtx) (cf_name (snd o)) v
                          | _, _ => Null
                          end)) outs ++ project_steps a ss.
  Proof.
    cbn [project]. f_equal.
    induction ss as [|[e|h c] t IH]; cbn [project_steps]; [reflexivity|exact IH|].
    unfold fold_row. now rewrite IH.
  Qed.

  Lemma lookup_rename_row r n : lookup_str (rho n) (rename_row rho r) = lookup_str n r.
  Proof.
    induction r as [|[k v] r IH]; [reflexivity|]. cbn [rename_row map lookup_str fst snd].
    fold (rename_row rho r). rewrite IH.
    destruct (String.eqb_spec n k) as [->|Hne]; [now rewrite String.eqb_refl|].
    destruct (String.eqb_spec (rho n) (rho k)) as [He|_]; [now apply rho_inj in He|reflexivity].
  Qed.

  Lemma lookup_rename_row_other r m : (forall n, m <> rho n) -> lookup_str m (rename_row rho r) = None.
  Proof.
    intros Hm. induction r as [|[k v] r IH]; [reflexivity|]. cbn [rename_row map lookup_str fst snd].
    fold (rename_row rho r). destruct (String.eqb_spec m (rho k)) as [He|_]; [now apply Hm in He|exact IH].
  Qed.

  Lemma row_get_rename r n : row_get (rename_row rho r) (rho n) = row_get r n.
  Proof. unfold row_get. now rewrite lookup_rename_row. Qed.

  Theorem project_rename c : forall a, project g (rename_comp rho c) a = rename_row rho (project g c a).
  Proof.
    induction c as [root vs ss outs IH] using comp_nested_ind. intros a.
    rewrite rename_comp_eq, !project_eq. unfold rename_row. rewrite map_app, !map_map. cbn [fst snd]. f_equal.
    induction IH as [|s t Hs _ IHt]; [reflexivity|].
    destruct s as [e|h sub]; cbn [rename_steps project_steps]; [exact IHt|].
    rewrite map_app, <- IHt. f_equal. unfold fold_row. cbn [rename_hdr fo_eid fo_fsout].
    rewrite all_output_names_rename.
    destruct (lookup_N (fo_eid h) (a_f a)) as [[l|]|].
    - rewrite map_app, !map_map. cbn [fst snd]. f_equal.
      apply map_ext. intros n. f_equal. f_equal. rewrite !map_map. apply map_ext. intros x.
      rewrite Hs. apply row_get_rename.
    - rewrite <- map_app, !map_map. reflexivity.
    - rewrite <- map_app, !map_map. reflexivity.
  Qed.

  Lemma sort_row_renamed r : row_renamed rho (sort_row (rename_row rho r)) (sort_row r).
  Proof.
    split.
    - intros n. now rewrite !lookup_sort_row, lookup_rename_row.
    - intros m Hm. rewrite lookup_sort_row. now apply lookup_rename_row_other.
  Qed.

  (* renaming the outputs by an injective map renames the keys of every row and changes nothing else:
     same number of rows, same order, same values *)
  Theorem rename_outputs_rows q :
    Forall2 (row_renamed rho) (sem (with_comp q (rename_comp rho (q_comp q)))) (sem q).
  Proof.
    unfold Sem.sem. cbn [with_comp q_comp q_root_name q_root_params].
    rewrite (flat_map_ext _ (fun s => sem_comp (q_comp q) [] (Some s))) by (intros s; apply sem_comp_rename).
    induction (flat_map (fun s => sem_comp (q_comp q) [] (Some s)) (g_starts g (q_root_name q) (q_root_params q)))
      as [|a l IH]; cbn [map]; constructor; [|exact IH].
    rewrite project_rename. apply sort_row_renamed.
  Qed.
End Rename.

(* ================= datasets: discharging the graph hypotheses ================= *)
Lemma lookup_N_In {A} k (l : list (N * A)) a : lookup_N k l = Some a -> In (k, a) l.
Proof.
  induction l as [|[k' a'] l IH]; cbn [lookup_N]; [discriminate|].
  destruct (N.eqb_spec k k') as [->|_]; [intros [= ->]; now left|intros H; right; now apply IH].
Qed.

Lemma lookup_str_In {A} k (l : list (string * A)) a : lookup_str k l = Some a -> In (k, a) l.
Proof.
  induction l as [|[k' a'] l IH]; cbn [lookup_str]; [discriminate|].
  destruct (String.eqb_spec k k') as [->|_]; [intros [= ->]; now left|intros H; right; now apply IH].
Qed.

Theorem ds_props_wf_ok d : ds_props_wf d = true ->
  forall ty fld v, wf (g_prop (graph_of_dataset d) ty fld v) = true.
Proof.
  intros H ty fld v. cbn [graph_of_dataset g_prop]. unfold ds_prop.
  destruct (String.eqb fld typename_field); [reflexivity|].
  destruct (lookup_N v (d_props d)) as [ps|] eqn:E; [|reflexivity].
  destruct (lookup_str fld ps) as [x|] eqn:E2; [|reflexivity].
  unfold ds_props_wf in H. rewrite forallb_forall in H. specialize (H _ (lookup_N_In _ _ _ E)).
  cbn [snd] in H. rewrite forallb_forall in H. exact (H _ (lookup_str_In _ _ _ E2)).
Qed.

Lemma ds_nbrs_in_ids d ty name v n : In n (ds_nbrs d ty name [] v) -> In n (ds_nbr_ids d).
Proof.
  unfold ds_nbrs, ds_nbr_ids. destruct (lookup_N v (d_edges d)) as [es|] eqn:E; [|intros []].
  destruct (lookup_str name es) as [ns|] eqn:E2; [|intros []].
  rewrite (filter_true_id (params_keep []) ns) by reflexivity. intros Hn.
  apply in_flat_map. exists (v, es). split; [now apply lookup_N_In|]. cbn [snd].
  apply in_flat_map. exists (name, ns). split; [now apply lookup_str_In|exact Hn].
Qed.

Lemma ds_ids_ok_spec d : ds_ids_ok d = true ->
  forall ty n, In n (ds_nbr_ids d) -> int_val (g_prop (graph_of_dataset d) ty "id" n) = Some (Z.of_N n).
Proof.
  intros H ty n Hn. unfold ds_ids_ok in H. rewrite forallb_forall in H. specialize (H n Hn).
  cbn [graph_of_dataset g_prop]. change (ds_prop d ty "id" n) with (ds_prop d "" "id" n).
  destruct (int_val (ds_prop d "" "id" n)) as [z|]; [|discriminate]. apply Z.eqb_eq in H. now subst.
Qed.

(* `edge(lo: k)` without @optional/@recurse has exactly the rows of `edge` (lo unset) with the filter
   `id >= $p`, p = k, on the destination vertex — for every dataset whose vertices carry their number as "id" *)
Theorem lo_param_is_ge_filter re d args q root vs ss outs eid tovid ps1 ps2 p kv k fty t :
  ds_ids_ok d = true -> lookup_str p args = Some kv -> int_val kv = Some k ->
  q_comp q = mkComp root vs ss outs -> entered_only_by eid tovid (q_comp q) = true ->
  (forall e, In (SEdge e) ss -> e_eid e = eid ->
             e_to e = tovid /\ e_rec e = None /\ e_optional e = false /\ e_params e = ps1 ++ ("lo", kv) :: ps2) ->
  sem re (graph_of_dataset d) args
      (with_comp q (param_to_filter eid (ps1 ++ ("lo", Null) :: ps2) tovid (id_ge_filter p fty t) (q_comp q))) =
  sem re (graph_of_dataset d) args q.
Proof.
  intros Hids Hp Hk Hq Hent He.
  apply (param_edge_is_filter_rows re (graph_of_dataset d) args (dataset_params_filter_nbrs d)
           eid tovid _ (id_ge_filter p fty t) (fun n => Z.leb k (Z.of_N n)) (fun n => In n (ds_nbr_ids d))
           (fun ty name v n => ds_nbrs_in_ids d ty name v n)) with (root := root) (vs := vs) (ss := ss) (outs := outs);
    try assumption.
  - intros vs0 ss0 imp a ty n Hn.
    apply (id_ge_fpass re (graph_of_dataset d) args (fun n => In n (ds_nbr_ids d)) (ds_ids_ok_spec d Hids) p kv k fty t Hp Hk);
      exact Hn.
  - intros e Hin Heid. destruct (He e Hin Heid) as (H1 & H2 & H3 & H4). repeat split; try assumption.
    intros n. rewrite H4. apply (lo_params_split args p kv k Hp Hk).
Qed.

(* `=` / `!=` never panic on well-formed values: the no-panic side condition of the partition theorem *)
Theorem equals_filter_no_panic re g args vid ty op fld fty x t :
  (op = Equals \/ op = NotEquals) ->
  (forall ty fld v, wf (g_prop g ty fld v) = true) -> wf (arg_or_null args x) = true ->
  filter_no_panic re g args vid ty (mkVF op fld fty (Some (AVar x t))).
Proof.
  intros Hop Hg Hx s vs ss imp a r Hr. cbn [vf_arg vf_op vf_field option_map arg_value] in *.
  injection Hr as <-. fold (arg_or_null args x).
  destruct Hop as [-> | ->];
    cbn [apply_tagged apply_filter_op_with_tagged_argument apply_filter_op negb]; unfold not_;
    rewrite (equals_ok _ _ (Hg ty fld s) Hx); eexists; reflexivity.
Qed.

(* ================= a filter INSIDE a fold ================= *)
(* Without fold-count filters the fold step yields exactly one assignment before and after, and the
   element list it records shrinks: the number of assignments at that step is unchanged.  (With a
   fold-count filter such as `count = 0` the new query can have MORE rows: Properties/C23.v has the
   witness.  Propagating "same assignments up to this fold's shorter element list" through the later
   steps needs that no later filter / tag / fold import reads this fold's count; that congruence is
   not proved here.) *)
Theorem add_filter_in_fold_step re g args vs ss imp h sub vid f a :
  fo_post h = [] ->
  let new := step_fold re g args vs ss imp h (sem_comp re g args (add_filter vid f sub)) a in
  let old := step_fold re g args vs ss imp h (sem_comp re g args sub) a in
  (new = [] /\ old = []) \/
  (new = [set_af a (fo_eid h) None] /\ old = [set_af a (fo_eid h) None]) \/
  exists l' l, sublist l' l /\ new = [set_af a (fo_eid h) (Some l')] /\ old = [set_af a (fo_eid h) (Some l)].
Proof.
  intros Hpost. cbn zeta. unfold step_fold. rewrite Hpost. cbn [forallb].
  destruct (find_vertex vs (fo_from h)) as [fromv|]; [|left; split; reflexivity].
  destruct (lookup_N (fo_from h) (a_v a)) as [[v|]|]; [|right; left; split; reflexivity|right; left; split; reflexivity].
  right. right. eexists. eexists. split; [|split; reflexivity].
  apply sublist_flat_map; [apply sublist_refl|]. intros n. apply add_filter_shrinks_asg.
Qed.
