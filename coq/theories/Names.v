(* Names.v — model of the identifier generation of trustfall_stubgen
   (/repo/trustfall_stubgen/src/{util.rs, root.rs, edges_creator.rs, properties_creator.rs,
   entrypoints_creator.rs, adapter_creator.rs}) and of the one function of
   /repo/trustfall_derive/src/lib.rs that names the `as_<variant>()` conversions the stub calls.
   Identifiers are ASCII (GraphQL names: a letter or underscore, then letters, digits, underscores),
   modelled as Coq strings.
   Model file: definitions only, no proofs (proofs are in NamesProofs.v). *)
From TF Require Import Values.
Open Scope string_scope.

(* ------------------------------------------------------------------ characters *)
(* char::is_uppercase / to_lowercase / to_ascii_uppercase restricted to ASCII *)
Definition is_upper (c : ascii) : bool :=
  let n := N_of_ascii c in N.leb 65 n && N.leb n 90.
Definition is_lower (c : ascii) : bool :=
  let n := N_of_ascii c in N.leb 97 n && N.leb n 122.
Definition to_lower (c : ascii) : ascii :=
  if is_upper c then ascii_of_N (N_of_ascii c + 32) else c.
Definition to_upper (c : ascii) : ascii :=
  if is_lower c then ascii_of_N (N_of_ascii c - 32) else c.
Definition underscore : ascii := "_"%char.

Definition mem (x : string) (l : list string) : bool := existsb (String.eqb x) l.

(* ------------------------------------------------------------------ util.rs *)
(* to_lower_snake_case: `last` starts as '_' *)
Fixpoint snake_go (last : ascii) (s : string) : string :=
  match s with
  | EmptyString => EmptyString
  | String c r =>
      if is_upper c then
        if negb (Ascii.eqb last underscore) && negb (is_upper last)
        then String underscore (String (to_lower c) (snake_go c r))
        else String (to_lower c) (snake_go c r)
      else String c (snake_go c r)
  end.
Definition to_lower_snake_case (value : string) : string := snake_go underscore value.

(* trustfall_derive/src/lib.rs to_lower_snake_case: the SAME name, a DIFFERENT function (no
   `!last.is_uppercase()` test).  It names the `as_<variant>` methods that
   #[derive(TrustfallEnumVertex)] defines on the generated `enum Vertex`. *)
Fixpoint dsnake_go (last : ascii) (s : string) : string :=
  match s with
  | EmptyString => EmptyString
  | String c r =>
      if is_upper c then
        if negb (Ascii.eqb last underscore)
        then String underscore (String (to_lower c) (dsnake_go c r))
        else String (to_lower c) (dsnake_go c r)
      else String c (dsnake_go c r)
  end.
Definition derive_to_lower_snake_case (value : string) : string := dsnake_go underscore value.

(* upper_case_variant_name: `.expect("unexpectedly got an empty string")` *)
Definition variant_total (value : string) : string :=
  match value with
  | EmptyString => EmptyString
  | String c r => String (to_upper c) r
  end.
Definition upper_case_variant_name (value : string) : res string :=
  match value with
  | EmptyString => Panic "util.rs:upper_case_variant_name expect(unexpectedly got an empty string)"
  | String _ _ => Ok (variant_total value)
  end.

(* escaped_rust_name: the exact list of the `match` *)
Definition escaped_keywords : list string :=
  ["as"; "break"; "const"; "continue"; "crate"; "else"; "enum"; "extern"; "false";
   "fn"; "for"; "if"; "impl"; "in"; "let"; "loop"; "match"; "mod"; "move";
   "mut"; "pub"; "ref"; "return"; "self"; "Self"; "static"; "struct"; "super";
   "trait"; "true"; "type"; "unsafe"; "use"; "where"; "while"; "async"; "await";
   "dyn"; "try"; "macro_rules"; "union"; "'static"].
Definition escaped_rust_name (name : string) : string :=
  if mem name escaped_keywords then name ++ "_" else name.

Definition property_resolver_fn_name (type_name : string) : string :=
  "resolve_" ++ to_lower_snake_case type_name ++ "_property".
Definition type_edge_resolver_fn_name (type_name : string) : string :=
  "resolve_" ++ to_lower_snake_case type_name ++ "_edge".

(* the remaining builders, inlined in the *_creator.rs files *)
Definition variant_name (type_name : string) : string :=            (* root.rs make_vertex_file *)
  escaped_rust_name (variant_total type_name).
Definition mod_name (type_name : string) : string :=                (* edges_creator.rs make_type_edge_resolver *)
  escaped_rust_name (to_lower_snake_case type_name).
Definition edge_fn_name (edge_name : string) : string :=            (* make_edge_resolver_and_call *)
  escaped_rust_name (to_lower_snake_case edge_name).
Definition conversion_fn_name (variant : string) : string :=        (* format!("as_{}", to_lower_snake_case(&variant_name)) *)
  "as_" ++ to_lower_snake_case variant.
Definition entrypoint_fn_name (entrypoint : string) : string :=     (* entrypoints_creator.rs make_entrypoint_fn *)
  escaped_rust_name (to_lower_snake_case entrypoint).
Definition derive_conversion_name (variant : string) : string :=    (* trustfall_derive generate_conversion_method *)
  "as_" ++ derive_to_lower_snake_case variant.

(* ------------------------------------------------------------------ schemas, as the generator's queries see them *)
(* a vertex type (object or interface, root query type excluded): its property names and its edges
   (name, parameter names); entry points = fields of the root query type *)
Record vtype := mkVT { vt_name : string; vt_props : list string; vt_edges : list (string * list string) }.
Record schema := mkSchema { s_types : list vtype; s_entry : list (string * list string) }.

Definition type_names (s : schema) : list string := map vt_name (s_types s).
(* row.edge_names.iter().chain(row.property_names.iter()) *)
Definition field_names (t : vtype) : list string := map fst (vt_edges t) ++ vt_props t.
Definition has_props (t : vtype) : bool := match vt_props t with [] => false | _ => true end.
Definition has_edges (t : vtype) : bool := match vt_edges t with [] => false | _ => true end.

(* ------------------------------------------------------------------ root.rs: the two guards *)
(* `uniq: HashMap<String, String>`; `uniq.insert(converted, name)` returning Some = panic! *)
Fixpoint uniq_go (seen : list string) (l : list string) : bool :=
  match l with
  | [] => true
  | n :: r =>
      let converted := escaped_rust_name (to_lower_snake_case n) in
      if mem converted seen then false else uniq_go (converted :: seen) r
  end.
Definition ensure_no_vertex_name_conflicts (names : list string) : bool := uniq_go [] names.
Definition ensure_no_field_name_conflicts_on_vertex_type (ts : list vtype) : bool :=
  forallb (fun t => uniq_go [] (field_names t)) ts.
Definition guards (s : schema) : bool :=
  ensure_no_vertex_name_conflicts (type_names s) && ensure_no_field_name_conflicts_on_vertex_type (s_types s).

(* ------------------------------------------------------------------ the generated identifiers *)
Record edge_fn := mkEF { ef_name : string; ef_params : list string; ef_conv : string }.
Record stub := mkStub {
  st_variants : list string;                       (* vertex.rs: enum Vertex { V(()), ... } *)
  st_prop_fns : list string;                       (* properties.rs: resolve_<t>_property *)
  st_edge_fns : list string;                       (* edges.rs: resolve_<t>_edge *)
  st_edge_refs : list string;                      (* adapter_impl.rs: super::edges::resolve_<t>_edge(..) *)
  st_mods : list (string * list edge_fn);          (* edges.rs: mod <t> { fn <edge>(contexts, params.., _resolve_info) { .. vertex.as_<v>() .. } } *)
  st_entry : list (string * list string)           (* entrypoints.rs: fn <entry>(params.., _resolve_info) *)
}.

Fixpoint map_res {A B} (f : A -> res B) (l : list A) : res (list B) :=
  match l with
  | [] => Ok []
  | a :: r => do b <- f a; do bs <- map_res f r; Ok (b :: bs)
  end.

Definition build_mod (t : vtype) : string * list edge_fn :=
  (mod_name (vt_name t),
   map (fun e => mkEF (edge_fn_name (fst e)) (snd e) (conversion_fn_name (variant_name (vt_name t)))) (vt_edges t)).

Definition build_stub (s : schema) : res stub :=
  do variants <- map_res (fun t => do v <- upper_case_variant_name (vt_name t); Ok (escaped_rust_name v)) (s_types s);
  Ok (mkStub
        variants
        (map (fun t => property_resolver_fn_name (vt_name t)) (filter has_props (s_types s)))
        (* make_type_edge_resolver passes the already lower-cased name: snake is applied twice *)
        (map (fun t => type_edge_resolver_fn_name (to_lower_snake_case (vt_name t))) (filter has_edges (s_types s)))
        (map (fun t => type_edge_resolver_fn_name (vt_name t)) (filter has_edges (s_types s)))
        (map build_mod (filter has_edges (s_types s)))
        (map (fun e => (entrypoint_fn_name (fst e), snd e)) (s_entry s))).

(* ------------------------------------------------------------------ RustFile::pretty_print_item *)
(* `syn::parse_str(..).expect("not valid Rust")`: syn's Ident parser refuses these words
   (syn-2 src/ident.rs accept_as_ident: "_" + the strict and reserved keywords of the reference). *)
Definition reserved_words : list string :=
  ["_"; "abstract"; "as"; "async"; "await"; "become"; "box"; "break";
   "const"; "continue"; "crate"; "do"; "dyn"; "else"; "enum";
   "extern"; "false"; "final"; "fn"; "for"; "if"; "impl"; "in";
   "let"; "loop"; "macro"; "match"; "mod"; "move"; "mut";
   "override"; "priv"; "pub"; "ref"; "return"; "Self"; "self";
   "static"; "struct"; "super"; "trait"; "true"; "try"; "type";
   "typeof"; "unsafe"; "unsized"; "use"; "virtual"; "where";
   "while"; "yield"].
Definition reserved (x : string) : bool := mem x reserved_words.
(* In parameter position (`p: T` in a signature, `let p: T = ..;`, `f(p, ..)`) syn parses these
   reserved words as patterns/paths/expressions, so the generator does not panic on them: *)
Definition pattern_words : list string := ["Self"; "crate"; "super"; "_"; "true"; "false"].
Definition edge_param_syn_ok (p : string) : bool := negb (reserved p) || mem p pattern_words.
(* `self: T` parses as a receiver only in FIRST position (entry-point fns have no `contexts` first) *)
Fixpoint entry_params_syn_ok (first : bool) (ps : list string) : bool :=
  match ps with
  | [] => true
  | p :: r => (edge_param_syn_ok p || (first && String.eqb p "self")) && entry_params_syn_ok false r
  end.

Definition defined_idents (st : stub) : list string :=
  st_variants st ++ st_prop_fns st ++ st_edge_fns st ++ map fst (st_mods st)
  ++ flat_map (fun m => map ef_name (snd m)) (st_mods st) ++ map fst (st_entry st).

Definition syn_accepts (st : stub) : bool :=
  forallb (fun i => negb (reserved i)) (defined_idents st)
  && forallb (fun m => forallb (fun f => forallb edge_param_syn_ok (ef_params f)) (snd m)) (st_mods st)
  && forallb (fun e => entry_params_syn_ok true (snd e)) (st_entry st).

(* generate_rust_stub, identifier level: Panic = no stub is produced *)
Definition generate (s : schema) : res stub :=
  if negb (ensure_no_vertex_name_conflicts (type_names s))
  then Panic "root.rs:ensure_no_vertex_name_conflicts panic!(cannot generate adapter ..)"
  else if negb (ensure_no_field_name_conflicts_on_vertex_type (s_types s))
  then Panic "root.rs:ensure_no_field_name_conflicts_on_vertex_type panic!(cannot generate adapter ..)"
  else
    do st <- build_stub s;
    if syn_accepts st then Ok st else Panic "root.rs:pretty_print_item expect(not valid Rust)".

(* ------------------------------------------------------------------ what rustc needs of the identifiers *)
(* The identifier-level NECESSARY conditions for the stub crate to compile. *)
Fixpoint nodupb (l : list string) : bool :=
  match l with
  | [] => true
  | a :: r => negb (mem a r) && nodupb r
  end.

Definition defined_conversions (st : stub) : list string := map derive_conversion_name (st_variants st).

(* names a parameter must not take: bound by the surrounding generated code, or resolving to a
   unit/tuple constructor of the prelude (then `p: T` is a refutable pattern, not a binding) *)
Definition captured_words : list string := ["_resolve_info"; "resolve_info"; "None"; "Some"; "Ok"; "Err"].
Definition params_ok (fixed : list string) (ps : list string) : bool :=
  nodupb ps
  && forallb (fun p => negb (reserved p) && negb (mem p (fixed ++ captured_words))) ps
  (* `let parameters: T = parameters.get(..)` shadows the map the NEXT parameter is read from *)
  && negb (mem "parameters" (removelast ps)).

(* an edge fn binds `contexts` itself and calls the imported `resolve_neighbors_with` in its body *)
Definition edge_fixed_words : list string := ["contexts"; "resolve_neighbors_with"].
Definition mod_ok (st : stub) (m : string * list edge_fn) : bool :=
  nodupb (map ef_name (snd m))                                         (* E0428 *)
  && negb (mem "resolve_neighbors_with" (map ef_name (snd m)))         (* E0255: imported into every mod *)
  && forallb (fun f => mem (ef_conv f) (defined_conversions st)        (* E0599: the method must exist *)
                       && params_ok edge_fixed_words (ef_params f)) (snd m).

Definition idents_ok (st : stub) : bool :=
  nodupb (st_variants st)                                              (* E0428 *)
  && nodupb (defined_conversions st)                                   (* E0592 *)
  && nodupb (st_prop_fns st)
  && nodupb (st_edge_fns st)
  && forallb (fun r => mem r (st_edge_fns st)) (st_edge_refs st)       (* E0425 *)
  && nodupb (map fst (st_mods st))
  && negb (mem "trustfall" (map fst (st_mods st)))                     (* E0432: shadows the crate in `use trustfall::..` *)
  && forallb (mod_ok st) (st_mods st)
  && nodupb (map fst (st_entry st))                                    (* E0428 *)
  && forallb (fun e => params_ok [] (snd e)) (st_entry st)
  && forallb (fun i => negb (reserved i)) (defined_idents st).         (* no bare keyword *)

(* ------------------------------------------------------------------ known defect classes (on the schema) *)
Definition any_pair (P : string -> string -> bool) (l : list string) : bool :=
  existsb (fun a => existsb (fun b => negb (String.eqb a b) && P a b) l) l.

Definition all_params (s : schema) : list string :=
  flat_map (fun t => flat_map snd (vt_edges t)) (s_types s) ++ flat_map snd (s_entry s).
Definition edge_param_lists (s : schema) : list (list string) := flat_map (fun t => map snd (vt_edges t)) (s_types s).
Definition entry_param_lists (s : schema) : list (list string) := map snd (s_entry s).

(* F15: two type names, different snake-case (module) names, same enum variant *)
Definition K_variant_collision (s : schema) : bool :=
  any_pair (fun a b => String.eqb (variant_name a) (variant_name b) && negb (String.eqb (mod_name a) (mod_name b))) (type_names s).
(* two different variants whose derive-generated conversion methods have the same name *)
Definition K_derive_conversion_collision (s : schema) : bool :=
  any_pair (fun va vb => String.eqb (derive_conversion_name va) (derive_conversion_name vb)) (map variant_name (type_names s)).
(* a type with an edge whose variant is snake-cased differently by stubgen and by the derive macro *)
Definition K_conversion_name_mismatch (s : schema) : bool :=
  existsb (fun t => has_edges t && negb (String.eqb (conversion_fn_name (variant_name (vt_name t)))
                                                     (derive_conversion_name (variant_name (vt_name t))))) (s_types s).
(* entry points are not covered by any guard *)
Definition K_entrypoint_collision (s : schema) : bool :=
  any_pair (fun a b => String.eqb (entrypoint_fn_name a) (entrypoint_fn_name b)) (map fst (s_entry s)).
(* a reserved word reaches an identifier position unescaped: any parameter name; or a
   variant / module / edge fn / entry-point fn name that is reserved AFTER escaped_rust_name *)
Definition K_reserved_word_unescaped (s : schema) : bool :=
  existsb reserved (all_params s)
  || existsb (fun t => reserved (variant_name (vt_name t))) (s_types s)
  || existsb (fun t => has_edges t && reserved (mod_name (vt_name t))) (s_types s)
  || existsb (fun t => existsb (fun e => reserved (edge_fn_name (fst e))) (vt_edges t)) (s_types s)
  || existsb (fun e => reserved (entrypoint_fn_name (fst e))) (s_entry s).
(* a parameter named like something the surrounding generated code binds or the prelude defines *)
Definition K_parameter_capture (s : schema) : bool :=
  existsb (fun p => mem p captured_words) (all_params s)
  || existsb (fun ps => existsb (fun p => mem p edge_fixed_words) ps) (edge_param_lists s)
  || existsb (fun ps => mem "parameters" (removelast ps)) (edge_param_lists s ++ entry_param_lists s).
(* an edge fn named like the function every edge module imports *)
Definition K_import_clash (s : schema) : bool :=
  existsb (fun t => existsb (fun e => String.eqb (edge_fn_name (fst e)) "resolve_neighbors_with") (vt_edges t)) (s_types s).
(* a type (with edges) whose module shadows the `trustfall` crate inside edges.rs *)
Definition K_crate_shadow (s : schema) : bool :=
  existsb (fun t => has_edges t && String.eqb (mod_name (vt_name t)) "trustfall") (s_types s).
(* the guards panic: a valid schema gets no stub at all *)
Definition K_guard_rejects_valid_schema (s : schema) : bool := negb (guards s).

Definition known_classes (s : schema) : list (string * bool) :=
  [("K-guard-rejects-valid-schema", K_guard_rejects_valid_schema s);
   ("K-reserved-word-unescaped", K_reserved_word_unescaped s);
   ("K-variant-collision", K_variant_collision s);
   ("K-derive-conversion-collision", K_derive_conversion_collision s);
   ("K-conversion-name-mismatch", K_conversion_name_mismatch s);
   ("K-entrypoint-collision", K_entrypoint_collision s);
   ("K-parameter-capture", K_parameter_capture s);
   ("K-import-clash", K_import_clash s);
   ("K-crate-shadow", K_crate_shadow s)].
Definition known (s : schema) : bool := existsb snd (known_classes s).

(* what validity of the GraphQL schema gives at this level *)
Definition nonempty (x : string) : bool := match x with EmptyString => false | _ => true end.
Definition wf_schema (s : schema) : bool :=
  forallb nonempty (type_names s)
  && nodupb (type_names s)
  && forallb (fun t => forallb (fun e => nodupb (snd e)) (vt_edges t)) (s_types s)
  && nodupb (map fst (s_entry s))
  && forallb (fun e => nodupb (snd e)) (s_entry s).

(* ------------------------------------------------------------------ rendering for the tie (mirrors tfh_c26.rs) *)
Definition show_named (n : string) (ps : list string) : string := n ++ "(" ++ String.concat "," ps ++ ")".
Definition show_stub (st : stub) : string :=
  "V[" ++ String.concat "," (st_variants st) ++ "]P[" ++ String.concat "," (st_prop_fns st)
  ++ "]E[" ++ String.concat "," (st_edge_fns st) ++ "]R[" ++ String.concat "," (st_edge_refs st)
  ++ "]M[" ++ String.concat "," (map (fun m => fst m ++ "{" ++ String.concat ";" (map (fun f => show_named (ef_name f) (ef_params f) ++ "@" ++ ef_conv f) (snd m)) ++ "}") (st_mods st))
  ++ "]S[" ++ String.concat "," (map (fun e => show_named (fst e) (snd e)) (st_entry st)) ++ "]".
Definition show_generate (s : schema) : string :=
  match generate s with Ok st => show_stub st | Panic _ => "PANIC" end.
Definition show_classes (s : schema) : string :=
  String.concat "," (map fst (filter snd (known_classes s))).
(* the model's prediction of the identifier-level verdict: "T" = nothing at this level prevents compilation *)
Definition show_verdict (s : schema) : string :=
  match generate s with Ok st => if idents_ok st then "T" else "F" | Panic _ => "PANIC" end.
