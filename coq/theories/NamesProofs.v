(* NamesProofs.v — lemmas about the stub generator's identifier model (Names.v). *)
From Coq Require Import Lia.
From TF Require Import Values Names.
Open Scope string_scope.

(* ------------------------------------------------------------------ lists of strings *)
Lemma mem_In : forall x l, mem x l = true <-> In x l.
Proof.
  intros x l. unfold mem. rewrite existsb_exists. split.
  - intros [y [Hy He]]. apply String.eqb_eq in He. subst. exact Hy.
  - intros Hin. exists x. split; [exact Hin | apply String.eqb_refl].
Qed.

Lemma mem_false : forall x l, mem x l = false <-> ~ In x l.
Proof.
  intros x l. rewrite <- mem_In. destruct (mem x l); split; intros H; congruence.
Qed.

Lemma nodupb_NoDup : forall l, nodupb l = true <-> NoDup l.
Proof.
  induction l as [|a r IH]; simpl.
  - split; [constructor | reflexivity].
  - rewrite andb_true_iff, negb_true_iff, mem_false, IH. split.
    + intros [H1 H2]. constructor; assumption.
    + intros H. inversion H; subst. split; assumption.
Qed.

Lemma NoDup_map_inj_on {A B} (f : A -> B) (l : list A) :
  NoDup l -> (forall a b, In a l -> In b l -> a <> b -> f a <> f b) -> NoDup (map f l).
Proof.
  induction l as [|a r IH]; intros Hnd Hinj; simpl.
  - constructor.
  - inversion Hnd as [|? ? Hnotin Hnd']; subst. constructor.
    + intros Hin. apply in_map_iff in Hin. destruct Hin as [b [Hfb Hb]].
      apply (Hinj a b); [left; reflexivity | right; exact Hb | | symmetry; exact Hfb].
      intros Heq. subst. contradiction.
    + apply IH; [exact Hnd'|]. intros x y Hx Hy. apply Hinj; right; assumption.
Qed.

Lemma NoDup_map_In_inj {A B} (f : A -> B) (l : list A) :
  NoDup (map f l) -> forall a b, In a l -> In b l -> f a = f b -> a = b.
Proof.
  induction l as [|x r IH]; simpl; intros Hnd a b Ha Hb Heq.
  - contradiction.
  - inversion Hnd as [|? ? Hnotin Hnd']; subst.
    destruct Ha as [Ha|Ha]; destruct Hb as [Hb|Hb]; subst.
    + reflexivity.
    + exfalso. apply Hnotin. rewrite Heq. apply in_map. exact Hb.
    + exfalso. apply Hnotin. rewrite <- Heq. apply in_map. exact Ha.
    + apply IH; assumption.
Qed.

Lemma NoDup_map_compose {A B C} (f : A -> B) (g : B -> C) (l : list A) :
  NoDup (map (fun x => g (f x)) l) -> NoDup (map f l).
Proof.
  intros H. rewrite <- map_map in H. apply NoDup_map_inv in H. exact H.
Qed.

Lemma NoDup_filter {A} (p : A -> bool) (l : list A) : NoDup l -> NoDup (filter p l).
Proof.
  induction l as [|a r IH]; simpl; intros H.
  - constructor.
  - inversion H; subst. destruct (p a).
    + constructor; [|apply IH; assumption]. intros Hin. apply filter_In in Hin. tauto.
    + apply IH; assumption.
Qed.

Lemma NoDup_app_l {A} (a b : list A) : NoDup (a ++ b) -> NoDup a.
Proof.
  induction a as [|x a IH]; simpl; intros H; [constructor|].
  inversion H as [|? ? Hnotin Hnd]; subst. constructor; [|apply IH; exact Hnd].
  intros Hin. apply Hnotin. apply in_or_app. left. exact Hin.
Qed.

Lemma NoDup_map_filter {A B} (f : A -> B) (p : A -> bool) (l : list A) :
  NoDup (map f l) -> NoDup (map f (filter p l)).
Proof.
  induction l as [|a r IH]; simpl; intros H.
  - constructor.
  - inversion H as [|? ? Hnotin Hnd]; subst. destruct (p a); simpl.
    + constructor; [|apply IH; assumption]. intros Hin. apply Hnotin.
      apply in_map_iff in Hin. destruct Hin as [x [Hx Hin]]. apply filter_In in Hin.
      apply in_map_iff. exists x. tauto.
    + apply IH; assumption.
Qed.

Lemma NoDup_map_injective {A B} (f : A -> B) (l : list A) :
  (forall a b, f a = f b -> a = b) -> NoDup l -> NoDup (map f l).
Proof.
  intros Hinj Hnd. apply NoDup_map_inj_on; [exact Hnd|].
  intros a b _ _ Hne Heq. apply Hne. apply Hinj. exact Heq.
Qed.

Lemma existsb_false_In {A} (p : A -> bool) (l : list A) :
  existsb p l = false -> forall x, In x l -> p x = false.
Proof.
  intros H x Hin. destruct (p x) eqn:E; [|reflexivity].
  assert (existsb p l = true) by (apply existsb_exists; exists x; tauto). congruence.
Qed.

Lemma any_pair_false (P : string -> string -> bool) (l : list string) :
  any_pair P l = false -> forall a b, In a l -> In b l -> a <> b -> P a b = false.
Proof.
  unfold any_pair. intros H a b Ha Hb Hne.
  pose proof (existsb_false_In _ _ H a Ha) as H1. cbv beta in H1.
  pose proof (existsb_false_In _ _ H1 b Hb) as H2. cbv beta in H2.
  apply andb_false_iff in H2. destruct H2 as [H2|H2]; [|exact H2].
  apply negb_false_iff in H2. apply String.eqb_eq in H2. contradiction.
Qed.

(* ------------------------------------------------------------------ string append *)
Lemma length_append : forall a b, String.length (a ++ b) = (String.length a + String.length b)%nat.
Proof. induction a as [|c a IH]; simpl; intros b; [reflexivity | rewrite IH; reflexivity]. Qed.

Lemma append_inj_l : forall a x y, a ++ x = a ++ y -> x = y.
Proof. induction a as [|c a IH]; simpl; intros x y H; [exact H | inversion H; apply IH; assumption]. Qed.

Lemma append_inj_r : forall x y a, x ++ a = y ++ a -> x = y.
Proof.
  induction x as [|c x IH]; intros y a H; destruct y as [|d y]; simpl in H.
  - reflexivity.
  - exfalso. assert (Hl : String.length a = String.length (String d (y ++ a))) by (rewrite <- H; reflexivity).
    simpl in Hl. rewrite length_append in Hl. lia.
  - exfalso. assert (Hl : String.length (String c (x ++ a)) = String.length a) by (rewrite H; reflexivity).
    simpl in Hl. rewrite length_append in Hl. lia.
  - inversion H; subst. f_equal. eapply IH. eassumption.
Qed.

Lemma append_assoc : forall a b c, (a ++ b) ++ c = a ++ (b ++ c).
Proof. induction a as [|x a IH]; simpl; intros b c; [reflexivity | rewrite IH; reflexivity]. Qed.

Lemma property_resolver_fn_name_inj : forall a b,
  "resolve_" ++ a ++ "_property" = "resolve_" ++ b ++ "_property" -> a = b.
Proof. intros a b H. apply append_inj_l in H. apply append_inj_r in H. exact H. Qed.

Lemma type_edge_resolver_fn_name_inj : forall a b,
  "resolve_" ++ a ++ "_edge" = "resolve_" ++ b ++ "_edge" -> a = b.
Proof. intros a b H. apply append_inj_l in H. apply append_inj_r in H. exact H. Qed.

Lemma conversion_prefix_inj : forall a b, "as_" ++ a = "as_" ++ b -> a = b.
Proof. intros a b H. apply append_inj_l in H. exact H. Qed.

(* ------------------------------------------------------------------ to_lower_snake_case *)
Fixpoint no_upper (s : string) : bool :=
  match s with EmptyString => true | String c r => negb (is_upper c) && no_upper r end.

Lemma is_upper_to_lower : forall c, is_upper (to_lower c) = false.
Proof. intros c. destruct c as [[] [] [] [] [] [] [] []]; reflexivity. Qed.

Lemma snake_go_no_upper : forall s last, no_upper (snake_go last s) = true.
Proof.
  induction s as [|c r IH]; intros last; simpl; [reflexivity|].
  destruct (is_upper c) eqn:Eu.
  - destruct (negb (Ascii.eqb last underscore) && negb (is_upper last)); simpl;
      rewrite is_upper_to_lower, IH; reflexivity.
  - simpl. rewrite Eu, IH. reflexivity.
Qed.

Lemma snake_go_fixed : forall s last, no_upper s = true -> snake_go last s = s.
Proof.
  induction s as [|c r IH]; intros last H; simpl in *; [reflexivity|].
  apply andb_true_iff in H. destruct H as [H1 H2]. apply negb_true_iff in H1.
  rewrite H1, IH; [reflexivity | exact H2].
Qed.

(* the generated names never contain an upper-case letter ... *)
Lemma to_lower_snake_case_no_upper : forall s, no_upper (to_lower_snake_case s) = true.
Proof. intros s. apply snake_go_no_upper. Qed.

(* ... and the function is idempotent (edges_creator.rs applies it twice for resolve_<t>_edge) *)
Lemma to_lower_snake_case_idempotent : forall s,
  to_lower_snake_case (to_lower_snake_case s) = to_lower_snake_case s.
Proof. intros s. apply snake_go_fixed. apply to_lower_snake_case_no_upper. Qed.

Lemma to_lower_snake_case_fixed : forall s, no_upper s = true -> to_lower_snake_case s = s.
Proof. intros s H. apply snake_go_fixed. exact H. Qed.

Lemma edge_resolver_reference_matches : forall t,
  type_edge_resolver_fn_name (to_lower_snake_case t) = type_edge_resolver_fn_name t.
Proof. intros t. unfold type_edge_resolver_fn_name. rewrite to_lower_snake_case_idempotent. reflexivity. Qed.

(* ------------------------------------------------------------------ keywords *)
(* no name is in the escape list after escaping *)
Lemma escaped_not_in_escape_list : forall n, mem (escaped_rust_name n) escaped_keywords = false.
Proof.
  intros n. unfold escaped_rust_name. destruct (mem n escaped_keywords) eqn:E; [|exact E].
  apply mem_In in E. unfold escaped_keywords in E.
  repeat (destruct E as [<-|E]; [vm_compute; reflexivity|]). contradiction.
Qed.

Definition unescaped_reserved : list string :=
  ["_"; "abstract"; "become"; "box"; "do"; "final"; "macro"; "override"; "priv"; "typeof"; "unsized"; "virtual"; "yield"].

(* exactly which names are still reserved words after escaped_rust_name *)
Lemma reserved_after_escape : forall n, reserved (escaped_rust_name n) = true <-> In n unescaped_reserved.
Proof.
  intros n. split.
  - intros H. unfold escaped_rust_name in H. destruct (mem n escaped_keywords) eqn:E.
    + exfalso. apply mem_In in E. unfold escaped_keywords in E.
      repeat (destruct E as [<-|E]; [vm_compute in H; discriminate|]). contradiction.
    + unfold reserved in H. apply mem_In in H. unfold reserved_words in H.
      repeat (destruct H as [<-|H]; [first [vm_compute in E; discriminate | vm_compute; tauto]|]). contradiction.
  - intros H. unfold unescaped_reserved in H.
    repeat (destruct H as [<-|H]; [vm_compute; reflexivity|]). contradiction.
Qed.

Lemma reserved_no_resolve_prefix : forall w, reserved w = true -> String.prefix "resolve_" w = false.
Proof.
  intros w H. unfold reserved in H. apply mem_In in H. unfold reserved_words in H.
  repeat (destruct H as [<-|H]; [reflexivity|]). contradiction.
Qed.

Lemma resolve_prefixed_not_reserved : forall x, reserved ("resolve_" ++ x) = false.
Proof.
  intros x. destruct (reserved ("resolve_" ++ x)) eqn:E; [|reflexivity].
  apply reserved_no_resolve_prefix in E. simpl in E.
  destruct x; simpl in E; discriminate.
Qed.

(* ------------------------------------------------------------------ the guards *)
Lemma uniq_go_spec : forall l seen,
  uniq_go seen l = true <->
  NoDup (map mod_name l) /\ (forall x, In x (map mod_name l) -> ~ In x seen).
Proof.
  induction l as [|n r IH]; intros seen; simpl.
  - split; [intros _; split; [constructor | intros x []] | reflexivity].
  - fold (mod_name n). destruct (mem (mod_name n) seen) eqn:E.
    + split; [discriminate|]. intros [_ H]. exfalso. apply (H (mod_name n)); [left; reflexivity|].
      apply mem_In. exact E.
    + rewrite IH. apply mem_false in E. split.
      * intros [Hnd Hdis]. split.
        -- constructor; [|exact Hnd]. intros Hin. apply (Hdis _ Hin). left. reflexivity.
        -- intros x [Hx|Hx]; [subst; exact E|]. intros Hs. apply (Hdis _ Hx). right. exact Hs.
      * intros [Hnd Hdis]. inversion Hnd as [|? ? Hnotin Hnd']; subst. split; [exact Hnd'|].
        intros x Hx [Hs|Hs]; [subst; contradiction|]. apply (Hdis x); [right; exact Hx | exact Hs].
Qed.

(* guards_total, vertex part: the guard passes exactly when the module names are pairwise distinct *)
Lemma vertex_guard_spec : forall names,
  ensure_no_vertex_name_conflicts names = true <-> NoDup (map mod_name names).
Proof.
  intros names. unfold ensure_no_vertex_name_conflicts. rewrite uniq_go_spec. split; [tauto|].
  intros H. split; [exact H | intros x _ []].
Qed.

Lemma field_guard_spec : forall ts,
  ensure_no_field_name_conflicts_on_vertex_type ts = true <->
  forall t, In t ts -> NoDup (map mod_name (field_names t)).
Proof.
  intros ts. unfold ensure_no_field_name_conflicts_on_vertex_type. rewrite forallb_forall.
  split; intros H t Ht; specialize (H t Ht); apply vertex_guard_spec; exact H.
Qed.

Lemma vertex_guard_rejects_iff : forall names,
  NoDup names ->
  (ensure_no_vertex_name_conflicts names = false <->
   exists a b, In a names /\ In b names /\ a <> b /\ mod_name a = mod_name b).
Proof.
  intros names Hnd. split.
  - intros H. destruct (any_pair (fun a b => String.eqb (mod_name a) (mod_name b)) names) eqn:E.
    + unfold any_pair in E. apply existsb_exists in E. destruct E as [a [Ha E]].
      apply existsb_exists in E. destruct E as [b [Hb E]]. apply andb_true_iff in E. destruct E as [E1 E2].
      exists a, b. repeat split; try assumption.
      * intros Heq. subst. rewrite String.eqb_refl in E1. discriminate.
      * apply String.eqb_eq. exact E2.
    + exfalso. assert (Hg : ensure_no_vertex_name_conflicts names = true).
      { apply vertex_guard_spec. apply NoDup_map_inj_on; [exact Hnd|].
        intros a b Ha Hb Hne Heq. pose proof (any_pair_false _ _ E a b Ha Hb Hne) as Hp. cbv beta in Hp.
        rewrite Heq, String.eqb_refl in Hp. discriminate. }
      congruence.
  - intros [a [b [Ha [Hb [Hne Heq]]]]].
    destruct (ensure_no_vertex_name_conflicts names) eqn:E; [|reflexivity].
    apply vertex_guard_spec in E. exfalso. apply Hne. eapply NoDup_map_In_inj; eassumption.
Qed.

(* ------------------------------------------------------------------ what the guards alone give *)
Section GuardConsequences.
  Variable s : schema.
  Hypothesis Hg : guards s = true.

  Lemma guards_vertex : NoDup (map mod_name (type_names s)).
  Proof. unfold guards in Hg. apply andb_true_iff in Hg. apply vertex_guard_spec. tauto. Qed.

  Lemma guards_fields : forall t, In t (s_types s) -> NoDup (map mod_name (field_names t)).
  Proof. unfold guards in Hg. apply andb_true_iff in Hg. apply field_guard_spec. tauto. Qed.

  Lemma guards_snake_names : NoDup (map to_lower_snake_case (type_names s)).
  Proof. pose proof guards_vertex as H. unfold mod_name in H. apply NoDup_map_compose in H. exact H. Qed.

  Lemma guards_mod_names_distinct :
    NoDup (map (fun t => mod_name (vt_name t)) (filter has_edges (s_types s))).
  Proof.
    apply NoDup_map_filter. pose proof guards_vertex as H. unfold type_names in H.
    rewrite map_map in H. exact H.
  Qed.

  Lemma guards_prop_fns_distinct :
    NoDup (map (fun t => property_resolver_fn_name (vt_name t)) (filter has_props (s_types s))).
  Proof.
    apply NoDup_map_filter. pose proof guards_snake_names as H. unfold type_names in H. rewrite map_map in H.
    apply (NoDup_map_injective (fun x => "resolve_" ++ x ++ "_property")) in H;
      [|intros a b; apply property_resolver_fn_name_inj].
    rewrite map_map in H. exact H.
  Qed.

  Lemma guards_edge_fns_distinct :
    NoDup (map (fun t => type_edge_resolver_fn_name (to_lower_snake_case (vt_name t))) (filter has_edges (s_types s))).
  Proof.
    apply NoDup_map_filter. pose proof guards_snake_names as H. unfold type_names in H. rewrite map_map in H.
    apply (NoDup_map_injective (fun x => "resolve_" ++ x ++ "_edge")) in H;
      [|intros a b; apply type_edge_resolver_fn_name_inj].
    rewrite map_map in H.
    erewrite map_ext; [exact H|]. intros t. cbv beta. apply edge_resolver_reference_matches.
  Qed.

  Lemma guards_edge_fn_names_distinct : forall t, In t (s_types s) ->
    NoDup (map (fun e => edge_fn_name (fst e)) (vt_edges t)).
  Proof.
    intros t Ht. pose proof (guards_fields t Ht) as H. unfold field_names in H.
    rewrite map_app in H. apply NoDup_app_l in H. rewrite map_map in H. exact H.
  Qed.
End GuardConsequences.

(* ------------------------------------------------------------------ build_stub is total on non-empty names *)
Definition stub_of (s : schema) : stub :=
  mkStub
    (map (fun t => variant_name (vt_name t)) (s_types s))
    (map (fun t => property_resolver_fn_name (vt_name t)) (filter has_props (s_types s)))
    (map (fun t => type_edge_resolver_fn_name (to_lower_snake_case (vt_name t))) (filter has_edges (s_types s)))
    (map (fun t => type_edge_resolver_fn_name (vt_name t)) (filter has_edges (s_types s)))
    (map build_mod (filter has_edges (s_types s)))
    (map (fun e => (entrypoint_fn_name (fst e), snd e)) (s_entry s)).

Lemma map_res_variants : forall ts,
  forallb nonempty (map vt_name ts) = true ->
  map_res (fun t => do v <- upper_case_variant_name (vt_name t); Ok (escaped_rust_name v)) ts
  = Ok (map (fun t => variant_name (vt_name t)) ts).
Proof.
  induction ts as [|t r IH]; simpl; intros H; [reflexivity|].
  apply andb_true_iff in H. destruct H as [H1 H2]. rewrite (IH H2).
  destruct (vt_name t) eqn:E; [discriminate|]. reflexivity.
Qed.

Lemma build_stub_total : forall s,
  forallb nonempty (type_names s) = true -> build_stub s = Ok (stub_of s).
Proof.
  intros s H. unfold build_stub. unfold type_names in H. rewrite (map_res_variants _ H). reflexivity.
Qed.

(* a stub is produced only if the guards pass, and then it is `stub_of` *)
Lemma generate_Ok_inv : forall s st,
  generate s = Ok st -> guards s = true /\ build_stub s = Ok st /\ syn_accepts st = true.
Proof.
  intros s st H. unfold generate in H. unfold guards.
  destruct (ensure_no_vertex_name_conflicts (type_names s)); simpl in H; [|discriminate].
  destruct (ensure_no_field_name_conflicts_on_vertex_type (s_types s)); simpl in H; [|discriminate].
  destruct (build_stub s) as [st'|] eqn:Eb; simpl in H; [|discriminate].
  destruct (syn_accepts st') eqn:Es; [|discriminate]. inversion H; subst. auto.
Qed.

Lemma generate_panics_iff : forall s,
  forallb nonempty (type_names s) = true ->
  ((exists site, generate s = Panic site) <-> guards s = false \/ syn_accepts (stub_of s) = false).
Proof.
  intros s Hne. unfold generate, guards. rewrite (build_stub_total s Hne). simpl.
  destruct (ensure_no_vertex_name_conflicts (type_names s)); simpl.
  - destruct (ensure_no_field_name_conflicts_on_vertex_type (s_types s)); simpl.
    + destruct (syn_accepts (stub_of s)); split.
      * intros [site H]. discriminate.
      * intros [H|H]; discriminate.
      * intros _. right. reflexivity.
      * intros _. eexists. reflexivity.
    + split; [intros _; left; reflexivity | intros _; eexists; reflexivity].
  - split; [intros _; left; reflexivity | intros _; eexists; reflexivity].
Qed.

(* ------------------------------------------------------------------ completeness of the known classes *)
Lemma known_false_inv : forall s, known s = false ->
  K_guard_rejects_valid_schema s = false /\ K_reserved_word_unescaped s = false /\
  K_variant_collision s = false /\ K_derive_conversion_collision s = false /\
  K_conversion_name_mismatch s = false /\ K_entrypoint_collision s = false /\
  K_parameter_capture s = false /\ K_import_clash s = false /\ K_crate_shadow s = false.
Proof.
  intros s H. unfold known, known_classes in H. simpl in H.
  repeat (apply orb_false_iff in H; destruct H as [? H]). repeat split; assumption.
Qed.

Lemma in_all_params_edge : forall s t e p,
  In t (s_types s) -> In e (vt_edges t) -> In p (snd e) -> In p (all_params s).
Proof.
  intros s t e p Ht He Hp. unfold all_params. apply in_or_app. left.
  apply in_flat_map. exists t. split; [exact Ht|]. apply in_flat_map. exists e. tauto.
Qed.

Lemma in_all_params_entry : forall s e p,
  In e (s_entry s) -> In p (snd e) -> In p (all_params s).
Proof.
  intros s e p He Hp. unfold all_params. apply in_or_app. right. apply in_flat_map. exists e. tauto.
Qed.

Lemma in_edge_param_lists : forall s t e,
  In t (s_types s) -> In e (vt_edges t) -> In (snd e) (edge_param_lists s).
Proof.
  intros s t e Ht He. unfold edge_param_lists. apply in_flat_map. exists t. split; [exact Ht|].
  apply in_map. exact He.
Qed.

Lemma entry_params_syn_ok_of_unreserved : forall ps first,
  (forall p, In p ps -> reserved p = false) -> entry_params_syn_ok first ps = true.
Proof.
  induction ps as [|p r IH]; intros first H; simpl; [reflexivity|].
  rewrite IH by (intros q Hq; apply H; right; exact Hq).
  unfold edge_param_syn_ok. rewrite (H p) by (left; reflexivity). reflexivity.
Qed.

Section Complete.
  Variable s : schema.
  Hypothesis Hwf : wf_schema s = true.
  Hypothesis Hk : known s = false.

  Let Hks := known_false_inv s Hk.

  Lemma cl_guards : guards s = true.
  Proof. destruct Hks as [H _]. unfold K_guard_rejects_valid_schema in H. apply negb_false_iff in H. exact H. Qed.

  Lemma cl_wf_parts :
    forallb nonempty (type_names s) = true /\ NoDup (type_names s) /\
    (forall t e, In t (s_types s) -> In e (vt_edges t) -> NoDup (snd e)) /\
    NoDup (map fst (s_entry s)) /\ (forall e, In e (s_entry s) -> NoDup (snd e)).
  Proof.
    pose proof Hwf as W. unfold wf_schema in W. repeat (apply andb_true_iff in W; destruct W as [W ?]).
    repeat split.
    - assumption.
    - apply nodupb_NoDup. assumption.
    - intros t e Ht He. apply nodupb_NoDup.
      match goal with H : forallb (fun t => forallb _ (vt_edges t)) _ = true |- _ =>
        rewrite forallb_forall in H; specialize (H t Ht); rewrite forallb_forall in H; exact (H e He) end.
    - apply nodupb_NoDup. assumption.
    - intros e He. apply nodupb_NoDup.
      match goal with H : forallb (fun e => nodupb (snd e)) (s_entry s) = true |- _ =>
        rewrite forallb_forall in H; exact (H e He) end.
  Qed.

  Lemma cl_param_unreserved : forall p, In p (all_params s) -> reserved p = false.
  Proof.
    intros p Hp. destruct Hks as [_ [H _]]. unfold K_reserved_word_unescaped in H.
    repeat (apply orb_false_iff in H; destruct H as [H ?]).
    exact (existsb_false_In _ _ H p Hp).
  Qed.

  Lemma cl_variants : NoDup (map variant_name (type_names s)).
  Proof.
    destruct cl_wf_parts as [_ [Hnd _]]. destruct Hks as [_ [_ [H _]]].
    apply NoDup_map_inj_on; [exact Hnd|]. intros a b Ha Hb Hne Heq.
    pose proof (any_pair_false _ _ H a b Ha Hb Hne) as Hp. cbv beta in Hp.
    rewrite Heq, String.eqb_refl in Hp. simpl in Hp. apply negb_false_iff in Hp. apply String.eqb_eq in Hp.
    apply Hne. eapply NoDup_map_In_inj; [apply (guards_vertex s cl_guards) | | | exact Hp]; assumption.
  Qed.

  Lemma cl_derive_conversions : NoDup (map derive_conversion_name (map variant_name (type_names s))).
  Proof.
    destruct Hks as [_ [_ [_ [H _]]]].
    apply NoDup_map_inj_on; [exact cl_variants|]. intros a b Ha Hb Hne Heq.
    pose proof (any_pair_false _ _ H a b Ha Hb Hne) as Hp. cbv beta in Hp.
    rewrite Heq, String.eqb_refl in Hp. discriminate.
  Qed.

  Lemma cl_entry : NoDup (map entrypoint_fn_name (map fst (s_entry s))).
  Proof.
    destruct cl_wf_parts as [_ [_ [_ [Hnd _]]]]. destruct Hks as [_ [_ [_ [_ [_ [H _]]]]]].
    apply NoDup_map_inj_on; [exact Hnd|]. intros a b Ha Hb Hne Heq.
    pose proof (any_pair_false _ _ H a b Ha Hb Hne) as Hp. cbv beta in Hp.
    rewrite Heq, String.eqb_refl in Hp. discriminate.
  Qed.

  Lemma cl_params_ok : forall fixed ps,
    NoDup ps -> (forall p, In p ps -> In p (all_params s)) ->
    (forall p, In p ps -> mem p fixed = false) ->
    In ps (edge_param_lists s ++ entry_param_lists s) ->
    params_ok fixed ps = true.
  Proof.
    intros fixed ps Hnd Hall Hfixed Hin. unfold params_ok.
    destruct Hks as [_ [_ [_ [_ [_ [_ [H _]]]]]]]. unfold K_parameter_capture in H.
    apply orb_false_iff in H. destruct H as [H H3]. apply orb_false_iff in H. destruct H as [H1 H2].
    rewrite (proj2 (nodupb_NoDup ps) Hnd). simpl.
    rewrite (existsb_false_In _ _ H3 ps Hin). simpl. rewrite andb_true_r.
    apply forallb_forall. intros p Hp.
    rewrite (cl_param_unreserved p (Hall p Hp)). simpl.
    apply negb_true_iff. apply mem_false. intros Hi. apply in_app_or in Hi. destruct Hi as [Hi|Hi].
    - apply mem_In in Hi. rewrite (Hfixed p Hp) in Hi. discriminate.
    - apply mem_In in Hi. rewrite (existsb_false_In _ _ H1 p (Hall p Hp)) in Hi. discriminate.
  Qed.

  Lemma cl_defined_unreserved : forallb (fun i => negb (reserved i)) (defined_idents (stub_of s)) = true.
  Proof.
    destruct Hks as [_ [H _]]. unfold K_reserved_word_unescaped in H.
    repeat (apply orb_false_iff in H; destruct H as [H ?]).
    apply forallb_forall. intros i Hi. apply negb_true_iff. unfold defined_idents, stub_of in Hi. simpl in Hi.
    repeat (apply in_app_or in Hi; destruct Hi as [Hi|Hi]).
    - apply in_map_iff in Hi. destruct Hi as [t [<- Ht]].
      match goal with Hx : existsb (fun t => reserved (variant_name (vt_name t))) _ = false |- _ =>
        exact (existsb_false_In _ _ Hx t Ht) end.
    - apply in_map_iff in Hi. destruct Hi as [t [<- _]]. apply resolve_prefixed_not_reserved.
    - apply in_map_iff in Hi. destruct Hi as [t [<- _]]. apply resolve_prefixed_not_reserved.
    - rewrite map_map in Hi. apply in_map_iff in Hi. destruct Hi as [t [<- Ht]]. simpl.
      apply filter_In in Ht. destruct Ht as [Ht He].
      match goal with Hx : existsb (fun t => has_edges t && reserved (mod_name (vt_name t))) _ = false |- _ =>
        pose proof (existsb_false_In _ _ Hx t Ht) as Hr end. cbv beta in Hr. rewrite He in Hr. exact Hr.
    - apply in_flat_map in Hi. destruct Hi as [m [Hm Hi]]. apply in_map_iff in Hm. destruct Hm as [t [<- Ht]].
      apply filter_In in Ht. destruct Ht as [Ht _]. simpl in Hi. rewrite map_map in Hi. simpl in Hi.
      apply in_map_iff in Hi. destruct Hi as [e [<- He]].
      match goal with Hx : existsb (fun t => existsb _ (vt_edges t)) _ = false |- _ =>
        pose proof (existsb_false_In _ _ Hx t Ht) as Hr end. cbv beta in Hr.
      exact (existsb_false_In _ _ Hr e He).
    - rewrite map_map in Hi. apply in_map_iff in Hi. destruct Hi as [e [<- He]]. simpl.
      match goal with Hx : existsb (fun e => reserved (entrypoint_fn_name (fst e))) _ = false |- _ =>
        exact (existsb_false_In _ _ Hx e He) end.
  Qed.

  Lemma cl_syn_accepts : syn_accepts (stub_of s) = true.
  Proof.
    unfold syn_accepts. rewrite cl_defined_unreserved. simpl. apply andb_true_iff. split.
    - apply forallb_forall. intros m Hm. unfold stub_of in Hm. simpl in Hm.
      apply in_map_iff in Hm. destruct Hm as [t [<- Ht]]. apply filter_In in Ht. destruct Ht as [Ht _].
      simpl. apply forallb_forall. intros f Hf. apply in_map_iff in Hf. destruct Hf as [e [<- He]]. simpl.
      apply forallb_forall. intros p Hp. unfold edge_param_syn_ok.
      rewrite (cl_param_unreserved p (in_all_params_edge s t e p Ht He Hp)). reflexivity.
    - apply forallb_forall. intros e' He'. unfold stub_of in He'. simpl in He'.
      apply in_map_iff in He'. destruct He' as [e [<- He]]. simpl.
      apply entry_params_syn_ok_of_unreserved. intros p Hp.
      exact (cl_param_unreserved p (in_all_params_entry s e p He Hp)).
  Qed.

  Lemma cl_mod_ok : forall t, In t (s_types s) -> has_edges t = true -> mod_ok (stub_of s) (build_mod t) = true.
  Proof.
    intros t Ht He. unfold mod_ok. simpl. rewrite map_map. simpl.
    destruct cl_wf_parts as [_ [_ [Hpnd _]]].
    destruct Hks as [_ [_ [_ [_ [Hconv [_ [Hcap [Himp _]]]]]]]].
    repeat (apply andb_true_iff; split).
    - apply nodupb_NoDup. exact (guards_edge_fn_names_distinct s cl_guards t Ht).
    - apply negb_true_iff. apply mem_false. intros Hin. apply in_map_iff in Hin. destruct Hin as [e [Heq Hin]].
      unfold K_import_clash in Himp. pose proof (existsb_false_In _ _ Himp t Ht) as H1. cbv beta in H1.
      pose proof (existsb_false_In _ _ H1 e Hin) as H2. cbv beta in H2. rewrite Heq in H2. discriminate.
    - apply forallb_forall. intros f Hf. apply in_map_iff in Hf. destruct Hf as [e [<- Hin]]. simpl.
      apply andb_true_iff. split.
      + apply mem_In. unfold defined_conversions. simpl.
        unfold K_conversion_name_mismatch in Hconv. pose proof (existsb_false_In _ _ Hconv t Ht) as H1.
        cbv beta in H1. rewrite He in H1. cbn [andb] in H1. apply negb_false_iff in H1. apply String.eqb_eq in H1.
        rewrite H1. rewrite map_map. apply in_map_iff. exists t. split; [reflexivity | exact Ht].
      + apply cl_params_ok.
        * exact (Hpnd t e Ht Hin).
        * intros p Hp. exact (in_all_params_edge s t e p Ht Hin Hp).
        * intros p Hp. unfold K_parameter_capture in Hcap.
          apply orb_false_iff in Hcap. destruct Hcap as [Hcap _]. apply orb_false_iff in Hcap. destruct Hcap as [_ H2].
          pose proof (existsb_false_In _ _ H2 (snd e) (in_edge_param_lists s t e Ht Hin)) as H3. cbv beta in H3.
          exact (existsb_false_In _ _ H3 p Hp).
        * apply in_or_app. left. exact (in_edge_param_lists s t e Ht Hin).
  Qed.

  Lemma cl_idents_ok : idents_ok (stub_of s) = true.
  Proof.
    unfold idents_ok.
    destruct cl_wf_parts as [_ [_ [_ [_ Hend]]]].
    destruct Hks as [_ [_ [_ [_ [_ [_ [_ [_ Hshadow]]]]]]]].
    repeat (apply andb_true_iff; split).
    - apply nodupb_NoDup. simpl. pose proof cl_variants as H. unfold type_names in H. rewrite map_map in H. exact H.
    - apply nodupb_NoDup. unfold defined_conversions. simpl.
      pose proof cl_derive_conversions as H. unfold type_names in H. rewrite !map_map in H. rewrite !map_map. exact H.
    - apply nodupb_NoDup. exact (guards_prop_fns_distinct s cl_guards).
    - apply nodupb_NoDup. exact (guards_edge_fns_distinct s cl_guards).
    - apply forallb_forall. intros r Hr. apply mem_In. simpl in *.
      apply in_map_iff in Hr. destruct Hr as [t [<- Ht]]. apply in_map_iff. exists t.
      split; [apply edge_resolver_reference_matches | exact Ht].
    - apply nodupb_NoDup. simpl. rewrite map_map. simpl. exact (guards_mod_names_distinct s cl_guards).
    - apply negb_true_iff. apply mem_false. simpl. rewrite map_map. simpl. intros Hin.
      apply in_map_iff in Hin. destruct Hin as [t [Heq Ht]]. apply filter_In in Ht. destruct Ht as [Ht He].
      unfold K_crate_shadow in Hshadow. pose proof (existsb_false_In _ _ Hshadow t Ht) as H1. cbv beta in H1.
      rewrite He, Heq in H1. discriminate.
    - apply forallb_forall. intros m Hm. simpl in Hm. apply in_map_iff in Hm. destruct Hm as [t [<- Ht]].
      apply filter_In in Ht. destruct Ht as [Ht He]. exact (cl_mod_ok t Ht He).
    - apply nodupb_NoDup. simpl. rewrite map_map. simpl.
      pose proof cl_entry as H. rewrite map_map in H. exact H.
    - apply forallb_forall. intros e' He'. simpl in He'. apply in_map_iff in He'. destruct He' as [e [<- He]]. simpl.
      apply cl_params_ok.
      + exact (Hend e He).
      + intros p Hp. exact (in_all_params_entry s e p He Hp).
      + intros p _. reflexivity.
      + apply in_or_app. right. unfold entry_param_lists. apply in_map. exact He.
    - exact cl_defined_unreserved.
  Qed.

  Lemma cl_generate : generate s = Ok (stub_of s).
  Proof.
    pose proof cl_guards as Hg. unfold guards in Hg. apply andb_true_iff in Hg. destruct Hg as [Hg1 Hg2].
    destruct cl_wf_parts as [Hne _].
    unfold generate. rewrite Hg1, Hg2. simpl. rewrite (build_stub_total s Hne). simpl.
    rewrite cl_syn_accepts. reflexivity.
  Qed.
End Complete.

Theorem classification_complete : forall s,
  wf_schema s = true -> known s = false ->
  exists st, generate s = Ok st /\ idents_ok st = true.
Proof.
  intros s Hwf Hk. exists (stub_of s). split; [apply cl_generate | apply cl_idents_ok]; assumption.
Qed.

(* what the guards give without excluding any class *)
Theorem guards_imply_resolver_names_distinct : forall s st,
  generate s = Ok st ->
  NoDup (st_prop_fns st) /\ NoDup (st_edge_fns st) /\ NoDup (map fst (st_mods st)) /\
  (forall m, In m (st_mods st) -> NoDup (map ef_name (snd m))) /\
  (forall r, In r (st_edge_refs st) -> In r (st_edge_fns st)).
Proof.
  intros s st H. apply generate_Ok_inv in H. destruct H as [Hg [Hb _]].
  unfold build_stub in Hb.
  destruct (map_res _ (s_types s)) as [vs|] eqn:Ev; simpl in Hb; [|discriminate].
  inversion Hb; subst; clear Hb. simpl. repeat split.
  - exact (guards_prop_fns_distinct s Hg).
  - exact (guards_edge_fns_distinct s Hg).
  - rewrite map_map. simpl. exact (guards_mod_names_distinct s Hg).
  - intros m Hm. apply in_map_iff in Hm. destruct Hm as [t [<- Ht]]. apply filter_In in Ht. destruct Ht as [Ht _].
    simpl. rewrite map_map. simpl. exact (guards_edge_fn_names_distinct s Hg t Ht).
  - intros r Hr. apply in_map_iff in Hr. destruct Hr as [t [<- Ht]]. apply in_map_iff. exists t.
    split; [apply edge_resolver_reference_matches | exact Ht].
Qed.

(* a produced stub never defines a bare reserved word (the generator panics instead) *)
Theorem produced_idents_not_reserved : forall s st i,
  generate s = Ok st -> In i (defined_idents st) -> reserved i = false.
Proof.
  intros s st i H Hi. apply generate_Ok_inv in H. destruct H as [_ [_ Hs]].
  unfold syn_accepts in Hs. apply andb_true_iff in Hs. destruct Hs as [Hs _].
  apply andb_true_iff in Hs. destruct Hs as [Hs _].
  rewrite forallb_forall in Hs. specialize (Hs i Hi). apply negb_true_iff in Hs. exact Hs.
Qed.

(* ------------------------------------------------------------------ restricted theorems with minimal hypotheses *)
(* (a) outside K-variant-collision the enum variants are pairwise distinct *)
Theorem variants_distinct_outside_class : forall s,
  NoDup (type_names s) -> ensure_no_vertex_name_conflicts (type_names s) = true ->
  K_variant_collision s = false -> NoDup (map variant_name (type_names s)).
Proof.
  intros s Hnd Hg H. apply vertex_guard_spec in Hg.
  apply NoDup_map_inj_on; [exact Hnd|]. intros a b Ha Hb Hne Heq.
  pose proof (any_pair_false _ _ H a b Ha Hb Hne) as Hp. cbv beta in Hp.
  rewrite Heq, String.eqb_refl in Hp. simpl in Hp. apply negb_false_iff in Hp. apply String.eqb_eq in Hp.
  apply Hne. eapply NoDup_map_In_inj; [exact Hg | | | exact Hp]; assumption.
Qed.

(* (b) distinct snake-case names give distinct resolver / module-independent names *)
Theorem distinct_snake_names_give_distinct_resolvers : forall names,
  NoDup (map to_lower_snake_case names) ->
  NoDup (map property_resolver_fn_name names) /\ NoDup (map type_edge_resolver_fn_name names).
Proof.
  intros names H. split.
  - apply (NoDup_map_injective (fun x => "resolve_" ++ x ++ "_property")) in H;
      [|intros a b; apply property_resolver_fn_name_inj]. rewrite map_map in H. exact H.
  - apply (NoDup_map_injective (fun x => "resolve_" ++ x ++ "_edge")) in H;
      [|intros a b; apply type_edge_resolver_fn_name_inj]. rewrite map_map in H. exact H.
Qed.

Theorem distinct_variants_give_distinct_called_conversions : forall vs,
  NoDup (map to_lower_snake_case vs) -> NoDup (map conversion_fn_name vs).
Proof.
  intros vs H. apply (NoDup_map_injective (fun x => "as_" ++ x)) in H; [|apply conversion_prefix_inj].
  rewrite map_map in H. exact H.
Qed.

(* (c) every name of the escape list is suffixed, and the result is no reserved word *)
Theorem keyword_escaped : forall n, In n escaped_keywords ->
  escaped_rust_name n = n ++ "_" /\ reserved (escaped_rust_name n) = false.
Proof.
  intros n H. unfold escaped_keywords in H.
  repeat (destruct H as [<-|H]; [vm_compute; split; reflexivity|]). contradiction.
Qed.

(* ------------------------------------------------------------------ stubgen's and the derive macro's snake case *)
(* no upper-case letter directly after an upper-case letter *)
Fixpoint adj_ok (last : ascii) (s : string) : bool :=
  match s with
  | EmptyString => true
  | String c r => negb (is_upper c && is_upper last) && adj_ok c r
  end.

Lemma is_upper_underscore : is_upper underscore = false.
Proof. reflexivity. Qed.

Lemma upper_to_lower_not_underscore : forall c, is_upper c = true -> to_lower c <> underscore.
Proof. intros c. destruct c as [[] [] [] [] [] [] [] []]; simpl; intros H; try discriminate H; intros E; discriminate E. Qed.

Lemma upper_not_underscore : forall c, is_upper c = true -> Ascii.eqb c underscore = false.
Proof. intros c. destruct c as [[] [] [] [] [] [] [] []]; simpl; intros H; try discriminate H; reflexivity. Qed.

Lemma snake_agree_iff : forall s last, snake_go last s = dsnake_go last s <-> adj_ok last s = true.
Proof.
  induction s as [|c r IH]; intros last; simpl; [tauto|].
  destruct (is_upper c) eqn:Ec; simpl.
  - destruct (is_upper last) eqn:El; simpl.
    + rewrite (upper_not_underscore last El). simpl. split; [|discriminate].
      intros H. inversion H as [[H1 H2]]. exfalso. exact (upper_to_lower_not_underscore c Ec H1).
    + rewrite andb_true_r. destruct (negb (Ascii.eqb last underscore)); rewrite <- IH; split; intros H; congruence.
  - rewrite <- IH. split; intros H; congruence.
Qed.

(* the conversion the stub calls is the one the derive macro defines exactly when the variant has
   no two adjacent upper-case letters *)
Theorem conversion_names_agree_iff : forall v,
  conversion_fn_name v = derive_conversion_name v <-> adj_ok underscore v = true.
Proof.
  intros v. unfold conversion_fn_name, derive_conversion_name, to_lower_snake_case, derive_to_lower_snake_case.
  rewrite <- snake_agree_iff. split; intros H; [apply append_inj_l in H; exact H | rewrite H; reflexivity].
Qed.

(* ------------------------------------------------------------------ witnesses *)
Definition w_f15 : schema := mkSchema [mkVT "AB" ["id"] []; mkVT "aB" ["id"] []] [("x", [])].
Definition w_mismatch : schema := mkSchema [mkVT "UserID" ["id"] [("friend", [])]] [("x", [])].
Definition w_derive : schema := mkSchema [mkVT "AB" ["id"] []; mkVT "a_b" ["id"] []] [("x", [])].
Definition w_entry : schema := mkSchema [mkVT "T" ["id"] []] [("aB", []); ("a_b", [])].
Definition w_reserved_panic : schema := mkSchema [mkVT "T" ["id"] [("yield", [])]] [("x", [])].
Definition w_reserved_param : schema := mkSchema [mkVT "T" ["id"] [("e", ["Self"; "crate"; "super"])]] [("x", ["_"; "true"; "false"])].
Definition w_capture : schema := mkSchema [mkVT "T" ["id"] [("e", ["contexts"])]] [("x", ["parameters"; "z"])].
Definition w_import : schema := mkSchema [mkVT "T" ["id"] [("resolveNeighborsWith", [])]] [("x", [])].
Definition w_shadow : schema := mkSchema [mkVT "Trustfall" ["id"] [("e", [])]] [("x", [])].
Definition w_guard : schema := mkSchema [mkVT "type" ["id"] []; mkVT "type_" ["id"] []] [("x", [])].
Definition w_guard2 : schema := mkSchema [mkVT "aB" ["id"] []; mkVT "a_b" ["id"] []] [("x", [])].
Definition w_clean : schema :=
  mkSchema [mkVT "_aB" ["id"] [("_ab", [])];
            mkVT "a_1" ["a_1"] [("Ab_", [])];
            mkVT "ab" ["aB"; "AB_"] [("A1", []); ("a__b", ["aB"; "a_b"])];
            mkVT "self" ["self"] [("me", ["raw"]); ("type", [])];
            mkVT "type" ["id"; "match"] [("async", ["gen"; "union"]); ("fn", [])]]
           [("AB", ["A_B"]); ("aB", []); ("crate", []); ("type", ["auto"])].

Lemma not_NoDup_of_nodupb : forall l, nodupb l = false -> ~ NoDup l.
Proof. intros l H Hn. apply nodupb_NoDup in Hn. congruence. Qed.

(* F15: both guards pass, a stub is produced, and `enum Vertex` has the variant AB twice *)
Lemma guards_imply_distinct_variants_refuted :
  exists s st, wf_schema s = true /\ guards s = true /\ known s = true /\ generate s = Ok st /\
               ~ NoDup (st_variants st) /\ idents_ok st = false.
Proof.
  exists w_f15. eexists. repeat split; try (vm_compute; reflexivity).
  apply not_NoDup_of_nodupb. vm_compute. reflexivity.
Qed.

Definition refutes (s : schema) (class : string) : Prop :=
  wf_schema s = true /\ guards s = true /\ show_classes s = class /\ show_verdict s = "F".

Lemma class_witnesses :
  refutes w_f15 "K-variant-collision" /\
  refutes w_mismatch "K-conversion-name-mismatch" /\
  refutes w_derive "K-derive-conversion-collision" /\
  refutes w_entry "K-entrypoint-collision" /\
  refutes w_reserved_param "K-reserved-word-unescaped" /\
  refutes w_capture "K-parameter-capture" /\
  refutes w_import "K-import-clash" /\
  refutes w_shadow "K-crate-shadow".
Proof. vm_compute. repeat split. Qed.

(* the guards pass, yet no stub is produced: an unescaped reserved word reaches syn *)
Lemma reserved_word_panics_witness :
  wf_schema w_reserved_panic = true /\ guards w_reserved_panic = true /\
  show_classes w_reserved_panic = "K-reserved-word-unescaped" /\
  exists site, generate w_reserved_panic = Panic site.
Proof. repeat split; try (vm_compute; reflexivity). eexists. vm_compute. reflexivity. Qed.

(* a valid schema the guards reject: no stub at all *)
Lemma guard_rejects_valid_schema_witness :
  wf_schema w_guard = true /\ guards w_guard = false /\
  show_classes w_guard = "K-guard-rejects-valid-schema" /\ (exists site, generate w_guard = Panic site) /\
  wf_schema w_guard2 = true /\ guards w_guard2 = false /\ (exists site, generate w_guard2 = Panic site).
Proof. repeat split; try (vm_compute; reflexivity); eexists; vm_compute; reflexivity. Qed.

(* non-vacuity of classification_complete: an adversarial schema outside every class *)
Lemma clean_witness :
  wf_schema w_clean = true /\ known w_clean = false /\ show_verdict w_clean = "T" /\
  show_generate w_clean =
  "V[_aB,A_1,Ab,Self_,Type]P[resolve__a_b_property,resolve_a_1_property,resolve_ab_property,resolve_self_property,resolve_type_property]E[resolve__a_b_edge,resolve_a_1_edge,resolve_ab_edge,resolve_self_edge,resolve_type_edge]R[resolve__a_b_edge,resolve_a_1_edge,resolve_ab_edge,resolve_self_edge,resolve_type_edge]M[_a_b{_ab()@as__a_b},a_1{ab_()@as_a_1},ab{a1()@as_ab;a__b(aB,a_b)@as_ab},self_{me(raw)@as_self_;type_()@as_self_},type_{async_(gen,union)@as_type;fn_()@as_type}]S[ab(A_B),a_b(),crate_(),type_(auto)]".
Proof. vm_compute. repeat split. Qed.

(* to_lower_snake_case is not injective (so the guard rejects such pairs), and differs from the derive macro's *)
Lemma snake_facts :
  to_lower_snake_case "aB" = to_lower_snake_case "a_b" /\
  to_lower_snake_case "AB" = "ab" /\ derive_to_lower_snake_case "AB" = "a_b" /\
  variant_name "aB" = variant_name "AB" /\ mod_name "aB" <> mod_name "AB" /\
  mod_name "type" = mod_name "type_".
Proof. vm_compute. repeat split. intros H. discriminate H. Qed.
