(* NoPanic.v — definitions for the whole-interpreter panic-freedom theorem (C09):
   * operator_site: the panic sites of the filter operator functions (Ops.v, Values.v fv_eq: an operand
     outside the operator's domain) and of the regex compilation of filtering.rs::apply_filter
     (Exec.precheck_static);
   * safe P r: the outcome r is a value satisfying P, or a panic at an operator site;
   * np_ok: the decidable static well-formedness of a lowered query under which every other panic
     site of Exec.v (the engine's own bookkeeping) is unreachable;
   * cinv: the representation invariant of a DataContext between two stages of a component.
   Definitions only; the proofs are in NoPanicOps.v / NoPanicProofs.v. *)
From TF Require Import ValuesProofs Exec Sem ExecLemmas Sim SimRec SimComp FoldOut ExecNoPanic WfCheck.
Local Open Scope string_scope.
Local Open Scope N_scope.
Local Open Scope list_scope.

(* ---------- which panics are the operators' own ---------- *)
Definition operator_sites : list string :=
  [ (* Values.v: PartialEq on non-finite floats (reached through equals / one_of / contains) *)
    "value.rs:assert r0.is_finite"; "value.rs:assert l0.is_finite";
    (* Ops.v: the unreachable!() arms of the comparison, string, membership and regex operators *)
    "filtering.rs:79 unreachable"; "filtering.rs:90 unreachable"; "filtering.rs:93 unreachable";
    "filtering.rs:112 unreachable"; "filtering.rs:123 unreachable"; "filtering.rs:126 unreachable";
    "filtering.rs:148 unreachable"; "filtering.rs:159 unreachable"; "filtering.rs:170 unreachable";
    "filtering.rs:186 unreachable"; "filtering.rs:213 unreachable"; "filtering.rs:222 unreachable";
    (* (the four sites of the two dispatch tables of Ops.v — the regex expect()s of
       apply_filter_with_static_argument_value after the stage-building pre-check has passed, and the
       unreachable!() arms for unary operations — are NOT listed: they are proved unreachable) *)
    (* Exec.v precheck_static: the regex of a static argument is compiled when the stage is built *)
    "filtering.rs: regex argument was not a valid regex";
    "filtering.rs: regex argument was not a string" ].

Definition operator_site (s : string) : bool := existsb (String.eqb s) operator_sites.

(* a value satisfying P, or a panic of a filter operator *)
Definition safe {A} (P : A -> Prop) (r : res A) : Prop :=
  match r with Ok a => P a | Panic s => operator_site s = true end.

(* ---------- the static state of a component while its steps are processed ---------- *)
Record nst := mkNst {
  s_vis : list N;                 (* vids recorded so far, in order *)
  s_fds : list N;                 (* eids of the folds completed so far, in order *)
  s_cur : N;                      (* the vid whose vertex is the active one *)
  s_anc : list (N * list N);      (* recorded vid -> itself and its ancestors in the edge tree *)
  s_fks : list fkey               (* (eid, name) keys the completed folds may have written *)
}.

Definition anc_of (st : nst) (v : N) : list N :=
  match lookup_N v (s_anc st) with Some l => l | None => [] end.

Definition st_enter (st : nst) (vid : N) (l : list N) : nst :=
  mkNst (s_vis st ++ [vid]) (s_fds st) vid (s_anc st ++ [(vid, vid :: l)]) (s_fks st).
Definition st_edge (st : nst) (e : ir_edge) : nst := st_enter st (e_to e) (anc_of st (e_from e)).
Definition st_fold (st : nst) (h : fold_hdr) (sub : ir_component) : nst :=
  mkNst (s_vis st) (s_fds st ++ [fo_eid h]) (fo_from h) (s_anc st) (s_fks st ++ fold_keys h sub).
Definition st_start (root : N) : nst := mkNst [] [] root [] [].

Definition ref_in (t : fieldref) (l : list fieldref) : bool := existsb (fieldref_eqb t) l.

Section Check.
  Variable args : list (string * fv).

  (* a tag operand can be evaluated: its vertex is the one being filtered or is already recorded,
     its fold is completed, or (not defined by this component) an enclosing fold imports it *)
  Definition ref_ok (vs : list ir_vertex) (ss : list step) (impk : list fieldref) (st : nst) (cur : N)
             (t : fieldref) : bool :=
    match t with
    | FRContext cf =>
        N.eqb (cf_vid cf) cur ||
        (match find_vertex vs (cf_vid cf) with
         | Some _ => memN (cf_vid cf) (s_vis st)
         | None => ref_in t impk
         end)
    | FRFold ff => if has_fold ss (ff_eid ff) then memN (ff_eid ff) (s_fds st) else ref_in t impk
    end.

  (* unary operators have no operand and binary ones have one; variables are bound *)
  Definition arg_ok (vs : list ir_vertex) (ss : list step) (impk : list fieldref) (st : nst) (cur : N)
             (op : opk) (a : option argument) : bool :=
    match a with
    | None => opk_unary op
    | Some (AVar name _) => opk_unary op || is_some (lookup_str name args)
    | Some (ATag t) => opk_unary op || ref_ok vs ss impk st cur t
    end.

  Definition vertex_ok vs ss impk st (v : ir_vertex) : bool :=
    forallb (fun f => arg_ok vs ss impk st (v_vid v) (vf_op f) (vf_arg f)) (v_filters v).

  (* an edge goes from a recorded vertex to a new one; a @recurse edge has depth >= 1 and starts at the
     current vertex or one of its ancestors (the frontend numbers vertices depth-first) *)
  Definition edge_np vs ss impk st (e : ir_edge) : bool :=
    match find_vertex vs (e_from e), find_vertex vs (e_to e) with
    | Some _, Some tov =>
        memN (e_from e) (s_vis st) && negb (memN (e_to e) (s_vis st)) && vertex_ok vs ss impk st tov
        && (match e_rec e with
            | Some r => negb (N.eqb (r_depth r) 0) && memN (e_from e) (anc_of st (s_cur st))
            | None => true
            end)
    | _, _ => false
    end.

  (* an imported tag is defined by THIS component, earlier *)
  Definition import_np (vs : list ir_vertex) (st : nst) (t : fieldref) : bool :=
    match t with
    | FRContext cf => is_some (find_vertex vs (cf_vid cf)) && memN (cf_vid cf) (s_vis st)
    | FRFold ff => memN (ff_eid ff) (s_fds st)
    end.

  Definition fold_np vs ss impk st (h : fold_hdr) (sub : ir_component) : bool :=
    is_some (find_vertex vs (fo_from h)) && memN (fo_from h) (s_vis st)
    && forallb (import_np vs st) (fo_imported h)
    && disjoint_keysb (fo_imported h) impk
    && forallb (count_arg_ok args) (fo_post h)
    && negb (memN (fo_eid h) (s_fds st))
    && forallb (fun pf => arg_ok vs ss impk (st_fold st h sub) (fo_from h) (pf_op pf) (pf_arg pf)) (fo_post h)
    && nodupb fv_key_eqb (fold_keys h sub)
    && forallb (fun k => negb (key_in k (s_fks st))) (fold_keys h sub).

  Definition outs_np (vs : list ir_vertex) (st : nst) (outs : list (string * ctxfield)) : bool :=
    forallb (fun o => memN (cf_vid (snd o)) (s_vis st) && is_some (find_vertex vs (cf_vid (snd o)))) outs.

  Fixpoint np_comp (impk : list fieldref) (c : ir_component) {struct c} : bool :=
    match c with
    | mkComp root vs ss outs =>
        match find_vertex vs root with
        | None => false
        | Some rootv =>
            vertex_ok vs ss impk (st_start root) rootv &&
            (fix go (todo : list step) (st : nst) {struct todo} : bool :=
               match todo with
               | [] => outs_np vs st outs
               | SEdge e :: r => edge_np vs ss impk st e && go r (st_edge st e)
               | SFold h sub :: r =>
                   fold_np vs ss impk st h sub && np_comp (impk ++ fo_imported h) sub && go r (st_fold st h sub)
               end) ss (st_enter (st_start root) root [])
        end
    end.

  (* the step loop on its own *)
  Fixpoint np_steps (vs : list ir_vertex) (ss : list step) (outs : list (string * ctxfield))
           (impk : list fieldref) (todo : list step) (st : nst) {struct todo} : bool :=
    match todo with
    | [] => outs_np vs st outs
    | SEdge e :: r => edge_np vs ss impk st e && np_steps vs ss outs impk r (st_edge st e)
    | SFold h sub :: r =>
        fold_np vs ss impk st h sub && np_comp (impk ++ fo_imported h) sub
        && np_steps vs ss outs impk r (st_fold st h sub)
    end.

  Fixpoint st_final (todo : list step) (st : nst) : nst :=
    match todo with
    | [] => st
    | SEdge e :: r => st_final r (st_edge st e)
    | SFold h sub :: r => st_final r (st_fold st h sub)
    end.

  Definition comp_final (c : ir_component) : nst :=
    match c with mkComp root _ ss _ => st_final ss (st_enter (st_start root) root []) end.

  (* the whole query: the component tree, and globally distinct output names *)
  Definition np_ok (q : ir_query) : bool := np_comp [] (q_comp q) && names_nodupb (q_comp q).
End Check.

(* ---------- the invariant of one DataContext ---------- *)
Definition covers (impk : list fieldref) (x : ctx) : Prop :=
  forall t, In t impk -> lookup_ref t (imported_tags x) <> None.

(* everything except "the active vertex is the one recorded for s_cur"; `l`: vids whose absence
   forces the active vertex to be absent (used between an expansion and record_vertex) *)
Record pinv (impk : list fieldref) (st : nst) (l : list N) (x : ctx) : Prop := mkPinv {
  pi_vals : values x = [];
  pi_susp : Forall (fun s => s = None) (suspended x);
  pi_pb : piggyback x = None;
  pi_vis : map fst (vertices x) = s_vis st;
  pi_fds : map fst (folded_contexts x) = s_fds st;
  pi_imp : covers impk x;
  pi_anc : forall v la, In (v, la) (s_anc st) ->
             In v (s_vis st) /\ forall a, In a la -> act_at x a = None -> act_at x v = None;
  pi_fvn : NoDup (map fst (folded_values x));
  pi_fvk : incl (map fst (folded_values x)) (s_fks st);
  pi_act : forall a, In a l -> act_at x a = None -> active x = None
}.

Definition cinv (impk : list fieldref) (st : nst) (x : ctx) : Prop :=
  pinv impk st [] x /\ lookup_N (s_cur st) (vertices x) = Some (active x).

(* a context entering a component: nothing recorded yet *)
Definition start_inv (impk : list fieldref) (x : ctx) : Prop :=
  values x = [] /\ suspended x = [] /\ piggyback x = None /\ vertices x = [] /\
  folded_contexts x = [] /\ folded_values x = [] /\ covers impk x.
