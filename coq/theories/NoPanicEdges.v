(* NoPanicEdges.v — progress + preservation for the filter stages, perform_entry_into_new_vertex and
   the edge expansions (plain, @optional, @recurse): under the invariant `cinv` and the static checks of
   NoPanic.v each stage returns contexts satisfying the next invariant, or panics inside a filter
   operator. *)
From Coq Require Import Lia.
From TF Require Import ValuesProofs Exec Sem ExecLemmas Sim SimRec SimComp SimFold FoldOut ExecNoPanic WfCheck
     NoPanic NoPanicOps.
Local Open Scope string_scope.
Local Open Scope N_scope.
Local Open Scope list_scope.

Ltac dctx x := destruct x as [?a ?vs ?vals ?susp ?fcs ?fvs ?pb ?imp].

(* ---------- association-list facts ---------- *)
Lemma np_memN_in x l : memN x l = true <-> In x l.
Proof.
  unfold memN. rewrite existsb_exists. split.
  - intros (y & Hy & E). apply N.eqb_eq in E. now subst.
  - intros H. exists x. split; [exact H|apply N.eqb_refl].
Qed.

Lemma np_memN_false x l : memN x l = false <-> ~ In x l.
Proof. rewrite <- np_memN_in. destruct (memN x l); split; congruence. Qed.

Lemma np_lookup_N_key {A} k (l : list (N * A)) : In k (map fst l) -> exists v, lookup_N k l = Some v.
Proof.
  induction l as [|[k' a] r IH]; cbn [map fst In lookup_N]; [intros []|].
  intros [E|H]; destruct (N.eqb_spec k k'); eauto; congruence.
Qed.

Lemma np_lookup_N_nokey {A} k (l : list (N * A)) : ~ In k (map fst l) -> lookup_N k l = None.
Proof.
  induction l as [|[k' a] r IH]; cbn [map fst In lookup_N]; [reflexivity|].
  intros H. destruct (N.eqb_spec k k') as [->|Hn]; [exfalso; apply H; now left|apply IH; tauto].
Qed.

Lemma np_lookup_N_some_key {A} k (l : list (N * A)) v : lookup_N k l = Some v -> In k (map fst l).
Proof.
  intros H. destruct (in_dec N.eq_dec k (map fst l)) as [Hin|Hn]; [exact Hin|].
  rewrite (np_lookup_N_nokey _ _ Hn) in H. discriminate.
Qed.

Lemma np_lookup_N_in {A} k (l : list (N * A)) v : lookup_N k l = Some v -> In (k, v) l.
Proof.
  induction l as [|[k' a] r IH]; cbn [lookup_N In]; [discriminate|].
  destruct (N.eqb_spec k k') as [->|Hn]; [intros [= ->]; now left|right; auto].
Qed.

Lemma np_lookup_N_app_old {A} k (l l2 : list (N * A)) :
  In k (map fst l) -> lookup_N k (l ++ l2) = lookup_N k l.
Proof.
  intros H. destruct (np_lookup_N_key _ _ H) as (v & Hv). rewrite Hv. now apply lookup_N_app_found.
Qed.

Lemma np_has_key_false {A} k (l : list (N * A)) : ~ In k (map fst l) -> has_key_N k l = false.
Proof. intros H. unfold has_key_N. now rewrite (np_lookup_N_nokey _ _ H). Qed.

Lemma np_ref_in t l : ref_in t l = true -> exists t', In t' l /\ fieldref_eqb t t' = true.
Proof. unfold ref_in. rewrite existsb_exists. auto. Qed.

Lemma covers_ref_in impk x t : covers impk x -> ref_in t impk = true -> lookup_ref t (imported_tags x) <> None.
Proof.
  intros Hc Hr. destruct (np_ref_in _ _ Hr) as (t' & Hin & E).
  rewrite (lookup_eqb_compat (imported_tags x) t t' E). now apply Hc.
Qed.

Lemma np_lookup_str_key {A} k (l : list (string * A)) : In k (map fst l) -> exists v, lookup_str k l = Some v.
Proof.
  induction l as [|[k' a] r IH]; cbn [map fst In lookup_str]; [intros []|].
  intros [E|H]; destruct (String.eqb_spec k k'); eauto; congruence.
Qed.

(* ---------- act_at and recording a vertex ---------- *)
Lemma act_at_absent x a : ~ In a (map fst (vertices x)) -> act_at x a = None.
Proof. intros H. unfold act_at. now rewrite (np_lookup_N_nokey _ _ H). Qed.

Lemma act_at_recorded_old vid x v : In v (map fst (vertices x)) -> act_at (recorded vid x) v = act_at x v.
Proof.
  intros H. unfold act_at, recorded. dctx x; cbn [vertices set_vertices] in *. now rewrite np_lookup_N_app_old.
Qed.

Lemma act_at_recorded_other vid x a : a <> vid -> act_at (recorded vid x) a = None -> act_at x a = None.
Proof.
  intros Hn H. destruct (in_dec N.eq_dec a (map fst (vertices x))) as [Hin|Hni].
  - now rewrite act_at_recorded_old in H.
  - now apply act_at_absent.
Qed.

Lemma cinv_act impk st x : cinv impk st x -> act_at x (s_cur st) = active x.
Proof. intros (_ & H). unfold act_at. now rewrite H. Qed.

(* moving a context along: only the active vertex changes *)
Lemma pinv_transfer impk st l0 l c x :
  pinv impk st l0 c ->
  values x = [] -> Forall (fun s => s = None) (suspended x) -> piggyback x = None ->
  vertices x = vertices c -> folded_contexts x = folded_contexts c -> folded_values x = folded_values c ->
  imported_tags x = imported_tags c ->
  (forall a, In a l -> act_at c a = None -> active x = None) ->
  pinv impk st l x.
Proof.
  intros [P1 P2 P3 P4 P5 P6 P7 P8 P9 P10] Hv Hs Hp Hvx Hfc Hfv Hi Ha.
  assert (Hact : forall a, act_at x a = act_at c a) by (intros a; unfold act_at; now rewrite Hvx).
  constructor; try assumption.
  - now rewrite Hvx.
  - now rewrite Hfc.
  - intros t Ht. rewrite Hi. now apply P6.
  - intros v la Hin. destruct (P7 v la Hin) as (A & B). split; [exact A|]. intros a Hal. rewrite !Hact. now apply B.
  - now rewrite Hfv.
  - now rewrite Hfv.
  - intros a Hal. rewrite Hact. now apply Ha.
Qed.

Lemma pinv_weaken impk st l c : pinv impk st l c -> pinv impk st [] c.
Proof. intros [P1 P2 P3 P4 P5 P6 P7 P8 P9 P10]. constructor; try assumption. intros a []. Qed.

Section Edges.
  Variable re_match : string -> string -> option bool.
  Variable g : graph.
  Variable args : list (string * fv).
  Hypothesis Hind : ty_indep g.

  (* the lookups a filter operand needs *)
  Definition lk (impk : list fieldref) (st : nst) (x : ctx) : Prop :=
    map fst (vertices x) = s_vis st /\ map fst (folded_contexts x) = s_fds st /\ covers impk x.

  Lemma pinv_lk impk st l x : pinv impk st l x -> lk impk st x.
  Proof. intros H. split; [apply (pi_vis _ _ _ _ H)|split; [apply (pi_fds _ _ _ _ H)|apply (pi_imp _ _ _ _ H)]]. Qed.

  Lemma vertex_at_safe impk st x vid :
    lk impk st x -> memN vid (s_vis st) = true -> exists ov, vertex_at x vid = Ok ov.
  Proof.
    intros (Hv & _) Hm. apply np_memN_in in Hm. rewrite <- Hv in Hm.
    destruct (np_lookup_N_key _ _ Hm) as (ov & Hov). exists ov. unfold vertex_at. now rewrite Hov.
  Qed.

  Lemma fold_count_value_safe impk st x eid :
    lk impk st x -> memN eid (s_fds st) = true -> exists t, fold_count_value eid x = Ok t.
  Proof.
    intros (_ & Hf & _) Hm. apply np_memN_in in Hm. rewrite <- Hf in Hm.
    destruct (np_lookup_N_key _ _ Hm) as (o & Ho). unfold fold_count_value. rewrite Ho. destruct o; eauto.
  Qed.

  Lemma imported_safe impk st x t :
    lk impk st x -> ref_in t impk = true ->
    exists tv, expect_some "ctx.imported_tags[field_ref]: key not found" (lookup_ref t (imported_tags x)) = Ok tv.
  Proof.
    intros (_ & _ & Hc) Hr. pose proof (covers_ref_in _ _ _ Hc Hr) as Hn.
    destruct (lookup_ref t (imported_tags x)) as [tv|]; [exists tv; reflexivity|congruence].
  Qed.

  (* ---------- one filter on one context ---------- *)
  Lemma filter_one_safe vs ss impk st cur cur_ty op arg sr c left :
    lk impk st c ->
    arg_ok args vs ss impk st cur op arg = true ->
    (forall x t, arg = Some (AVar x t) -> opk_unary op = false ->
                 exists r, sr = Some r /\ precheck_static re_match op r = Ok tt) ->
    safe (fun o => o = Some c \/ o = None)
         (filter_one re_match g vs ss cur cur_ty op arg sr (push_value c left)).
  Proof.
    intros Hlk Hok Hsr. unfold filter_one. cbn [bind pop_value push_value set_values values fst snd].
    assert (Hc : set_values (push_value c left) (values c) = c) by (dctx c; reflexivity).
    rewrite !Hc.
    destruct (apply_unary op left (match active c with Some _ => true | None => false end)) as [b|] eqn:EU.
    - cbn [safe]. destruct b; auto.
    - apply apply_unary_none in EU. unfold arg_ok in Hok. rewrite EU in Hok.
      destruct arg as [[fr|x t]|]; [| |discriminate].
      + cbn [orb] in Hok. destruct fr as [cf|ff]; cbn [ref_ok] in Hok.
        * eapply safe_bind with (P := fun _ => True).
          -- destruct (N.eqb (cf_vid cf) cur); [exact I|]. cbn [orb] in Hok.
             unfold context_field_value. destruct (find_vertex vs (cf_vid cf)) as [vtx|].
             ++ destruct (vertex_at_safe _ _ _ _ Hlk Hok) as (ov & ->). exact I.
             ++ destruct (imported_safe _ _ _ _ Hlk Hok) as (tv & ->). exact I.
          -- intros tv _. eapply safe_bind; [apply apply_tagged_safe; exact EU|]. intros b _. cbn [safe]. destruct b; auto.
        * eapply safe_bind with (P := fun _ => True).
          -- destruct (has_fold ss (ff_eid ff)).
             ++ destruct (fold_count_value_safe _ _ _ _ Hlk Hok) as (tv & ->). exact I.
             ++ destruct (imported_safe _ _ _ _ Hlk Hok) as (tv & ->). exact I.
          -- intros tv _. eapply safe_bind; [apply apply_tagged_safe; exact EU|]. intros b _. cbn [safe]. destruct b; auto.
      + destruct (Hsr x t eq_refl EU) as (r & -> & Hpre). cbn [expect_some bind].
        eapply safe_bind; [apply apply_static_safe; [exact EU|exact Hpre]|]. intros b _. cbn [safe]. destruct b; auto.
  Qed.

  Lemma filter_stage_safe (P : ctx -> Prop) vs ss impk st cur cur_ty op arg (lf : ctx -> fv) cs :
    (forall x, P x -> lk impk st x) -> Forall P cs ->
    arg_ok args vs ss impk st cur op arg = true ->
    safe (Forall P)
         (filter_stage re_match g args vs ss cur cur_ty op arg (map (fun c => push_value c (lf c)) cs)).
  Proof.
    intros HP Hcs Hok. unfold filter_stage.
    eapply safe_bind with (P := fun sr => forall x t, arg = Some (AVar x t) -> opk_unary op = false ->
                                           exists r, sr = Some r /\ precheck_static re_match op r = Ok tt).
    - destruct arg as [[fr|x t]|]; try (cbn [safe]; intros; discriminate).
      destruct (opk_unary op) eqn:Eu; [cbn [safe]; intros; congruence|].
      unfold arg_ok in Hok. rewrite Eu in Hok. cbn [orb] in Hok. unfold arg_of.
      destruct (lookup_str x args) as [r|]; [|discriminate]. cbn [expect_some bind].
      pose proof (precheck_static_safe re_match op r) as Hpre.
      destruct (precheck_static re_match op r) as [[]|s] eqn:Epre; [|exact Hpre].
      cbn [bind safe]. intros x0 t0 _ _. exists r. split; [reflexivity|exact Epre].
    - intros sr Hsr.
      apply safe_filter_mapM with (I := fun c' => exists c, P c /\ c' = push_value c (lf c)).
      + apply Forall_forall. intros c' Hc'. apply in_map_iff in Hc'. destruct Hc' as (c & <- & Hin).
        exists c. split; [|reflexivity]. rewrite Forall_forall in Hcs. auto.
      + intros c' (c & Hc & ->).
        eapply safe_mono; [|apply (filter_one_safe vs ss impk st cur cur_ty op arg sr c (lf c) (HP c Hc) Hok Hsr)].
        intros o [Ho|Ho] y Hy; subst o; [injection Hy as <-; exact Hc|discriminate].
  Qed.

  (* ---------- perform_entry_into_new_vertex ---------- *)
  Lemma Forall_filter_keep {A} (P : A -> Prop) p l : Forall P l -> Forall P (filter p l).
  Proof.
    intros H. apply Forall_forall. intros x Hx. apply filter_In in Hx. rewrite Forall_forall in H. now apply H.
  Qed.

  Lemma recorded_cinv impk st l vid x :
    ~ In vid (s_vis st) -> pinv impk st l x -> cinv impk (st_enter st vid l) (recorded vid x).
  Proof.
    intros Hni [P1 P2 P3 P4 P5 P6 P7 P8 P9 P10].
    assert (Hold : forall v, In v (s_vis st) -> act_at (recorded vid x) v = act_at x v).
    { intros v Hv. apply act_at_recorded_old. now rewrite P4. }
    assert (Hnew : act_at (recorded vid x) vid = active x).
    { unfold act_at, recorded. dctx x; cbn [vertices set_vertices active] in *.
      rewrite lookup_N_app_fresh; [reflexivity|]. apply np_lookup_N_nokey. now rewrite P4. }
    split.
    - constructor; unfold recorded, st_enter; cbn [s_vis s_fds s_cur s_anc s_fks].
      + dctx x; exact P1.
      + dctx x; exact P2.
      + dctx x; exact P3.
      + dctx x; cbn [vertices set_vertices] in *. rewrite map_app, P4. reflexivity.
      + dctx x; exact P5.
      + intros t Ht. specialize (P6 t Ht). dctx x; exact P6.
      + intros v la Hin. apply in_app_iff in Hin. destruct Hin as [Hin|[E|[]]].
        * destruct (P7 v la Hin) as (A & B). split; [apply in_or_app; now left|].
          intros a Hal Ha. fold (recorded vid x) in *. rewrite (Hold v A).
          assert (Hav : a <> vid \/ a = vid) by (destruct (N.eq_dec a vid); auto).
          destruct (in_dec N.eq_dec a (s_vis st)) as [Hain|Hani].
          -- rewrite (Hold a Hain) in Ha. now apply (B a).
          -- apply (B a Hal). apply act_at_absent. now rewrite P4.
        * injection E as <- <-. split; [apply in_or_app; right; now left|].
          intros a Hal Ha. fold (recorded vid x) in *. destruct Hal as [<-|Hal]; [exact Ha|].
          rewrite Hnew. apply (P10 a Hal).
          destruct (N.eq_dec a vid) as [->|Hne]; [apply act_at_absent; now rewrite P4|].
          now apply (act_at_recorded_other vid).
      + dctx x; exact P8.
      + dctx x; exact P9.
      + intros a [].
    - unfold st_enter. cbn [s_cur]. unfold recorded. dctx x; cbn [vertices set_vertices active] in *.
      apply lookup_N_app_fresh. apply np_lookup_N_nokey. now rewrite P4.
  Qed.

  Lemma enter_vertex_safe vs ss impk st l v cs :
    vertex_ok args vs ss impk st v = true -> memN (v_vid v) (s_vis st) = false ->
    Forall (pinv impk st l) cs ->
    safe (Forall (cinv impk (st_enter st (v_vid v) l))) (enter_vertex re_match g args vs ss v cs).
  Proof.
    intros Hok Hnew Hcs. unfold enter_vertex. apply np_memN_false in Hnew.
    eapply safe_bind with (P := Forall (pinv impk st l)).
    - apply safe_foldM.
      + unfold coerce_if_needed, perform_coercion. destruct (v_from v); [now apply Forall_filter_keep|exact Hcs].
      + intros cs0 f Hcs0 Hf. unfold local_filter_stage.
        apply (filter_stage_safe (pinv impk st l) vs ss impk st); [apply pinv_lk|exact Hcs0|].
        unfold vertex_ok in Hok. rewrite forallb_forall in Hok. now apply Hok.
    - intros cs1 Hcs1. eapply safe_mapM; [exact Hcs1|]. intros c Hc. unfold record_vertex.
      rewrite np_has_key_false by (rewrite (pi_vis _ _ _ _ Hc); exact Hnew).
      cbn [safe]. exact (recorded_cinv impk st l (v_vid v) c Hnew Hc).
  Qed.

  (* ---------- plain and @optional edges ---------- *)
  Lemma sm_fields c v cand :
    let x := split_and_move (set_active c v) cand in
    values x = values c /\ suspended x = suspended c /\ piggyback x = None /\ vertices x = vertices c /\
    folded_contexts x = folded_contexts c /\ folded_values x = folded_values c /\
    imported_tags x = imported_tags c /\ active x = cand.
  Proof. dctx c. cbn. repeat split. Qed.

  Lemma anc_of_closed impk st l x from a :
    pinv impk st l x -> In a (anc_of st from) -> act_at x a = None -> act_at x from = None.
  Proof.
    intros Hp Hin Ha. unfold anc_of in Hin. destruct (lookup_N from (s_anc st)) as [la|] eqn:E; [|destruct Hin].
    apply np_lookup_N_in in E. destruct (pi_anc _ _ _ _ Hp from la E) as (_ & B). now apply (B a).
  Qed.

  Lemma expand_nonrec_safe impk st from e cs :
    memN (v_vid from) (s_vis st) = true -> Forall (cinv impk st) cs ->
    safe (Forall (pinv impk st (anc_of st (v_vid from)))) (expand_non_recursive_edge g from e cs).
  Proof.
    intros Hm Hcs. unfold expand_non_recursive_edge.
    eapply safe_bind with (P := Forall2 (fun c y => y = set_active c (act_at c (v_vid from))) cs).
    - eapply safe_mapM2; [exact Hcs|]. intros c (Hc & _).
      destruct (vertex_at_safe impk st c _ (pinv_lk _ _ _ _ Hc) Hm) as (ov & Hov).
      unfold activate_vertex. rewrite Hov. cbn [bind safe]. unfold act_at. unfold vertex_at in Hov.
      destruct (lookup_N (v_vid from) (vertices c)); [now injection Hov as <-|discriminate].
    - intros cs1 H2. cbn [safe]. apply Forall_forall. intros x Hx. apply in_flat_map in Hx.
      destruct Hx as (c1 & Hc1 & Hx).
      assert (Hex : exists c, In c cs /\ c1 = set_active c (act_at c (v_vid from))).
      { clear -H2 Hc1. induction H2 as [|c y cs cs1 Hy _ IH]; [destruct Hc1|].
        destruct Hc1 as [<-|Hc1]; [exists c; split; [now left|exact Hy]|].
        destruct (IH Hc1) as (c' & Hin & E). exists c'. split; [now right|exact E]. }
      destruct Hex as (c & Hin & ->). rewrite Forall_forall in Hcs. destruct (Hcs c Hin) as (Hc & Hcur).
      rewrite edge_expander_cands in Hx. apply in_map_iff in Hx. destruct Hx as (cand & <- & Hcand).
      destruct (sm_fields c (act_at c (v_vid from)) cand) as (S1 & S2 & S3 & S4 & S5 & S6 & S7 & S8).
      apply (pinv_transfer impk st [] _ c _ Hc); try assumption.
      + rewrite S1. apply (pi_vals _ _ _ _ Hc).
      + rewrite S2. apply (pi_susp _ _ _ _ Hc).
      + intros a Hal Ha. rewrite S8.
        assert (Hf : act_at c (v_vid from) = None).
        { exact (anc_of_closed impk st [] c (v_vid from) a Hc Hal Ha). }
        rewrite Hf in Hcand. unfold edge_cands, resolve_nbrs in Hcand.
        replace (active (set_active c None)) with (@None vertex) in Hcand by (dctx c; reflexivity).
        cbn [map app In] in Hcand. destruct Hcand as [<-|[]]. reflexivity.
  Qed.

  (* ---------- @recurse edges ---------- *)
  Lemma expand_rec_post from to e r0 cs r :
    r_depth r0 <> 0 -> Forall (fun c => clean (imported_tags c) c) cs ->
    expand_recursive_edge g from to e r0 cs = Ok r ->
    Forall (fun x => exists c, In c cs /\ asg_of x = asg_of c /\ clean (imported_tags c) x /\ frame c x /\
                               (act_at c (v_vid from) = None -> active x = None)) r.
  Proof.
    intros Hd Hc H. unfold expand_recursive_edge in H. inv_bind H.
    assert (Hx2 : x = map (rec_prep (v_vid from)) cs).
    { eapply mapM_ok_map; [|exact Hx]. intros c y. apply rec_prep_ok. }
    subst x. clear Hx.
    set (endpoint_ty := match v_from to with Some t => t | None => v_type to end) in *.
    set (recursing_from := match r_coerce r0 with Some t => t | None => endpoint_ty end) in *.
    destruct (N.to_nat (r_depth r0)) as [|k] eqn:Ek; [lia|].
    replace (S k - 1)%nat with k in H by lia.
    rewrite (recursion_rounds_eq g (v_type from) recursing_from endpoint_ty (r_coerce r0) e) in H.
    change (one_recursive_expansion g (v_type from) e (map (rec_prep (v_vid from)) cs))
      with (round g (v_type from) recursing_from endpoint_ty (r_coerce r0) e true (map (rec_prep (v_vid from)) cs)) in H.
    change (rounds g (v_type from) recursing_from endpoint_ty (r_coerce r0) e (repeat false k)
              (round g (v_type from) recursing_from endpoint_ty (r_coerce r0) e true (map (rec_prep (v_vid from)) cs)))
      with (rounds g (v_type from) recursing_from endpoint_ty (r_coerce r0) e (flags_of true (S k)) (map (rec_prep (v_vid from)) cs)) in H.
    unfold post_process_recursive_expansion in H.
    assert (Hpb : Forall (pb_inert) (map (rec_prep (v_vid from)) cs)).
    { apply Forall_forall. intros y Hy. apply in_map_iff in Hy. destruct Hy as (c & <- & Hin).
      rewrite Forall_forall in Hc. destruct (rec_prep_props (imported_tags c) (v_vid from) c (Hc _ Hin)) as (_ & Hp & _).
      intros l Hl. congruence. }
    change (flat_map unpack_piggyback ?l) with (flat l) in H.
    rewrite (rounds_flat g (v_type from) recursing_from endpoint_ty (r_coerce r0) e _ _ Hpb) in H.
    assert (Hflat : flat (map (rec_prep (v_vid from)) cs) = map (rec_prep (v_vid from)) cs).
    { clear H Hpb. induction cs as [|c cs IH]; [reflexivity|]. cbn [map]. unfold flat in *. cbn [flat_map].
      inversion Hc as [|? ? Hc1 Hc2]; subst. rewrite IH by assumption.
      destruct (rec_prep_props (imported_tags c) (v_vid from) c Hc1) as (_ & Hp & _).
      rewrite unpack_eq, Hp. cbn [app]. f_equal. destruct (rec_prep (v_vid from) c); cbn in *. now subst. }
    rewrite Hflat in H. rewrite iterF_flat_map, flat_map_map in H.
    apply mapM_flat_map_inv in H. destruct H as (xss & HF & ->).
    clear Hpb Hflat. induction HF as [|c xs cs xss Hxs _ IH]; [constructor|].
    inversion Hc as [|? ? Hc1 Hc2]; subst. cbn [List.concat]. apply Forall_app. split.
    - destruct (rec_prep_props (imported_tags c) (v_vid from) c Hc1) as (Hact & Hp & Ha & Hfr & Hv & Hi & Hs).
      destruct (act_at c (v_vid from)) as [v|] eqn:Eact.
      + rewrite (dfs g (v_type from) recursing_from endpoint_ty (r_coerce r0) e (fun v0 => Hind _ _ _ _ v0) (S k) true _ v Hact Hp) in Hxs.
        apply Ok_inj in Hxs. subst xs. apply Forall_forall. intros y Hy. apply in_map_iff in Hy. destruct Hy as (u & <- & _).
        exists c. split; [now left|].
        destruct (set_active_props (imported_tags c) _ c (Some u) Hp Ha Hfr Hv Hi Hs) as (A1 & A2 & A3).
        split; [exact A1|]. split; [exact A2|]. split; [exact A3|]. intros E. congruence.
      + rewrite iterF_fix in Hxs by (intros f; apply stepF_no_active; exact Hact).
        cbn [mapM] in Hxs. inv_bind Hxs. injection Hxs as <-.
        unfold ensure_unsuspended in Hx. rewrite Hact in Hx.
        destruct (suspended (rec_prep (v_vid from) c)) as [|a s] eqn:Es; [discriminate|]. injection Hx as <-.
        inversion Hs as [|? ? Ha0 Hs0]; subst. constructor; [|constructor].
        exists c. split; [now left|].
        destruct (rec_prep (v_vid from) c) as [a0 vs0 vals0 susp0 fcs0 fvs0 pb0 im0] eqn:Er.
        cbn in *. subst. rewrite asg_of_eq in *. cbn in *. destruct Hfr as (F1 & F2). cbn in *.
        repeat split; auto.
    - eapply Forall_impl; [|apply IH; assumption].
      intros x (c' & Hin & Hrest). exists c'. split; [now right|exact Hrest].
  Qed.

  Lemma expand_rec_safe impk st from to e r0 cs :
    r_depth r0 <> 0 -> memN (v_vid from) (s_vis st) = true ->
    memN (v_vid from) (anc_of st (s_cur st)) = true ->
    Forall (cinv impk st) cs ->
    safe (Forall (pinv impk st (anc_of st (v_vid from)))) (expand_recursive_edge g from to e r0 cs).
  Proof.
    intros Hd Hm Hanc Hcs. apply np_memN_in in Hanc.
    assert (Hpre : Forall (fun c => piggyback c = None /\ has_key_N (v_vid from) (vertices c) = true /\
                                    (act_at c (v_vid from) = None -> active c = None \/ suspended c <> [])) cs).
    { eapply Forall_impl; [|exact Hcs]. intros c Hc. pose proof (cinv_act _ _ _ Hc) as Hcur. destruct Hc as (Hc & _).
      split; [apply (pi_pb _ _ _ _ Hc)|]. split.
      - destruct (vertex_at_safe impk st c _ (pinv_lk _ _ _ _ Hc) Hm) as (ov & Hov). unfold vertex_at in Hov.
        unfold has_key_N. destruct (lookup_N (v_vid from) (vertices c)); [reflexivity|discriminate].
      - intros Hf. left. rewrite <- Hcur. exact (anc_of_closed impk st [] c (s_cur st) (v_vid from) Hc Hanc Hf). }
    destruct (recursive_expansion_no_panic g Hind from to e r0 cs Hd Hpre) as (r & Hr). rewrite Hr. cbn [safe].
    assert (Hcl : Forall (fun c => clean (imported_tags c) c) cs).
    { eapply Forall_impl; [|exact Hcs]. intros c (Hc & _).
      split; [apply (pi_vals _ _ _ _ Hc)|]. split; [apply (pi_susp _ _ _ _ Hc)|]. split; [apply (pi_pb _ _ _ _ Hc)|reflexivity]. }
    pose proof (expand_rec_post from to e r0 cs r Hd Hcl Hr) as Hpost.
    eapply Forall_impl; [|exact Hpost]. intros x (c & Hin & Hasg & (Cv & Cs & Cp & Ci) & (F1 & F2) & Hnone).
    rewrite Forall_forall in Hcs. destruct (Hcs c Hin) as (Hc & _).
    apply (pinv_transfer impk st [] _ c x Hc Cv Cs Cp); try assumption.
    - rewrite <- (a_v_asg_of x), <- (a_v_asg_of c). now rewrite Hasg.
    - intros a Hal Ha. apply Hnone. exact (anc_of_closed impk st [] c (v_vid from) a Hc Hal Ha).
  Qed.

  (* ---------- any edge step ---------- *)
  Theorem expand_edge_safe vs ss impk st e cs :
    edge_np args vs ss impk st e = true -> Forall (cinv impk st) cs ->
    safe (Forall (cinv impk (st_edge st e))) (expand_edge re_match g args vs ss e cs).
  Proof.
    intros Hok Hcs. unfold edge_np in Hok. unfold expand_edge, vertex_of.
    destruct (find_vertex vs (e_from e)) as [fromv|] eqn:Ef; [|discriminate].
    destruct (find_vertex vs (e_to e)) as [tov|] eqn:Et; [|discriminate].
    pose proof (find_vertex_vid _ _ _ Ef) as Hvf. pose proof (find_vertex_vid _ _ _ Et) as Hvt.
    cbn [expect_some bind].
    apply andb_prop in Hok. destruct Hok as (Hok & Hrec). apply andb_prop in Hok. destruct Hok as (Hok & Hvok).
    apply andb_prop in Hok. destruct Hok as (Hfrom & Hto). apply Bool.negb_true_iff in Hto.
    eapply safe_bind with (P := Forall (pinv impk st (anc_of st (e_from e)))).
    - destruct (e_rec e) as [r0|].
      + apply andb_prop in Hrec. destruct Hrec as (Hd & Hanc). rewrite <- Hvf in *.
        apply expand_rec_safe; try assumption. apply Bool.negb_true_iff in Hd. now apply N.eqb_neq in Hd.
      + rewrite <- Hvf in *. now apply expand_nonrec_safe.
    - intros cs1 Hcs1. unfold st_edge. rewrite <- Hvt in *. now apply enter_vertex_safe.
  Qed.
End Edges.
