(* NoPanicFold.v — progress + preservation for compute_fold: importing tags, the fold-count limits, the
   per-context materialisation, the post-fold filters and the fold-output bookkeeping
   (folded_contexts / folded_values / imported_tags maps and their assertions). *)
From Coq Require Import Lia.
From TF Require Import ValuesProofs Exec Sem ExecLemmas Sim SimRec SimComp SimFold SimOut FoldOut ExecNoPanic WfCheck
     SimGen SimFoldT NoPanic NoPanicOps NoPanicEdges.
Local Open Scope string_scope.
Local Open Scope N_scope.
Local Open Scope list_scope.

(* ---------- the static state at the end of a step list ---------- *)
Lemma st_final_fks todo : forall st, s_fks (st_final todo st) = s_fks st ++ steps_keys todo.
Proof.
  induction todo as [|[e|h sub] r IH]; intros st; cbn [st_final steps_keys].
  - now rewrite app_nil_r.
  - rewrite IH. reflexivity.
  - rewrite IH. cbn [st_fold s_fks]. now rewrite app_assoc.
Qed.

Lemma comp_final_fks c : s_fks (comp_final c) = nested_fold_keys c.
Proof.
  destruct c as [root vs ss outs]. unfold comp_final. rewrite st_final_fks, nested_fold_keys_eq. reflexivity.
Qed.

Section StaticLemmas.
  Variable args : list (string * fv).

  Lemma np_comp_eq impk root vs ss outs :
    np_comp args impk (mkComp root vs ss outs) =
    match find_vertex vs root with
    | None => false
    | Some rootv =>
        vertex_ok args vs ss impk (st_start root) rootv &&
        np_steps args vs ss outs impk ss (st_enter (st_start root) root [])
    end.
  Proof.
    cbn [np_comp]. destruct (find_vertex vs root) as [rootv|]; [|reflexivity]. f_equal.
    match goal with |- ?F ss ?s0 = _ =>
      assert (G : forall todo st, F todo st = np_steps args vs ss outs impk todo st) end.
    { induction todo as [|[e|h sub] r IH]; intros st; cbn [np_steps]; [reflexivity| |]; now rewrite IH. }
    apply G.
  Qed.

  Lemma np_steps_outs vs ss outs impk todo : forall st,
    np_steps args vs ss outs impk todo st = true -> outs_np vs (st_final todo st) outs = true.
  Proof.
    induction todo as [|[e|h sub] r IH]; intros st H; cbn [np_steps st_final] in *; [exact H| |].
    - apply andb_prop in H. destruct H as (_ & H). now apply IH.
    - apply andb_prop in H. destruct H as (_ & H). now apply IH.
  Qed.

  Lemma np_comp_outs impk c :
    np_comp args impk c = true -> outs_np (c_vertices c) (comp_final c) (c_outputs c) = true.
  Proof.
    destruct c as [root vs ss outs]. rewrite np_comp_eq. destruct (find_vertex vs root); [|discriminate].
    intros H. apply andb_prop in H. destruct H as (_ & H). cbn [c_vertices c_outputs comp_final].
    now apply np_steps_outs in H.
  Qed.
End StaticLemmas.

(* ---------- small facts ---------- *)
Lemma np_lookup_str_in {A} k (l : list (string * A)) a : lookup_str k l = Some a -> In (k, a) l.
Proof.
  induction l as [|[k' a'] r IH]; cbn [lookup_str In]; [discriminate|].
  destruct (String.eqb_spec k k') as [->|Hn]; [intros [= ->]; now left|right; auto].
Qed.

Lemma existsb_none {A} (p : A -> bool) l : (forall x, In x l -> p x = false) -> existsb p l = false.
Proof.
  intros H. destruct (existsb p l) eqn:E; [|reflexivity]. apply existsb_exists in E.
  destruct E as (x & Hx & Hp). rewrite (H x Hx) in Hp. discriminate.
Qed.

Lemma remove_keeps {A} (k t : fieldref) (m m' : list (fieldref * A)) :
  fieldref_eqb k t = false -> remove_ref t m = Some m' -> lookup_ref k m' = lookup_ref k m.
Proof.
  intros Hk. revert m'. induction m as [|[k' a'] r IH]; cbn [remove_ref lookup_ref]; intros m' H; [discriminate|].
  destruct (fieldref_eqb t k') eqn:E.
  - injection H as <-. destruct (fieldref_eqb k k') eqn:E2; [|reflexivity].
    exfalso. rewrite fieldref_eqb_sym in E. pose proof (fieldref_eqb_trans _ _ _ E2 E). congruence.
  - destruct (remove_ref t r) as [r'|]; [|discriminate]. injection H as <-. cbn [lookup_ref].
    destruct (fieldref_eqb k k'); [reflexivity|]. now apply IH.
Qed.

Lemma remove_all_keeps {A} (k : fieldref) ts : forall (m : list (fieldref * A)),
  (forall t, In t ts -> fieldref_eqb k t = false) -> lookup_ref k (remove_all ts m) = lookup_ref k m.
Proof.
  unfold remove_all. induction ts as [|t ts IH]; intros m H; cbn [fold_left]; [reflexivity|].
  destruct (remove_ref t m) as [m'|] eqn:E.
  - rewrite IH by (intros t' Ht'; apply H; now right). apply (remove_keeps k t); [apply H; now left|exact E].
  - apply IH. intros t' Ht'. apply H. now right.
Qed.

Lemma pinv_rebuild impk impk1 st st1 l0 l c x :
  pinv impk st l0 c ->
  values x = [] -> Forall (fun s => s = None) (suspended x) -> piggyback x = None ->
  vertices x = vertices c -> s_vis st1 = s_vis st -> s_anc st1 = s_anc st ->
  map fst (folded_contexts x) = s_fds st1 ->
  folded_values x = folded_values c -> s_fks st1 = s_fks st ->
  covers impk1 x ->
  (forall a, In a l -> act_at c a = None -> active x = None) ->
  pinv impk1 st1 l x.
Proof.
  intros [P1 P2 P3 P4 P5 P6 P7 P8 P9 P10] Hv Hs Hp Hvx Hvis Hanc Hfc Hfv Hfks Hi Ha.
  assert (Hact : forall a, act_at x a = act_at c a) by (intros a; unfold act_at; now rewrite Hvx).
  constructor; try assumption.
  - now rewrite Hvx, Hvis.
  - rewrite Hanc, Hvis. intros v la Hin. destruct (P7 v la Hin) as (A & B). split; [exact A|].
    intros a Hal. rewrite !Hact. now apply B.
  - now rewrite Hfv.
  - now rewrite Hfv, Hfks.
  - intros a Hal. rewrite Hact. now apply Ha.
Qed.

(* ---------- the folded_values loops never hit their expect()s ---------- *)
Definition allvec (m : fvmap) : Prop := forall k v, lookup_fvk k m = Some v -> exists l, v = Some (VVec l).

Lemma allvec_set k l m : allvec m -> allvec (set_fvk k (Some (VVec l)) m).
Proof.
  intros H k' v Hl. destruct (fv_key_eqb_spec k' k) as [->|Hn].
  - rewrite lookup_set_same in Hl. injection Hl as <-. eauto.
  - rewrite (lookup_set_other _ _ _ _ Hn) in Hl. eauto.
Qed.

Lemma push_folded_ok k x m : allvec m -> exists l, push_folded k x m = Ok (set_fvk k (Some (VVec l)) m).
Proof.
  intros H. unfold push_folded. destruct (lookup_fvk k m) as [v|] eqn:E; [|eauto].
  destruct (H k v E) as (l & ->). eauto.
Qed.

Lemma push_existing_ok k x m :
  allvec m -> lookup_fvk k m <> None -> exists l, push_folded_existing k x m = Ok (set_fvk k (Some (VVec l)) m).
Proof.
  intros H Hn. unfold push_folded_existing. destruct (lookup_fvk k m) as [v|] eqn:E; [|congruence].
  destruct (H k v E) as (l & ->). eauto.
Qed.

(* the state of the element loop: only vectors, distinct keys inside K, the own-output keys present *)
Definition Minv (eid : N) (names : list string) (K : list fkey) (m : fvmap) : Prop :=
  allvec m /\ NoDup (map fst m) /\ incl (map fst m) K /\
  (forall n, In n names -> lookup_fvk (eid, n) m <> None).

Lemma Minv_set eid names K k l m : In k K -> Minv eid names K m -> Minv eid names K (set_fvk k (Some (VVec l)) m).
Proof.
  intros Hk (A & B & C & D). split; [now apply allvec_set|]. split; [now apply set_fvk_nodup|]. split.
  - intros y Hy. apply set_fvk_keys in Hy. destruct Hy as [->|Hy]; [exact Hk|now apply C].
  - intros n Hn. destruct (fv_key_eqb_spec (eid, n) k) as [<-|Hne].
    + rewrite lookup_set_same. discriminate.
    + rewrite (lookup_set_other _ _ _ _ Hne). now apply D.
Qed.

Lemma push_loop_ok eid names K (fvl : fvmap) : forall m,
  Minv eid names K m -> incl (map fst fvl) K ->
  exists m', foldM (fun m kv => push_folded (fst kv) (match snd kv with Some x => x | None => VValue Null end) m) fvl m = Ok m'
             /\ Minv eid names K m'.
Proof.
  induction fvl as [|[k0 v0] fvl IH]; cbn [foldM map fst]; intros m Hm Hi; [eauto|].
  cbn [fst snd]. destruct Hm as (A & Hrest).
  destruct (push_folded_ok k0 (match v0 with Some x => x | None => VValue Null end) m A) as (l & ->). cbn [bind].
  apply IH.
  - apply Minv_set; [apply Hi; now left|split; assumption].
  - intros y Hy. apply Hi. now right.
Qed.

Lemma own_loop_ok eid names K (nvs : list (string * fv)) : forall m,
  Minv eid names K m -> incl (map fst nvs) names -> (forall n, In n names -> In (eid, n) K) ->
  exists m', foldM (fun m nv => push_folded_existing (eid, fst nv) (VValue (snd nv)) m) nvs m = Ok m'
             /\ Minv eid names K m'.
Proof.
  induction nvs as [|[n0 x0] nvs IH]; cbn [foldM map fst]; intros m Hm Hi HK; [eauto|].
  cbn [fst snd]. assert (Hn0 : In n0 names) by (apply Hi; now left).
  destruct Hm as (A & B & C & D).
  destruct (push_existing_ok (eid, n0) (VValue x0) m A (D n0 Hn0)) as (l & ->). cbn [bind].
  apply IH.
  - apply Minv_set; [now apply HK|repeat split; assumption].
  - intros y Hy. apply Hi. now right.
  - exact HK.
Qed.

Lemma in_combine_fst {A B} (l : list A) (l' : list B) : incl (map fst (combine l l')) l.
Proof.
  intros x Hx. apply in_map_iff in Hx. destruct Hx as ((a & b) & <- & Hin). cbn [fst]. eapply in_combine_l; eauto.
Qed.

(* reading the own outputs of a component from a context in which all its vertices are recorded *)
Lemma output_values_ok (g : graph) (site : string) outs vs el names :
  (forall n, In n names -> exists cf, lookup_str n outs = Some cf /\ In (cf_vid cf) (map fst (vertices el)) /\
                                      find_vertex vs (cf_vid cf) <> None) ->
  exists vals,
    mapM (fun name =>
            do cf <- expect_some site (lookup_str name outs);
            do ov <- vertex_at el (cf_vid cf);
            do vtx <- vertex_of vs (cf_vid cf);
            Ok (match ov with Some v => g_prop g (v_type vtx) (cf_name cf) v | None => Null end)) names = Ok vals
    /\ List.length vals = List.length names.
Proof.
  induction names as [|n names IH]; intros H; [exists []; auto|].
  destruct IH as (vals & Hvals & Hlen); [intros n' Hn'; apply H; now right|].
  destruct (H n (or_introl eq_refl)) as (cf & Hl & Hv & Hf).
  destruct (np_lookup_N_key _ _ Hv) as (ov & Hov).
  destruct (find_vertex vs (cf_vid cf)) as [vtx|] eqn:Efv; [|congruence].
  exists ((match ov with Some v => g_prop g (v_type vtx) (cf_name cf) v | None => Null end) :: vals).
  split; [|cbn [List.length]; now rewrite Hlen].
  cbn [mapM]. rewrite Hvals, Hl. cbn [expect_some bind]. unfold vertex_at. rewrite Hov. cbn [bind].
  unfold vertex_of. rewrite Efv. reflexivity.
Qed.

Lemma outs_np_names vs st outs el names :
  outs_np vs st outs = true -> map fst (vertices el) = s_vis st -> incl names (map fst outs) ->
  forall n, In n names -> exists cf, lookup_str n outs = Some cf /\ In (cf_vid cf) (map fst (vertices el)) /\
                                     find_vertex vs (cf_vid cf) <> None.
Proof.
  intros Ho Hv Hi n Hn. destruct (np_lookup_str_key n outs (Hi n Hn)) as (cf & Hcf). exists cf. split; [exact Hcf|].
  apply np_lookup_str_in in Hcf. unfold outs_np in Ho. rewrite forallb_forall in Ho. specialize (Ho _ Hcf).
  cbn [snd] in Ho. apply andb_prop in Ho. destruct Ho as (H1 & H2). split.
  - rewrite Hv. now apply np_memN_in.
  - destruct (find_vertex vs (cf_vid cf)); [discriminate|discriminate].
Qed.

Lemma fsout_ok (eid : N) (cnt : option vov) names : forall m0,
  NoDup names -> (forall n, In n names -> lookup_fvk (eid, n) m0 = None) ->
  foldM (fun m name =>
           match lookup_fvk (eid, name) m with
           | Some _ => Panic "execution.rs: this fold output was already computed"
           | None => Ok (m ++ [((eid, name), cnt)])
           end) names m0 = Ok (m0 ++ map (fun n => ((eid, n), cnt)) names).
Proof.
  induction names as [|n names IH]; cbn [foldM map]; intros m0 Hnd Hl; [now rewrite app_nil_r|].
  inversion Hnd as [|? ? Hni Hnd']; subst. rewrite (Hl n (or_introl eq_refl)). cbn [bind].
  rewrite IH; [now rewrite <- app_assoc|exact Hnd'|].
  intros n' Hn'. rewrite lookup_app, (Hl n' (or_intror Hn')). cbn [lookup_fvk].
  rewrite fv_key_eqb_neq; [reflexivity|]. intros E. injection E as ->. contradiction.
Qed.

Section FoldOutputs.
  Variable g : graph.

  Definition st_mid (st : nst) (h : fold_hdr) : nst :=
    mkNst (s_vis st) (s_fds st ++ [fo_eid h]) (fo_from h) (s_anc st) (s_fks st).

  (* an element of a materialised fold, as far as the output bookkeeping looks at it *)
  Definition el_fine (sub : ir_component) (el : ctx) : Prop :=
    map fst (vertices el) = s_vis (comp_final sub) /\ incl (map fst (folded_values el)) (nested_fold_keys sub).

  Lemma cinv_el_fine impk sub el : cinv impk (comp_final sub) el -> el_fine sub el.
  Proof.
    intros (Hp & _). split; [apply (pi_vis _ _ _ _ Hp)|]. rewrite <- comp_final_fks. apply (pi_fvk _ _ _ _ Hp).
  Qed.

  Lemma el_step_ok eid sub K m el :
    outs_np (c_vertices sub) (comp_final sub) (c_outputs sub) = true ->
    incl (nested_fold_keys sub) K ->
    (forall n, In n (sort_names (map fst (c_outputs sub))) -> In (eid, n) K) ->
    Minv eid (sort_names (map fst (c_outputs sub))) K m -> el_fine sub el ->
    exists m', el_step g eid sub m el = Ok m' /\ Minv eid (sort_names (map fst (c_outputs sub))) K m'.
  Proof.
    intros Ho HNK HK Hm (Hv & Hfk). unfold el_step, element_output_values.
    destruct (output_values_ok g "fold.component.outputs[name]" (c_outputs sub) (c_vertices sub) el
                (sort_names (map fst (c_outputs sub)))) as (vals & -> & _).
    { apply (outs_np_names _ (comp_final sub)); [exact Ho|exact Hv|]. intros n Hn. rewrite in_sort_names in Hn. exact Hn. }
    cbn [bind].
    destruct (push_loop_ok eid _ K (folded_values el) m Hm) as (m1 & -> & Hm1).
    { intros y Hy. apply HNK, Hfk, Hy. }
    cbn [bind]. apply own_loop_ok; [exact Hm1|apply in_combine_fst|exact HK].
  Qed.

  Lemma el_loop_ok eid sub K els : forall m,
    outs_np (c_vertices sub) (comp_final sub) (c_outputs sub) = true ->
    incl (nested_fold_keys sub) K ->
    (forall n, In n (sort_names (map fst (c_outputs sub))) -> In (eid, n) K) ->
    Minv eid (sort_names (map fst (c_outputs sub))) K m -> Forall (el_fine sub) els ->
    exists m', foldM (el_step g eid sub) els m = Ok m' /\ Minv eid (sort_names (map fst (c_outputs sub))) K m'.
  Proof.
    induction els as [|el els IH]; cbn [foldM]; intros m Ho HNK HK Hm Hels; [eauto|].
    inversion Hels as [|? ? Hel Hels']; subst.
    destruct (el_step_ok eid sub K m el Ho HNK HK Hm Hel) as (m1 & -> & Hm1). cbn [bind]. now apply IH.
  Qed.

  Lemma init_keys (eid : N) (d : option vov) (names : list string) :
    map fst (map (fun n => ((eid, n), d)) names) = map (fun n => (eid, n)) names.
  Proof. rewrite map_map. reflexivity. Qed.

  (* fold_outputs_one: the count outputs, the per-element pushes, the default walk and the final
     disjointness assertion all succeed *)
  Theorem fold_outputs_one_ok impk impk' st h sub c fe :
    NoDup (fold_keys h sub) ->
    (forall k, In k (fold_keys h sub) -> ~ In k (s_fks st)) ->
    outs_np (c_vertices sub) (comp_final sub) (c_outputs sub) = true ->
    cinv impk (st_mid st h) c ->
    lookup_N (fo_eid h) (folded_contexts c) = Some fe ->
    match fe with Some els => Forall (cinv impk' (comp_final sub)) els | None => True end ->
    exists z, fold_outputs_one g h sub c = Ok z /\ cinv impk (st_fold st h sub) z.
  Proof.
    intros Hfk Hdis Ho (Hc & Hcur) Hlk Hels.
    set (eid := fo_eid h) in *. set (names := sort_names (map fst (c_outputs sub))).
    set (NK := nested_fold_keys sub). set (K := own_keys h sub ++ NK).
    unfold fold_keys in Hfk.
    assert (Hfs_nd : NoDup (fo_fsout h)).
    { apply NoDup_app_l in Hfk. unfold fs_keys in Hfk. now apply NoDup_map_inv' in Hfk. }
    assert (HK_nd : NoDup K) by now apply NoDup_app_r in Hfk.
    assert (Hown_nd : NoDup (map fst (c_outputs sub))).
    { apply NoDup_app_l in HK_nd. unfold own_keys in HK_nd.
      rewrite <- (map_map fst (fun n => (fo_eid h, n))) in HK_nd. now apply NoDup_map_inv' in HK_nd. }
    assert (Hnames_nd : NoDup names) by now apply sort_names_nodup.
    assert (HKn : forall n, In n names -> In (eid, n) K).
    { intros n Hn. apply in_or_app. left. unfold names in Hn. rewrite in_sort_names in Hn. unfold own_keys.
      apply in_map_iff in Hn. destruct Hn as (o & <- & Hin). apply in_map_iff. exists o. auto. }
    assert (Hinit_keys : forall d : option vov, incl (map fst (map (fun n => ((eid, n), d)) names)) K).
    { intros d y Hy. rewrite init_keys in Hy. apply in_map_iff in Hy. destruct Hy as (n & <- & Hn). now apply HKn. }
    assert (Hinit_nd : forall d : option vov, NoDup (map fst (map (fun n => ((eid, n), d)) names))).
    { intros d. rewrite init_keys. apply NoDup_map_inj; [intros a b [= ->]; reflexivity|exact Hnames_nd]. }
    assert (HK_fresh : forall k, In k K -> ~ In k (map fst (folded_values c)) /\ ~ In k (fs_keys h)).
    { intros k Hk. split.
      - intros E. apply (pi_fvk _ _ _ _ Hc) in E. cbn [st_mid s_fks] in E. apply (Hdis k); [|exact E].
        unfold fold_keys. apply in_or_app. now right.
      - intros E. exact (NoDup_app_disj _ _ _ Hfk E Hk). }
    unfold fold_outputs_one. cbv zeta. fold eid. rewrite Hlk. cbn [expect_some bind].
    rewrite fsout_ok; [|exact Hfs_nd|].
    2:{ intros n Hn. apply lookup_none_notin. intros E. apply (pi_fvk _ _ _ _ Hc) in E. cbn [st_mid s_fks] in E.
        apply (Hdis (eid, n)); [|exact E]. unfold fold_keys, fs_keys. apply in_or_app. left. apply in_map_iff. eauto. }
    cbn [bind]. fold names.
    set (cnt := match fe with Some l => Some (VValue (U64 (Z.of_nat (List.length l)))) | None => None end).
    set (default := match fe with Some _ => Some (VVec []) | None => None end).
    assert (Hlocal : exists local,
               (match fe with
                | Some (el0 :: els) =>
                    foldM (fun m el =>
                             do vals <- element_output_values g sub names el;
                             do m1 <- foldM (fun m kv => push_folded (fst kv)
                                                           (match snd kv with Some x => x | None => VValue Null end) m)
                                            (folded_values el) m;
                             foldM (fun m nv => push_folded_existing (eid, fst nv) (VValue (snd nv)) m)
                                   (combine names vals) m1)
                          (el0 :: els) (map (fun n => ((eid, n), default)) names)
                | _ => Ok (fold_left (fun m k => set_fvk k default m) (nested_fold_keys sub)
                                     (map (fun n => ((eid, n), default)) names))
                end) = Ok local /\ NoDup (map fst local) /\ incl (map fst local) K).
    { assert (Hdef : forall d : option vov, exists local,
                 Ok (fold_left (fun m k => set_fvk k d m) (nested_fold_keys sub) (map (fun n => ((eid, n), d)) names))
                 = Ok local /\ NoDup (map fst local) /\ incl (map fst local) K).
      { intros d. eexists. split; [reflexivity|].
        destruct (default_loop d (nested_fold_keys sub) (map (fun n => ((eid, n), d)) names) (Hinit_nd d)) as (Hnd & Hl).
        split; [exact Hnd|]. intros k Hk.
        assert (Hsome : lookup_fvk k (fold_left (fun m k0 => set_fvk k0 d m) (nested_fold_keys sub)
                                        (map (fun n => ((eid, n), d)) names)) <> None).
        { intros E. apply lookup_none_notin in E. contradiction. }
        rewrite Hl in Hsome. destruct (key_in k (nested_fold_keys sub)) eqn:Ek.
        - apply key_in_spec in Ek. apply in_or_app. now right.
        - apply (Hinit_keys d). destruct (in_dec (fun a b => match fv_key_eqb_spec a b with ReflectT _ e => left e | ReflectF _ n => right n end)
                                            k (map fst (map (fun n => ((eid, n), d)) names))) as [Hin|Hni]; [exact Hin|].
          apply lookup_none_notin in Hni. contradiction. }
      destruct fe as [[|el0 els]|]; [apply Hdef| |apply Hdef].
      change (exists local, foldM (el_step g eid sub) (el0 :: els) (map (fun n => ((eid, n), Some (VVec []))) names) = Ok local
                            /\ NoDup (map fst local) /\ incl (map fst local) K).
      destruct (el_loop_ok eid sub K (el0 :: els) (map (fun n => ((eid, n), Some (VVec []))) names)) as (m' & Hm' & (A & B & C & D)).
      - exact Ho.
      - intros y Hy. apply in_or_app. now right.
      - exact HKn.
      - split; [|split; [apply Hinit_nd|split; [apply Hinit_keys|]]].
        + intros k v Hl. rewrite lookup_init in Hl.
          destruct (N.eqb (fst k) eid && existsb (String.eqb (snd k)) names); [|discriminate].
          injection Hl as <-. eauto.
        + intros n Hn. rewrite lookup_init. cbn [fst snd]. rewrite N.eqb_refl.
          assert (Ee : existsb (String.eqb n) names = true) by now apply existsb_eqb_in.
          rewrite Ee. discriminate.
      - eapply Forall_impl; [|exact Hels]. intros el. apply cinv_el_fine.
      - exists m'. auto. }
    destruct Hlocal as (local & -> & Hloc_nd & Hloc_in). cbn [bind].
    assert (Hchk : existsb (fun kv => match lookup_fvk (fst kv)
                                               (folded_values c ++ map (fun n => ((eid, n), cnt)) (fo_fsout h)) with
                                      | Some _ => true | None => false end) local = false).
    { apply existsb_none. intros kv Hkv.
      assert (Hk : In (fst kv) K) by (apply Hloc_in; now apply in_map).
      destruct (HK_fresh _ Hk) as (F1 & F2). rewrite lookup_app.
      apply lookup_none_notin in F1. rewrite F1.
      assert (F3 : lookup_fvk (fst kv) (map (fun n => ((eid, n), cnt)) (fo_fsout h)) = None).
      { apply lookup_none_notin. rewrite init_keys. exact F2. }
      now rewrite F3. }
    rewrite Hchk. eexists. split; [reflexivity|].
    assert (Hfv : folded_values (set_folded_values c ((folded_values c ++ map (fun n => ((eid, n), cnt)) (fo_fsout h)) ++ local))
                  = (folded_values c ++ map (fun n => ((eid, n), cnt)) (fo_fsout h)) ++ local) by (dctx c; reflexivity).
    split.
    - destruct Hc as [P1 P2 P3 P4 P5 P6 P7 P8 P9 P10]. cbn [st_mid s_vis s_fds s_cur s_anc s_fks] in *.
      constructor; cbn [st_fold s_vis s_fds s_cur s_anc s_fks]; try (dctx c; assumption).
      + rewrite Hfv, !map_app, init_keys. apply NoDup_app_intro; [|exact Hloc_nd|].
        * apply NoDup_app_intro; [exact P8| |].
          -- apply NoDup_map_inj; [intros a b [= ->]; reflexivity|exact Hfs_nd].
          -- intros k Hk1 Hk2. apply P9 in Hk1. apply (Hdis k); [|exact Hk1].
             unfold fold_keys. apply in_or_app. now left.
        * intros k Hk1 Hk2. apply Hloc_in in Hk2. destruct (HK_fresh _ Hk2) as (F1 & F2).
          apply in_app_iff in Hk1. tauto.
      + rewrite Hfv, !map_app, init_keys. intros k Hk. apply in_app_iff in Hk. apply in_or_app.
        destruct Hk as [Hk|Hk].
        * apply in_app_iff in Hk. destruct Hk as [Hk|Hk]; [left; now apply P9|].
          right. unfold fold_keys. apply in_or_app. now left.
        * right. unfold fold_keys. apply in_or_app. right. now apply Hloc_in.
    - cbn [st_fold s_cur]. cbn [st_mid s_cur] in Hcur. dctx c. exact Hcur.
  Qed.
End FoldOutputs.

(* ---------- compute_fold ---------- *)
Section FoldStep.
  Variable re_match : string -> string -> option bool.
  Variable g : graph.
  Variable args : list (string * fv).
  Hypothesis Hind : ty_indep g.

  Definition import_one (vs : list ir_vertex) (cs : list ctx) (t : fieldref) : res (list ctx) :=
    match t with
    | FRContext cf =>
        do fvtx <- vertex_of vs (cf_vid cf);
        mapM (fun c =>
                do c1 <- activate_vertex c (cf_vid cf);
                let value := resolve_prop g (v_type fvtx) (cf_name cf) c1 in
                do ov <- vertex_at c1 (cf_vid cf);
                let tv := match ov with Some _ => TSome value | None => TNone end in
                Ok (set_imported c1 (insert_ref t tv (imported_tags c1)))) cs
    | FRFold ff =>
        mapM (fun c => do tv <- fold_count_value (ff_eid ff) c;
                       Ok (set_imported c (insert_ref t tv (imported_tags c)))) cs
    end.

  Definition post_one (vs : list ir_vertex) (ss : list step) (h : fold_hdr) (from_ty : string)
             (cs : list ctx) (pf : pfilter) : res (list ctx) :=
    do cs' <- mapM (fun c => do tv <- fold_count_value (fo_eid h) c;
                             match tv with
                             | TSome v => Ok (push_value c v)
                             | TNone => Ok (push_value c Null)
                             end) cs;
    filter_stage re_match g args vs ss (fo_from h) from_ty (pf_op pf) (pf_arg pf) cs'.

  Lemma fold_step_eq vs ss h sub sc cs :
    fold_step re_match g args vs ss h sub sc cs =
    (do from <- vertex_of vs (fo_from h);
     do cs1 <- foldM (import_one vs) (fo_imported h) cs;
     do cs2 <- mapM (fun c => activate_vertex c (fo_from h)) cs1;
     do maxl <- get_max_fold_count_limit args h;
     do minl0 <- get_min_fold_count_limit args h;
     do cs3 <- filter_mapM (fold_one g from h sc maxl
                              (match minl0 with
                               | Some m => if min_eligible vs ss h sub then Some m else None
                               | None => None
                               end)) cs2;
     do cs4 <- foldM (post_one vs ss h (v_type from)) (fo_post h) cs3;
     mapM (fold_outputs_one g h sub) cs4).
  Proof. reflexivity. Qed.

  Definition st_at (st : nst) (cur : N) : nst := mkNst (s_vis st) (s_fds st) cur (s_anc st) (s_fks st).

  Lemma covers_insert impk0 (m : list (fieldref * tagged)) t tv :
    (forall t', In t' impk0 -> lookup_ref t' m <> None) ->
    forall t', In t' (impk0 ++ [t]) -> lookup_ref t' (insert_ref t tv m) <> None.
  Proof.
    intros Hc t' Ht'. destruct (fieldref_eqb t' t) eqn:E.
    - rewrite (lookup_eqb_compat _ t' t E), lookup_insert_same. discriminate.
    - rewrite (lookup_insert_other _ _ _ _ E). apply in_app_iff in Ht'. destruct Ht' as [Ht'|[<-|[]]]; [now apply Hc|].
      rewrite fieldref_eqb_refl in E. discriminate.
  Qed.

  (* set_imported (set_active c v) m: only the active vertex and the imported tags change *)
  Lemma reimport_fields c v m :
    let x := set_imported (set_active c v) m in
    values x = values c /\ suspended x = suspended c /\ piggyback x = piggyback c /\ vertices x = vertices c /\
    folded_contexts x = folded_contexts c /\ folded_values x = folded_values c /\ imported_tags x = m /\ active x = v.
  Proof. dctx c. cbn. repeat split. Qed.

  Lemma reimport_pinv impk0 impk1 st c v m :
    pinv impk0 st [] c -> (forall t', In t' impk1 -> lookup_ref t' m <> None) ->
    pinv impk1 st [] (set_imported (set_active c v) m).
  Proof.
    intros Hc Hm. destruct (reimport_fields c v m) as (S1 & S2 & S3 & S4 & S5 & S6 & S7 & S8).
    apply (pinv_rebuild impk0 impk1 st st [] [] c); try reflexivity; try assumption.
    - rewrite S1. exact (pi_vals _ _ _ _ Hc).
    - rewrite S2. exact (pi_susp _ _ _ _ Hc).
    - rewrite S3. exact (pi_pb _ _ _ _ Hc).
    - rewrite S5. exact (pi_fds _ _ _ _ Hc).
    - intros a [].
  Qed.

  Lemma set_active_same_ctx c : set_active c (active c) = c.
  Proof. dctx c. reflexivity. Qed.

  Lemma import_one_safe vs impk0 st t cs :
    import_np vs st t = true -> Forall (pinv impk0 st []) cs ->
    safe (Forall (pinv (impk0 ++ [t]) st [])) (import_one vs cs t).
  Proof.
    intros Hok Hcs. unfold import_one. destruct t as [cf|ff]; cbn [import_np] in Hok.
    - apply andb_prop in Hok. destruct Hok as (Hf & Hm). unfold vertex_of.
      destruct (find_vertex vs (cf_vid cf)) as [fvtx|]; [|discriminate]. cbn [expect_some bind].
      eapply safe_mapM; [exact Hcs|]. intros c Hc.
      destruct (vertex_at_safe impk0 st c _ (pinv_lk _ _ _ _ Hc) Hm) as (ov & Hov).
      unfold activate_vertex. rewrite Hov. cbn [bind].
      assert (Hov' : vertex_at (set_active c ov) (cf_vid cf) = Ok ov) by (dctx c; exact Hov).
      rewrite Hov'. cbn [bind safe].
      replace (imported_tags (set_active c ov)) with (imported_tags c) by (dctx c; reflexivity).
      apply (reimport_pinv impk0 _ st c ov); [exact Hc|]. apply covers_insert. exact (pi_imp _ _ _ _ Hc).
    - eapply safe_mapM; [exact Hcs|]. intros c Hc.
      destruct (fold_count_value_safe impk0 st c _ (pinv_lk _ _ _ _ Hc) Hok) as (tv & ->). cbn [bind safe].
      rewrite <- (set_active_same_ctx c) at 1.
      apply (reimport_pinv impk0 _ st c (active c)); [exact Hc|]. apply covers_insert. exact (pi_imp _ _ _ _ Hc).
  Qed.

  Lemma imports_safe vs st ts : forall impk0 cs,
    forallb (import_np vs st) ts = true -> Forall (pinv impk0 st []) cs ->
    safe (Forall (pinv (impk0 ++ ts) st [])) (foldM (import_one vs) ts cs).
  Proof.
    induction ts as [|t ts IH]; intros impk0 cs Hok Hcs; cbn [foldM forallb] in *.
    - now rewrite app_nil_r.
    - apply andb_prop in Hok. destruct Hok as (Ht & Hts).
      eapply safe_bind; [exact (import_one_safe vs impk0 st t cs Ht Hcs)|]. intros cs1 Hcs1.
      replace (impk0 ++ t :: ts) with ((impk0 ++ [t]) ++ ts) by (rewrite <- app_assoc; reflexivity).
      now apply IH.
  Qed.

  (* a context between the materialisation of fold h and its output bookkeeping *)
  Definition fold_pending (impk impk' : list fieldref) (st : nst) (h : fold_hdr) (sub : ir_component) (c : ctx) : Prop :=
    cinv impk (st_mid st h) c /\
    exists fe, lookup_N (fo_eid h) (folded_contexts c) = Some fe /\
               match fe with Some els => Forall (cinv impk' (comp_final sub)) els | None => True end.

  Lemma pending_fields c eid (fe : option (list ctx)) m :
    let x := set_imported (set_folded_contexts c (folded_contexts c ++ [(eid, fe)])) m in
    values x = values c /\ suspended x = suspended c /\ piggyback x = piggyback c /\ vertices x = vertices c /\
    folded_contexts x = folded_contexts c ++ [(eid, fe)] /\ folded_values x = folded_values c /\
    imported_tags x = m /\ active x = active c.
  Proof. dctx c. cbn. repeat split. Qed.

  Lemma fold_one_safe impk st from h sub sc maxl minl c :
    (forall cs', Forall (start_inv (impk ++ fo_imported h)) cs' ->
                 safe (Forall (cinv (impk ++ fo_imported h) (comp_final sub))) (sc cs')) ->
    disjoint_keys (fo_imported h) impk ->
    memN (fo_from h) (s_vis st) = true -> memN (fo_eid h) (s_fds st) = false ->
    cinv (impk ++ fo_imported h) (st_at st (fo_from h)) c ->
    safe (fun o => forall y, o = Some y -> fold_pending impk (impk ++ fo_imported h) st h sub y)
         (fold_one g from h sc maxl minl c).
  Proof.
    set (impk' := impk ++ fo_imported h).
    intros Hsc Hdisj Hfrom Heid (Hc & Hcur). unfold fold_one. cbv zeta.
    cbn [st_at s_cur] in Hcur.
    eapply safe_bind.
    - apply Hsc. apply Forall_forall. intros x Hx. apply in_map_iff in Hx. destruct Hx as (n & <- & _).
      unfold start_inv, ctx_new, set_imported. cbn. repeat split; try reflexivity. exact (pi_imp _ _ _ _ Hc).
    - intros computed Hcomp.
      destruct (vertex_at_safe impk' (st_at st (fo_from h)) c _ (pinv_lk _ _ _ _ Hc) Hfrom) as (ov & ->). cbn [bind].
      assert (Hfe : forall fe, match fe with Some els => Forall (cinv impk' (comp_final sub)) els | None => True end ->
                   safe (fun o => forall y, o = Some y -> fold_pending impk impk' st h sub y)
                        (if has_key_N (fo_eid h) (folded_contexts c)
                         then Panic "execution.rs:compute_fold folded_contexts.insert_or_error"
                         else
                           let c1 := set_folded_contexts c (folded_contexts c ++ [(fo_eid h, fe)]) in
                           let imp := fold_left (fun m t => match remove_ref t m with Some m' => m' | None => m end)
                                                (fo_imported h) (imported_tags c1) in
                           Ok (Some (set_imported c1 imp)))).
      { intros fe Hels. apply np_memN_false in Heid.
        assert (Hnk : ~ In (fo_eid h) (map fst (folded_contexts c))).
        { rewrite (pi_fds _ _ _ _ Hc). exact Heid. }
        rewrite (np_has_key_false _ _ Hnk). cbv zeta. cbn [safe]. intros y Hy. injection Hy as <-.
        replace (imported_tags (set_folded_contexts c (folded_contexts c ++ [(fo_eid h, fe)])))
          with (imported_tags c) by (dctx c; reflexivity).
        fold (remove_all (fo_imported h) (imported_tags c)).
        destruct (pending_fields c (fo_eid h) fe (remove_all (fo_imported h) (imported_tags c)))
          as (S1 & S2 & S3 & S4 & S5 & S6 & S7 & S8).
        split; [split|].
        - apply (pinv_rebuild impk' impk (st_at st (fo_from h)) (st_mid st h) [] [] c); try reflexivity; try assumption.
          + rewrite S1. exact (pi_vals _ _ _ _ Hc).
          + rewrite S2. exact (pi_susp _ _ _ _ Hc).
          + rewrite S3. exact (pi_pb _ _ _ _ Hc).
          + rewrite S5, map_app, (pi_fds _ _ _ _ Hc). reflexivity.
          + intros t Ht. rewrite S7. rewrite remove_all_keeps.
            * apply (pi_imp _ _ _ _ Hc). apply in_or_app. now left.
            * intros t' Ht'. rewrite fieldref_eqb_sym. now apply Hdisj.
          + intros a [].
        - cbn [st_mid s_cur]. rewrite S4, S8. exact Hcur.
        - exists fe. split; [|exact Hels]. rewrite S5. apply lookup_N_app_fresh. now apply np_lookup_N_nokey. }
      destruct ov as [v|].
      + destruct (collect_fold_elements computed maxl minl) as [els|] eqn:Ecol.
        * apply Hfe. unfold collect_fold_elements in Ecol.
          destruct maxl as [m|].
          -- destruct (Z.ltb m (Z.of_nat (List.length computed))); [discriminate|]. injection Ecol as <-. exact Hcomp.
          -- destruct minl as [m|]; injection Ecol as <-; [now apply Forall_take_z|exact Hcomp].
        * cbn [safe]. intros y Hy. discriminate.
      + apply Hfe. exact I.
  Qed.

  Definition count_left (eid : N) (c : ctx) : fv :=
    match lookup_N eid (folded_contexts c) with
    | Some (Some l) => U64 (Z.of_nat (List.length l))
    | _ => Null
    end.

  Lemma post_one_safe vs ss impk impk' st h sub from_ty pf cs :
    arg_ok args vs ss impk (st_fold st h sub) (fo_from h) (pf_op pf) (pf_arg pf) = true ->
    Forall (fold_pending impk impk' st h sub) cs ->
    safe (Forall (fold_pending impk impk' st h sub)) (post_one vs ss h from_ty cs pf).
  Proof.
    intros Hok Hcs. unfold post_one.
    assert (Hmap : mapM (fun c => do tv <- fold_count_value (fo_eid h) c;
                                  match tv with
                                  | TSome v => Ok (push_value c v)
                                  | TNone => Ok (push_value c Null)
                                  end) cs = Ok (map (fun c => push_value c (count_left (fo_eid h) c)) cs)).
    { apply mapM_map_ok. eapply Forall_impl; [|exact Hcs]. intros c (_ & fe & Hfe & _).
      unfold fold_count_value, count_left. rewrite Hfe. destruct fe; reflexivity. }
    rewrite Hmap. cbn [bind].
    apply (filter_stage_safe re_match g args (fold_pending impk impk' st h sub) vs ss impk (st_fold st h sub)); [|exact Hcs|exact Hok].
    intros x ((Hx & _) & _). split; [exact (pi_vis _ _ _ _ Hx)|]. split; [exact (pi_fds _ _ _ _ Hx)|exact (pi_imp _ _ _ _ Hx)].
  Qed.

  (* the whole fold step *)
  Theorem fold_step_safe vs ss impk st h sub cs :
    (forall impk' cs', np_comp args impk' sub = true -> Forall (start_inv impk') cs' ->
                       safe (Forall (cinv impk' (comp_final sub))) (compute_component re_match g args sub cs')) ->
    fold_np args vs ss impk st h sub = true -> np_comp args (impk ++ fo_imported h) sub = true ->
    Forall (cinv impk st) cs ->
    safe (Forall (cinv impk (st_fold st h sub)))
         (fold_step re_match g args vs ss h sub (compute_component re_match g args sub) cs).
  Proof.
    intros IHsub Hok Hsub Hcs. rewrite fold_step_eq. unfold fold_np in Hok.
    repeat (let H := fresh "Hb" in apply andb_prop in Hok; destruct Hok as (Hok & H)).
    rename Hb into Hdisjk, Hb0 into Hkeys, Hb1 into Hpost, Hb2 into Heid, Hb3 into Hcnt, Hb4 into Hdisj,
           Hb5 into Himp, Hb6 into Hfrom.
    unfold vertex_of. destruct (find_vertex vs (fo_from h)) as [from|]; [|discriminate]. cbn [expect_some bind].
    apply Bool.negb_true_iff in Heid.
    pose proof (disjoint_keysb_sound _ _ Hdisj) as Hdisj'.
    assert (Hfk : NoDup (fold_keys h sub)).
    { apply (nodupb_sound fv_key_eqb); [intros x y ->; apply fv_key_eqb_refl|exact Hkeys]. }
    assert (Hdis : forall k, In k (fold_keys h sub) -> ~ In k (s_fks st)).
    { intros k Hk. rewrite forallb_forall in Hdisjk. specialize (Hdisjk k Hk).
      apply Bool.negb_true_iff in Hdisjk. now apply key_in_false. }
    set (impk' := impk ++ fo_imported h) in *.
    (* imported tags *)
    eapply safe_bind.
    { apply (imports_safe vs st (fo_imported h) impk cs Himp).
      eapply Forall_impl; [|exact Hcs]. intros c (Hc & _). exact Hc. }
    intros cs1 Hcs1. fold impk' in Hcs1.
    (* activate the fold's origin *)
    eapply safe_bind with (P := Forall (cinv impk' (st_at st (fo_from h)))).
    { eapply safe_mapM; [exact Hcs1|]. intros c Hc.
      destruct (vertex_at_safe impk' st c _ (pinv_lk _ _ _ _ Hc) Hfrom) as (ov & Hov).
      unfold activate_vertex. rewrite Hov. cbn [bind safe]. split.
      - destruct (reimport_fields c ov (imported_tags c)) as (S1 & S2 & S3 & S4 & S5 & S6 & S7 & S8).
        replace (set_active c ov) with (set_imported (set_active c ov) (imported_tags c)) by (dctx c; reflexivity).
        apply (pinv_rebuild impk' impk' st (st_at st (fo_from h)) [] [] c); try reflexivity; try assumption.
        + rewrite S1. exact (pi_vals _ _ _ _ Hc).
        + rewrite S2. exact (pi_susp _ _ _ _ Hc).
        + rewrite S3. exact (pi_pb _ _ _ _ Hc).
        + rewrite S5. exact (pi_fds _ _ _ _ Hc).
        + intros t Ht. rewrite S7. now apply (pi_imp _ _ _ _ Hc).
        + intros a [].
      - cbn [st_at s_cur]. unfold vertex_at in Hov. dctx c. cbn [vertices set_active active] in *.
        destruct (lookup_N (fo_from h) vs0); [now injection Hov as <-|discriminate]. }
    intros cs2 Hcs2.
    destruct (fold_count_limits_no_panic args h Hcnt) as ((maxl & ->) & (minl0 & ->)). cbn [bind].
    (* materialise *)
    eapply safe_bind with (P := Forall (fold_pending impk impk' st h sub)).
    { eapply safe_filter_mapM; [exact Hcs2|]. intros c Hc.
      apply (fold_one_safe impk st from h sub); try assumption.
      intros cs' Hcs'. now apply IHsub. }
    intros cs3 Hcs3.
    (* post-fold filters *)
    eapply safe_bind with (P := Forall (fold_pending impk impk' st h sub)).
    { apply safe_foldM; [exact Hcs3|]. intros cs0 pf Hcs0 Hpf. apply post_one_safe; [|exact Hcs0].
      rewrite forallb_forall in Hpost. now apply Hpost. }
    intros cs4 Hcs4.
    (* outputs *)
    eapply safe_mapM; [exact Hcs4|]. intros c (Hc & fe & Hfe & Hels).
    destruct (fold_outputs_one_ok g impk impk' st h sub c fe Hfk Hdis (np_comp_outs args impk' sub Hsub) Hc Hfe Hels)
      as (z & -> & Hz). exact Hz.
  Qed.
End FoldStep.
