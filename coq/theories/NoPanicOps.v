(* NoPanicOps.v — the `safe` outcome predicate: monadic rules, and the filter operators / dispatch
   tables / regex pre-check panic only at operator sites (whatever the operands). *)
From Coq Require Import Lia.
From TF Require Import ValuesProofs Exec ExecLemmas NoPanic.
Local Open Scope string_scope.
Local Open Scope list_scope.

(* ---------- rules ---------- *)
Lemma safe_ok {A} (P : A -> Prop) a : P a -> safe P (Ok a).
Proof. exact (fun H => H). Qed.

Lemma safe_bind {A B} (P : A -> Prop) (Q : B -> Prop) (r : res A) (k : A -> res B) :
  safe P r -> (forall a, P a -> safe Q (k a)) -> safe Q (bind r k).
Proof. destruct r as [a|s]; cbn [safe bind]; auto. Qed.

Lemma safe_mono {A} (P Q : A -> Prop) (r : res A) : (forall a, P a -> Q a) -> safe P r -> safe Q r.
Proof. destruct r as [a|s]; cbn [safe]; auto. Qed.

Lemma safe_inv_ok {A} (P : A -> Prop) r a : safe P r -> r = Ok a -> P a.
Proof. intros H ->. exact H. Qed.

Lemma safe_inv_panic {A} (P : A -> Prop) r s : safe P r -> r = Panic s -> operator_site s = true.
Proof. intros H ->. exact H. Qed.

Lemma safe_mapM {A B} (I : A -> Prop) (J : B -> Prop) (f : A -> res B) l :
  Forall I l -> (forall x, I x -> safe J (f x)) -> safe (Forall J) (mapM f l).
Proof.
  intros HF Hf. induction HF as [|x l Hx _ IH]; cbn [mapM]; [constructor|].
  eapply safe_bind; [exact (Hf x Hx)|]. intros y Hy.
  eapply safe_bind; [exact IH|]. intros ys Hys. constructor; assumption.
Qed.

(* the relational variant: the outputs correspond one-to-one to the inputs *)
Lemma safe_mapM2 {A B} (I : A -> Prop) (R : A -> B -> Prop) (f : A -> res B) l :
  Forall I l -> (forall x, I x -> safe (R x) (f x)) -> safe (Forall2 R l) (mapM f l).
Proof.
  intros HF Hf. induction HF as [|x l Hx _ IH]; cbn [mapM]; [constructor|].
  eapply safe_bind; [exact (Hf x Hx)|]. intros y Hy.
  eapply safe_bind; [exact IH|]. intros ys Hys. constructor; assumption.
Qed.

Lemma safe_filter_mapM {A B} (I : A -> Prop) (J : B -> Prop) (f : A -> res (option B)) l :
  Forall I l -> (forall x, I x -> safe (fun o => forall y, o = Some y -> J y) (f x)) ->
  safe (Forall J) (filter_mapM f l).
Proof.
  intros HF Hf. induction HF as [|x l Hx _ IH]; cbn [filter_mapM]; [constructor|].
  eapply safe_bind; [exact (Hf x Hx)|]. intros y Hy.
  eapply safe_bind; [exact IH|]. intros ys Hys. cbn [safe].
  destruct y as [b|]; [constructor; auto|assumption].
Qed.

Lemma safe_foldM {A S} (I : S -> Prop) (f : S -> A -> res S) l : forall s,
  I s -> (forall s a, I s -> In a l -> safe I (f s a)) -> safe I (foldM f l s).
Proof.
  induction l as [|a l IH]; cbn [foldM]; intros s Hs Hf; [exact Hs|].
  eapply safe_bind; [apply Hf; [exact Hs|now left]|]. intros s' Hs'.
  apply IH; [exact Hs'|]. intros s0 a0 H0 Hin. apply Hf; [exact H0|now right].
Qed.

Lemma site_in s : In s operator_sites -> operator_site s = true.
Proof.
  intros H. unfold operator_site. apply existsb_exists. exists s. split; [exact H|apply String.eqb_refl].
Qed.

Ltac site := lazymatch goal with |- operator_site (String _ _) = true => vm_compute; reflexivity end.

(* ---------- Values.fv_eq ---------- *)
Lemma fv_eq_safe : forall a b, safe (fun _ => True) (fv_eq a b).
Proof.
  induction a as [ | z | z | bits | s | b0 | s | l IHl] using fv_ind'; intros b; destruct b; try exact I.
  - cbn [fv_eq]. unfold finite_guard. destruct (f64_finite bits); [destruct (f64_finite bits0); [exact I|]|]; cbn [safe]; site.
  - cbn [fv_eq]. destruct (negb (Nat.eqb (List.length l) (List.length l0))); [exact I|].
    revert l0. induction IHl as [|x l Hx _ IH]; intros [|y r]; try exact I.
    eapply safe_bind; [apply Hx|]. intros e _. destruct e; [apply IH|exact I].
Qed.

(* ---------- the operators ---------- *)
Local Open Scope Z_scope.

Lemma equals_safe : forall a b, safe (fun _ => True) (equals a b).
Proof.
  induction a as [ | z | z | bits | s | b0 | s | l IHl] using fv_ind'; intros b; destruct b; try exact I.
  - cbn [equals discriminant]. cbn.
    repeat match goal with |- context [if ?c then _ else _] => destruct c end; exact I.
  - cbn [equals discriminant]. cbn.
    repeat match goal with |- context [if ?c then _ else _] => destruct c end; exact I.
  - change (safe (fun _ => True) (fv_eq (F64 bits) (F64 bits0))). apply fv_eq_safe.
  - cbn [equals discriminant]. rewrite Z.eqb_refl.
    destruct (Nat.eqb (List.length l) (List.length l0)); [|exact I].
    revert l0. induction IHl as [|x l Hx _ IH]; intros [|y r]; try exact I.
    eapply safe_bind; [apply Hx|]. intros e _. destruct e; [apply IH|exact I].
Qed.

Lemma slow_greater_safe o l r : safe (fun _ => True) (slow_path_greater o l r).
Proof.
  unfold slow_path_greater. destruct l, r; try (cbn [safe]; site);
    repeat match goal with |- context [if ?c then _ else _] => destruct c end; try exact I; cbn [safe]; site.
Qed.

Lemma slow_less_safe o l r : safe (fun _ => True) (slow_path_less o l r).
Proof.
  unfold slow_path_less. destruct l, r; try (cbn [safe]; site);
    repeat match goal with |- context [if ?c then _ else _] => destruct c end; try exact I; cbn [safe]; site.
Qed.

Lemma comparison_safe o slow l r :
  (forall l r, safe (fun _ => True) (slow l r)) -> safe (fun _ => True) (comparison_op_func o slow l r).
Proof. intros Hs. unfold comparison_op_func. destruct l, r; try exact I; apply Hs. Qed.

Lemma less_than_safe l r : safe (fun _ => True) (less_than l r).
Proof. apply comparison_safe. intros. apply slow_less_safe. Qed.
Lemma less_than_or_equal_safe l r : safe (fun _ => True) (less_than_or_equal l r).
Proof. apply comparison_safe. intros. apply slow_less_safe. Qed.
Lemma greater_than_safe l r : safe (fun _ => True) (greater_than l r).
Proof. apply comparison_safe. intros. apply slow_greater_safe. Qed.
Lemma greater_than_or_equal_safe l r : safe (fun _ => True) (greater_than_or_equal l r).
Proof. apply comparison_safe. intros. apply slow_greater_safe. Qed.

Lemma has_substring_safe l r : safe (fun _ => True) (has_substring l r).
Proof. unfold has_substring, string_op. destruct l, r; try exact I; cbn [safe]; site. Qed.
Lemma has_prefix_safe l r : safe (fun _ => True) (has_prefix l r).
Proof. unfold has_prefix, string_op. destruct l, r; try exact I; cbn [safe]; site. Qed.
Lemma has_suffix_safe l r : safe (fun _ => True) (has_suffix l r).
Proof. unfold has_suffix, string_op. destruct l, r; try exact I; cbn [safe]; site. Qed.

Lemma one_of_safe l r : safe (fun _ => True) (one_of l r).
Proof.
  unfold one_of. destruct r; try exact I; try (cbn [safe]; site).
  induction l0 as [|v l0 IH]; [exact I|].
  eapply safe_bind; [apply fv_eq_safe|]. intros e _. destruct e; [exact I|exact IH].
Qed.

Lemma contains_safe l r : safe (fun _ => True) (contains l r).
Proof. apply one_of_safe. Qed.

Lemma not_safe {R} (f : fv -> R -> res bool) l r :
  safe (fun _ => True) (f l r) -> safe (fun _ => True) (not_ f l r).
Proof. intros H. unfold not_. eapply safe_bind; [exact H|]. intros; exact I. Qed.

Lemma filter_op_safe {R} act (f : fv -> R -> res bool) l r :
  safe (fun _ => True) (f l r) -> safe (fun _ => True) (apply_filter_op act f l r).
Proof. intros H. unfold apply_filter_op. destruct (negb act); [exact I|exact H]. Qed.

Section Regex.
  Variable re : string -> string -> option bool.

  Lemma regex_slow_safe l r : safe (fun _ => True) (regex_matches_slow_path re l r).
  Proof. unfold regex_matches_slow_path. destruct l, r; try exact I; cbn [safe]; site. Qed.

  Lemma regex_opt_safe l rx : safe (fun _ => True) (regex_matches_optimized l rx).
  Proof. unfold regex_matches_optimized. destruct l; try exact I; cbn [safe]; site. Qed.

  (* after the stage-building pre-check has passed, the per-context regex expect()s cannot fire *)
  Lemma static_regex_ok op r :
    precheck_static re op r = Ok tt -> op = RegexMatches \/ op = NotRegexMatches ->
    exists rx, static_regex re r = Ok rx.
  Proof.
    intros H Hop. unfold static_regex, regex_new.
    assert (Hr : match r with Str p => re p EmptyString <> None | _ => False end).
    { unfold precheck_static in H. destruct Hop as [-> | ->];
        (destruct r; try discriminate; destruct (re s EmptyString); [discriminate|discriminate]). }
    destruct r; try contradiction. destruct (re s EmptyString); [eauto|congruence].
  Qed.

  Theorem apply_static_safe op l r act :
    opk_unary op = false -> precheck_static re op r = Ok tt ->
    safe (fun _ => True) (apply_static re op l r act).
  Proof.
    intros Hu Hpre. destruct op; try discriminate; cbn [apply_static];
      try (apply filter_op_safe; try apply not_safe;
           first [apply equals_safe | apply less_than_safe | apply less_than_or_equal_safe
                 | apply greater_than_safe | apply greater_than_or_equal_safe | apply contains_safe
                 | apply one_of_safe | apply has_prefix_safe | apply has_suffix_safe | apply has_substring_safe]).
    - destruct (static_regex_ok _ r Hpre (or_introl eq_refl)) as (rx & ->). cbn [bind].
      apply filter_op_safe, regex_opt_safe.
    - destruct (static_regex_ok _ r Hpre (or_intror eq_refl)) as (rx & ->). cbn [bind].
      apply filter_op_safe, not_safe, regex_opt_safe.
  Qed.

  Lemma tagged_arg_safe act (f : fv -> fv -> res bool) l r :
    (forall rv, safe (fun _ => True) (f l rv)) ->
    safe (fun _ => True) (apply_filter_op_with_tagged_argument act f l r).
  Proof. intros H. unfold apply_filter_op_with_tagged_argument. destruct r; [apply filter_op_safe, H|exact I]. Qed.

  Theorem apply_tagged_safe op l r act :
    opk_unary op = false -> safe (fun _ => True) (apply_tagged re op l r act).
  Proof.
    intros Hu. destruct op; try discriminate; cbn [apply_tagged];
      apply tagged_arg_safe; intros rv; try apply not_safe;
      first [apply equals_safe | apply less_than_safe | apply less_than_or_equal_safe
            | apply greater_than_safe | apply greater_than_or_equal_safe | apply contains_safe
            | apply one_of_safe | apply has_prefix_safe | apply has_suffix_safe | apply has_substring_safe
            | apply regex_slow_safe].
  Qed.

  Theorem precheck_static_safe op r : safe (fun _ => True) (precheck_static re op r).
  Proof.
    unfold precheck_static. destruct op; try exact I;
      (destruct r; try (cbn [safe]; site); destruct (re s EmptyString); [exact I|cbn [safe]; site]).
  Qed.
End Regex.
