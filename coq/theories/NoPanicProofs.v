(* NoPanicProofs.v — the whole-interpreter theorem of C09: for every lowered query passing the static
   check np_ok, on every graph with type-independent neighbours and for all arguments, every panic of
   Exec.interpret is a panic of a filter operator (or of the regex compilation of a filter): the
   engine's own bookkeeping — vertices[..] lookups, values.pop(), the suspended stack, piggy-backed
   contexts, the folded_contexts / folded_values / imported_tags maps and their assertions, the
   fold-count limits, construct_outputs — never panics. *)
From Coq Require Import Lia.
From TF Require Import ValuesProofs Exec Sem ExecLemmas Sim SimRec SimComp SimFold SimOut FoldOut ExecNoPanic WfCheck
     SimGen SimFoldT SimFull WfIR WfIRProofs NoPanic NoPanicOps NoPanicEdges NoPanicFold.
Local Open Scope string_scope.
Local Open Scope N_scope.
Local Open Scope list_scope.

(* ---------- list facts for construct_outputs ---------- *)
Lemma NoDup_map_inj_on {A B} (f : A -> B) (S : list A) a b :
  NoDup (map f S) -> In a S -> In b S -> f a = f b -> a = b.
Proof.
  induction S as [|x S IH]; cbn [map In]; intros Hnd Ha Hb E; [contradiction|].
  inversion Hnd as [|? ? Hni Hnd']; subst. destruct Ha as [->|Ha], Hb as [->|Hb]; auto.
  - exfalso. apply Hni. rewrite E. now apply in_map.
  - exfalso. apply Hni. rewrite <- E. now apply in_map.
Qed.

Lemma NoDup_map_sub {A B} (f : A -> B) (K S : list A) :
  NoDup K -> incl K S -> NoDup (map f S) -> NoDup (map f K).
Proof.
  intros HK Hi HS. induction HK as [|a K Hni _ IH]; cbn [map]; [constructor|].
  constructor; [|apply IH; intros y Hy; apply Hi; now right].
  intros E. apply in_map_iff in E. destruct E as (b & Eb & Hb).
  assert (b = a).
  { apply (NoDup_map_inj_on f S); [exact HS|apply Hi; now right|apply Hi; now left|exact Eb]. }
  subst b. contradiction.
Qed.

Lemma np_lookup_str_nokey {A} k (l : list (string * A)) : ~ In k (map fst l) -> lookup_str k l = None.
Proof.
  induction l as [|[k' a] r IH]; cbn [map fst In lookup_str]; [reflexivity|].
  intros H. destruct (String.eqb_spec k k') as [->|Hn]; [exfalso; apply H; now left|apply IH; tauto].
Qed.

Lemma final_loop_ok (fvl : list ((N * string) * option vov)) : forall r0,
  NoDup (map (fun kv => snd (fst kv)) fvl) ->
  (forall kv, In kv fvl -> lookup_str (snd (fst kv)) r0 = None) ->
  exists row,
    foldM (fun r kv =>
             let name := snd (fst kv) in
             match lookup_str name r with
             | Some _ => Panic "execution.rs:construct_outputs assert!(existing.is_none())"
             | None => Ok (insert_row name (match snd kv with Some x => vov_to_fv x | None => Null end) r)
             end) fvl r0 = Ok row.
Proof.
  induction fvl as [|kv fvl IH]; cbn [foldM map]; intros r0 Hnd Hl; [eauto|].
  inversion Hnd as [|? ? Hni Hnd']; subst. cbv beta zeta. rewrite (Hl kv (or_introl eq_refl)). cbn [bind].
  apply IH; [exact Hnd'|]. intros kv' Hkv'. rewrite lookup_insert_row.
  destruct (String.eqb_spec (snd (fst kv')) (snd (fst kv))) as [E|Hne].
  - exfalso. apply Hni. rewrite <- E. apply (in_map (fun kv0 => snd (fst kv0))). exact Hkv'.
  - apply Hl. now right.
Qed.

Section Top.
  Variable re_match : string -> string -> option bool.
  Variable g : graph.
  Variable args : list (string * fv).
  Hypothesis Hind : ty_indep g.

  Definition comp_safe (sub : ir_component) : Prop :=
    forall impk cs, np_comp args impk sub = true -> Forall (start_inv impk) cs ->
                    safe (Forall (cinv impk (comp_final sub))) (compute_component re_match g args sub cs).

  (* ---------- the step loop ---------- *)
  Lemma exec_steps_safe vs ss outs impk todo :
    Forall (Psub comp_safe) todo -> forall st cs,
    np_steps args vs ss outs impk todo st = true -> Forall (cinv impk st) cs ->
    safe (Forall (cinv impk (st_final todo st))) (exec_steps re_match g args vs ss todo cs).
  Proof.
    induction 1 as [|[e|h sub] r Hs _ IH]; intros st cs Hok Hcs; cbn [exec_steps st_final np_steps] in *.
    - exact Hcs.
    - apply andb_prop in Hok. destruct Hok as (He & Hr).
      eapply safe_bind; [exact (expand_edge_safe re_match g args Hind vs ss impk st e cs He Hcs)|].
      intros cs' Hcs'. now apply IH.
    - apply andb_prop in Hok. destruct Hok as (Hok & Hr). apply andb_prop in Hok. destruct Hok as (Hf & Hsub).
      cbn [Psub] in Hs.
      eapply safe_bind; [exact (fold_step_safe re_match g args vs ss impk st h sub cs Hs Hf Hsub Hcs)|].
      intros cs' Hcs'. now apply IH.
  Qed.

  Lemma start_pinv impk root x : start_inv impk x -> pinv impk (st_start root) [] x.
  Proof.
    intros (H1 & H2 & H3 & H4 & H5 & H6 & H7). constructor; cbn [st_start s_vis s_fds s_anc s_fks].
    - exact H1.
    - rewrite H2. constructor.
    - exact H3.
    - now rewrite H4.
    - now rewrite H5.
    - exact H7.
    - intros v la [].
    - rewrite H6. constructor.
    - rewrite H6. intros y [].
    - intros a [].
  Qed.

  (* ---------- compute_component, any nesting ---------- *)
  Theorem compute_component_safe : forall c, comp_safe c.
  Proof.
    induction c as [root vs ss outs IH] using comp_ind'. intros impk cs Hok Hcs.
    rewrite compute_component_eq. rewrite np_comp_eq in Hok. unfold vertex_of.
    destruct (find_vertex vs root) as [rootv|] eqn:Er; [|discriminate]. cbn [expect_some bind].
    apply andb_prop in Hok. destruct Hok as (Hv & Hsteps).
    pose proof (find_vertex_vid _ _ _ Er) as Hvid.
    eapply safe_bind.
    - apply (enter_vertex_safe re_match g args vs ss impk (st_start root) [] rootv cs Hv).
      + reflexivity.
      + eapply Forall_impl; [|exact Hcs]. intros x. apply start_pinv.
    - intros cs0 Hcs0. rewrite Hvid in Hcs0. unfold comp_final. now apply (exec_steps_safe vs ss outs impk ss IH).
  Qed.

  (* ---------- construct_outputs ---------- *)
  Lemma construct_output_ok c cx :
    outs_np (c_vertices c) (comp_final c) (c_outputs c) = true -> NoDup (all_output_names c) ->
    cinv [] (comp_final c) cx ->
    exists row, construct_output_one g c (sort_names (map fst (c_outputs c))) cx = Ok row.
  Proof.
    intros Ho Hnd (Hc & _). unfold construct_output_one.
    destruct (output_values_ok g "root_component.outputs[name]" (c_outputs c) (c_vertices c) cx
                (sort_names (map fst (c_outputs c)))) as (vals & -> & Hlen).
    { apply (outs_np_names _ (comp_final c)); [exact Ho|exact (pi_vis _ _ _ _ Hc)|].
      intros n Hn. rewrite in_sort_names in Hn. exact Hn. }
    cbn [bind]. rewrite (pi_vals _ _ _ _ Hc). cbn [List.length plus]. rewrite Hlen, Nat.eqb_refl. cbn [negb].
    destruct c as [root vs ss outs]. cbn [c_outputs c_vertices] in *. rewrite all_output_names_eq in Hnd.
    assert (Hkeys : incl (map fst (folded_values cx)) (steps_keys ss)).
    { pose proof (pi_fvk _ _ _ _ Hc) as Hk. rewrite comp_final_fks, nested_fold_keys_eq in Hk. exact Hk. }
    apply final_loop_ok.
    - rewrite <- (map_map fst snd). apply (NoDup_map_sub snd _ (steps_keys ss)); [exact (pi_fvn _ _ _ _ Hc)|exact Hkeys|].
      rewrite steps_keys_names. now apply NoDup_app_r in Hnd.
    - intros kv Hkv. rewrite lookup_fold_insert_row. apply np_lookup_str_nokey. intros E.
      apply in_combine_fst in E. rewrite in_sort_names in E.
      apply (NoDup_app_disj _ _ _ Hnd E). rewrite <- steps_keys_names.
      apply (in_map snd). apply Hkeys. now apply (in_map fst).
  Qed.

  (* ---------- the interpreter ---------- *)
  Theorem interpret_safe q :
    np_ok args q = true -> safe (fun _ => True) (interpret re_match g args q).
  Proof.
    intros Hok. unfold np_ok in Hok. apply andb_prop in Hok. destruct Hok as (Hc & Hn).
    apply names_nodupb_sound in Hn. unfold interpret. cbv zeta.
    eapply safe_bind.
    - apply (compute_component_safe (q_comp q) [] _ Hc).
      apply Forall_forall. intros x Hx. apply in_map_iff in Hx. destruct Hx as (v & <- & _).
      unfold start_inv, ctx_new. cbn. repeat split; try reflexivity. intros t [].
    - intros cs Hcs. eapply safe_mono with (P := Forall (fun _ => True)); [intros; exact I|].
      eapply safe_mapM; [exact Hcs|]. intros cx Hcx.
      destruct (construct_output_ok (q_comp q) cx (np_comp_outs args [] _ Hc) Hn Hcx) as (row & ->). exact I.
  Qed.

  (* every panic of the interpreter is a panic of a filter operator *)
  Theorem interpret_panics_only_in_operators q site :
    np_ok args q = true -> interpret re_match g args q = Panic site -> operator_site site = true.
  Proof. intros Hok H. exact (safe_inv_panic _ _ _ (interpret_safe q Hok) H). Qed.

  Theorem interpret_rows_or_operator_panic q :
    np_ok args q = true ->
    (exists rows, interpret re_match g args q = Ok rows) \/
    (exists site, interpret re_match g args q = Panic site /\ operator_site site = true).
  Proof.
    intros Hok. pose proof (interpret_safe q Hok) as H.
    destruct (interpret re_match g args q) as [rows|site]; [left; eauto|right; eauto].
  Qed.

  (* when no filter operator leaves its domain the run ends with rows: stated contrapositively on sites,
     a run that panics nowhere in an operator does not panic at all *)
  Corollary interpret_ok_unless_operator_panics q :
    np_ok args q = true ->
    (forall site, interpret re_match g args q = Panic site -> operator_site site = false) ->
    exists rows, interpret re_match g args q = Ok rows.
  Proof.
    intros Hok Hno. destruct (interpret_rows_or_operator_panic q Hok) as [H|(site & Hs & Ho)]; [exact H|].
    rewrite (Hno site Hs) in Ho. discriminate.
  Qed.
End Top.

(* from the Rust-shaped IR: the merge loop of compute_component (Lower.v: its unreachable!() and its two
   visited-vid assert!s) does not panic on an IR satisfying the structural invariants of C11, and the
   run of the lowered query panics only inside filter operators *)
Theorem engine_panics_only_in_operators re g args rq :
  ty_indep g -> wf_ir rq = true ->
  exists q, lower_query rq = Ok q /\
            (np_ok args q = true ->
             forall site, interpret re g args q = Panic site -> operator_site site = true).
Proof.
  intros Hind Hwf. destruct (wf_ir_lower_ok rq Hwf) as (q & Hq). exists q. split; [exact Hq|].
  intros Hok site. now apply interpret_panics_only_in_operators.
Qed.
