(* OpK.v — the 20 filter operations of trustfall_core::ir::Operation (kinds only). *)
From Coq Require Export String.
Local Open Scope string_scope.

Inductive opk :=
| IsNull | IsNotNull
| Equals | NotEquals
| LessThan | LessThanOrEqual | GreaterThan | GreaterThanOrEqual
| Contains | NotContains
| OneOf | NotOneOf
| HasPrefix | NotHasPrefix
| HasSuffix | NotHasSuffix
| HasSubstring | NotHasSubstring
| RegexMatches | NotRegexMatches.

Definition opk_eqb (a b : opk) : bool :=
  match a, b with
  | IsNull, IsNull | IsNotNull, IsNotNull | Equals, Equals | NotEquals, NotEquals
  | LessThan, LessThan | LessThanOrEqual, LessThanOrEqual | GreaterThan, GreaterThan
  | GreaterThanOrEqual, GreaterThanOrEqual | Contains, Contains | NotContains, NotContains
  | OneOf, OneOf | NotOneOf, NotOneOf | HasPrefix, HasPrefix | NotHasPrefix, NotHasPrefix
  | HasSuffix, HasSuffix | NotHasSuffix, NotHasSuffix | HasSubstring, HasSubstring
  | NotHasSubstring, NotHasSubstring | RegexMatches, RegexMatches | NotRegexMatches, NotRegexMatches => true
  | _, _ => false
  end.

(* Operation::operation_name *)
Definition opk_name (o : opk) : string :=
  match o with
  | IsNull => "is_null" | IsNotNull => "is_not_null"
  | Equals => "=" | NotEquals => "!="
  | LessThan => "<" | LessThanOrEqual => "<=" | GreaterThan => ">" | GreaterThanOrEqual => ">="
  | Contains => "contains" | NotContains => "not_contains"
  | OneOf => "one_of" | NotOneOf => "not_one_of"
  | HasPrefix => "has_prefix" | NotHasPrefix => "not_has_prefix"
  | HasSuffix => "has_suffix" | NotHasSuffix => "not_has_suffix"
  | HasSubstring => "has_substring" | NotHasSubstring => "not_has_substring"
  | RegexMatches => "regex" | NotRegexMatches => "not_regex"
  end.

Definition opk_unary (o : opk) : bool := match o with IsNull | IsNotNull => true | _ => false end.
