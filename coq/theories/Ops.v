(* Ops.v — model of trustfall_core/src/interpreter/filtering.rs (the filter operator functions and
   the two dispatch tables).  Model file: definitions only, no proofs (proofs are in OpsProofs.v).
   Every `unreachable!` / `expect` of the Rust code is an explicit `Panic "site"` outcome. *)
From TF Require Export OpK.
From TF Require Import Values.
Open Scope Z_scope.

(* ---- equals (filtering.rs:16).  NOT the same code as PartialEq: same discriminant -> lists are
   compared element-wise with `equals` itself, everything else with `==` (fv_eq); different
   discriminants -> the two mixed-integer cases with their try_from branches, otherwise false. ---- *)
Fixpoint equals (left right : fv) {struct left} : res bool :=
  if Z.eqb (discriminant left) (discriminant right) then
    match left, right with
    | List l, List r =>
        (* l.len() == r.len() && l.iter().zip(r.iter()).all(|(x, y)| equals(x, y)) *)
        if Nat.eqb (List.length l) (List.length r) then
          (fix all (l r : list fv) {struct l} : res bool :=
             match l, r with
             | x :: l', y :: r' => do e <- equals x y; if e then all l' r' else Ok false
             | _, _ => Ok true
             end) l r
        else Ok false
    | _, _ => fv_eq left right
    end
  else
    match left, right with
    | U64 l, I64 r =>
        if l <=? i64_max then Ok (l =? r)             (* i64::try_from(l) ok *)
        else if 0 <=? r then Ok (l =? r)              (* u64::try_from(r) ok *)
        else Ok false
    | I64 l, U64 r =>
        if 0 <=? l then Ok (l =? r)                   (* u64::try_from(l) ok *)
        else if r <=? i64_max then Ok (l =? r)        (* i64::try_from(r) ok *)
        else Ok false
    | _, _ => Ok false
    end.

(* ---- the comparison macros; `$op` is a macro parameter, modelled by cmp_op ---- *)
Inductive cmp_op := OpLt | OpLe | OpGt | OpGe.

(* `l $op r` on i64 / u64 *)
Definition z_op (o : cmp_op) (a b : Z) : bool :=
  match o with OpLt => a <? b | OpLe => a <=? b | OpGt => a >? b | OpGe => a >=? b end.

(* `l $op r` through an Ordering (str: byte-wise lexicographic) *)
Definition ord_op (o : cmp_op) (c : comparison) : bool :=
  match o, c with
  | OpLt, Lt => true
  | OpLe, (Lt | Eq) => true
  | OpGt, Gt => true
  | OpGe, (Gt | Eq) => true
  | _, _ => false
  end.

(* `l $op r` on f64: native IEEE comparison.  NaN compares false with everything; all other bit
   patterns (finite and infinite) compare like their sign-magnitude keys. *)
Definition f64_is_nan (bits : N) : bool :=
  andb (N.eqb (f64_exp bits) 2047) (negb (N.eqb (N.land bits (2^52 - 1)) 0)).
Definition f64_op (o : cmp_op) (l r : N) : bool :=
  if orb (f64_is_nan l) (f64_is_nan r) then false else z_op o (f64_key l) (f64_key r).

(* make_greater_than_func_slow_path!($func, $op) *)
Definition slow_path_greater (o : cmp_op) (left right : fv) : res bool :=
  match left, right with
  | I64 l, U64 r =>
      if 0 <=? l then Ok (z_op o l r)                 (* u64::try_from(l) ok *)
      else if r <=? i64_max then Ok (z_op o l r)      (* i64::try_from(r) ok *)
      else if l <? 0 then Ok false
      else Panic "filtering.rs:79 unreachable"
  | U64 l, I64 r =>
      if l <=? i64_max then Ok (z_op o l r)           (* i64::try_from(l) ok *)
      else if 0 <=? r then Ok (z_op o l r)            (* u64::try_from(r) ok *)
      else if r <? 0 then Ok true
      else Panic "filtering.rs:90 unreachable"
  | _, _ => Panic "filtering.rs:93 unreachable"
  end.

(* make_less_than_func_slow_path!($func, $op) *)
Definition slow_path_less (o : cmp_op) (left right : fv) : res bool :=
  match left, right with
  | I64 l, U64 r =>
      if 0 <=? l then Ok (z_op o l r)
      else if r <=? i64_max then Ok (z_op o l r)
      else if l <? 0 then Ok true
      else Panic "filtering.rs:112 unreachable"
  | U64 l, I64 r =>
      if l <=? i64_max then Ok (z_op o l r)
      else if 0 <=? r then Ok (z_op o l r)
      else if r <? 0 then Ok false
      else Panic "filtering.rs:123 unreachable"
  | _, _ => Panic "filtering.rs:126 unreachable"
  end.

(* make_comparison_op_func!($func, $op, $slow_path_handler) *)
Definition comparison_op_func (o : cmp_op) (slow : fv -> fv -> res bool) (left right : fv) : res bool :=
  match left, right with
  | Null, _ => Ok false
  | _, Null => Ok false
  | Str l, Str r => Ok (ord_op o (String.compare l r))
  | I64 l, I64 r => Ok (z_op o l r)
  | U64 l, U64 r => Ok (z_op o l r)
  | F64 l, F64 r => Ok (f64_op o l r)
  | _, _ => slow left right
  end.

(* the eight macro instantiations (filtering.rs:132-139) *)
Definition slow_path_greater_than := slow_path_greater OpGt.
Definition greater_than := comparison_op_func OpGt slow_path_greater_than.
Definition slow_path_greater_than_or_equal := slow_path_greater OpGe.
Definition greater_than_or_equal := comparison_op_func OpGe slow_path_greater_than_or_equal.
Definition slow_path_less_than := slow_path_less OpLt.
Definition less_than := comparison_op_func OpLt slow_path_less_than.
Definition slow_path_less_than_or_equal := slow_path_less OpLe.
Definition less_than_or_equal := comparison_op_func OpLe slow_path_less_than_or_equal.

(* ---- str::contains / starts_with / ends_with, byte-wise ---- *)
Definition str_starts_with (l r : string) : bool := String.prefix r l.
Fixpoint str_contains (l r : string) : bool :=
  if String.prefix r l then true
  else match l with EmptyString => false | String _ l' => str_contains l' r end.
Fixpoint str_ends_with (l r : string) : bool :=
  if String.eqb l r then true
  else match l with EmptyString => false | String _ l' => str_ends_with l' r end.

Definition string_op (f : string -> string -> bool) (site : string) (left right : fv) : res bool :=
  match left, right with
  | Str l, Str r => Ok (f l r)
  | Null, Str _ | Str _, Null | Null, Null => Ok false
  | _, _ => Panic site
  end.

Definition has_substring := string_op str_contains "filtering.rs:148 unreachable".
Definition has_prefix := string_op str_starts_with "filtering.rs:159 unreachable".
Definition has_suffix := string_op str_ends_with "filtering.rs:170 unreachable".

(* ---- one_of / contains: uses `==` (fv_eq), returns at the first equal element ---- *)
Definition one_of (left right : fv) : res bool :=
  match right with
  | Null => Ok false
  | List v =>
      (fix go (v : list fv) : res bool :=
         match v with
         | [] => Ok false
         | value :: v' => do e <- fv_eq left value; if e then Ok true else go v'
         end) v
  | _ => Panic "filtering.rs:186 unreachable"
  end.

Definition contains (left right : fv) : res bool := one_of right left.

(* ---- is_null ---- *)
Definition is_null (value : fv) : bool := match value with Null => true | _ => false end.

(* ---- the not! macro ---- *)
Definition not_ {R} (f : fv -> R -> res bool) : fv -> R -> res bool :=
  fun l r => do b <- f l r; Ok (negb b).

(* ---- apply_filter_op / apply_unary_filter on ONE context whose value stack holds `left`:
   the result is whether the context survives,
   `ctx.within_nonexistent_optional() || filter_op(left, right)` (short-circuit: the operator is
   not called for a context inside a missing @optional).  active = the context has an active vertex. ---- *)
Definition apply_filter_op {R} (active : bool) (filter_op : fv -> R -> res bool) (left : fv) (right : R) : res bool :=
  if negb active then Ok true else filter_op left right.

(* attempt_apply_unary_filter; None = Err(iterator), the operation is not unary *)
Definition apply_unary (op : opk) (left : fv) (active : bool) : option bool :=
  match op with
  | IsNull => Some (orb (negb active) (is_null left))
  | IsNotNull => Some (orb (negb active) (negb (is_null left)))
  | _ => None
  end.

Section Regex.
  (* The regex crate, abstractly: re_match pattern haystack = None when the pattern does not
     compile, Some b when it compiles and is_match gives b. *)
  Variable re_match : string -> string -> option bool.

  (* Regex::new(p): Some (the compiled regex, as its is_match function) or None *)
  Definition regex_new (p : string) : option (string -> bool) :=
    match re_match p EmptyString with
    | None => None
    | Some _ => Some (fun s => match re_match p s with Some b => b | None => false end)
    end.

  Definition regex_matches_slow_path (left right : fv) : res bool :=
    match left, right with
    | Str l, Str r =>
        (* Regex::new(r).map(|pattern| pattern.is_match(l)).unwrap_or(false) *)
        Ok (match regex_new r with Some pattern => pattern l | None => false end)
    | Null, Null | Null, Str _ | Str _, Null => Ok false
    | _, _ => Panic "filtering.rs:213 unreachable"
    end.

  Definition regex_matches_optimized (left : fv) (regex : string -> bool) : res bool :=
    match left with
    | Str l => Ok (regex l)
    | Null => Ok false
    | _ => Panic "filtering.rs:222 unreachable"
    end.

  (* Regex::new(right_value.as_str().expect(..)).expect(..) — evaluated before any context is looked at *)
  Definition static_regex (right : fv) : res (string -> bool) :=
    match right with
    | Str p =>
        match regex_new p with
        | Some pattern => Ok pattern
        | None => Panic "filtering.rs:460 regex argument was not a valid regex"
        end
    | _ => Panic "filtering.rs:459 regex argument was not a string"
    end.

  (* apply_filter_with_static_argument_value, on one context *)
  Definition apply_static (op : opk) (left right : fv) (active : bool) : res bool :=
    match op with
    | Equals => apply_filter_op active equals left right
    | NotEquals => apply_filter_op active (not_ equals) left right
    | LessThan => apply_filter_op active less_than left right
    | LessThanOrEqual => apply_filter_op active less_than_or_equal left right
    | GreaterThan => apply_filter_op active greater_than left right
    | GreaterThanOrEqual => apply_filter_op active greater_than_or_equal left right
    | Contains => apply_filter_op active contains left right
    | NotContains => apply_filter_op active (not_ contains) left right
    | OneOf => apply_filter_op active one_of left right
    | NotOneOf => apply_filter_op active (not_ one_of) left right
    | HasPrefix => apply_filter_op active has_prefix left right
    | NotHasPrefix => apply_filter_op active (not_ has_prefix) left right
    | HasSuffix => apply_filter_op active has_suffix left right
    | NotHasSuffix => apply_filter_op active (not_ has_suffix) left right
    | HasSubstring => apply_filter_op active has_substring left right
    | NotHasSubstring => apply_filter_op active (not_ has_substring) left right
    | RegexMatches =>
        do pattern <- static_regex right;
        apply_filter_op active regex_matches_optimized left pattern
    | NotRegexMatches =>
        do pattern <- static_regex right;
        apply_filter_op active (not_ regex_matches_optimized) left pattern
    | IsNull | IsNotNull => Panic "filtering.rs:470 unreachable"
    end.

  (* apply_filter_with_tagged_argument_value, on one (context, tagged value) pair;
     right = None is TaggedValue::NonexistentOptional: the context always survives *)
  Definition apply_filter_op_with_tagged_argument (active : bool) (filter_op : fv -> fv -> res bool)
             (left : fv) (right : option fv) : res bool :=
    match right with
    | None => Ok true
    | Some right_value => apply_filter_op active filter_op left right_value
    end.

  Definition apply_tagged (op : opk) (left : fv) (right : option fv) (active : bool) : res bool :=
    match op with
    | Equals => apply_filter_op_with_tagged_argument active equals left right
    | NotEquals => apply_filter_op_with_tagged_argument active (not_ equals) left right
    | LessThan => apply_filter_op_with_tagged_argument active less_than left right
    | LessThanOrEqual => apply_filter_op_with_tagged_argument active less_than_or_equal left right
    | GreaterThan => apply_filter_op_with_tagged_argument active greater_than left right
    | GreaterThanOrEqual => apply_filter_op_with_tagged_argument active greater_than_or_equal left right
    | Contains => apply_filter_op_with_tagged_argument active contains left right
    | NotContains => apply_filter_op_with_tagged_argument active (not_ contains) left right
    | OneOf => apply_filter_op_with_tagged_argument active one_of left right
    | NotOneOf => apply_filter_op_with_tagged_argument active (not_ one_of) left right
    | HasPrefix => apply_filter_op_with_tagged_argument active has_prefix left right
    | NotHasPrefix => apply_filter_op_with_tagged_argument active (not_ has_prefix) left right
    | HasSuffix => apply_filter_op_with_tagged_argument active has_suffix left right
    | NotHasSuffix => apply_filter_op_with_tagged_argument active (not_ has_suffix) left right
    | HasSubstring => apply_filter_op_with_tagged_argument active has_substring left right
    | NotHasSubstring => apply_filter_op_with_tagged_argument active (not_ has_substring) left right
    | RegexMatches => apply_filter_op_with_tagged_argument active regex_matches_slow_path left right
    | NotRegexMatches => apply_filter_op_with_tagged_argument active (not_ regex_matches_slow_path) left right
    | IsNull | IsNotNull => Panic "filtering.rs:534 unreachable"
    end.
End Regex.

(* ---- helpers for the correspondence harness (not part of the model) ---- *)
Definition all_opk : list opk :=
  [IsNull; IsNotNull; Equals; NotEquals; LessThan; LessThanOrEqual; GreaterThan; GreaterThanOrEqual;
   Contains; NotContains; OneOf; NotOneOf; HasPrefix; NotHasPrefix; HasSuffix; NotHasSuffix;
   HasSubstring; NotHasSubstring; RegexMatches; NotRegexMatches].

(* a finite regex oracle: association table ((pattern, haystack), answer); a missing entry reads
   as "does not compile" *)
Fixpoint re_table (t : list (string * string * option bool)) (p s : string) : option bool :=
  match t with
  | [] => None
  | (p', s', b) :: t' => if andb (String.eqb p p') (String.eqb s s') then b else re_table t' p s
  end.
