(* OpsProofs.v — the filter operator model (Ops.v) decides exactly the definitions of OpsSpec.v (C07). *)
From Coq Require Import Lia.
From TF Require Import Values ValuesProofs Ops OpsSpec.
Open Scope Z_scope.

(* ================= equals ================= *)

Fixpoint equals_all (l r : list fv) : res bool :=
  match l, r with
  | x :: l', y :: r' => do e <- equals x y; if e then equals_all l' r' else Ok false
  | _, _ => Ok true
  end.

Lemma equals_list l r :
  equals (List l) (List r) = if Nat.eqb (List.length l) (List.length r) then equals_all l r else Ok false.
Proof.
  cbn [equals discriminant]. rewrite Z.eqb_refl.
  destruct (Nat.eqb (List.length l) (List.length r)); [|reflexivity].
  reflexivity.
Qed.

Lemma eqT_ints a b x y : int_val a = Some x -> int_val b = Some y -> eqT a b = (x =? y).
Proof. intros Ha Hb. unfold eqT. rewrite (cmpT_ints a b x y Ha Hb). now rewrite Z.eqb_compare. Qed.

Lemma equals_all_ok l : forall r,
  Forall (fun x => forall y, wf x = true -> wf y = true -> equals x y = Ok (eqT x y)) l ->
  forallb wf l = true -> forallb wf r = true -> List.length l = List.length r ->
  equals_all l r = Ok (match lexT cmpT l r with Eq => true | _ => false end).
Proof.
  induction l as [|x l IH]; intros [|y r] HF Wl Wr Len; try discriminate; try reflexivity.
  inversion HF as [|? ? Hx Hl]; subst.
  cbn in Wl, Wr. apply andb_prop in Wl, Wr. destruct Wl as [Wx Wl], Wr as [Wy Wr].
  cbn in Len. injection Len as Len.
  cbn [equals_all lexT]. rewrite (Hx y Wx Wy). cbn [bind]. unfold eqT.
  destruct (cmpT x y); try reflexivity. now apply IH.
Qed.

Theorem equals_ok : forall a b, wf a = true -> wf b = true -> equals a b = Ok (eqT a b).
Proof.
  induction a as [ | z | z | bits | s | b0 | s | l IHl] using fv_ind'; intros b Wa Wb; destruct b;
    try reflexivity; try exact (fv_eq_ok _ _ Wa Wb).
  - (* I64, U64 *)
    rewrite (eqT_ints (I64 z) (U64 z0) z z0) by reflexivity.
    cbn [equals discriminant]. change (1 =? 2) with false. cbv iota. unfold i64_max.
    destruct (Z.leb_spec 0 z); [reflexivity|].
    destruct (Z.leb_spec z0 (2 ^ 63 - 1)); [reflexivity|].
    f_equal. symmetry. apply Z.eqb_neq. lia.
  - (* U64, I64 *)
    rewrite (eqT_ints (U64 z) (I64 z0) z z0) by reflexivity.
    cbn [equals discriminant]. change (2 =? 1) with false. cbv iota. unfold i64_max.
    destruct (Z.leb_spec z (2 ^ 63 - 1)); [reflexivity|].
    destruct (Z.leb_spec 0 z0); [reflexivity|].
    f_equal. symmetry. apply Z.eqb_neq. lia.
  - (* List, List *)
    rewrite equals_list. unfold eqT. rewrite cmpT_list. cbn [wf] in Wa, Wb.
    destruct (Nat.eqb_spec (List.length l) (List.length l0)) as [E|E].
    + now apply equals_all_ok.
    + pose proof (lexT_len_neq l l0 E). destruct (lexT cmpT l l0); congruence.
Qed.

(* ================= ordering ================= *)

Definition cmp_fn (o : cmp_op) : fv -> fv -> res bool :=
  match o with
  | OpLt => less_than | OpLe => less_than_or_equal
  | OpGt => greater_than | OpGe => greater_than_or_equal
  end.

Lemma z_op_ord o a b : z_op o a b = ord_op o (a ?= b).
Proof.
  destruct o; unfold z_op, ord_op, Z.ltb, Z.leb, Z.gtb, Z.geb; destruct (a ?= b); reflexivity.
Qed.

(* the mixed-signedness slow paths: numeric for ALL integer pairs, and never the unreachable! arm *)
Lemma slow_less_iu o l r : o = OpLt \/ o = OpLe -> slow_path_less o (I64 l) (U64 r) = Ok (z_op o l r).
Proof.
  intros Ho. unfold slow_path_less, i64_max.
  destruct (Z.leb_spec 0 l); [reflexivity|].
  destruct (Z.leb_spec r (2 ^ 63 - 1)); [reflexivity|].
  destruct (Z.ltb_spec l 0); [|lia].
  f_equal. symmetry. destruct Ho; subst o; cbn [z_op]; [apply Z.ltb_lt | apply Z.leb_le]; lia.
Qed.

Lemma slow_less_ui o l r : o = OpLt \/ o = OpLe -> slow_path_less o (U64 l) (I64 r) = Ok (z_op o l r).
Proof.
  intros Ho. unfold slow_path_less, i64_max.
  destruct (Z.leb_spec l (2 ^ 63 - 1)); [reflexivity|].
  destruct (Z.leb_spec 0 r); [reflexivity|].
  destruct (Z.ltb_spec r 0); [|lia].
  f_equal. symmetry. destruct Ho; subst o; cbn [z_op]; [apply Z.ltb_ge | apply Z.leb_gt]; lia.
Qed.

Lemma slow_greater_iu o l r : o = OpGt \/ o = OpGe -> slow_path_greater o (I64 l) (U64 r) = Ok (z_op o l r).
Proof.
  intros Ho. unfold slow_path_greater, i64_max.
  destruct (Z.leb_spec 0 l); [reflexivity|].
  destruct (Z.leb_spec r (2 ^ 63 - 1)); [reflexivity|].
  destruct (Z.ltb_spec l 0); [|lia].
  f_equal. symmetry. destruct Ho; subst o; cbn [z_op]; [rewrite Z.gtb_ltb; apply Z.ltb_ge | rewrite Z.geb_leb; apply Z.leb_gt]; lia.
Qed.

Lemma slow_greater_ui o l r : o = OpGt \/ o = OpGe -> slow_path_greater o (U64 l) (I64 r) = Ok (z_op o l r).
Proof.
  intros Ho. unfold slow_path_greater, i64_max.
  destruct (Z.leb_spec l (2 ^ 63 - 1)); [reflexivity|].
  destruct (Z.leb_spec 0 r); [reflexivity|].
  destruct (Z.ltb_spec r 0); [|lia].
  f_equal. symmetry. destruct Ho; subst o; cbn [z_op]; [rewrite Z.gtb_ltb; apply Z.ltb_lt | rewrite Z.geb_leb; apply Z.leb_le]; lia.
Qed.

Lemma cmp_fn_ints o l r a b :
  int_val l = Some a -> int_val r = Some b -> cmp_fn o l r = Ok (z_op o a b).
Proof.
  intros Hl Hr.
  destruct l; try discriminate Hl; destruct r; try discriminate Hr;
    cbn in Hl, Hr; injection Hl as ->; injection Hr as ->.
  - destruct o; reflexivity.
  - destruct o; cbn [cmp_fn]; unfold less_than, less_than_or_equal, greater_than, greater_than_or_equal,
      comparison_op_func, slow_path_less_than, slow_path_less_than_or_equal, slow_path_greater_than,
      slow_path_greater_than_or_equal;
      [apply slow_less_iu | apply slow_less_iu | apply slow_greater_iu | apply slow_greater_iu]; auto.
  - destruct o; cbn [cmp_fn]; unfold less_than, less_than_or_equal, greater_than, greater_than_or_equal,
      comparison_op_func, slow_path_less_than, slow_path_less_than_or_equal, slow_path_greater_than,
      slow_path_greater_than_or_equal;
      [apply slow_less_ui | apply slow_less_ui | apply slow_greater_ui | apply slow_greater_ui]; auto.
  - destruct o; reflexivity.
Qed.

Theorem lt_ints l r a b : int_val l = Some a -> int_val r = Some b -> less_than l r = Ok (a <? b).
Proof. exact (cmp_fn_ints OpLt l r a b). Qed.
Theorem le_ints l r a b : int_val l = Some a -> int_val r = Some b -> less_than_or_equal l r = Ok (a <=? b).
Proof. exact (cmp_fn_ints OpLe l r a b). Qed.
Theorem gt_ints l r a b : int_val l = Some a -> int_val r = Some b -> greater_than l r = Ok (b <? a).
Proof. intros Hl Hr. rewrite <- Z.gtb_ltb. exact (cmp_fn_ints OpGt l r a b Hl Hr). Qed.
Theorem ge_ints l r a b : int_val l = Some a -> int_val r = Some b -> greater_than_or_equal l r = Ok (b <=? a).
Proof. intros Hl Hr. rewrite <- Z.geb_leb. exact (cmp_fn_ints OpGe l r a b Hl Hr). Qed.

(* null on either side: false, whatever the other operand *)
Theorem cmp_null_l o r : cmp_fn o Null r = Ok false.
Proof. destruct o; reflexivity. Qed.
Theorem cmp_null_r o l : cmp_fn o l Null = Ok false.
Proof. destruct o, l; reflexivity. Qed.

(* strings *)
Lemma ascii_compare_refl a : Ascii.compare a a = Eq.
Proof. unfold Ascii.compare. apply N.compare_refl. Qed.

Lemma str_lt_compare s t : String.compare s t = Lt <-> str_lt s t.
Proof.
  split.
  - revert t. induction s as [|a s IH]; intros [|b t] H; cbn in H; try discriminate; [constructor|].
    destruct (Ascii.compare a b) eqn:E; try discriminate.
    + apply Ascii.compare_eq_iff in E. subst b. apply str_lt_tail. now apply IH.
    + apply str_lt_head. unfold Ascii.compare in E. now apply N.compare_lt_iff.
  - induction 1 as [c t | a b s t Hab | a s t Hst IH]; cbn.
    + reflexivity.
    + unfold Ascii.compare. apply N.compare_lt_iff in Hab. now rewrite Hab.
    + now rewrite ascii_compare_refl.
Qed.

Lemma str_gt_compare s t : String.compare s t = Gt <-> str_lt t s.
Proof.
  rewrite <- str_lt_compare, (String.compare_antisym t s).
  destruct (String.compare s t); cbn; split; congruence.
Qed.

Lemma str_eq_compare s t : String.compare s t = Eq <-> s = t.
Proof.
  split; [apply String.compare_eq_iff|]. intros ->. destruct (string_good t) as (Hr & _). exact Hr.
Qed.

Theorem string_compare_lex s t :
  (String.compare s t = Lt <-> str_lt s t) /\ (String.compare s t = Eq <-> s = t) /\
  (String.compare s t = Gt <-> str_lt t s).
Proof. split; [apply str_lt_compare | split; [apply str_eq_compare | apply str_gt_compare]]. Qed.

Theorem cmp_strs o s t : cmp_fn o (Str s) (Str t) = Ok (ord_op o (String.compare s t)).
Proof. destruct o; reflexivity. Qed.

(* finite floats *)
Lemma finite_not_nan b : f64_finite b = true -> f64_is_nan b = false.
Proof.
  unfold f64_finite, f64_is_nan. intros H. apply andb_prop in H. destruct H as [_ H].
  destruct (N.eqb (f64_exp b) 2047); [discriminate|reflexivity].
Qed.

Theorem cmp_floats o a b : f64_finite a = true -> f64_finite b = true ->
  cmp_fn o (F64 a) (F64 b) = Ok (z_op o (f64_key a) (f64_key b)).
Proof.
  intros Ha Hb.
  assert (E : f64_op o a b = z_op o (f64_key a) (f64_key b)).
  { unfold f64_op. now rewrite (finite_not_nan a Ha), (finite_not_nan b Hb). }
  rewrite <- E. destruct o; reflexivity.
Qed.

(* ---- uniform statement: on its domain every ordering operator decides spec_cmp ---- *)
Definition spec_compare (l r : fv) : option comparison :=
  match l, r with
  | (I64 a | U64 a), (I64 b | U64 b) => Some (a ?= b)
  | F64 a, F64 b => Some (f64_key a ?= f64_key b)
  | Str s, Str t => Some (String.compare s t)
  | _, _ => None
  end.

Lemma spec_compare_fn o l r c : wf l = true -> wf r = true ->
  spec_compare l r = Some c -> cmp_fn o l r = Ok (ord_op o c).
Proof.
  intros Wl Wr H.
  destruct l; try discriminate H; destruct r; try discriminate H; cbn in H; injection H as <-;
    try (rewrite <- z_op_ord; apply cmp_fn_ints; reflexivity).
  - rewrite <- z_op_ord. now apply cmp_floats.
  - apply cmp_strs.
Qed.

Lemma spec_compare_sound l r c : spec_compare l r = Some c ->
  (c = Lt <-> spec_lt l r) /\ (c = Eq <-> spec_same l r) /\ (c = Gt <-> spec_lt r l).
Proof.
  intros H.
  assert (Hint : forall a b, int_val l = Some a -> int_val r = Some b -> c = (a ?= b) ->
     (c = Lt <-> spec_lt l r) /\ (c = Eq <-> spec_same l r) /\ (c = Gt <-> spec_lt r l)).
  { intros a b Hl Hr ->. repeat split.
    - intros E. apply Z.compare_lt_iff in E. now apply (spec_lt_int l r a b).
    - intros S. inversion S as [l' r' a' b' Hl' Hr' Lt'| |]; subst; try discriminate.
      rewrite Hl in Hl'. rewrite Hr in Hr'. injection Hl' as <-. injection Hr' as <-.
      now apply Z.compare_lt_iff.
    - intros E. apply Z.compare_eq_iff in E. subst b. now apply (spec_same_int l r a).
    - intros S. inversion S as [l' r' a' Hl' Hr'| |]; subst; try discriminate.
      rewrite Hl in Hl'. rewrite Hr in Hr'. injection Hl' as <-. injection Hr' as <-.
      apply Z.compare_refl.
    - intros E. apply Z.compare_gt_iff in E. now apply (spec_lt_int r l b a).
    - intros S. inversion S as [l' r' a' b' Hl' Hr' Lt'| |]; subst; try discriminate.
      rewrite Hr in Hl'. rewrite Hl in Hr'. injection Hl' as <-. injection Hr' as <-.
      now apply Z.compare_gt_iff. }
  destruct l; try discriminate H; destruct r; try discriminate H; cbn in H; injection H as <-;
    try (eapply Hint; reflexivity).
  - (* floats *) repeat split.
    + intros E. apply Z.compare_lt_iff in E. now constructor.
    + intros S. inversion S as [l' r' a' b' Hl' Hr' Lt'| a' b' Lt' |]; subst; try discriminate.
      now apply Z.compare_lt_iff.
    + intros E. apply Z.compare_eq_iff in E. now constructor.
    + intros S. inversion S as [l' r' a' Hl' Hr'| a' b' E' |]; subst; try discriminate.
      rewrite E'. apply Z.compare_refl.
    + intros E. apply Z.compare_gt_iff in E. now constructor.
    + intros S. inversion S as [l' r' a' b' Hl' Hr' Lt'| a' b' Lt' |]; subst; try discriminate.
      now apply Z.compare_gt_iff.
  - (* strings *) repeat split.
    + intros E. apply str_lt_compare in E. now constructor.
    + intros S. inversion S as [l' r' a' b' Hl' Hr' Lt'| | s' t' Lt']; subst; try discriminate.
      now apply str_lt_compare.
    + intros E. apply String.compare_eq_iff in E. subst. constructor.
    + intros S. inversion S as [l' r' a' Hl' Hr'| | s']; subst; try discriminate.
      destruct (string_good s0) as (Hr & _). exact Hr.
    + intros E. apply str_gt_compare in E. now constructor.
    + intros S. inversion S as [l' r' a' b' Hl' Hr' Lt'| | s' t' Lt']; subst; try discriminate.
      now apply str_gt_compare.
Qed.

Lemma ord_op_spec o l r c :
  (c = Lt <-> spec_lt l r) -> (c = Eq <-> spec_same l r) -> (c = Gt <-> spec_lt r l) ->
  (ord_op o c = true <-> spec_cmp o l r).
Proof.
  intros HL HE HG.
  destruct o; cbn [spec_cmp]; unfold spec_le, spec_gt, spec_ge; destruct c; cbn [ord_op]; split; intros H;
    try reflexivity; try discriminate H;
    try (apply HL; reflexivity); try (apply HG; reflexivity);
    try (left; apply HL; reflexivity); try (left; apply HG; reflexivity);
    try (right; apply HE; reflexivity);
    try (apply HL in H; discriminate H); try (apply HG in H; discriminate H);
    try (destruct H as [H|H]; [try (apply HL in H; discriminate H); try (apply HG in H; discriminate H)
                              | apply HE in H; discriminate H]).
Qed.

Lemma spec_cmp_null_l o r : ~ spec_cmp o Null r.
Proof.
  destruct o; cbn; unfold spec_le, spec_gt, spec_ge; intros H;
    repeat match goal with
           | H : _ \/ _ |- _ => destruct H as [H|H]
           | H : spec_lt _ _ |- _ => inversion H; subst; clear H; try discriminate
           | H : spec_same _ _ |- _ => inversion H; subst; clear H; try discriminate
           end.
Qed.

Lemma spec_cmp_null_r o l : ~ spec_cmp o l Null.
Proof.
  destruct o; cbn; unfold spec_le, spec_gt, spec_ge; intros H;
    repeat match goal with
           | H : _ \/ _ |- _ => destruct H as [H|H]
           | H : spec_lt _ _ |- _ => inversion H; subst; clear H; try discriminate
           | H : spec_same _ _ |- _ => inversion H; subst; clear H; try discriminate
           end.
Qed.

Lemma cmp_defined_cases l r : cmp_defined l r = true ->
  l = Null \/ r = Null \/ exists c, spec_compare l r = Some c.
Proof.
  destruct l, r; cbn; intros H; try discriminate H; auto; right; right; eexists; reflexivity.
Qed.

Theorem cmp_spec o l r : wf l = true -> wf r = true -> cmp_defined l r = true ->
  exists b, cmp_fn o l r = Ok b /\ (b = true <-> spec_cmp o l r).
Proof.
  intros Wl Wr D. destruct (cmp_defined_cases l r D) as [->|[->|[c Hc]]].
  - exists false. split; [apply cmp_null_l|]. split; [discriminate|]. intros H. now apply spec_cmp_null_l in H.
  - exists false. split; [apply cmp_null_r|]. split; [discriminate|]. intros H. now apply spec_cmp_null_r in H.
  - exists (ord_op o c). split; [now apply spec_compare_fn|].
    destruct (spec_compare_sound l r c Hc) as (HL & HE & HG). now apply ord_op_spec.
Qed.

(* ---- exact domain: the operators return on cmp_defined pairs and hit unreachable! on all others ---- *)
Theorem cmp_total_on_defined o l r : cmp_defined l r = true -> exists b, cmp_fn o l r = Ok b.
Proof.
  intros D.
  destruct l; try (eexists; apply cmp_null_l);
  destruct r; try (eexists; apply cmp_null_r); try discriminate D;
    try (eexists; eapply cmp_fn_ints; reflexivity);
    destruct o; eexists; reflexivity.
Qed.

Theorem cmp_panics_outside o l r : cmp_defined l r = false -> exists s, cmp_fn o l r = Panic s.
Proof.
  intros D. destruct l; try discriminate D; destruct r; try discriminate D;
    destruct o; eexists; reflexivity.
Qed.

Theorem cmp_panics_iff o l r : (exists s, cmp_fn o l r = Panic s) <-> cmp_defined l r = false.
Proof.
  split.
  - intros [s H]. destruct (cmp_defined l r) eqn:D; [|reflexivity].
    destruct (cmp_total_on_defined o l r D) as [b Hb]. congruence.
  - apply cmp_panics_outside.
Qed.

Lemma orderable_defined l r : operands_orderable l r = true -> cmp_defined l r = true.
Proof. destruct l, r; cbn; intros H; try discriminate H; reflexivity. Qed.

Theorem cmp_no_panic_on_orderable o l r : operands_orderable l r = true -> exists b, cmp_fn o l r = Ok b.
Proof. intros H. apply cmp_total_on_defined. now apply orderable_defined. Qed.

(* F5: a list on either side of an ordering operator (other side not null) hits unreachable! *)
Theorem cmp_list_panics o l x : is_null x = false ->
  (exists s, cmp_fn o (List l) x = Panic s) /\ (exists s, cmp_fn o x (List l) = Panic s).
Proof.
  intros Hx. split; apply cmp_panics_outside; destruct x; try discriminate Hx; reflexivity.
Qed.

Theorem cmp_never_panics_on_frontend_accepted_refuted :
  exists o l r, wf l = true /\ wf r = true /\ orderable_list_value l = true /\ orderable_list_value r = true /\
                exists s, cmp_fn o l r = Panic s.
Proof.
  exists OpLt, (List [Str "a"]), (List [Str "b"]). repeat split; try reflexivity. eexists. reflexivity.
Qed.

(* ================= strings ================= *)

Lemma prefix_spec r l : String.prefix r l = true <-> is_prefix_of r l.
Proof.
  unfold is_prefix_of. revert l. induction r as [|a r IH]; intros l.
  - destruct l; cbn; split; auto; intros _; eexists; reflexivity.
  - destruct l as [|b l]; cbn.
    + split; [discriminate|]. intros [post H]. discriminate H.
    + destruct (ascii_dec a b) as [->|N].
      * rewrite IH. split; intros [post H]; exists post; [now rewrite H | now injection H].
      * split; [discriminate|]. intros [post H]. injection H as H1 H2. congruence.
Qed.

Lemma str_ends_with_refl r : str_ends_with r r = true.
Proof. destruct r; cbn [str_ends_with]; now rewrite String.eqb_refl. Qed.

Lemma suffix_spec l r : str_ends_with l r = true <-> is_suffix_of r l.
Proof.
  unfold is_suffix_of. split.
  - induction l as [|a l IH]; cbn [str_ends_with].
    + destruct (String.eqb_spec EmptyString r) as [<-|N]; [|discriminate]. intros _. now exists EmptyString.
    + destruct (String.eqb_spec (String a l) r) as [<-|N].
      * intros _. now exists EmptyString.
      * intros H. destruct (IH H) as [pre ->]. now exists (String a pre).
  - intros [pre ->]. induction pre as [|a pre IH]; cbn [append].
    + apply str_ends_with_refl.
    + cbn [str_ends_with]. destruct (String.eqb (String a (pre ++ r)) r); [reflexivity|exact IH].
Qed.

Lemma str_contains_prefix l r : String.prefix r l = true -> str_contains l r = true.
Proof. destruct l; cbn [str_contains]; intros ->; reflexivity. Qed.

Lemma substring_spec l r : str_contains l r = true <-> is_substring_of r l.
Proof.
  unfold is_substring_of. split.
  - induction l as [|a l IH]; cbn [str_contains].
    + destruct (String.prefix r EmptyString) eqn:P; [|discriminate].
      intros _. apply prefix_spec in P. destruct P as [post ->]. now exists EmptyString, post.
    + destruct (String.prefix r (String a l)) eqn:P.
      * intros _. apply prefix_spec in P. destruct P as [post ->]. now exists EmptyString, post.
      * intros H. destruct (IH H) as (pre & post & ->). now exists (String a pre), post.
  - intros (pre & post & ->). induction pre as [|a pre IH]; cbn [append].
    + apply str_contains_prefix. apply prefix_spec. now exists post.
    + cbn [str_contains]. destruct (String.prefix r (String a (pre ++ r ++ post))); [reflexivity|exact IH].
Qed.

Theorem has_prefix_spec l r : has_prefix (Str l) (Str r) = Ok (str_starts_with l r) /\
  (str_starts_with l r = true <-> is_prefix_of r l).
Proof. split; [reflexivity | apply prefix_spec]. Qed.
Theorem has_suffix_spec l r : has_suffix (Str l) (Str r) = Ok (str_ends_with l r) /\
  (str_ends_with l r = true <-> is_suffix_of r l).
Proof. split; [reflexivity | apply suffix_spec]. Qed.
Theorem has_substring_spec l r : has_substring (Str l) (Str r) = Ok (str_contains l r) /\
  (str_contains l r = true <-> is_substring_of r l).
Proof. split; [reflexivity | apply substring_spec]. Qed.

Definition str_or_null (v : fv) : bool := match v with Null | Str _ => true | _ => false end.

(* null on either side: false; anything but string/null: unreachable! *)
Theorem string_ops_null l r : str_or_null l = true -> str_or_null r = true ->
  is_null l = true \/ is_null r = true ->
  has_prefix l r = Ok false /\ has_suffix l r = Ok false /\ has_substring l r = Ok false.
Proof.
  destruct l; try discriminate; destruct r; try discriminate; intros _ _ [H|H]; try discriminate H;
    repeat split.
Qed.

Theorem string_ops_domain l r :
  ((exists s, has_prefix l r = Panic s) <-> str_or_null l && str_or_null r = false) /\
  ((exists s, has_suffix l r = Panic s) <-> str_or_null l && str_or_null r = false) /\
  ((exists s, has_substring l r = Panic s) <-> str_or_null l && str_or_null r = false).
Proof.
  destruct l, r; cbn; repeat split; try (intros [site H]; discriminate H); try discriminate;
    try (intros _; eexists; reflexivity).
Qed.

(* ================= one_of / contains ================= *)

Theorem one_of_list l v : wf l = true -> forallb wf v = true ->
  one_of l (List v) = Ok (existsb (eqT l) v).
Proof.
  intros Wl. cbn [one_of]. induction v as [|x v IH]; intros Wv; [reflexivity|].
  cbn in Wv. apply andb_prop in Wv. destruct Wv as [Wx Wv].
  rewrite (fv_eq_ok l x Wl Wx). cbn [bind existsb]. destruct (eqT l x); [reflexivity|]. now apply IH.
Qed.

Lemma existsb_member x v : existsb (eqT x) v = true <-> member x v.
Proof. unfold member. apply existsb_exists. Qed.

Theorem one_of_spec l v : wf l = true -> forallb wf v = true ->
  exists b, one_of l (List v) = Ok b /\ (b = true <-> member l v).
Proof. intros Wl Wv. exists (existsb (eqT l) v). split; [now apply one_of_list | apply existsb_member]. Qed.

Theorem one_of_null l : one_of l Null = Ok false.
Proof. reflexivity. Qed.

Theorem one_of_domain l r : wf l = true -> wf r = true ->
  ((exists s, one_of l r = Panic s) <-> match r with Null | List _ => false | _ => true end = true).
Proof.
  intros Wl Wr. destruct r as [| | | | | | |v].
  8:{ split; [|discriminate]. intros [site H]. cbn [wf] in Wr.
      rewrite (one_of_list l v Wl Wr) in H. discriminate H. }
  all: cbn; split; try (intros [site H]; discriminate H); try discriminate; try reflexivity;
    try (intros _; eexists; reflexivity).
Qed.

Theorem contains_spec v r : forallb wf v = true -> wf r = true ->
  exists b, contains (List v) r = Ok b /\ (b = true <-> member r v).
Proof. intros Wv Wr. unfold contains. now apply one_of_spec. Qed.

Theorem contains_null r : contains Null r = Ok false.
Proof. reflexivity. Qed.

(* ================= is_null ================= *)

Theorem is_null_spec v : is_null v = true <-> v = Null.
Proof. destruct v; cbn; split; congruence. Qed.

Theorem apply_unary_spec op v active :
  apply_unary op v active =
    match op with
    | IsNull => Some (negb active || is_null v)%bool
    | IsNotNull => Some (negb active || negb (is_null v))%bool
    | _ => None
    end.
Proof. destruct op; reflexivity. Qed.

Theorem apply_unary_some_iff op v active : (exists b, apply_unary op v active = Some b) <-> opk_unary op = true.
Proof. destruct op; cbn; split; try (intros [b H]; discriminate H); try discriminate; eauto. Qed.

(* ================= the dispatch tables ================= *)
Section Tables.
  Variable re : string -> string -> option bool.

  (* every negated operation is the exact complement of its positive form (same panics) *)
  Theorem negation_exact_static op pos l r :
    op_positive op = Some pos ->
    apply_static re op l r true = res_negb (apply_static re pos l r true).
  Proof.
    destruct op; intros H; try discriminate H; injection H as <-; try reflexivity;
      cbn [apply_static]; destruct (static_regex re r); reflexivity.
  Qed.

  Theorem negation_exact_tagged op pos l r :
    op_positive op = Some pos ->
    apply_tagged re op l (Some r) true = res_negb (apply_tagged re pos l (Some r) true).
  Proof. destruct op; intros H; try discriminate H; injection H as <-; reflexivity. Qed.

  Theorem negation_exact_unary op pos l b :
    op_positive op = Some pos -> apply_unary pos l true = Some b -> apply_unary op l true = Some (negb b).
  Proof.
    destruct op; intros H; try discriminate H; injection H as <-; cbn; intros E; try discriminate E.
    injection E as <-. reflexivity.
  Qed.

  (* each positive entry of the tables is wired to the operator function it denotes *)
  Theorem tagged_wiring op f l r :
    positive_fn re op = Some f -> apply_tagged re op l (Some r) true = f l r.
  Proof. destruct op; intros H; try discriminate H; injection H as <-; reflexivity. Qed.

  Theorem static_wiring op f l r :
    positive_fn re op = Some f -> op <> RegexMatches -> apply_static re op l r true = f l r.
  Proof. destruct op; intros H N; try discriminate H; try congruence; injection H as <-; reflexivity. Qed.

  (* contexts inside a missing @optional and tags from a missing @optional always survive *)
  Theorem tagged_none_survives op l active : opk_unary op = false -> apply_tagged re op l None active = Ok true.
  Proof. destruct op; intros H; try discriminate H; reflexivity. Qed.

  Theorem tagged_inactive_survives op l r : opk_unary op = false -> apply_tagged re op l r false = Ok true.
  Proof. destruct op; intros H; try discriminate H; destruct r; reflexivity. Qed.

  Theorem static_inactive_survives op l r :
    opk_unary op = false -> op <> RegexMatches -> op <> NotRegexMatches -> apply_static re op l r false = Ok true.
  Proof. destruct op; intros H N1 N2; try discriminate H; try congruence; reflexivity. Qed.

  Theorem tables_unary_unreachable op l r ro active : opk_unary op = true ->
    (exists s, apply_static re op l r active = Panic s) /\ (exists s, apply_tagged re op l ro active = Panic s).
  Proof. destruct op; intros H; try discriminate H; split; eexists; reflexivity. Qed.

  (* ---- regex, relative to re ---- *)
  Hypothesis re_ok : re_coherent re.

  Lemma regex_new_match p s b : re p s = Some b -> exists rx, regex_new re p = Some rx /\ rx s = b.
  Proof.
    intros H. unfold regex_new. destruct (re p EmptyString) eqn:E.
    - eexists. split; [reflexivity|]. cbn. now rewrite H.
    - apply (re_ok p s) in E. congruence.
  Qed.

  Lemma regex_new_invalid p s : re p s = None -> regex_new re p = None.
  Proof. intros H. unfold regex_new. apply (re_ok p s) in H. now rewrite H. Qed.

  Theorem regex_slow_spec s p :
    regex_matches_slow_path re (Str s) (Str p) = Ok (match re p s with Some b => b | None => false end).
  Proof.
    cbn [regex_matches_slow_path]. destruct (re p s) as [b|] eqn:E.
    - destruct (regex_new_match p s b E) as (rx & -> & <-). reflexivity.
    - now rewrite (regex_new_invalid p s E).
  Qed.

  Theorem regex_null l r : str_or_null l = true -> str_or_null r = true ->
    is_null l = true \/ is_null r = true -> regex_matches_slow_path re l r = Ok false.
  Proof.
    destruct l; try discriminate; destruct r; try discriminate; intros _ _ [H|H]; try discriminate H; reflexivity.
  Qed.

  Theorem regex_tables_valid s p b : re p s = Some b ->
    apply_static re RegexMatches (Str s) (Str p) true = Ok b /\
    apply_tagged re RegexMatches (Str s) (Some (Str p)) true = Ok b /\
    apply_static re NotRegexMatches (Str s) (Str p) true = Ok (negb b) /\
    apply_tagged re NotRegexMatches (Str s) (Some (Str p)) true = Ok (negb b) /\
    apply_static re RegexMatches Null (Str p) true = Ok false.
  Proof.
    intros H. destruct (regex_new_match p s b H) as (rx & Hrx & Hb).
    cbn [apply_static apply_tagged static_regex apply_filter_op_with_tagged_argument apply_filter_op negb].
    unfold not_. rewrite regex_slow_spec, H. rewrite Hrx. cbn. rewrite Hb. repeat split.
  Qed.

  (* invalid pattern: a tag argument reads as "no match"; a static argument hits the `expect`
     (this is finding F4, which belongs to C09) *)
  Theorem regex_tables_invalid s p : re p s = None ->
    apply_tagged re RegexMatches (Str s) (Some (Str p)) true = Ok false /\
    apply_tagged re NotRegexMatches (Str s) (Some (Str p)) true = Ok true /\
    (forall l active, exists site, apply_static re RegexMatches l (Str p) active = Panic site).
  Proof.
    intros H.
    cbn [apply_static apply_tagged static_regex apply_filter_op_with_tagged_argument apply_filter_op negb].
    unfold not_. rewrite regex_slow_spec, H. rewrite (regex_new_invalid p s H). cbn. repeat split.
    intros _ _. eexists. reflexivity.
  Qed.
End Tables.
