(* OpsSpec.v — the mathematical definitions the filter operators are supposed to decide (C07).
   Definitions only; the agreement theorems are in OpsProofs.v / Properties/C07.v. *)
From TF Require Import Values ValuesProofs Ops.
Open Scope Z_scope.

(* ---- ordering ---- *)

(* byte-wise lexicographic strict order on strings *)
Inductive str_lt : string -> string -> Prop :=
| str_lt_nil : forall c t, str_lt EmptyString (String c t)
| str_lt_head : forall a b s t, (N_of_ascii a < N_of_ascii b)%N -> str_lt (String a s) (String b t)
| str_lt_tail : forall a s t, str_lt s t -> str_lt (String a s) (String a t).

(* l < r: integers by numeric value whatever the signedness of the representation, finite floats
   by value (= order of the sign-magnitude keys), strings lexicographically by bytes.
   Nothing is below or above Null, and values of different kinds are unrelated. *)
Inductive spec_lt : fv -> fv -> Prop :=
| spec_lt_int : forall l r a b, int_val l = Some a -> int_val r = Some b -> a < b -> spec_lt l r
| spec_lt_float : forall a b, f64_key a < f64_key b -> spec_lt (F64 a) (F64 b)
| spec_lt_str : forall s t, str_lt s t -> spec_lt (Str s) (Str t).

(* equality of orderable scalars (the "or equal" part of <= and >=) *)
Inductive spec_same : fv -> fv -> Prop :=
| spec_same_int : forall l r a, int_val l = Some a -> int_val r = Some a -> spec_same l r
| spec_same_float : forall a b, f64_key a = f64_key b -> spec_same (F64 a) (F64 b)
| spec_same_str : forall s, spec_same (Str s) (Str s).

Definition spec_le (l r : fv) : Prop := spec_lt l r \/ spec_same l r.
Definition spec_gt (l r : fv) : Prop := spec_lt r l.
Definition spec_ge (l r : fv) : Prop := spec_lt r l \/ spec_same l r.

Definition spec_cmp (o : cmp_op) : fv -> fv -> Prop :=
  match o with OpLt => spec_lt | OpLe => spec_le | OpGt => spec_gt | OpGe => spec_ge end.

(* kinds of values that have an order: 0 = null, 1 = integer, 3 = float, 4 = string *)
Definition ord_kind (v : fv) : option Z :=
  match v with Null => Some 0 | I64 _ | U64 _ => Some 1 | F64 _ => Some 3 | Str _ => Some 4 | _ => None end.

(* operand pairs the ordering operators are meant for: null / integer / float / string scalars
   on both sides, of the same kind unless one side is null *)
Definition operands_orderable (l r : fv) : bool :=
  match ord_kind l, ord_kind r with
  | Some a, Some b => orb (orb (a =? 0) (b =? 0)) (a =? b)
  | _, _ => false
  end.

(* the exact set of operand pairs on which the ordering operators return (do not panic) *)
Definition cmp_defined (l r : fv) : bool :=
  orb (orb (is_null l) (is_null r))
      (match ord_kind l, ord_kind r with Some a, Some b => a =? b | _, _ => false end).

(* what Type::is_orderable additionally lets through: (nested) lists of orderable scalars *)
Fixpoint orderable_list_value (v : fv) : bool :=
  match v with
  | List l => forallb (fun x => match x with List _ => orderable_list_value x
                                          | _ => match ord_kind x with Some _ => true | None => false end end) l
  | _ => false
  end.

(* ---- strings ---- *)
Definition is_prefix_of (r l : string) : Prop := exists post, l = (r ++ post)%string.
Definition is_suffix_of (r l : string) : Prop := exists pre, l = (pre ++ r)%string.
Definition is_substring_of (r l : string) : Prop := exists pre post, l = (pre ++ r ++ post)%string.

(* ---- list membership up to value equality ---- *)
Definition member (x : fv) (v : list fv) : Prop := exists y, In y v /\ eqT x y = true.

(* ---- negation: the positive operation a negated operation must be the complement of ---- *)
Definition op_positive (o : opk) : option opk :=
  match o with
  | IsNotNull => Some IsNull
  | NotEquals => Some Equals
  | NotContains => Some Contains
  | NotOneOf => Some OneOf
  | NotHasPrefix => Some HasPrefix
  | NotHasSuffix => Some HasSuffix
  | NotHasSubstring => Some HasSubstring
  | NotRegexMatches => Some RegexMatches
  | _ => None
  end.

(* the operator function every positive binary operation denotes *)
Definition positive_fn (re_match : string -> string -> option bool) (o : opk) : option (fv -> fv -> res bool) :=
  match o with
  | Equals => Some equals
  | LessThan => Some less_than
  | LessThanOrEqual => Some less_than_or_equal
  | GreaterThan => Some greater_than
  | GreaterThanOrEqual => Some greater_than_or_equal
  | Contains => Some contains
  | OneOf => Some one_of
  | HasPrefix => Some has_prefix
  | HasSuffix => Some has_suffix
  | HasSubstring => Some has_substring
  | RegexMatches => Some (regex_matches_slow_path re_match)
  | _ => None
  end.

Definition res_negb (r : res bool) : res bool := do b <- r; Ok (negb b).

(* a regex oracle is coherent when compilability does not depend on the haystack *)
Definition re_coherent (re_match : string -> string -> option bool) : Prop :=
  forall p s, re_match p s = None <-> re_match p EmptyString = None.
