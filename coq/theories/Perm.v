(* Perm.v — C14 (determinism): model of every place where trustfall_core ITERATES an unordered container
   (std HashMap / HashSet, whose iteration order depends on the per-process / per-map RandomState keys).
   Definitions only; the lemmas are in PermProofs.v.

   A Gallina function is deterministic by construction, so the modelled content of C14 is
   INDEPENDENCE FROM THE ITERATION ORDER: the order in which a hash container hands out its entries
   is an arbitrary permutation `it` of its entry list (`hash_order entries it`), chosen by an oracle
   (the hash seed); an observable is deterministic iff it is the same for all such `it`.

   Inventory of all HashMap/HashSet uses in /repo/trustfall_core/src (grep HashMap|HashSet), with the
   shape that models each ITERATION site and the lemma of PermProofs.v that covers it:

   schema/mod.rs
     :35-38   fields `directives`, `scalars`, `vertex_types`, `fields` of `Schema` are HashMaps.
     :133,147,150,181  insert_or_error during Schema::new — keyed inserts in DOCUMENT order, no iteration; the
              first duplicate reported is the first in document order.               [lookup_kv: lookup_perm_invariant]
     :139,309,355 and frontend/mod.rs:945  BUILTIN_SCALARS (HashSet) `.contains` only. [mem_perm_invariant]
     :201,262,284,365,435-436,525,577,586,627,738,769,776 and every use in frontend/mod.rs (:109,:137,:690,
              :710,:857,:946) and frontend/validation.rs (:55,:68,:80): `.get` / `.contains_key` / index —
              keyed lookups, no iteration.                                            [lookup_perm_invariant]
     :266     Schema::subtypes          `vertex_types.iter().sorted_by_key(name).filter_map(..)`   [shape A]
     :334     check_type_and_property_and_edge_invariants  `.iter().sorted_by_key(name)` for-loop  [shape A]
     :519     check_required_transitive_implementations     same                                   [shape A]
     :572     check_fields_required_by_interface_implementations  same                             [shape A]
     :607     check_field_type_narrowing                    same                                   [shape A]
     :731-745 get_field_origins: `.iter().sorted_by_key(name).map(.. queue.push_back ..).collect::<BTreeMap>()`
              (the side effect on `queue` happens in SORTED order: `sorted_by_key` materialises first) [shape A]
     :748-766 get_field_origins: `.iter().sorted_by_key(name).flat_map(..).fold(BTreeMap ..)`     [shape A]
              => every error list of Schema::new (InvalidSchemaError order included) is a function of the
              key-sorted entry list.                                            [sorted_then_perm_invariant]
     `directives` and `scalars` are never iterated (scalars: `.contains_key` at frontend/mod.rs:946;
              directives: only inserted into).
     #[derive(Debug)] on Schema prints the four HashMaps in hash order: `format!("{:?}", schema)` is
              NOT stable across processes (not on the compile/execute path; recorded as an observation).
   schema/adapter/mod.rs
     :86,:96,:408,:472,:490,:511,:537  `.get` / `.contains_key`.                     [lookup_perm_invariant]
     :105-110 vertex_type_iter, no-hint branch: `schema.vertex_types.values().filter(..).map(..)` —
              UNSORTED: the rows of `{ VertexType { name @output } }` come in hash order (finding F14).
              [vertex_type_rows: row MULTISET invariant (vertex_type_rows_multiset_invariant), row ORDER
               refuted (vertex_type_rows_order_refuted); sorting first would repair it
               (vertex_type_rows_sorted_canonical)]
     :490     `implementer` edge goes through Schema::subtypes (sorted).                           [shape A]
   util.rs
     :27-66   try_collect_unique (used by frontend/mod.rs:426 check_for_duplicate_output_names and :513
              ir_vertices): a HashMap `map` with pairwise distinct keys is
              :49   `map.drain()` -> `duplicate_map.entry(key).or_default().push(value)` (BTreeMap<K, Vec<V>>):
                    each drained key contributes exactly ONE element, before anything else is pushed for
                    that key                                                      [shape C: drain_into_perm_invariant]
              :64   `map.into_iter().collect::<BTreeMap>()`                      [shape B: collect_btree_perm_invariant]
   graphql_query/directives.rs:561  `seen_chars: HashSet<char>` — `.insert` used as a membership test only
              (first-occurrence dedup; the output Vec is in input order).                  [shape S: dedup_by_layout_irrelevant]
   interpreter/hints/vertex_info.rs:192  `seen_property = HashSet::new()` — same dedup filter.     [shape S]
   frontend/*, ir/*, interpreter/* otherwise use BTreeMap / BTreeSet / Vec only (iteration = key order, a
              function of the contents); `construct_outputs` and `compute_fold` additionally sort the output
              names (`output_names.sort_unstable()`, execution.rs:192, :590) before issuing
              resolve_property calls.                               [Exec.sort_names: sort_names_perm_invariant]
*)
From Coq Require Import List String Bool Permutation.
From TF Require Export Exec.
Import ListNotations.
Local Open Scope list_scope.

(* ---------- generic insertion sort (itertools `sorted_by_key`, collecting into a BTreeMap) ---------- *)
Section Sort.
  Context {A : Type}.
  Variable le : A -> A -> bool.
  Fixpoint ins (e : A) (l : list A) : list A :=
    match l with
    | [] => [e]
    | x :: r => if le e x then e :: l else x :: ins e r
    end.
  Definition isort (l : list A) : list A := fold_right ins [] l.
End Sort.

Section Unordered.
  Context {K V : Type}.
  Variable kle : K -> K -> bool.      (* Ord for the key type, as `<=` *)
  Variable keq : K -> K -> bool.      (* Eq for the key type *)

  (* what iterating a hash container with entry list `entries` may yield *)
  Definition hash_order {E} (entries it : list E) : Prop := Permutation entries it.

  Definition key_le (a b : K * V) : bool := kle (fst a) (fst b).
  Definition sort_kv (l : list (K * V)) : list (K * V) := isort key_le l.

  (* shape A: `.iter().sorted_by_key(|(k, _)| k)` followed by ANY deterministic computation f
     (a for-loop pushing errors, filter_map, building BTreeMaps, pushing to a queue ...) *)
  Definition sorted_then {R} (f : list (K * V) -> R) (it : list (K * V)) : R := f (sort_kv it).

  (* shape B: `.into_iter().collect::<BTreeMap<K, V>>()` on distinct keys *)
  Definition collect_btree (it : list (K * V)) : list (K * V) := sort_kv it.

  (* shape C: `for (k, v) in map.drain() { duplicate_map.entry(k).or_default().push(v) }`
     into a BTreeMap<K, Vec<V>> (a key-sorted association list of lists) *)
  Fixpoint push_entry (k : K) (v : V) (m : list (K * list V)) : list (K * list V) :=
    match m with
    | [] => [(k, [v])]
    | (k', vs) :: r =>
        if keq k k' then (k', vs ++ [v]) :: r
        else if kle k k' then (k, [v]) :: m
        else (k', vs) :: push_entry k v r
    end.
  Definition drain_into (it : list (K * V)) (m0 : list (K * list V)) : list (K * list V) :=
    fold_left (fun m e => push_entry (fst e) (snd e) m) it m0.
  (* util.rs try_collect_unique, duplicate branch: drain, then the first duplicate, then the rest of the
     (ordered) input iterator; `retain(len > 1)` at the end *)
  Definition collect_duplicates (it : list (K * V)) (dup : K * V) (rest : list (K * V)) : list (K * list V) :=
    filter (fun e => Nat.ltb 1 (List.length (snd e)))
           (fold_left (fun m e => push_entry (fst e) (snd e) m) (dup :: rest) (drain_into it [])).

  (* keyed access: `.get(k)` / `.contains_key(k)` / `map[k]` *)
  Fixpoint lookup_kv (k : K) (it : list (K * V)) : option V :=
    match it with
    | [] => None
    | (k', v) :: r => if keq k k' then Some v else lookup_kv k r
    end.

  (* shape S: a HashSet used only through `contains` / the bool returned by `insert`:
     `iter.filter(|x| seen.insert(x))`.  `place x s` is where the table puts the new element — any
     function whose result has the right members (the hash layout) *)
  Definition mem_k (x : K) (s : list K) : bool := existsb (keq x) s.
  Fixpoint dedup_by (place : K -> list K -> list K) (seen : list K) (l : list K) : list K :=
    match l with
    | [] => []
    | x :: r => if mem_k x seen then dedup_by place seen r else x :: dedup_by place (place x seen) r
    end.
End Unordered.

(* ---------- the introspection adapter: schema/adapter/mod.rs:105-110 (finding F14) ---------- *)
(* `schema.vertex_types.values().filter(|v| v.name != root_query_type).map(VertexType::new)` followed by
   `name @output`: one row per yielded type, in the order the HashMap yields them *)
Definition vertex_type_rows (root : string) (it : list (string * string)) : list string :=
  map snd (filter (fun e => negb (String.eqb (snd e) root)) it).
(* the one-line repair: sort before yielding *)
Definition vertex_type_rows_sorted (root : string) (it : list (string * string)) : list string :=
  vertex_type_rows root (sort_kv String.leb it).

(* ---------- the execution path ---------- *)
(* The order in which `construct_outputs` issues its resolve_property calls = the sorted output names. *)
Definition output_call_order (c : ir_component) : list string := sort_names (map fst (c_outputs c)).
