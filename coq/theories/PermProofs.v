(* PermProofs.v — lemmas about Perm.v (C14): observables that only (a) sort a hash container's entries
   before use, (b) collect them into a key-sorted map, (c) look entries up by key, or (d) use a hash set as
   a membership test, do not depend on the iteration order; the unsorted `VertexType` enumeration of the
   introspection adapter does (order), but only in order (the multiset is invariant). *)
From Coq Require Import List String Bool Permutation Sorted Lia.
From TF Require Import ValuesProofs Perm.
Import ListNotations.
Local Open Scope list_scope.

(* ================================================================== *)
(* 1. insertion sort: the sorted permutation is unique                 *)
(* ================================================================== *)
Section SortProofs.
  Context {A : Type}.
  Variable le : A -> A -> bool.
  Hypothesis le_total : forall a b, le a b = true \/ le b a = true.
  Hypothesis le_trans : forall a b c, le a b = true -> le b c = true -> le a c = true.

  Let R (a b : A) : Prop := le a b = true.

  Lemma ins_perm e l : Permutation (e :: l) (ins le e l).
  Proof.
    induction l as [|x r IH]; cbn [ins]; [apply Permutation_refl|].
    destruct (le e x); [apply Permutation_refl|].
    eapply perm_trans; [apply perm_swap|]. now apply perm_skip.
  Qed.

  Lemma isort_perm l : Permutation l (isort le l).
  Proof.
    unfold isort. induction l as [|x r IH]; cbn [fold_right]; [constructor|].
    eapply perm_trans; [apply perm_skip, IH | apply ins_perm].
  Qed.

  Lemma ins_sorted e l : StronglySorted R l -> StronglySorted R (ins le e l).
  Proof.
    induction l as [|x r IH]; intros Hs; cbn [ins].
    - constructor; constructor.
    - apply StronglySorted_inv in Hs. destruct Hs as [Hr Hx].
      destruct (le e x) eqn:E.
      + constructor; [constructor; assumption|].
        constructor; [exact E|]. rewrite Forall_forall in *. intros y Hy.
        eapply le_trans; [exact E | exact (Hx y Hy)].
      + constructor; [exact (IH Hr)|].
        rewrite Forall_forall in *. intros y Hy.
        apply (Permutation_in _ (Permutation_sym (ins_perm e r))) in Hy.
        destruct Hy as [<-|Hy]; [|exact (Hx y Hy)].
        destruct (le_total e x) as [T|T]; [congruence | exact T].
  Qed.

  Lemma isort_sorted l : StronglySorted R (isort le l).
  Proof.
    unfold isort. induction l as [|x r IH]; cbn [fold_right]; [constructor|]. now apply ins_sorted.
  Qed.

  Definition antisym_on (l : list A) : Prop :=
    forall x y, In x l -> In y l -> le x y = true -> le y x = true -> x = y.

  Lemma sorted_perm_unique l1 : forall l2,
    StronglySorted R l1 -> StronglySorted R l2 -> Permutation l1 l2 -> antisym_on l1 -> l1 = l2.
  Proof.
    induction l1 as [|a r1 IH]; intros l2 H1 H2 Hp Ha.
    - now apply Permutation_nil in Hp.
    - destruct l2 as [|b r2]; [apply Permutation_sym, Permutation_nil in Hp; discriminate|].
      apply StronglySorted_inv in H1. destruct H1 as [Hr1 Hf1].
      apply StronglySorted_inv in H2. destruct H2 as [Hr2 Hf2].
      rewrite Forall_forall in Hf1, Hf2.
      assert (Hb : In b (a :: r1)) by (apply (Permutation_in _ (Permutation_sym Hp)); now left).
      assert (Ha' : In a (b :: r2)) by (apply (Permutation_in _ Hp); now left).
      assert (E : a = b).
      { destruct Hb as [E|Hb]; [exact E|]. destruct Ha' as [E|Ha']; [now symmetry|].
        apply Ha; [now left | now right | exact (Hf1 b Hb) | exact (Hf2 a Ha')]. }
      subst b. f_equal. apply IH; try assumption.
      + eapply Permutation_cons_inv; exact Hp.
      + intros x y Hx Hy. apply Ha; now right.
  Qed.

  Theorem isort_perm_canonical l l' :
    Permutation l l' -> antisym_on l -> isort le l = isort le l'.
  Proof.
    intros Hp Ha. apply sorted_perm_unique; try apply isort_sorted.
    - eapply perm_trans; [apply Permutation_sym, isort_perm|].
      eapply perm_trans; [exact Hp | apply isort_perm].
    - intros x y Hx Hy. apply Ha; eapply Permutation_in; try apply Permutation_sym, isort_perm; assumption.
  Qed.
End SortProofs.

(* ================================================================== *)
(* 2. folds of commutative accumulations                               *)
(* ================================================================== *)
Section FoldComm.
  Context {A S : Type}.
  Variable f : S -> A -> S.
  Hypothesis f_comm : forall s a b, f (f s a) b = f (f s b) a.

  Theorem fold_commutative_perm_invariant l l' :
    Permutation l l' -> forall s, fold_left f l s = fold_left f l' s.
  Proof.
    induction 1 as [|x l l' _ IH|x y l|l l' l'' _ IH1 _ IH2]; intros s; cbn [fold_left].
    - reflexivity.
    - apply IH.
    - now rewrite f_comm.
    - now rewrite IH1.
  Qed.
End FoldComm.

(* instances: "does any entry satisfy p" / "how many do" do not depend on the iteration order *)
Lemma any_perm_invariant {A} (p : A -> bool) l l' :
  Permutation l l' -> fold_left (fun s a => s || p a) l false = fold_left (fun s a => s || p a) l' false.
Proof.
  intros H. apply fold_commutative_perm_invariant; [|exact H].
  intros s a b. now rewrite <- !orb_assoc, (orb_comm (p a)).
Qed.

Lemma count_perm_invariant {A} (p : A -> bool) l l' :
  Permutation l l' ->
  fold_left (fun s a => if p a then S s else s) l 0%nat = fold_left (fun s a => if p a then S s else s) l' 0%nat.
Proof.
  intros H. apply fold_commutative_perm_invariant; [|exact H].
  intros s a b. destruct (p a), (p b); reflexivity.
Qed.

(* ================================================================== *)
(* 3. keyed containers                                                 *)
(* ================================================================== *)
Lemma NoDup_keys_inj {K V} (l : list (K * V)) x y :
  NoDup (map fst l) -> In x l -> In y l -> fst x = fst y -> x = y.
Proof.
  induction l as [|e r IH]; cbn [map In]; intros Hn Hx Hy E; [contradiction|].
  inversion Hn as [|? ? Hnot Hn']; subst.
  destruct Hx as [->|Hx], Hy as [->|Hy].
  - reflexivity.
  - exfalso. apply Hnot. rewrite E. now apply in_map.
  - exfalso. apply Hnot. rewrite <- E. now apply in_map.
  - now apply IH.
Qed.

Lemma fold_right_map_tol {A B C} (g : A -> B) (h : B -> C -> C) (l : list A) (c : C) :
  fold_right h c (map g l) = fold_right (fun a acc => h (g a) acc) c l.
Proof. induction l as [|x r IH]; cbn; [reflexivity | now rewrite IH]. Qed.

Section KVProofs.
  Context {K V : Type}.
  Variable kle : K -> K -> bool.
  Variable keq : K -> K -> bool.
  Hypothesis kle_total : forall a b, kle a b = true \/ kle b a = true.
  Hypothesis kle_trans : forall a b c, kle a b = true -> kle b c = true -> kle a c = true.
  Hypothesis kle_antisym : forall a b, kle a b = true -> kle b a = true -> a = b.
  Hypothesis keq_spec : forall a b, keq a b = true <-> a = b.

  Lemma key_le_total {W} (a b : K * W) : key_le kle a b = true \/ key_le kle b a = true.
  Proof. apply kle_total. Qed.
  Lemma key_le_trans {W} (a b c : K * W) :
    key_le kle a b = true -> key_le kle b c = true -> key_le kle a c = true.
  Proof. apply kle_trans. Qed.
  Lemma key_le_antisym_on {W} (l : list (K * W)) : NoDup (map fst l) -> antisym_on (key_le kle) l.
  Proof.
    intros Hn x y Hx Hy H1 H2. apply (NoDup_keys_inj l); try assumption. now apply kle_antisym.
  Qed.

  (* shapes A and B *)
  Theorem sort_kv_perm_canonical (it it' : list (K * V)) :
    hash_order it it' -> NoDup (map fst it) -> sort_kv kle it = sort_kv kle it'.
  Proof.
    intros Hp Hn. apply isort_perm_canonical; [apply key_le_total | apply key_le_trans | exact Hp |].
    now apply key_le_antisym_on.
  Qed.

  Theorem sorted_then_perm_invariant {R} (f : list (K * V) -> R) (entries it it' : list (K * V)) :
    NoDup (map fst entries) -> hash_order entries it -> hash_order entries it' ->
    sorted_then kle f it = sorted_then kle f it'.
  Proof.
    intros Hn H1 H2. unfold sorted_then. f_equal.
    rewrite <- (sort_kv_perm_canonical entries it H1 Hn). now apply sort_kv_perm_canonical.
  Qed.

  Theorem collect_btree_perm_invariant (entries it it' : list (K * V)) :
    NoDup (map fst entries) -> hash_order entries it -> hash_order entries it' ->
    collect_btree kle it = collect_btree kle it'.
  Proof. exact (sorted_then_perm_invariant (fun x => x) entries it it'). Qed.

  (* the collected map is sorted and has exactly the entries: it IS the BTreeMap *)
  Theorem collect_btree_sorted (it : list (K * V)) :
    StronglySorted (fun a b => kle (fst a) (fst b) = true) (collect_btree kle it) /\
    Permutation it (collect_btree kle it).
  Proof.
    split.
    - apply (isort_sorted (key_le kle)); [apply key_le_total | apply key_le_trans].
    - apply isort_perm.
  Qed.

  (* keyed lookups *)
  Lemma keq_refl a : keq a a = true.
  Proof. now apply keq_spec. Qed.

  Theorem lookup_perm_invariant k (it it' : list (K * V)) :
    hash_order it it' -> NoDup (map fst it) -> lookup_kv keq k it = lookup_kv keq k it'.
  Proof.
    unfold hash_order.
    induction 1 as [|[k1 v1] l l' Hp IH|[k1 v1] [k2 v2] l|l l' l'' Hp1 IH1 Hp2 IH2]; intros Hn.
    - reflexivity.
    - cbn [lookup_kv]. inversion Hn; subst. now rewrite IH.
    - cbn [lookup_kv]. destruct (keq k k1) eqn:E1, (keq k k2) eqn:E2; try reflexivity.
      exfalso. apply keq_spec in E1, E2. subst. cbn [map fst] in Hn.
      inversion Hn as [|? ? Hnot _]; subst. apply Hnot. now left.
    - rewrite IH1 by exact Hn. apply IH2.
      eapply Permutation_NoDup; [apply Permutation_map; exact Hp1 | exact Hn].
  Qed.

  (* shape C *)
  Definition tol (e : K * V) : K * list V := (fst e, [snd e]).

  Lemma push_entry_fresh k (v : V) (m : list (K * list V)) :
    ~ In k (map fst m) -> push_entry kle keq k v m = ins (key_le kle) (k, [v]) m.
  Proof.
    induction m as [|[k' vs] r IH]; intros Hn; cbn [push_entry ins]; [reflexivity|].
    cbn [map fst In] in Hn.
    destruct (keq k k') eqn:E.
    - exfalso. apply Hn. left. symmetry. now apply keq_spec.
    - unfold key_le at 1. cbn [fst]. destruct (kle k k'); [reflexivity|].
      rewrite IH; [reflexivity | tauto].
  Qed.

  Lemma drain_into_is_insertion (it : list (K * V)) : forall m : list (K * list V),
    NoDup (map fst it) -> (forall k, In k (map fst it) -> ~ In k (map fst m)) ->
    drain_into kle keq it m = fold_left (fun m e => ins (key_le kle) (tol e) m) it m.
  Proof.
    unfold drain_into. induction it as [|[k v] r IH]; intros m Hn Hd; cbn [fold_left]; [reflexivity|].
    cbn [map fst] in Hn. inversion Hn as [|? ? Hnot Hn']; subst.
    cbn [fst snd]. rewrite push_entry_fresh by (apply Hd; now left).
    apply IH; [exact Hn'|].
    intros k0 Hk0 Hin.
    apply (Permutation_in _ (Permutation_map fst (Permutation_sym (ins_perm (key_le kle) (k, [v]) m)))) in Hin.
    cbn [map fst In] in Hin. destruct Hin as [<-|Hin]; [exact (Hnot Hk0)|].
    apply (Hd k0); [now right | exact Hin].
  Qed.

  Lemma drain_into_is_sort (it : list (K * V)) :
    NoDup (map fst it) -> drain_into kle keq it [] = isort (key_le kle) (map tol (rev it)).
  Proof.
    intros Hn. rewrite drain_into_is_insertion; [|exact Hn | intros k _ []].
    unfold isort. rewrite fold_right_map_tol, fold_left_rev_right. reflexivity.
  Qed.

  Theorem drain_into_perm_invariant (it it' : list (K * V)) :
    hash_order it it' -> NoDup (map fst it) -> drain_into kle keq it [] = drain_into kle keq it' [].
  Proof.
    intros Hp Hn. rewrite !drain_into_is_sort; try assumption.
    - apply isort_perm_canonical; [apply key_le_total | apply key_le_trans | |].
      + apply Permutation_map. eapply perm_trans; [apply Permutation_sym, Permutation_rev|].
        eapply perm_trans; [exact Hp | apply Permutation_rev].
      + apply key_le_antisym_on. rewrite map_map. cbn [tol fst].
        eapply Permutation_NoDup; [apply Permutation_map, Permutation_rev | exact Hn].
    - eapply Permutation_NoDup; [apply Permutation_map; exact Hp | exact Hn].
  Qed.

  (* util.rs try_collect_unique, duplicate branch: the BTreeMap<K, Vec<V>> of duplicates (values of every key
     in input order) does not depend on the order in which `map.drain()` empties the hash map *)
  Theorem collect_duplicates_perm_invariant (it it' : list (K * V)) (dup : K * V) (rest : list (K * V)) :
    hash_order it it' -> NoDup (map fst it) ->
    collect_duplicates kle keq it dup rest = collect_duplicates kle keq it' dup rest.
  Proof.
    intros Hp Hn. unfold collect_duplicates. now rewrite (drain_into_perm_invariant it it' Hp Hn).
  Qed.

  (* shape S: hash sets used as membership tests *)
  Lemma mem_k_iff x (s : list K) : mem_k keq x s = true <-> In x s.
  Proof.
    unfold mem_k. rewrite existsb_exists. split.
    - intros (y & Hy & E). apply keq_spec in E. now subst.
    - intros H. exists x. split; [exact H | apply keq_refl].
  Qed.

  Theorem mem_perm_invariant x (s s' : list K) : hash_order s s' -> mem_k keq x s = mem_k keq x s'.
  Proof.
    intros Hp. apply eq_iff_eq_true. rewrite !mem_k_iff.
    split; apply Permutation_in; [exact Hp | now apply Permutation_sym].
  Qed.

  Definition places (place : K -> list K -> list K) : Prop :=
    forall x s y, mem_k keq y (place x s) = keq y x || mem_k keq y s.

  Theorem dedup_by_layout_irrelevant place place' l : places place -> places place' ->
    forall seen seen', (forall y, mem_k keq y seen = mem_k keq y seen') ->
    dedup_by keq place seen l = dedup_by keq place' seen' l.
  Proof.
    intros Hp Hp'. induction l as [|x r IH]; intros seen seen' Hm; cbn [dedup_by]; [reflexivity|].
    rewrite <- Hm. destruct (mem_k keq x seen); [now apply IH|].
    f_equal. apply IH. intros y. now rewrite Hp, Hp', Hm.
  Qed.

  (* `cons` is a legitimate layout, and so is insertion anywhere *)
  Lemma places_cons : places cons.
  Proof. intros x s y. reflexivity. Qed.
  Lemma places_snoc : places (fun x s => s ++ [x]).
  Proof.
    intros x s y. unfold mem_k. rewrite existsb_app. cbn [existsb]. rewrite orb_false_r. apply orb_comm.
  Qed.
End KVProofs.

(* ================================================================== *)
(* 4. instance: string keys (Arc<str> with byte-wise Ord)              *)
(* ================================================================== *)
Lemma str_leb_trans a b c : String.leb a b = true -> String.leb b c = true -> String.leb a c = true.
Proof.
  unfold String.leb. destruct (string_good a) as (_ & _ & Ht & _).
  destruct (String.compare a b) eqn:E1; try discriminate; intros _.
  - apply String.compare_eq_iff in E1. subst b. tauto.
  - destruct (String.compare b c) eqn:E2; try discriminate; intros _.
    + apply String.compare_eq_iff in E2. subst c. now rewrite E1.
    + now rewrite (Ht b c E1 E2).
Qed.

Lemma insert_sorted_is_ins s l : insert_sorted s l = ins String.leb s l.
Proof. induction l as [|x r IH]; cbn [insert_sorted ins]; [reflexivity | now rewrite IH]. Qed.

Lemma sort_names_is_isort l : sort_names l = isort String.leb l.
Proof.
  unfold sort_names, isort. induction l as [|x r IH]; cbn [fold_right]; [reflexivity|].
  now rewrite IH, insert_sorted_is_ins.
Qed.

(* execution.rs:192 / :590 `output_names.sort_unstable()`: whatever order the names are collected in, the
   sorted vector — hence the order of the resolve_property calls — is the same. *)
Theorem sort_names_perm_invariant l l' : Permutation l l' -> sort_names l = sort_names l'.
Proof.
  intros Hp. rewrite !sort_names_is_isort.
  apply isort_perm_canonical; [apply String.leb_total | apply str_leb_trans | exact Hp |].
  intros x y _ _. apply String.leb_antisym.
Qed.

Theorem sort_names_sorted l :
  StronglySorted (fun a b => String.leb a b = true) (sort_names l) /\ Permutation l (sort_names l).
Proof.
  rewrite sort_names_is_isort. split.
  - apply isort_sorted; [apply String.leb_total | apply str_leb_trans].
  - apply isort_perm.
Qed.

Theorem output_call_order_canonical root vs ss outs outs' :
  Permutation outs outs' ->
  output_call_order (mkComp root vs ss outs) = output_call_order (mkComp root vs ss outs').
Proof.
  intros Hp. unfold output_call_order. cbn [c_outputs].
  apply sort_names_perm_invariant. now apply Permutation_map.
Qed.

Definition str_sort_kv_perm_canonical {V} :=
  @sort_kv_perm_canonical string V String.leb String.leb_total str_leb_trans String.leb_antisym.
Definition str_sorted_then_perm_invariant {V R} :=
  @sorted_then_perm_invariant string V String.leb String.leb_total str_leb_trans String.leb_antisym R.
Definition str_collect_btree_perm_invariant {V} :=
  @collect_btree_perm_invariant string V String.leb String.leb_total str_leb_trans String.leb_antisym.
Definition str_lookup_perm_invariant {V} :=
  @lookup_perm_invariant string V String.eqb String.eqb_eq.
Definition str_drain_into_perm_invariant {V} :=
  @drain_into_perm_invariant string V String.leb String.eqb String.leb_total str_leb_trans String.leb_antisym
                             String.eqb_eq.
Definition str_collect_duplicates_perm_invariant {V} :=
  @collect_duplicates_perm_invariant string V String.leb String.eqb String.leb_total str_leb_trans
                                     String.leb_antisym String.eqb_eq.
Definition str_mem_perm_invariant := @mem_perm_invariant string String.eqb String.eqb_eq.
Definition str_dedup_by_layout_irrelevant := @dedup_by_layout_irrelevant string String.eqb.

(* ================================================================== *)
(* 5. the introspection adapter (F14)                                  *)
(* ================================================================== *)
Theorem vertex_type_rows_multiset_invariant root it it' :
  hash_order it it' -> Permutation (vertex_type_rows root it) (vertex_type_rows root it').
Proof.
  unfold hash_order, vertex_type_rows.
  induction 1 as [|x l l' _ IH|x y l|l l' l'' _ IH1 _ IH2]; cbn [filter map].
  - constructor.
  - destruct (negb (snd x =? root)%string); cbn [map]; [now apply perm_skip | exact IH].
  - destruct (negb (snd x =? root)%string), (negb (snd y =? root)%string); cbn [map];
      try apply Permutation_refl. apply perm_swap.
  - eapply perm_trans; eassumption.
Qed.

(* full statement (false): forall root entries it it', hash_order entries it -> hash_order entries it' ->
                            vertex_type_rows root it = vertex_type_rows root it' *)
Theorem vertex_type_rows_order_refuted :
  exists root entries it it',
    NoDup (map fst entries) /\ hash_order entries it /\ hash_order entries it' /\
    vertex_type_rows root it <> vertex_type_rows root it'.
Proof.
  exists "RootSchemaQuery"%string,
         [("A", "A"); ("B", "B"); ("RootSchemaQuery", "RootSchemaQuery")]%string,
         [("A", "A"); ("B", "B"); ("RootSchemaQuery", "RootSchemaQuery")]%string,
         [("RootSchemaQuery", "RootSchemaQuery"); ("B", "B"); ("A", "A")]%string.
  repeat split.
  - repeat constructor; cbn; intuition discriminate.
  - apply Permutation_refl.
  - unfold hash_order. change [("RootSchemaQuery", "RootSchemaQuery"); ("B", "B"); ("A", "A")]%string
      with (rev [("A", "A"); ("B", "B"); ("RootSchemaQuery", "RootSchemaQuery")]%string).
    apply Permutation_rev.
  - cbn. discriminate.
Qed.

(* one adapter instance = one fixed iteration order: repeating the call gives the same rows (trivially);
   sorting before yielding makes the rows independent of the order *)
Theorem vertex_type_rows_sorted_canonical root entries it it' :
  NoDup (map fst entries) -> hash_order entries it -> hash_order entries it' ->
  vertex_type_rows_sorted root it = vertex_type_rows_sorted root it'.
Proof.
  intros Hn H1 H2. unfold vertex_type_rows_sorted.
  exact (str_sorted_then_perm_invariant (vertex_type_rows root) entries it it' Hn H1 H2).
Qed.

(* ================================================================== *)
(* 6. the execution model                                              *)
(* ================================================================== *)
(* `interpret` is a function of (regex oracle, graph, arguments, query): two runs agree *)
Theorem interpret_deterministic re g args q r1 r2 :
  interpret re g args q = r1 -> interpret re g args q = r2 -> r1 = r2.
Proof. congruence. Qed.

Lemma mapM_ext {A B} (f h : A -> res B) l : (forall x, f x = h x) -> mapM f l = mapM h l.
Proof. intros E. induction l as [|x r IH]; cbn [mapM]; [reflexivity | now rewrite E, IH]. Qed.

Lemma lookup_str_is_lookup_kv {V} k (l : list (string * V)) : lookup_str k l = lookup_kv String.eqb k l.
Proof. induction l as [|[k' v] r IH]; cbn [lookup_str lookup_kv]; [reflexivity | now rewrite IH]. Qed.

(* The rows do not depend on the order in which the `outputs` map of the root component is STORED
   (the model's association list; in Rust a BTreeMap): construct_outputs sorts the names first and
   afterwards only looks entries up by key. *)
Theorem interpret_output_storage_order_irrelevant re g args name ps root vs ss outs outs' vars :
  Permutation outs outs' -> NoDup (map fst outs) ->
  interpret re g args (mkQ name ps (mkComp root vs ss outs) vars) =
  interpret re g args (mkQ name ps (mkComp root vs ss outs') vars).
Proof.
  intros Hp Hn. unfold interpret. cbn [q_comp q_root_name q_root_params c_outputs].
  rewrite (sort_names_perm_invariant (map fst outs) (map fst outs')) by now apply Permutation_map.
  assert (Hc : forall cs, compute_component re g args (mkComp root vs ss outs) cs =
                          compute_component re g args (mkComp root vs ss outs') cs) by reflexivity.
  rewrite Hc. destruct (compute_component re g args (mkComp root vs ss outs') _) as [cs|s]; [|reflexivity].
  cbn [bind]. apply mapM_ext. intros cx. unfold construct_output_one. cbn [c_outputs c_vertices].
  erewrite mapM_ext; [reflexivity|].
  intros n. cbn beta. rewrite !lookup_str_is_lookup_kv.
  now rewrite (str_lookup_perm_invariant n outs outs' Hp Hn).
Qed.
