(* C01 — Query results equal the declarative semantics of the query.
   Sem.v is the specification (what the query language defines); Exec.v is the transcription of
   execution.rs.  Only statements, `exact` proofs, Print Assumptions and examples live here. *)
From TF Require Import Sem SemProofs Exec Run Sim SimRec SimComp SimOut SimTop FoldOut SimGen SimFull WfCheck SemT SimGenT EraseSem SimFinal RunHyps.
Local Open Scope string_scope.

(* ---- what the specification says, in the words of the language reference ---- *)

(* "@optional keeps rows whose edge is missing ... filters, coercions and tags inside a missing
   optional scope pass" *)
Theorem C01_missing_optional_scope_passes :
  forall re g args vs ss imported a v, enter re g args vs ss imported a v None = true.
Proof. exact enter_missing_optional. Qed.
Print Assumptions C01_missing_optional_scope_passes.

Theorem C01_tag_from_missing_optional_passes :
  forall re op left present, opk_unary op = false -> filter_passes re op present left (Some TNone) = true.
Proof. exact filter_passes_missing_tag. Qed.
Print Assumptions C01_tag_from_missing_optional_passes.

(* "filters keep exactly the satisfying rows" *)
Theorem C01_filter_keeps_exactly_satisfying :
  forall re op left r, opk_unary op = false ->
    filter_passes re op true left (Some (TSome r)) = holds re op left r.
Proof. exact filter_passes_present. Qed.
Print Assumptions C01_filter_keeps_exactly_satisfying.

(* "@recurse(depth: d) yields every vertex reachable in 0..d hops" (with multiplicity = number of
   paths, since rec_from lists paths in depth-first pre-order) *)
Theorem C01_recurse_is_reachability :
  forall g origin_ty recursing_from endpoint_ty coerce_to edge ps k first v x,
    In x (rec_from g k first origin_ty recursing_from endpoint_ty coerce_to edge ps v) <->
    exists n, (n <= k)%nat /\ path g origin_ty recursing_from endpoint_ty coerce_to edge ps n first v x.
Proof. exact (rec_from_reachable (fun _ _ => None)). Qed.
Print Assumptions C01_recurse_is_reachability.

(* ---- the model of the engine agrees with the specification ----
   Full statement (being proved in stages in ExecSem*.v; the run-time oracle compares the real engine
   with `sem` on every generated case meanwhile):
     forall re g args q, wf_query q -> args_ok q args -> ty_indep g -> ~ Known q args ->
       rows_equiv (interpret re g args q) (Ok (sem re g args q))                                   *)


(* ---- the engine model refines the specification: queries without @fold ----
   Any nesting of plain / @optional / @recurse edges, coercions, every filter operator with variables
   and tags, any dataset (as five oracles; neighbours must not depend on the static type named in the
   call, which graph_of_dataset satisfies), any arguments: whenever the interpreter model returns rows
   at all (panic-freedom is property C09), they are exactly the specification's rows, in the same
   order, each row compared as a map name -> value. *)
Theorem C01_engine_refines_spec_fold_free :
  forall re g args q rows,
    ty_indep g ->
    edges_only (c_steps (q_comp q)) = true ->
    interpret re g args q = Ok rows ->
    Forall2 row_equiv rows (sem re g args q).
Proof. intros re g args q rows Hi. exact (interpret_fold_free_spec re g args Hi q rows). Qed.
Print Assumptions C01_engine_refines_spec_fold_free.

(* the piggy-backing recursion rounds list the gated paths in depth-first pre-order (the crux) *)
Theorem C01_recursion_rounds_are_dfs :
  forall g origin_ty recursing_from endpoint_ty coerce_to e,
    (forall v, g_nbrs g origin_ty (e_name e) (e_params e) v = g_nbrs g recursing_from (e_name e) (e_params e) v) ->
    forall k first c v, active c = Some v -> piggyback c = None ->
      mapM ensure_unsuspended (iterF g origin_ty recursing_from endpoint_ty coerce_to e (flags_of first k) [c]) =
      Ok (map (fun u => set_active c (Some u))
              (rec_from g k first origin_ty recursing_from endpoint_ty coerce_to (e_name e) (e_params e) v)).
Proof. intros g o r ep co e H k first c v. exact (dfs g o r ep co e H k first c v). Qed.
Print Assumptions C01_recursion_rounds_are_dfs.

(* ---- the engine model refines the specification: EVERY query ----
   Any nesting of plain / @optional / @recurse edges and @fold scopes: outputs inside folds (lists,
   lists of lists ...), count outputs, tags imported into folds (property and count tags), count
   filters with variables or tags including the maximum early termination.  Side conditions on the
   query (all guaranteed by the frontend, C11, except the last):
     wf_comp  recursion depths >= 1; the tags a fold imports are not already imported by an enclosing
              fold; NO FOLD IS ELIGIBLE FOR THE MINIMUM TRUNCATION take(min) (a `>`/`>=` count filter on a
              fold whose count and contents the engine believes unobserved) - that optimisation is not
              invisible (genuine defect F9, property C22);
     wf_out   output keys (fold eid, name) and fold eids pairwise distinct at every level;
     NoDup    output names globally distinct.
   spec_hyps is their executable conjunction (WfCheck.v); the harness evaluates it on every world. *)
Theorem C01_engine_refines_spec :
  forall re g args q rows,
    ty_indep g ->
    wf_comp args [] (q_comp q) -> wf_out (q_comp q) -> NoDup (all_output_names (q_comp q)) ->
    interpret re g args q = Ok rows ->
    Forall2 row_equiv rows (sem re g args q).
Proof. intros re g args q rows Hi. exact (interpret_spec re g args Hi q rows). Qed.
Print Assumptions C01_engine_refines_spec.

Theorem C01_engine_refines_spec_checked :
  forall re g args q rows,
    ty_indep g -> spec_hyps args q = true ->
    interpret re g args q = Ok rows ->
    Forall2 row_equiv rows (sem re g args q).
Proof.
  intros re g args q rows Hi Hh. destruct (spec_hyps_sound args q Hh) as (H1 & H2 & H3).
  exact (interpret_spec re g args Hi q rows H1 H2 H3).
Qed.
Print Assumptions C01_engine_refines_spec_checked.

(* ---- ... and without the restriction on the minimum truncation ----
   Since the repair of F9 the engine truncates a fold to `min` elements only when nothing observes the
   fold (Exec.min_eligible).  The truncation is then invisible: the interpreter model refines the
   truncating specification SemT (SimGenT/SimFullT, same proof as above without the no-min-limit
   hypothesis), and SemT produces the same rows as Sem (EraseSem: every stage of the specification
   depends only on the erasure of the unobserved folds, the projection ignores it, and `>`/`>=` count
   filters cannot tell min(n, m) from n).  Hypotheses about the query:
     wf_comp_t  recursion depths >= 1, import keys fresh;
     wf_out, NoDup names   as above;
     erasable   fold eids distinct; no filter / import / count filter of a component reads the count
                of a fold of that component that passes min_eligible (reads_ok - this is what the repaired
                eligibility test guarantees for IRs whose fold references are consistent, C11); no
                truncation limit saturates at usize::MAX.
   refine_hyps is their executable conjunction, evaluated on every generated world (evidence:
   worlds_meeting_theorem_hypotheses). *)
Theorem C01_engine_refines_spec_all :
  forall re g args q rows,
    ty_indep g ->
    wf_comp_t [] (q_comp q) -> wf_out (q_comp q) -> NoDup (all_output_names (q_comp q)) ->
    erasable args (q_comp q) ->
    interpret re g args q = Ok rows ->
    Forall2 row_equiv rows (sem re g args q).
Proof. intros re g args q rows Hi. exact (interpret_refines_sem re g args Hi q rows). Qed.
Print Assumptions C01_engine_refines_spec_all.

Theorem C01_engine_refines_spec_all_checked :
  forall re g args q rows,
    ty_indep g -> refine_hyps args q = true ->
    interpret re g args q = Ok rows ->
    Forall2 row_equiv rows (sem re g args q).
Proof. exact interpret_refines_sem_checked. Qed.
Print Assumptions C01_engine_refines_spec_all_checked.

(* component level (any imported tags, any starting contexts): assignments AND the fold-output
   bookkeeping (FV: the folded_values map is, key by key, the closed form fspec of the projection) *)
Theorem C01_component_refines_spec :
  forall re g args, ty_indep g ->
  forall c outer imp cs r,
    wf_comp args outer c -> wf_out c -> keys_within outer imp ->
    Forall (clean imp) cs -> Forall fresh cs ->
    compute_component re g args c cs = Ok r ->
    map asg_of r = flat_map (fun x => sem_comp re g args c imp (active x)) cs /\
    Forall (FV g c) r /\ Forall (clean imp) r.
Proof. intros re g args Hi. exact (compute_component_full re g args Hi). Qed.
Print Assumptions C01_component_refines_spec.

Theorem C01_datasets_are_type_independent : forall d, ty_indep (graph_of_dataset d).
Proof. exact graph_of_dataset_ty_indep. Qed.
Print Assumptions C01_datasets_are_type_independent.

(* non-vacuity of the fold-free theorem: a concrete query with a tag, @optional, @recurse and a
   coercion meets its hypotheses and returns rows *)
Definition ff_world := ((re_table [] []), (mkDS [(1%N, "Leaf"); (2%N, "Gadget"); (3%N, "Gadget"); (4%N, "Leaf"); (5%N, "Box"); (6%N, "Gadget"); (7%N, "Gadget"); (8%N, "Leaf")] [(1%N, [("flag", (Boolv false)); ("id", (I64 1%Z)); ("label", (Str "ab")); ("leafy", (Str "")); ("name", (Str "a(")); ("nums", (List [Null; (I64 9223372036854775807%Z)])); ("ratio", (F64 9094988921128908188%N)); ("score", (I64 (-1)%Z)); ("tags", (List [(Str "ab")])); ("weight", (I64 (-1)%Z))]); (2%N, [("flag", (Boolv true)); ("id", (I64 2%Z)); ("name", (Str "A")); ("nums", (List [Null])); ("power", (I64 4%Z)); ("ratio", (F64 4611686018427387904%N)); ("score", (I64 5%Z)); ("tags", (List [(Str "a"); (Str "A"); (Str (sb [195;169]%N))]))]); (3%N, [("flag", (Boolv true)); ("id", (I64 3%Z)); ("name", (Str "a(")); ("nums", (List [(I64 (-9223372036854775808)%Z); (I64 (-9223372036854775808)%Z)])); ("power", (I64 9223372036854775807%Z)); ("ratio", (F64 4611686018427387904%N)); ("score", (U64 18446744073709551615%Z)); ("tags", (List [(Str "A")]))]); (4%N, [("flag", (Boolv false)); ("id", (I64 4%Z)); ("label", (Str (sb [195;169]%N))); ("leafy", (Str "a(")); ("nums", (List [Null; (I64 (-3)%Z); (I64 0%Z)])); ("ratio", (F64 4611686018427387904%N)); ("tags", (List [])); ("weight", (I64 (-9223372036854775808)%Z))]); (5%N, [("flag", (Boolv false)); ("id", (I64 5%Z)); ("label", (Str "b")); ("name", (Str "x y")); ("nums", (List [])); ("ratio", (F64 4611686018427387904%N)); ("score", (U64 9223372036854775808%Z)); ("tags", (List [(Str "a("); (Str ""); (Str "a(")])); ("weight", (I64 2%Z))]); (6%N, [("id", (U64 6%Z)); ("name", (Str "b")); ("nums", (List [(I64 (-9223372036854775808)%Z); (I64 9223372036854775807%Z); (I64 1%Z)])); ("power", (U64 18446744073709551615%Z)); ("ratio", (F64 4611686018427387904%N)); ("tags", (List [(Str "b"); (Str "A")]))]); (7%N, [("id", (I64 7%Z)); ("name", (Str "a")); ("nums", (List [(I64 2%Z)])); ("ratio", (F64 9094988921128908188%N)); ("tags", (List [(Str "abc")]))]); (8%N, [("flag", (Boolv false)); ("id", (I64 8%Z)); ("label", (Str "a")); ("leafy", (Str "a(")); ("name", (Str "a")); ("nums", (List [(U64 18446744073709551615%Z)])); ("ratio", (F64 9094988921128908188%N)); ("score", (I64 4%Z)); ("tags", (List [])); ("weight", (U64 3%Z))])] [(1%N, [("link", [1%N; 3%N]); ("next", [5%N]); ("parent", [3%N])]); (2%N, [("gears", [3%N; 2%N]); ("link", [7%N; 4%N; 8%N; 5%N]); ("next", [5%N]); ("parent", [3%N])]); (3%N, [("gears", [3%N; 7%N; 3%N; 6%N]); ("link", [7%N; 3%N; 4%N]); ("next", [1%N; 1%N; 7%N]); ("parent", [4%N])]); (4%N, [("link", [2%N]); ("parent", [4%N])]); (5%N, [("contains", [5%N]); ("inner", [5%N; 5%N; 5%N; 5%N]); ("link", [7%N; 3%N]); ("next", [2%N; 8%N]); ("peer", [5%N])]); (6%N, [("gears", [6%N]); ("link", [4%N; 1%N; 5%N; 3%N]); ("next", [2%N]); ("parent", [7%N])]); (7%N, [("link", [7%N; 6%N]); ("next", [3%N; 7%N; 6%N; 6%N])]); (8%N, [("next", [3%N; 6%N]); ("peer", [4%N])])] [("Box", [5%N]); ("Gadget", [2%N; 3%N; 6%N; 7%N]); ("Item", [1%N; 4%N; 5%N; 8%N]); ("Leaf", [1%N; 4%N; 8%N]); ("Thing", [8%N; 7%N; 6%N; 5%N; 4%N; 3%N; 2%N; 1%N])] [("Thing", ["Box"; "Leaf"; "Gadget"]); ("Item", ["Box"; "Leaf"]); ("Box", ["Box"]); ("Leaf", ["Leaf"]); ("Gadget", ["Gadget"])]), (mkRQ "Leaf" [("hi", (I64 1000%Z))] (RComp 1%N [(mkV 1%N "Leaf" None [(mkVF LessThanOrEqual "score" (mkTy "Int" 0%N) (Some (AVar "v1" (mkTy "Int" 1%N))))]); (mkV 2%N "Thing" None []); (mkV 3%N "Thing" None [(mkVF LessThan "id" (mkTy "Int" 1%N) (Some (ATag (FRContext (mkCF 1%N "score" (mkTy "Int" 0%N))))))]); (mkV 4%N "Thing" None [(mkVF GreaterThanOrEqual "ratio" (mkTy "Float" 0%N) (Some (AVar "v2" (mkTy "Float" 1%N))))]); (mkV 5%N "Leaf" (Some "Thing") [(mkVF LessThan "score" (mkTy "Int" 0%N) (Some (ATag (FRContext (mkCF 1%N "score" (mkTy "Int" 0%N))))))])] [(mkE 1%N 1%N 2%N "up" [("hi", (I64 500%Z))] true None); (mkE 2%N 2%N 3%N "link" [] false (Some (mkRec 1%N None))); (mkE 3%N 1%N 4%N "next" [("hi", Null); ("lo", Null)] true None); (mkE 4%N 4%N 5%N "next" [("hi", (I64 1000%Z)); ("lo", Null)] false None)] [] [("o1", (mkCF 1%N "__typename" (mkTy "String" 1%N))); ("o2", (mkCF 1%N "score" (mkTy "Int" 0%N))); ("o3", (mkCF 2%N "id" (mkTy "Int" 1%N))); ("o4", (mkCF 3%N "name" (mkTy "String" 0%N))); ("o5", (mkCF 4%N "ratio" (mkTy "Float" 0%N))); ("o6", (mkCF 4%N "flag" (mkTy "Boolean" 0%N))); ("o7", (mkCF 5%N "score" (mkTy "Int" 0%N)))]) [("v1", (mkTy "Int" 1%N)); ("v2", (mkTy "Float" 1%N))]), [("v1", (U64 9223372036854775808%Z)); ("v2", (F64 4611686018427387904%N))]).
Example C01_fold_free_nonvacuous :
  match lower_query (snd (fst ff_world)) with
  | Ok q => edges_only (c_steps (q_comp q)) = true /\
            match interpret (fst (fst (fst ff_world))) (graph_of_dataset (snd (fst (fst ff_world)))) (snd ff_world) q with
            | Ok rows => Nat.ltb 1 (List.length rows) = true
            | Panic _ => False
            end
  | Panic _ => False
  end.
Proof. vm_compute. split; reflexivity. Qed.
Print Assumptions C01_fold_free_nonvacuous.

(* non-vacuity / agreement on a concrete non-trivial world: fold-count filter against a tag, nested
   folds, @recurse(depth: 2) through a coercion, @optional, parameterised edges *)
Definition aw_re := (re_table [] []).
Definition aw_d := (mkDS [(1%N, "Box"); (2%N, "Gadget"); (3%N, "Box"); (4%N, "Leaf"); (5%N, "Gadget"); (6%N, "Box"); (7%N, "Box")] [(1%N, [("flag", (Boolv true)); ("id", (U64 1%Z)); ("label", (Str "abc")); ("nums", (List [Null; (I64 9223372036854775807%Z)])); ("ratio", (F64 4609434218613702656%N)); ("score", (U64 18446744073709551615%Z)); ("tags", (List [(Str ""); (Str "ab"); (Str "")])); ("weight", (I64 (-3)%Z))]); (2%N, [("flag", (Boolv false)); ("id", (I64 2%Z)); ("nums", (List [Null; Null])); ("power", (U64 9223372036854775808%Z)); ("ratio", (F64 13832806255468478464%N)); ("score", (I64 3%Z))]); (3%N, [("capacity", (U64 9223372036854775808%Z)); ("flag", (Boolv true)); ("id", (I64 3%Z)); ("label", (Str "x y")); ("name", (Str "a(")); ("nums", (List [])); ("ratio", (F64 1%N)); ("tags", (List [(Str "ba"); (Str "A"); (Str "ba")])); ("weight", (U64 4%Z))]); (4%N, [("flag", (Boolv true)); ("id", (I64 4%Z)); ("label", (Str "A")); ("leafy", (Str "a")); ("name", (Str "ab")); ("nums", (List [Null])); ("ratio", (F64 0%N)); ("score", (I64 9223372036854775807%Z)); ("tags", (List [(Str "ba"); (Str "ba"); (Str "x y")])); ("weight", (I64 0%Z))]); (5%N, [("flag", (Boolv true)); ("id", (I64 5%Z)); ("name", (Str "A")); ("nums", (List [(I64 3%Z); (I64 6%Z)])); ("power", (I64 6%Z)); ("score", (I64 0%Z))]); (6%N, [("capacity", (U64 18446744073709551615%Z)); ("flag", (Boolv false)); ("id", (U64 6%Z)); ("label", (Str (sb [195;169]%N))); ("name", (Str (sb [195;169]%N))); ("nums", (List [Null; Null; (I64 (-2)%Z)])); ("ratio", (F64 9223372036854775808%N)); ("tags", (List [(Str "a"); (Str ""); (Str "ab")])); ("weight", (I64 (-3)%Z))]); (7%N, [("capacity", (U64 18446744073709551615%Z)); ("flag", (Boolv false)); ("id", (U64 7%Z)); ("label", (Str "a")); ("nums", (List [(I64 1%Z)])); ("ratio", (F64 4611686018427387904%N)); ("score", (I64 (-9223372036854775808)%Z)); ("tags", (List [])); ("weight", (U64 2%Z))])] [(1%N, [("inner", [6%N]); ("link", [5%N; 2%N]); ("next", [2%N; 2%N; 5%N]); ("parent", [6%N]); ("peer", [3%N]); ("up", [6%N])]); (2%N, [("gears", [2%N; 2%N]); ("link", [6%N]); ("next", [4%N; 1%N; 3%N])]); (3%N, [("inner", [1%N; 6%N; 3%N]); ("next", [1%N; 3%N]); ("peer", [7%N; 7%N])]); (4%N, [("next", [7%N]); ("peer", [3%N]); ("up", [3%N; 2%N; 7%N])]); (5%N, [("gears", [2%N; 5%N]); ("link", [5%N; 3%N]); ("parent", [6%N])]); (6%N, [("contains", [6%N; 6%N; 7%N]); ("peer", [1%N; 1%N; 3%N; 6%N]); ("up", [3%N])]); (7%N, [("contains", [7%N; 1%N; 3%N]); ("inner", [6%N]); ("next", [3%N; 7%N; 2%N]); ("parent", [3%N]); ("peer", [7%N; 1%N]); ("up", [4%N; 3%N; 5%N; 3%N])])] [("Box", [1%N; 3%N; 6%N; 7%N]); ("Gadget", [2%N; 5%N]); ("Item", [7%N; 6%N; 4%N; 3%N; 1%N; 4%N]); ("Leaf", [4%N]); ("Thing", [1%N; 2%N; 3%N; 4%N; 5%N; 6%N; 7%N; 5%N])] [("Thing", ["Box"; "Leaf"; "Gadget"]); ("Item", ["Box"; "Leaf"]); ("Box", ["Box"]); ("Leaf", ["Leaf"]); ("Gadget", ["Gadget"])]).
Definition aw_rq := (mkRQ "Item" [("hi", Null); ("lo", Null)] (RComp 1%N [(mkV 1%N "Item" None [])] [] [(RFold (mkFH 1%N 1%N 2%N "link" [] [] [] [(mkPF LessThanOrEqual (Some (ATag (FRContext (mkCF 1%N "score" (mkTy "Int" 0%N))))))]) (RComp 2%N [(mkV 2%N "Thing" None [])] [] [(RFold (mkFH 2%N 2%N 3%N "link" [] [] [] []) (RComp 3%N [(mkV 3%N "Thing" None []); (mkV 4%N "Item" (Some "Thing") [(mkVF Equals "nums" (mkTy "Int" 3%N) (Some (AVar "v1" (mkTy "Int" 3%N))))]); (mkV 6%N "Thing" None [])] [(mkE 3%N 3%N 4%N "parent" [] false (Some (mkRec 2%N None))); (mkE 5%N 4%N 6%N "link" [] true None)] [(RFold (mkFH 4%N 4%N 5%N "next" [("hi", (I64 1000%Z)); ("lo", (I64 1%Z))] [] [] []) (RComp 5%N [(mkV 5%N "Thing" None [(mkVF OneOf "tags" (mkTy "String" 6%N) (Some (AVar "v3" (mkTy "String" 27%N)))); (mkVF NotOneOf "tags" (mkTy "String" 6%N) (Some (AVar "v2" (mkTy "String" 27%N))))])] [] [] [("o8", (mkCF 5%N "tags" (mkTy "String" 6%N)))]))] [("o10", (mkCF 6%N "nums" (mkTy "Int" 3%N))); ("o3", (mkCF 3%N "tags" (mkTy "String" 6%N))); ("o4", (mkCF 3%N "score" (mkTy "Int" 0%N))); ("o5", (mkCF 4%N "__typename" (mkTy "String" 1%N))); ("o6", (mkCF 4%N "nums" (mkTy "Int" 3%N))); ("o7", (mkCF 4%N "ratio" (mkTy "Float" 0%N))); ("o9", (mkCF 6%N "score" (mkTy "Int" 0%N)))]))] [("o2", (mkCF 2%N "name" (mkTy "String" 0%N)))]))] [("o1", (mkCF 1%N "tags" (mkTy "String" 6%N)))]) [("v1", (mkTy "Int" 3%N)); ("v2", (mkTy "String" 27%N)); ("v3", (mkTy "String" 27%N))]).
Definition aw_args := [("v1", (List [])); ("v2", (List [(List []); (List [(Str "ab")])])); ("v3", (List [(List [])]))].
Example C01_agreement_witness :
  let r := run_exec aw_re aw_d aw_rq aw_args in
  r = run_sem aw_re aw_d aw_rq aw_args /\ Nat.ltb 300 (String.length r) = true.
Proof. vm_compute. split; reflexivity. Qed.
Print Assumptions C01_agreement_witness.

(* non-vacuity of the whole-query theorem: the witness world above (count filter against a tag, three
   nested folds with outputs at every level, @recurse(depth: 2) through a coercion, @optional) meets
   every hypothesis, and the interpreter model returns rows on it *)
Example C01_engine_refines_spec_nonvacuous :
  match lower_query aw_rq with
  | Ok q => spec_hyps aw_args q = true /\
            match interpret aw_re (graph_of_dataset aw_d) aw_args q with
            | Ok rows => Nat.ltb 1 (List.length rows) = true
            | Panic _ => False
            end
  | Panic _ => False
  end.
Proof. vm_compute. split; reflexivity. Qed.
Print Assumptions C01_engine_refines_spec_nonvacuous.

(* non-vacuity of the unrestricted theorem: the witness world meets refine_hyps, and so does a world
   with a fold that IS truncated (count filter `>= 2` on an unobserved fold) *)
Definition tr_rq := mkRQ "Thing" [("hi", Null); ("lo", Null)]
  (RComp 1%N [mkV 1%N "Thing" None []] []
     [RFold (mkFH 1%N 1%N 2%N "next" [("hi", I64 1000%Z); ("lo", Null)] [] []
               [mkPF GreaterThanOrEqual (Some (AVar "a" (mkTy "Int" 1%N)))])
            (RComp 2%N [mkV 2%N "Thing" None []] [] [] [])]
     [("o0", mkCF 1%N "id" (mkTy "Int" 1%N))])
  [("a", mkTy "Int" 1%N)].
Definition tr_args := [("a", I64 2%Z)].
Definition tr_d := mkDS [(1%N, "Gadget")] [(1%N, [("id", I64 1%Z)])] [(1%N, [("next", [1%N; 1%N; 1%N])])]
  [("Box", []); ("Gadget", [1%N]); ("Item", []); ("Leaf", []); ("Thing", [1%N])]
  [("Thing", ["Box"; "Leaf"; "Gadget"]); ("Item", ["Box"; "Leaf"]); ("Box", ["Box"]); ("Leaf", ["Leaf"]); ("Gadget", ["Gadget"])].
Example C01_engine_refines_spec_all_nonvacuous :
  (match lower_query aw_rq with Ok q => refine_hyps aw_args q = true | Panic _ => False end) /\
  run_hyps tr_rq tr_args = "HYP:yes+min" /\
  run_exec (re_table [] []) tr_d tr_rq tr_args = "ROWS:o0=i1" /\
  run_sem (re_table [] []) tr_d tr_rq tr_args = "ROWS:o0=i1".
Proof. vm_compute. repeat split; reflexivity. Qed.
Print Assumptions C01_engine_refines_spec_all_nonvacuous.

(* ---- for every IR the frontend produces ----
   The hypotheses of C01_engine_refines_spec_all follow from the structural well-formedness `wf_ir` of the
   raw IR (WfIR.v; property C11 evaluates wf_ir on every IR the real frontend returns) and from the only
   non-structural condition, that no truncation limit saturates at usize::MAX (WfRefine.v). *)
From TF Require Import WfIR WfRefine.
Theorem C01_engine_refines_spec_wf_ir :
  forall re g args q q' rows,
    ty_indep g -> wf_ir q = true -> lower_query q = Ok q' -> no_saturation args (q_comp q') = true ->
    interpret re g args q' = Ok rows ->
    Forall2 row_equiv rows (sem re g args q').
Proof. intros re g args q q' rows. exact (wf_ir_engine_refines re g args q q' rows). Qed.
Print Assumptions C01_engine_refines_spec_wf_ir.
