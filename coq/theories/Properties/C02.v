(* C02 — Results do not depend on how adapters batch or pre-fetch their inputs.
   "For any query and dataset, the sequence of result rows is identical no matter how eagerly each
    adapter resolver pulls contexts from its input iterator or buffers its outputs, as long as it
    preserves context order.  The engine must neither crash nor change results when an adapter reads
    ahead."

   PARTIAL.  Proved here, for ALL pipelines, sources, closures and schedules, on the pull machine of
   Pull.v: iterators with state, `next()` = [pull], a resolver = an order-preserving buffer
   (VariableChunkIterator with an arbitrary list of chunk sizes, first chunk fetched INSIDE the
   resolver call) followed by the engine's per-context closure; query carriers are one-slot cells,
   a resolver construction is take / call / put, @fold-style closures build and drain an inner
   pipeline per pulled context with the cell they own.  Fuel only bounds loops: the theorems give a
   fuel from which on the answer is fixed ([exists n, forall m >= n]) and say that NO fuel produces a
   panic or a wrong list.  That execution.rs builds exactly such pipelines out of Rust closures and
   std iterators is observed by the harness only (tfh_pull c02: every generated world under many
   batching schedules of a wrapping adapter, row SEQUENCES compared). *)
From Coq Require Import String List ZArith.
From TF Require Import Pull PullProofs.
Import ListNotations.
Local Open Scope list_scope.

(* The rows are those of the schedule-free list semantics [denP], for every schedule of every resolver
   (outer ones and the ones constructed inside closures), whatever is pre-fetched inside the calls. *)
Theorem C02_run_computes_list_semantics :
  forall (A : Type) (p : plan A) (src : list A), well_cloned p ->
    exists n, forall m, n <= m -> run m p src = Good (denP p src).
Proof. exact run_total. Qed.
Print Assumptions C02_run_computes_list_semantics.

(* ... hence two runs that differ only in the schedules return the same row sequence *)
Theorem C02_results_independent_of_schedules :
  forall (A : Type) (p q : plan A) (src : list A), same_plan p q -> well_cloned p ->
    exists n, forall m, n <= m ->
      run m p src = Good (denP p src) /\ run m q src = Good (denP p src).
Proof. exact plan_schedule_independent. Qed.
Print Assumptions C02_results_independent_of_schedules.

(* whatever the fuel and whether or not carriers are cloned: a run that returns rows returns the right ones *)
Theorem C02_no_wrong_rows :
  forall (A : Type) (n : nat) (p : plan A) (src l : list A), run n p src = Good l -> l = denP p src.
Proof. exact run_partial. Qed.
Print Assumptions C02_no_wrong_rows.

(* carrier_never_taken_twice: when every pull-time closure owns a clone (what compute_fold does with
   `cloned_carrier`), no `take()` ever finds its cell empty - for every schedule and every fuel *)
Theorem C02_carrier_never_taken_twice :
  forall (A : Type) (n : nat) (p : plan A) (src : list A) (site : string),
    well_cloned p -> run n p src <> Bad (Panicked site).
Proof. exact run_never_panics. Qed.
Print Assumptions C02_carrier_never_taken_twice.

(* the invariant behind it, for an iterator in ANY state: a pull never panics and hands every cell
   back full (the store only grows by fresh full cells) *)
Theorem C02_pull_never_panics :
  forall (A : Type) (n : nat) (s : stage A) (st : store) (site : string),
    wc_stage s -> Forall (fun c => full st c = true) (cells s) -> pull n s st <> Bad (Panicked site).
Proof. exact pull_never_panics. Qed.
Print Assumptions C02_pull_never_panics.

Theorem C02_pull_restores_cells :
  forall (A : Type) (n : nat) (s : stage A) (st : store) (o : option A) (s' : stage A) (st' : store),
    wc_stage s -> Forall (fun c => full st c = true) (cells s) ->
    pull n s st = Good (o, s', st') ->
    (exists e, st' = st ++ e /\ Forall (fun b => b = true) e) /\ cells s' = cells s.
Proof. exact pull_restores_cells. Qed.
Print Assumptions C02_pull_restores_cells.

(* buffered_denotes: wrapping a buffer with ANY schedule (also "pre-fetch everything") around a
   pipeline leaves its contents unchanged *)
Theorem C02_buffered_denotes :
  forall (A : Type) (s : stage A) (sched : list nat), cells s = [] ->
    exists n, forall m, n <= m ->
      exists s', Buffered m sched s = Good s' /\ to_list m s' = Good (den s) /\ to_list m s = Good (den s).
Proof. exact buffered_denotes. Qed.
Print Assumptions C02_buffered_denotes.

Theorem C02_buffered_never_wrong :
  forall (A : Type) (n n' : nat) (s s' : stage A) (sched : list nat) (l : list A),
    Buffered n sched s = Good s' -> to_list n' s' = Good l -> l = den s.
Proof. exact buffered_partial. Qed.
Print Assumptions C02_buffered_never_wrong.

(* pipeline_schedule_independent: changing schedules, inserting or removing buffers anywhere *)
Theorem C02_pipeline_schedule_independent :
  forall (A : Type) (s1 s2 : stage A), rebuf s1 s2 -> cells s1 = [] ->
    exists n, forall m, n <= m -> to_list m s1 = Good (den s1) /\ to_list m s2 = Good (den s1).
Proof. exact pipeline_schedule_independent. Qed.
Print Assumptions C02_pipeline_schedule_independent.

(* order: rows of earlier contexts come first (the pipeline is a list homomorphism in its source), and
   what a buffer pre-fetches is a prefix of what its input would have produced *)
Theorem C02_order_preserved :
  forall (A : Type) (p : plan A) (l1 l2 : list A), denP p (l1 ++ l2) = denP p l1 ++ denP p l2.
Proof. exact denP_app. Qed.
Print Assumptions C02_order_preserved.

Theorem C02_prefetch_is_a_prefix :
  forall (A : Type) (n k : nat) (s : stage A) (st : store) (xs : list A) (s' : stage A) (st' : store),
    take n k s st = Good (xs, s', st') -> xs = firstn (length xs) (den s) /\ length xs <= k.
Proof. exact take_prefix. Qed.
Print Assumptions C02_prefetch_is_a_prefix.

(* every pull / collect / construction terminates *)
Theorem C02_machine_terminates :
  forall (A : Type) (p : plan A) (src : list A), exists n, run n p src <> Bad OutOfFuel.
Proof. exact run_halts. Qed.
Print Assumptions C02_machine_terminates.

(* Issue #205.  A @fold whose closure uses the cell of its constructor (own = false, i.e. WITHOUT
   `cloned_carrier`), followed by a resolver that pre-fetches two contexts inside its call (the
   @output resolution of the issue): the pre-fetch pulls a context through the fold while the cell is
   taken -> "query was not returned".  With a non-reading-ahead adapter the same plan runs fine (why
   the ordinary test-suite cannot see it); with the clone it runs fine under the eager schedule. *)
Definition plan_205 (own : bool) (output_sched : list nat) : splan :=
  SResolve [] (FInc 0)
    (SNested own (SResolve [] (FInc 1) SDone) (FRep 3) FinSum
      (SResolve output_sched (FInc 0) SDone)).

Example C02_issue_205 :
  run 40 (plan_of (plan_205 false [2])) [1; 2; 3]%Z = Bad (Panicked "query was not returned") /\
  run 40 (plan_of (plan_205 false [])) [1; 2; 3]%Z = Good [3; 8; 3]%Z /\
  run 40 (plan_of (plan_205 true [2])) [1; 2; 3]%Z = Good [3; 8; 3]%Z /\
  well_cloned (plan_of (plan_205 true [2])) /\
  ~ well_cloned (plan_of (plan_205 false [2])).
Proof.
  vm_compute. repeat split; try reflexivity. intros [H _]. discriminate H.
Qed.
Print Assumptions C02_issue_205.

(* non-vacuity: a pipeline with a nested closure that itself contains a nested closure, buffers with
   pre-fetch everywhere; same rows as without any buffering, and as the list semantics *)
Definition plan_nv (s1 s2 s3 s4 : list nat) : splan :=
  SResolve s1 (FPair 1)
    (SNested true
      (SResolve s2 (FInc 1) (SNested true (SResolve s3 (FPair 0) SDone) (FRep 2) FinNonEmpty SDone))
      (FRep 3) FinSum
      (SResolve s4 (FKeep 2 0) SDone)).

Example C02_nonvacuous :
  well_cloned (plan_of (plan_nv [2; 3] [5] [1; 40] [4])) /\
  same_plan (plan_of (plan_nv [2; 3] [5] [1; 40] [4])) (plan_of (plan_nv [] [] [] [])) /\
  run 200 (plan_of (plan_nv [2; 3] [5] [1; 40] [4])) [1; 2; 3; 4; 5]%Z = Good [66; 56]%Z /\
  run 200 (plan_of (plan_nv [] [] [] [])) [1; 2; 3; 4; 5]%Z = Good [66; 56]%Z /\
  denP (plan_of (plan_nv [7] [7] [7] [7])) [1; 2; 3; 4; 5]%Z = [66; 56]%Z.
Proof. vm_compute. repeat split; reflexivity. Qed.
Print Assumptions C02_nonvacuous.
