(* C03 — Evaluation is lazy: starting vertices are pulled only on demand.   LEVEL: PARTIAL.

   What is proved here (about Exec.v, the list model of execution.rs): the whole root pipeline —
   coercion, filters, plain / @optional / @recurse edge expansion, @fold (which materialises its
   elements PER CONTEXT only), output construction — is a list homomorphism in the starting
   vertices.  Hence the first k result rows are a function of the first `need k` starting vertices
   only, `need k` being computed from the per-start row counts, and no shorter prefix suffices.
   This is what makes "stop after k rows" semantically sound and it is the exact number the real
   iterator pipeline must match.

   What a theorem about lists CANNOT say: in which order the real iterators pull.  A list function
   equal to this one could still be implemented with an added `collect()` in front.  That half of the
   property ("nothing is pulled before the first row is requested", "after the k-th row exactly
   `need k` starting vertices have been pulled", "no data access after the iterator is dropped") is
   observed only at run time by the CountingAdapter of harness/src/bin/tfh_calls.rs (`c03`), which
   compares the pull counters of the real engine with `need` as computed by this model. *)
From TF Require Import Exec ExecLemmas Lazy LazyProofs.
Local Open Scope string_scope.
Local Open Scope list_scope.

(* every stage distributes over ++ of its input contexts, both ways, whenever the outcome is Ok *)
Theorem C03_compute_component_app :
  forall re g args c l1 l2 r,
    compute_component re g args c (l1 ++ l2) = Ok r ->
    exists r1 r2, compute_component re g args c l1 = Ok r1 /\
                  compute_component re g args c l2 = Ok r2 /\ r = r1 ++ r2.
Proof. exact compute_component_app. Qed.
Print Assumptions C03_compute_component_app.

Theorem C03_compute_component_app_converse :
  forall re g args c l1 l2 r1 r2,
    compute_component re g args c l1 = Ok r1 -> compute_component re g args c l2 = Ok r2 ->
    compute_component re g args c (l1 ++ l2) = Ok (r1 ++ r2).
Proof. exact compute_component_app_ok. Qed.
Print Assumptions C03_compute_component_app_converse.

(* @fold materialises per context: the fold stage is a homomorphism whatever the sub-pipeline does *)
Theorem C03_fold_materialises_per_context :
  forall re g args vs ss h sub sub_compute, homo (fold_step re g args vs ss h sub sub_compute).
Proof. exact homo_fold_step. Qed.
Print Assumptions C03_fold_materialises_per_context.

(* the result rows are the concatenation, in starting order, of the rows of each starting vertex *)
Theorem C03_interpret_is_flat_map_over_starts :
  forall re g args q rows,
    interpret re g args q = Ok rows ->
    rows = flat_map (rows_of_start re g args q) (g_starts g (q_root_name q) (q_root_params q)).
Proof. exact interpret_is_flat_map_over_starts. Qed.
Print Assumptions C03_interpret_is_flat_map_over_starts.

(* the first k rows only depend on the first `need k` starting vertices: cutting the starting-vertex
   oracle off after them gives a run that succeeds and has the same first k rows *)
Theorem C03_prefix_determinacy :
  forall re g args q rows k,
    interpret re g args q = Ok rows ->
    let starts := g_starts g (q_root_name q) (q_root_params q) in
    let n := need (start_counts re g args q starts) k in
    exists rows', interpret re (with_starts g (firstn n starts)) args q = Ok rows' /\
                  rows' = flat_map (rows_of_start re g args q) (firstn n starts) /\
                  firstn k rows = firstn k rows'.
Proof. exact prefix_determinacy. Qed.
Print Assumptions C03_prefix_determinacy.

(* ... those starting vertices do yield k rows (when k rows exist) ... *)
Theorem C03_need_is_sufficient :
  forall re g args q rows k,
    interpret re g args q = Ok rows -> (k <= List.length rows)%nat ->
    let starts := g_starts g (q_root_name q) (q_root_params q) in
    (k <= List.length (flat_map (rows_of_start re g args q)
                                (firstn (need (start_counts re g args q starts) k) starts)))%nat.
Proof. exact need_is_sufficient. Qed.
Print Assumptions C03_need_is_sufficient.

(* ... and no shorter prefix of the starting vertices does *)
Theorem C03_need_is_minimal :
  forall re g args q rows k m,
    interpret re g args q = Ok rows ->
    let starts := g_starts g (q_root_name q) (q_root_params q) in
    (m < need (start_counts re g args q starts) k)%nat ->
    (List.length (flat_map (rows_of_start re g args q) (firstn m starts)) < k)%nat.
Proof. exact need_is_minimal. Qed.
Print Assumptions C03_need_is_minimal.

Theorem C03_need_zero_rows_needs_nothing : forall counts, need counts 0 = 0%nat.
Proof. intros [|c r]; reflexivity. Qed.
Print Assumptions C03_need_zero_rows_needs_nothing.

(* non-vacuity: three starting vertices contributing 2, 0 and 1 rows; rows 1-2 need one starting
   vertex, row 3 needs all three (the second vertex is consumed without producing a row) *)
Definition c03_ds : dataset :=
  mkDS [(1%N, "Box"); (2%N, "Box"); (3%N, "Box")]
       [(1%N, [("id", I64 1%Z)]); (2%N, [("id", I64 2%Z)]); (3%N, [("id", I64 3%Z)])]
       [(1%N, [("next", [2%N; 3%N])]); (3%N, [("next", [1%N])])]
       [("Thing", [1%N; 2%N; 3%N])]
       [("Thing", ["Box"])].
Definition c03_rq : raw_query :=
  mkRQ "Thing" []
       (RComp 1%N [mkV 1%N "Thing" None []; mkV 2%N "Thing" None []]
              [mkE 1%N 1%N 2%N "next" [] false None] []
              [("a", mkCF 1%N "id" (mkTy "Int" 1%N)); ("b", mkCF 2%N "id" (mkTy "Int" 1%N))]) [].

Example C03_nonvacuous :
  match lower_query c03_rq with
  | Ok q =>
      let g := graph_of_dataset c03_ds in
      let starts := g_starts g (q_root_name q) (q_root_params q) in
      let counts := start_counts (re_table [] []) g [] q starts in
      match interpret (re_table [] []) g [] q with
      | Ok rows => List.length rows = 3%nat /\ counts = [2; 0; 1]%nat /\
                   map (need counts) [0; 1; 2; 3; 4]%nat = [0; 1; 1; 3; 3]%nat /\
                   rows_of_starts (re_table [] []) g [] q (firstn 1 starts) = Ok (firstn 2 rows)
      | Panic _ => False
      end
  | Panic _ => False
  end.
Proof. vm_compute. repeat split; reflexivity. Qed.
Print Assumptions C03_nonvacuous.
