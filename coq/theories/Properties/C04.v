(* C04 — Pruning data with the engine's query hints never changes results.
   Only statements, `exact` proofs, Print Assumptions and non-vacuity examples live here.

   Model: Hints.v (transcription of interpreter/hints/{filters,vertex_info,mod,dynamic}.rs over the
   candidate arithmetic of Cand.v, C06); semantics: Sem.v.  `f_mem c v` = value v is in candidate c.
   `holds re op v a` / `filter_passes` = the filter operator's meaning (Ops.v, C07).
   Values are well formed (`wf`: integers in range, floats finite).

   END-TO-END GOAL (DESIGN.md A.5):
     pruning_invisible : forall P admissible, sem_pruned P q = sem q      (rows as a multiset)
   where an admissible P may drop a produced vertex when a hinted property value lies outside the
   static / resolved dynamic candidate, or a mandatory edge (looked ahead up to depth 2) has no
   admissible neighbour.
   PROVED here (C04_pruning_invisible_partial / C04_pruning_by_destination_hints_invisible): the theorem
   for pruners that use the hints of the vertex BEING PRODUCED (ResolveInfo of the root for starting
   vertices, ResolveEdgeInfo::destination() for neighbours, incl. fold edges and @recurse(depth: 1)):
   static candidates and dynamic candidates other than `>=` (F10), with the tag values read from the
   row being built as Sem.v defines them; rows are equal as LISTS (same order).
   AT THE ENGINE-MODEL LEVEL (last section; uses the C01 simulation Sim*.v): the interpreter of Exec.v run
   with an adapter that prunes per context (`interpret_P`) returns the rows of the plain interpreter
   (`interpret`) for every admissible pruner, in particular the pruner built from the hints
   (C04_engine_pruning_invisible / C04_engine_pruning_by_hints_invisible; queries with @fold included,
   except folds eligible for the take(min) early termination); and the candidate `resolve()` computes on
   the engine's DataContext is the one computed from the row's tag values (C04_dyn_resolve_agrees...),
   which closes item (b) below.
   MISSING: (a) the mandatory-edge look-ahead inside the end-to-end statement - only the local facts
   are proved (what mandatory_edges_with_name lists, hints stay binding across those edges, a vertex
   without such an edge / with an empty required fold yields no row: the C04_mandatory theorems); (b) that the tag
   value `DynamicallyResolvedValue::resolve` reads from the engine's DataContext is the row's tag value
   of Sem.v (this is the C01 simulation invariant; the model's resolution on contexts is tied to the
   implementation by the correspondence run instead).

   KNOWN DEFECT: F10 - `>=` against a tag builds Range::with_end, an UPPER bound (class
   K-ge-tag-hint).  Witnesses below; the soundness theorems exclude exactly this.
   F17 (a null tag value panicked in Range::with_end/with_start / as_slice) is REPAIRED in /repo: the
   model returns Impossible there, proved sound, with regression Examples on the former witnesses. *)
From TF Require Import Ty Hints HintsProofs.
From TF Require Import Exec Sem Sim SimComp SimOut SimGen WfCheck HintsEngine.
Local Open Scope string_scope.
Local Open Scope N_scope.

(* ---------------------------------------------------------------------------------------- *)
(* candidates over-approximate operators                                                      *)
(* ---------------------------------------------------------------------------------------- *)
(* candidate_sound: for every operator that yields a candidate, every value for which the operator
   holds is a member (nr = the null_included flag given to ranges; null never satisfies a comparison) *)
Theorem C04_candidate_sound :
  forall re nr op v a k, wf v = true -> wf a = true ->
    op_cand nr op a = Some k -> holds re op v a = true -> f_mem k v = true.
Proof. exact candidate_sound. Qed.
Print Assumptions C04_candidate_sound.

(* candidate_from_statically_evaluated_filters: the intersection of the per-filter candidates minus the
   `!=` / `not_one_of` exclusions contains every value passing all variable-operand filters *)
Theorem C04_static_candidate_sound :
  forall re args, args_wf args ->
  forall fs nullable c v, wf v = true -> (nullable = false -> fv_is_null v = false) ->
    static_candidate args fs nullable = Ok (Some c) ->
    f_cand_ok c = true /\ ((forall f, In f fs -> static_passes re args f v = true) -> f_mem c v = true).
Proof. exact static_candidate_sound. Qed.
Print Assumptions C04_static_candidate_sound.

(* static_hint_sound *)
Theorem C04_static_hint_sound :
  forall re q args, args_wf args ->
  forall vi p c vtx v, wf v = true ->
    statically_required q args vi p = Ok (Some c) -> current_vertex q vi = Ok vtx ->
    nullability_respected vtx p v -> static_filters_pass re args vtx p v ->
    f_cand_ok c = true /\ f_mem c v = true.
Proof. exact static_hint_sound. Qed.
Print Assumptions C04_static_hint_sound.

(* what a DynamicallyResolvedValue is: one supported tag-operand filter of the vertex on that
   property, whose tag is inside the execution frontier, plus a sound initial candidate *)
Theorem C04_dynamic_hint_structure :
  forall re q args, args_wf args ->
  forall vi p dv vtx,
    dynamically_required q args vi p = Ok (Some dv) -> current_vertex q vi = Ok vtx ->
    non_binding vi = false /\ dv_start dv = vi_start vi /\
    (exists f, In f (v_filters vtx) /\ vf_field f = p /\ vf_op f = dv_op dv /\
               vf_arg f = Some (ATag (dv_field dv)) /\ is_dynamic_filter (vi_front vi) f = true) /\
    (forall v, wf v = true -> nullability_respected vtx p v -> static_filters_pass re args vtx p v ->
               f_cand_ok (dv_init dv) = true /\ f_mem (dv_init dv) v = true).
Proof. exact dynamic_hint_structure. Qed.
Print Assumptions C04_dynamic_hint_structure.

(* dynamic_hint_sound, outside K-ge-tag-hint: whatever the tag's value t *)
Theorem C04_dynamic_hint_sound :
  forall re q args, args_wf args ->
  forall vi p dv vtx nr t k v,
    dynamically_required q args vi p = Ok (Some dv) -> current_vertex q vi = Ok vtx ->
    dv_op dv <> GreaterThanOrEqual ->
    wf v = true -> (forall w, t = TSome w -> wf w = true) ->
    nullability_respected vtx p v -> static_filters_pass re args vtx p v ->
    filter_passes re (dv_op dv) true v (Some t) = true ->
    cand_from_op nr (dv_op dv) (dv_init dv) t = Ok k ->
    f_cand_ok k = true /\ f_mem k v = true.
Proof. exact dynamic_hint_sound. Qed.
Print Assumptions C04_dynamic_hint_sound.

(* queries outside K-ge-tag-hint never get a `>=` dynamic hint *)
Theorem C04_no_ge_tag_no_ge_hint :
  forall q args vi p dv, args_wf args -> k_ge_tag_hint q = false ->
    dynamically_required q args vi p = Ok (Some dv) -> dv_op dv <> GreaterThanOrEqual.
Proof. exact no_ge_tag_no_ge_hint. Qed.
Print Assumptions C04_no_ge_tag_no_ge_hint.

(* F10 *)
Theorem C04_dynamic_hint_ge_tag_refuted :
  exists init w v k,
    f_cand_ok init = true /\ wf w = true /\ wf v = true /\ f_mem init v = true /\
    filter_passes no_regex GreaterThanOrEqual true v (Some (TSome w)) = true /\
    cand_from_op true GreaterThanOrEqual init (TSome w) = Ok k /\ f_mem k v = false.
Proof. exact dynamic_hint_ge_tag_refuted_lemma. Qed.
Print Assumptions C04_dynamic_hint_ge_tag_refuted.

(* F10 on a compiled query and a two-vertex dataset (confirmed on the real engine: the pruning
   adapter loses the row id = 1, o2 = 2):
     query { Thing { id @tag(name: "t") @output link { id @filter(op: ">=", value: ["%t"]) @output(name: "o2") } } } *)
Theorem C04_dynamic_hint_ge_tag_refuted_on_query :
  let q := q_of rq_f10 in
  let vi := mkVI false 1 2 (FExcl 2) false false in
  let dv := mkDV 1 (FRContext (mkCF 1 "id" ty_int_nn)) GreaterThanOrEqual (CRange range_full_non_null) in
  let k := CRange (mkRange Unb (Incl (U64 1)) false) in
    lower_query rq_f10 = Ok q /\ k_ge_tag_hint q = true /\
    resolve_edge_info_destination q 1 2 1 = Ok vi /\
    dynamically_required q [] vi "id" = Ok (Some dv) /\
    dyn_resolve q (graph_of_dataset ds_f10) dv ctx_f10 = Ok k /\
    holds no_regex GreaterThanOrEqual (ds_prop ds_f10 "Thing" "id" 2) (U64 1) = true /\
    f_mem k (ds_prop ds_f10 "Thing" "id" 2) = false /\
    sem no_regex (graph_of_dataset ds_f10) [] q =
      [[("id", U64 1); ("o2", U64 2)]; [("id", U64 1); ("o2", U64 1)]; [("id", U64 2); ("o2", U64 2)]].
Proof. exact dynamic_hint_ge_tag_refuted_query. Qed.
Print Assumptions C04_dynamic_hint_ge_tag_refuted_on_query.

(* F17 (REPAIRED in /repo, commit 9aed43b): a null tag value used to panic in Range::with_end /
   with_start / as_slice.  compute_candidate_from_operation now answers Impossible for <, <=, >, >=, one_of ... *)
Theorem C04_null_tag_gives_impossible :
  forall op init, is_cmp_op op = true \/ op = OneOf -> cand_from_op true op init (TSome Null) = Ok Impossible.
Proof. exact cand_from_op_null_impossible. Qed.
Print Assumptions C04_null_tag_gives_impossible.

(* ... which is sound: against a null operand these filters hold for no value (so no value at all may
   be excluded from the candidate wrongly) *)
Theorem C04_null_tag_filter_fails :
  forall re op v, is_cmp_op op = true \/ op = OneOf -> filter_passes re op true v (Some (TSome Null)) = false.
Proof. exact null_tag_filter_fails. Qed.
Print Assumptions C04_null_tag_filter_fails.

(* resolving a context-field / imported tag never panics on a well-typed tag value (a one_of operand
   is a list or null): no class is excluded *)
Theorem C04_dynamic_hint_no_panic :
  forall op init w, f_cand_ok init = true -> wf w = true -> dyn_supported_op op = true ->
    (op = OneOf -> w = Null \/ exists l, w = List l) ->
    exists k, cand_from_op true op init (TSome w) = Ok k /\ f_cand_ok k = true.
Proof. exact dynamic_hint_no_panic. Qed.
Print Assumptions C04_dynamic_hint_no_panic.

(* regression on the former F17 witnesses *)
Example C04_dynamic_hint_null_tag_regression :
  cand_from_op true LessThan All (TSome Null) = Ok Impossible /\
  cand_from_op true GreaterThan All (TSome Null) = Ok Impossible /\
  cand_from_op true GreaterThanOrEqual All (TSome Null) = Ok Impossible /\
  cand_from_op true OneOf All (TSome Null) = Ok Impossible.
Proof. exact dynamic_hint_null_tag_regression_lemma. Qed.
Print Assumptions C04_dynamic_hint_null_tag_regression.

(*   query { Thing { score @tag(name: "t") id @output link { score @filter(op: "<", value: ["%t"]) @output(name: "o2") } } }
   with a tagged vertex that has no score: the model of resolve() returns Impossible *)
Example C04_dynamic_hint_null_tag_regression_on_query :
  let q := q_of rq_f17 in
  let vi := mkVI false 1 2 (FExcl 2) false false in
  let dv := mkDV 1 (FRContext (mkCF 1 "score" ty_int)) LessThan All in
    lower_query rq_f17 = Ok q /\
    resolve_edge_info_destination q 1 2 1 = Ok vi /\
    dynamically_required q [] vi "score" = Ok (Some dv) /\
    dyn_resolve q (graph_of_dataset ds_f10) dv ctx_f10 = Ok Impossible.
Proof. exact dynamic_hint_null_tag_regression_query. Qed.
Print Assumptions C04_dynamic_hint_null_tag_regression_on_query.

(* (for either resolution function, incl. resolve_fold_specific_field whose values are fold counts:
   no panic unless a range is bounded by null / a non-list is read as a list) *)
Theorem C04_dynamic_hint_no_panic_outside :
  forall nr op init w,
    f_cand_ok init = true -> wf w = true -> dyn_supported_op op = true ->
    k_null_tag_hint op w = false -> (op = OneOf -> w = Null \/ exists l, w = List l) ->
    exists k, cand_from_op nr op init (TSome w) = Ok k /\ f_cand_ok k = true.
Proof. exact dynamic_hint_no_panic_outside. Qed.
Print Assumptions C04_dynamic_hint_no_panic_outside.

(* ---------------------------------------------------------------------------------------- *)
(* binding / non-binding, mandatory edges                                                     *)
(* ---------------------------------------------------------------------------------------- *)
Theorem C04_non_binding_no_hints :
  forall q args vi p name, non_binding vi = true ->
    statically_required q args vi p = Ok None /\ dynamically_required q args vi p = Ok None /\
    mandatory_edges_with_name q args vi name = Ok [].
Proof. exact non_binding_no_hints. Qed.
Print Assumptions C04_non_binding_no_hints.

(* destination() of an edge being resolved binds iff the edge is neither @optional nor @recurse to
   depth >= 2; destination() of a fold being resolved always binds *)
Theorem C04_destination_binding_edge :
  forall q origin e, step_of_eid (q_comp q) (e_eid e) = Some (SEdge e) ->
    exists vi, resolve_edge_info_destination q origin (e_to e) (e_eid e) = Ok vi /\
               vi_vid vi = e_to e /\ vi_start vi = origin /\ vi_front vi = FExcl (e_to e) /\
               non_binding vi = e_optional e || match e_rec e with Some r => 2 <=? r_depth r | None => false end.
Proof. exact destination_binding_edge. Qed.
Print Assumptions C04_destination_binding_edge.

Theorem C04_destination_binding_fold :
  forall q origin h sub, step_of_eid (q_comp q) (fo_eid h) = Some (SFold h sub) ->
    exists vi, resolve_edge_info_destination q origin (fo_to h) (fo_eid h) = Ok vi /\
               vi_vid vi = fo_to h /\ vi_start vi = origin /\ vi_front vi = FExcl (fo_to h) /\ non_binding vi = false.
Proof. exact destination_binding_fold. Qed.
Print Assumptions C04_destination_binding_fold.

(* mandatory_edges_with_name lists exactly non-optional non-recursive edges and folds required to be
   non-empty, of a binding vertex; their destinations bind again, with the same frontier *)
Theorem C04_mandatory_edge_structure :
  forall q args vi name ms m,
    mandatory_edges_with_name q args vi name = Ok ms -> In m ms ->
    non_binding vi = false /\ non_binding (ei_dest m) = false /\
    vi_start (ei_dest m) = vi_start vi /\ vi_front (ei_dest m) = vi_front vi /\
    exists comp, current_component q vi = Ok comp /\
      ((exists e, In (SEdge e) (c_steps comp) /\ e_eid e = ei_eid m /\ e_from e = vi_vid vi /\ e_name e = name /\
                  e_params e = ei_params m /\ vi_vid (ei_dest m) = e_to e /\
                  e_optional e = false /\ e_rec e = None) \/
       (exists h sub, In (SFold h sub) (c_steps comp) /\ fo_eid h = ei_eid m /\ fo_from h = vi_vid vi /\
                  fo_name h = name /\ fo_params h = ei_params m /\ vi_vid (ei_dest m) = fo_to h /\
                  fold_requires_nonempty args h = Ok true)).
Proof. exact mandatory_edge_structure. Qed.
Print Assumptions C04_mandatory_edge_structure.

(* mandatory_edge_sound: in Sem, a row whose vertex has no neighbour along such an edge dies there *)
Theorem C04_mandatory_edge_no_row :
  forall re g args vs ss imported e a v fromv,
    e_optional e = false -> e_rec e = None ->
    find_vertex vs (e_from e) = Some fromv -> lookup_N (e_from e) (a_v a) = Some (Some v) ->
    g_nbrs g (v_type fromv) (e_name e) (e_params e) v = [] ->
    step_edge re g args vs ss imported e a = [].
Proof. exact mandatory_edge_no_row. Qed.
Print Assumptions C04_mandatory_edge_no_row.

(* ... and a fold reported mandatory (fold_requires_at_least_one_element) rejects the row when no
   neighbour yields an element *)
Theorem C04_mandatory_fold_no_row :
  forall re g args vs ss imported h sub_sem a v fromv,
    args_wf args -> fold_requires_nonempty args h = Ok true ->
    find_vertex vs (fo_from h) = Some fromv -> lookup_N (fo_from h) (a_v a) = Some (Some v) ->
    (forall imp, flat_map (fun n => sub_sem imp (Some n)) (g_nbrs g (v_type fromv) (fo_name h) (fo_params h) v) = []) ->
    step_fold re g args vs ss imported h sub_sem a = [].
Proof. exact mandatory_fold_no_row. Qed.
Print Assumptions C04_mandatory_fold_no_row.

(* ---------------------------------------------------------------------------------------- *)
(* pruning is invisible                                                                        *)
(* ---------------------------------------------------------------------------------------- *)
(* for ANY pruner that drops a neighbour only where that cannot matter: on a non-optional edge that is
   not recursive (or recurses to depth <= 1) when the neighbour fails the destination's entry test, on
   a fold edge when the neighbour yields no element, and a starting vertex that yields no row *)
Theorem C04_pruning_invisible_partial :
  forall re g args P q, admissible re g args P q -> sem_pruned re g args P q = sem re g args q.
Proof. exact pruning_invisible_partial. Qed.
Print Assumptions C04_pruning_invisible_partial.

(* the pruner computed from the hints of the produced vertex satisfies those conditions ... *)
Theorem C04_hint_pruner_admissible :
  forall re g args q, args_wf args -> wf_hints_query q = true ->
    (forall ty f n, wf (g_prop g ty f n) = true) ->
    (forall c vtx f n,
        subcomp c (q_comp q) -> In vtx (c_vertices c) -> In f (v_filters vtx) -> ty_nullable (vf_fty f) = false ->
        match v_from vtx with Some from => g_coerce g from (v_type vtx) n = true | None => True end ->
        fv_is_null (g_prop g (v_type vtx) (vf_field f) n) = false) ->
    admissible re g args (hint_pruner g args q) q.
Proof. exact hint_pruner_admissible. Qed.
Print Assumptions C04_hint_pruner_admissible.

(* ... hence pruning by those hints returns exactly the same rows *)
Theorem C04_pruning_by_destination_hints_invisible :
  forall re g args q, args_wf args -> wf_hints_query q = true ->
    (forall ty f n, wf (g_prop g ty f n) = true) ->
    (forall c vtx f n,
        subcomp c (q_comp q) -> In vtx (c_vertices c) -> In f (v_filters vtx) -> ty_nullable (vf_fty f) = false ->
        match v_from vtx with Some from => g_coerce g from (v_type vtx) n = true | None => True end ->
        fv_is_null (g_prop g (v_type vtx) (vf_field f) n) = false) ->
    sem_pruned re g args (hint_pruner g args q) q = sem re g args q.
Proof. exact pruning_by_destination_hints_invisible. Qed.
Print Assumptions C04_pruning_by_destination_hints_invisible.

(* non-vacuity: on the witness query of F17 (a `<` filter against a tag: a supported, non-`>=`
   dynamic hint) with the dataset of F10 given scores, the hint pruner really drops neighbours and the
   rows are those of the unpruned semantics *)
Definition ds_nv : dataset :=
  mkDS [(1, "Gadget"); (2, "Box")] [(1, [("id", U64 1); ("score", I64 5)]); (2, [("id", U64 2); ("score", I64 3)])]
       [(1, [("link", [2; 1])]); (2, [("link", [2; 1])])]
       [("Thing", [1; 2])] [("Thing", ["Box"; "Leaf"; "Gadget"])].
Example C04_pruner_prunes_and_is_invisible :
  let q := q_of rq_f17 in
  let g := graph_of_dataset ds_nv in
    wf_hints_query q = true /\
    (* at the `link` edge of the row with vertex 1 := dataset vertex 1 (score 5): neighbour 2 (score 3) is
       kept, neighbour 1 (score 5) is dropped *)
    map (pr_edge (hint_pruner g [] q) (c_vertices (q_comp q)) (c_steps (q_comp q)) []
                 (mkE 1 1 2 "link" [] false None) (Asg [(1, Some 1)] [])) [2; 1] = [true; false] /\
    sem_pruned no_regex g [] (hint_pruner g [] q) q = sem no_regex g [] q /\
    sem no_regex g [] q = [[("id", U64 1); ("o2", I64 3)]].
Proof. vm_compute. repeat split; reflexivity. Qed.
Print Assumptions C04_pruner_prunes_and_is_invisible.

(* ---------------------------------------------------------------------------------------- *)
(* the engine model (Exec.v) with a pruning adapter                                            *)
(* ---------------------------------------------------------------------------------------- *)
(* resolve() on a DataContext c = the candidate computed from the tag values (Sem.arg_value) of the
   row c stands for (asg_of c, with c's imported tags); `tag_scope_ok` is the scoping of tags in compiled
   queries (a tag defined before the component's root is imported, a fold-count tag not defined
   before the root belongs to a fold of the component) *)
Theorem C04_dyn_resolve_agrees :
  forall q g args dv c root vs ss outs cur cur_ty cand k,
    comp_at q (dv_start dv) = Ok (mkComp root vs ss outs) ->
    tag_scope_ok root vs ss (dv_field dv) ->
    (forall cf, dv_field dv = FRContext cf -> cf_vid cf <> cur) ->
    dyn_resolve q g dv c = Ok k ->
    cand_from_op (dyn_nr q dv) (dv_op dv) (dv_init dv)
      (arg_value g args vs ss (imported_tags c) (asg_of c) cur cur_ty cand (ATag (dv_field dv))) = Ok k.
Proof. exact dyn_resolve_agrees. Qed.
Print Assumptions C04_dyn_resolve_agrees.

(* for the hints of destination() of the edge being resolved: exactly the candidate hint_pruner uses *)
Theorem C04_dyn_resolve_agrees_destination :
  forall q g args e p dv vtx c n root vs ss outs k, args_wf args ->
    dynamically_required q args (dest_of_edge e) p = Ok (Some dv) ->
    current_vertex q (dest_of_edge e) = Ok vtx ->
    comp_at q (e_from e) = Ok (mkComp root vs ss outs) ->
    tag_scope_ok root vs ss (dv_field dv) ->
    dyn_resolve q g dv c = Ok k ->
    cand_from_op (dyn_nr q dv) (dv_op dv) (dv_init dv)
      (sem_tagval g args vs ss (imported_tags c) (asg_of c) n vtx (dv_field dv)) = Ok k.
Proof. exact dyn_resolve_agrees_destination. Qed.
Print Assumptions C04_dyn_resolve_agrees_destination.

(* the interpreter with a per-context pruning adapter refines the specification, for admissible
   pruners (wf_comp / wf_out / NoDup: the static hypotheses of SimFull.interpret_spec) *)
Theorem C04_interpret_P_spec :
  forall re g args P, ty_indep g -> forall q rows,
    admissible re g args P q ->
    wf_comp args [] (q_comp q) -> wf_out (q_comp q) -> NoDup (all_output_names (q_comp q)) ->
    interpret_P re g args P q = Ok rows -> Forall2 row_equiv rows (sem re g args q).
Proof. exact interpret_P_spec. Qed.
Print Assumptions C04_interpret_P_spec.

(* pruning_invisible for the engine model: same rows, same order (rows as name -> value maps) *)
Theorem C04_engine_pruning_invisible :
  forall re g args P q rows_pruned rows_plain,
    ty_indep g -> admissible re g args P q ->
    wf_comp args [] (q_comp q) -> wf_out (q_comp q) -> NoDup (all_output_names (q_comp q)) ->
    interpret_P re g args P q = Ok rows_pruned -> interpret re g args q = Ok rows_plain ->
    Forall2 row_equiv rows_pruned rows_plain.
Proof. exact engine_pruning_invisible. Qed.
Print Assumptions C04_engine_pruning_invisible.

(* ... with the adapter pruning by the hints of the vertex being produced (outside K-ge-tag-hint); static side conditions as the
   computable test WfCheck.spec_hyps *)
Theorem C04_engine_pruning_by_hints_invisible :
  forall re g args q rows_pruned rows_plain,
    ty_indep g -> args_wf args -> wf_hints_query q = true -> spec_hyps args q = true ->
    (forall ty f n, wf (g_prop g ty f n) = true) ->
    (forall c vtx f n,
        subcomp c (q_comp q) -> In vtx (c_vertices c) -> In f (v_filters vtx) -> ty_nullable (vf_fty f) = false ->
        match v_from vtx with Some from => g_coerce g from (v_type vtx) n = true | None => True end ->
        fv_is_null (g_prop g (v_type vtx) (vf_field f) n) = false) ->
    interpret_P re g args (hint_pruner g args q) q = Ok rows_pruned -> interpret re g args q = Ok rows_plain ->
    Forall2 row_equiv rows_pruned rows_plain.
Proof. exact engine_pruning_by_hints_invisible_checked. Qed.
Print Assumptions C04_engine_pruning_by_hints_invisible.

(* the fold-free fragment needs no static hypothesis beyond recursion depths >= 1 (edges_only) *)
Theorem C04_engine_pruning_invisible_fold_free :
  forall re g args P q rows_pruned rows_plain,
    ty_indep g -> edges_only (c_steps (q_comp q)) = true ->
    admissible re g args P q ->
    interpret_P re g args P q = Ok rows_pruned -> interpret re g args q = Ok rows_plain ->
    Forall2 row_equiv rows_pruned rows_plain.
Proof. exact engine_pruning_invisible_fold_free. Qed.
Print Assumptions C04_engine_pruning_invisible_fold_free.

(* non-vacuity: both interpreters return on the F17 query (dynamic `<` hint; ds_nv) and on the F11a
   query (a @fold whose elements are pruned by a dynamic `=` hint on an imported tag), the side
   conditions hold, and the rows coincide *)
Definition ds_fold : dataset :=
  mkDS [(1, "Gadget"); (2, "Box")] [(1, [("id", U64 1); ("name", Str "a")]); (2, [("id", U64 2); ("name", Str "b")])]
       [(1, [("link", [2; 1])]); (2, [("link", [2; 1])])]
       [("Thing", [1; 2])] [("Thing", ["Box"; "Leaf"; "Gadget"])].
Example C04_engine_runs_agree :
  (let q := q_of rq_f17 in let g := graph_of_dataset ds_nv in
   spec_hyps [] q = true /\ wf_hints_query q = true /\
   interpret_P no_regex g [] (hint_pruner g [] q) q = Ok [[("id", U64 1); ("o2", I64 3)]] /\
   interpret no_regex g [] q = Ok [[("id", U64 1); ("o2", I64 3)]]) /\
  (let q := q_of rq_f11a in let g := graph_of_dataset ds_fold in
   spec_hyps [] q = true /\ wf_hints_query q = true /\
   (* the fold edge of the row with vertex 1 := dataset vertex 1 (name "a"): neighbour 2 ("b") is dropped *)
   map (pr_fold (hint_pruner g [] q) (c_vertices (q_comp q)) (c_steps (q_comp q)) []
                (mkFH 1 1 2 "link" [] [FRContext (mkCF 1 "name" ty_str)] [] []) (Asg [(1, Some 1)] [])) [2; 1] = [false; true] /\
   interpret_P no_regex g [] (hint_pruner g [] q) q = interpret no_regex g [] q /\
   interpret no_regex g [] q = Ok [[("id", U64 1); ("ids", List [U64 1])]; [("id", U64 2); ("ids", List [U64 2])]]).
Proof. vm_compute. repeat split; reflexivity. Qed.
Print Assumptions C04_engine_runs_agree.
