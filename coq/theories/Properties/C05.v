(* C05 — Required-properties hints list every property the engine will request.
   Only statements, `exact` proofs, Print Assumptions and non-vacuity examples live here.

   Model: Hints.v.  `required_of q vid` is `VertexInfo::required_properties` of any info object for
   vertex `vid` (it depends on the vid only; tied to the implementation per vid on every run).
   `property_requests q` is the static list of every (vid, property) the engine can pass to
   `Adapter::resolve_property` while running q: filters' left operands, tag operands computed through
   `compute_context_field_with_separate_value` / the local-field shortcut, imported tags (resolved at
   fold entry in the PARENT component), tag operands of fold-count filters, fold outputs and root
   outputs.  Every run of the check compares it (and the model's own call log, `Hints.trace_query`)
   with the calls the real engine makes.

   STATEMENT (now proved for all well-formed compiled queries):
     forall q r, wf_hints_query q = true -> In r (property_requests q) ->
       snd r = "__typename" \/ In (snd r) (required_of q (fst r)).
   It used to be false (defect F11: `required_properties`' third clause scans only the vertex filters of
   the vertex' own component, so a property needed only as a tag imported into a @fold, or only as the
   tag operand of a fold-count filter, was resolved but not listed).  F11 is REPAIRED in /repo (commit
   45c56fc: a fourth clause lists, per fold of the component, the imported context-field tags and the
   fold-count-filter tag operands pointing at the vertex); the former refutation witnesses are kept as
   regression Examples, and the two former classes are proved empty. *)
From TF Require Import Hints HintsProofs.
Local Open Scope string_scope.
Local Open Scope N_scope.

(* every possible request is listed (even without the __typename escape) *)
Theorem C05_requested_subset_required_all :
  forall q, wf_hints_query q = true ->
    forall r, In r (property_requests q) -> In (snd r) (required_of q (fst r)).
Proof. exact requested_subset_required_all. Qed.
Print Assumptions C05_requested_subset_required_all.

(* the statement as worded in the property *)
Theorem C05_requested_subset_required_unconditional :
  forall q, wf_hints_query q = true ->
    forall r, In r (property_requests q) -> snd r = "__typename" \/ In (snd r) (required_of q (fst r)).
Proof. exact requested_subset_required_unconditional. Qed.
Print Assumptions C05_requested_subset_required_unconditional.

(* the former conditional forms (kept; their class hypotheses are not needed any more) *)
Theorem C05_requested_subset_required_outside_known :
  forall q, wf_hints_query q = true ->
    k_imported_tag_not_required q = false -> k_count_filter_tag_not_required q = false ->
    forall r, In r (property_requests q) -> In (snd r) (required_of q (fst r)).
Proof. exact requested_subset_required_outside. Qed.
Print Assumptions C05_requested_subset_required_outside_known.

Theorem C05_requested_subset_required :
  forall q, wf_hints_query q = true ->
    k_imported_tag_not_required q = false -> k_count_filter_tag_not_required q = false ->
    forall r, In r (property_requests q) -> snd r = "__typename" \/ In (snd r) (required_of q (fst r)).
Proof. exact requested_subset_required. Qed.
Print Assumptions C05_requested_subset_required.

(* the two former known classes (K-imported-tag-not-required, K-count-filter-tag-not-required) are empty *)
Theorem C05_f11_classes_empty :
  forall q, wf_hints_query q = true ->
    k_imported_tag_not_required q = false /\ k_count_filter_tag_not_required q = false.
Proof. exact f11_classes_empty. Qed.
Print Assumptions C05_f11_classes_empty.

(* the model of the engine (Exec.v's interpreter threaded with the log of adapter calls,
   Hints.trace_query; tied to the real engine's calls on every run) only ever requests pairs of the
   static list ... *)
Theorem C05_logged_requests_are_listed :
  forall re g args q rows evs, trace_query re g args q = Ok (rows, evs) ->
    forall v p, In (EProp v p) evs -> In (v, p) (property_requests q).
Proof. exact trace_query_requests_listed. Qed.
Print Assumptions C05_logged_requests_are_listed.

(* ... hence every resolve_property call of a run is listed *)
Theorem C05_run_requests_required_all :
  forall re g args q rows evs, wf_hints_query q = true ->
    trace_query re g args q = Ok (rows, evs) ->
    forall v p, In (EProp v p) evs -> In p (required_of q v).
Proof. exact run_requests_required_all. Qed.
Print Assumptions C05_run_requests_required_all.

Theorem C05_run_requests_required :
  forall re g args q rows evs, wf_hints_query q = true ->
    k_imported_tag_not_required q = false -> k_count_filter_tag_not_required q = false ->
    trace_query re g args q = Ok (rows, evs) ->
    forall v p, In (EProp v p) evs -> In p (required_of q v).
Proof. exact run_requests_required. Qed.
Print Assumptions C05_run_requests_required.

(* regression on the former F11 witness, first class: a tag imported into a @fold.
     query { Thing { name @tag(name: "t") id @output
                     link @fold { name @filter(op: "=", value: ["%t"]) id @output(name: "ids") } } }
   the engine resolves `name` at vertex 1 when entering the fold; required_properties(1) is now [id, name]. *)
Example C05_imported_tag_regression :
  let q := q_of rq_f11a in
    lower_query rq_f11a = Ok q /\ wf_hints_query q = true /\
    existsb (pair_eqb (1, "name")) (property_requests q) = true /\
    has_request (trace_query no_regex (graph_of_dataset ds_f10) [] q) 1 "name" = true /\
    required_of q 1 = ["id"; "name"] /\ k_imported_tag_not_required q = false.
Proof. exact requested_subset_required_imported_regression. Qed.
Print Assumptions C05_imported_tag_regression.

(* regression, second class: the tag operand of a fold-count filter.
     query { Thing { score @tag(name: "t") id @output
                     link @fold @transform(op: "count") @filter(op: ">=", value: ["%t"]) { id @output(name: "ids") } } } *)
Example C05_count_filter_tag_regression :
  let q := q_of rq_f11b in
    lower_query rq_f11b = Ok q /\ wf_hints_query q = true /\
    existsb (pair_eqb (1, "score")) (property_requests q) = true /\
    has_request (trace_query no_regex (graph_of_dataset ds_f10) [] q) 1 "score" = true /\
    required_of q 1 = ["id"; "score"] /\ k_count_filter_tag_not_required q = false.
Proof. exact requested_subset_required_count_tag_regression. Qed.
Print Assumptions C05_count_filter_tag_regression.

(* non-vacuity: a query with a tag used in the same component and outputs satisfies the hypothesis,
   makes requests, and they are all listed *)
Example C05_hypotheses_satisfiable :
  let q := q_of rq_f10 in
    wf_hints_query q = true /\ k_imported_tag_not_required q = false /\
    k_count_filter_tag_not_required q = false /\
    property_requests q = [(2, "id"); (1, "id"); (1, "id"); (2, "id")] /\
    required_of q 1 = ["id"] /\ required_of q 2 = ["id"].
Proof. vm_compute. repeat split; reflexivity. Qed.
Print Assumptions C05_hypotheses_satisfiable.
