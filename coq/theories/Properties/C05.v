(* C05 — Required-properties hints list every property the engine will request.
   Only statements, `exact` proofs, Print Assumptions and non-vacuity examples live here.

   Model: Hints.v.  `required_of q vid` is `VertexInfo::required_properties` of any info object for
   vertex `vid` (it depends on the vid only; tied to the implementation per vid on every run).
   `property_requests q` is the static list of every (vid, property) the engine can pass to
   `Adapter::resolve_property` while running q: filters' left operands, tag operands computed through
   `compute_context_field_with_separate_value` / the local-field shortcut, imported tags (resolved at
   fold entry in the PARENT component), tag operands of fold-count filters, fold outputs and root
   outputs.  Every run of the check compares it (and the model's own call log, `Hints.trace_query`)
   with the calls the real engine makes.

   FULL STATEMENT (false of the code as it is, defect F11):
     forall q r, wf_hints_query q = true -> In r (property_requests q) ->
       snd r = "__typename" \/ In (snd r) (required_of q (fst r)).
   `required_properties`' third clause scans only the vertex filters of the vertex' own component, so a
   property needed only as a tag imported into a @fold, or only as the tag operand of a fold-count
   filter, is resolved but not listed.  Witnesses below; the theorem is proved outside the two classes
   (and then even without the `__typename` escape). *)
From TF Require Import Hints HintsProofs.
Local Open Scope string_scope.
Local Open Scope N_scope.

(* outside K-imported-tag-not-required and K-count-filter-tag-not-required, every possible request
   is listed *)
Theorem C05_requested_subset_required_outside_known :
  forall q, wf_hints_query q = true ->
    k_imported_tag_not_required q = false -> k_count_filter_tag_not_required q = false ->
    forall r, In r (property_requests q) -> In (snd r) (required_of q (fst r)).
Proof. exact requested_subset_required_outside. Qed.
Print Assumptions C05_requested_subset_required_outside_known.

(* the statement as worded in the property (with the __typename escape) *)
Theorem C05_requested_subset_required :
  forall q, wf_hints_query q = true ->
    k_imported_tag_not_required q = false -> k_count_filter_tag_not_required q = false ->
    forall r, In r (property_requests q) -> snd r = "__typename" \/ In (snd r) (required_of q (fst r)).
Proof. exact requested_subset_required. Qed.
Print Assumptions C05_requested_subset_required.

(* the model of the engine (Exec.v's interpreter threaded with the log of adapter calls,
   Hints.trace_query; tied to the real engine's calls on every run) only ever requests pairs of the
   static list ... *)
Theorem C05_logged_requests_are_listed :
  forall re g args q rows evs, trace_query re g args q = Ok (rows, evs) ->
    forall v p, In (EProp v p) evs -> In (v, p) (property_requests q).
Proof. exact trace_query_requests_listed. Qed.
Print Assumptions C05_logged_requests_are_listed.

(* ... hence, outside the classes, every resolve_property call of a run is listed *)
Theorem C05_run_requests_required :
  forall re g args q rows evs, wf_hints_query q = true ->
    k_imported_tag_not_required q = false -> k_count_filter_tag_not_required q = false ->
    trace_query re g args q = Ok (rows, evs) ->
    forall v p, In (EProp v p) evs -> In p (required_of q v).
Proof. exact run_requests_required. Qed.
Print Assumptions C05_run_requests_required.

(* F11, first class: a tag imported into a @fold.
     query { Thing { name @tag(name: "t") id @output
                     link @fold { name @filter(op: "=", value: ["%t"]) id @output(name: "ids") } } }
   the engine resolves `name` at vertex 1 when entering the fold; required_properties(1) = [id]. *)
Theorem C05_requested_subset_required_imported_refuted :
  let q := q_of rq_f11a in
    lower_query rq_f11a = Ok q /\ wf_hints_query q = true /\
    existsb (pair_eqb (1, "name")) (property_requests q) = true /\ mem_str "name" (required_of q 1) = false /\
    k_imported_tag_not_required q = true /\ k_count_filter_tag_not_required q = false /\
    has_request (trace_query no_regex (graph_of_dataset ds_f10) [] q) 1 "name" = true.
Proof. exact requested_subset_required_imported_refuted. Qed.
Print Assumptions C05_requested_subset_required_imported_refuted.

(* F11, second class: the tag operand of a fold-count filter.
     query { Thing { score @tag(name: "t") id @output
                     link @fold @transform(op: "count") @filter(op: ">=", value: ["%t"]) { id @output(name: "ids") } } } *)
Theorem C05_requested_subset_required_count_tag_refuted :
  let q := q_of rq_f11b in
    lower_query rq_f11b = Ok q /\ wf_hints_query q = true /\
    existsb (pair_eqb (1, "score")) (property_requests q) = true /\ mem_str "score" (required_of q 1) = false /\
    k_count_filter_tag_not_required q = true /\ k_imported_tag_not_required q = false /\
    has_request (trace_query no_regex (graph_of_dataset ds_f10) [] q) 1 "score" = true.
Proof. exact requested_subset_required_count_tag_refuted. Qed.
Print Assumptions C05_requested_subset_required_count_tag_refuted.

(* non-vacuity: a query with a tag used in the same component, a fold with outputs and an output
   satisfies the hypotheses, makes requests, and they are all listed *)
Example C05_hypotheses_satisfiable :
  let q := q_of rq_f10 in
    wf_hints_query q = true /\ k_imported_tag_not_required q = false /\
    k_count_filter_tag_not_required q = false /\
    property_requests q = [(2, "id"); (1, "id"); (1, "id"); (2, "id")] /\
    required_of q 1 = ["id"] /\ required_of q 2 = ["id"].
Proof. vm_compute. repeat split; reflexivity. Qed.
Print Assumptions C05_hypotheses_satisfiable.
