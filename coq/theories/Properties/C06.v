From TF Require Import Values ValuesProofs Cand CandProofs.
