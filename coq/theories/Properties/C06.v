(* C06 — Candidate-value intersection and exclusion are exact set operations.
   Only statements, `exact` proofs, Print Assumptions and non-vacuity examples live here.

   Model: Cand.v (transcription of interpreter/hints/candidates.rs).  `mem c x` is the set
   denotation of a candidate (Impossible = {}, Single v = {x | x == v}, Multiple l = {x | l.contains(x)},
   Range r = {x | r.contains(x)}, All = everything).  `wf_cand` says range bounds are not null —
   exactly what Range::new / with_start / with_end assert.  The transcribed functions return
   `res`: `Panic` models assert! / debug_assert! / unreachable! / expect. *)
From TF Require Import Values ValuesProofs Cand CandProofs.
Open Scope Z_scope.

(* ------------------------------------------------------------------------------------------ *)
(* A. Over ANY carrier whose partial_cmp is a total preorder comparator consistent with ==,   *)
(*    and whose is_null is `== T::default()` (carrier_laws).                                  *)
(* ------------------------------------------------------------------------------------------ *)

(* intersect yields exactly the values (including null) contained in both *)
Theorem C06_generic_intersect_exact :
  forall T eqb cmp is_null null, @carrier_laws T eqb cmp is_null null ->
  forall a b c x, wf_cand is_null a = true -> wf_cand is_null b = true ->
    intersect eqb cmp is_null null a b = Ok c ->
    mem eqb cmp is_null c x = mem eqb cmp is_null a x && mem eqb cmp is_null b x.
Proof. exact g_mem_intersect. Qed.
Print Assumptions C06_generic_intersect_exact.

(* normalize never changes which values a candidate contains *)
Theorem C06_generic_normalize_exact :
  forall T eqb cmp is_null null, @carrier_laws T eqb cmp is_null null ->
  forall a c x, wf_cand is_null a = true -> normalize eqb cmp null a = Ok c ->
    mem eqb cmp is_null c x = mem eqb cmp is_null a x.
Proof. exact g_mem_normalize. Qed.
Print Assumptions C06_generic_normalize_exact.

(* excluding a value yields a subset of the original ... *)
Theorem C06_generic_exclude_sub :
  forall T eqb cmp is_null null, @carrier_laws T eqb cmp is_null null ->
  forall a v c x, wf_cand is_null a = true -> exclude eqb cmp is_null null a v = Ok c ->
    mem eqb cmp is_null c x = true -> mem eqb cmp is_null a x = true.
Proof. exact g_exclude_sub. Qed.
Print Assumptions C06_generic_exclude_sub.

(* ... that still contains everything else the original contained *)
Theorem C06_generic_exclude_sup :
  forall T eqb cmp is_null null, @carrier_laws T eqb cmp is_null null ->
  forall a v c x, wf_cand is_null a = true -> exclude eqb cmp is_null null a v = Ok c ->
    mem eqb cmp is_null a x = true -> eqb x v = false -> mem eqb cmp is_null c x = true.
Proof. exact g_exclude_sup. Qed.
Print Assumptions C06_generic_exclude_sup.

(* no panic (neither the debug_assert!s, nor unreachable!, nor expect, nor the model's fuel) on
   well-formed inputs; well-formedness and any per-value invariant P are preserved.  No order
   laws are needed for these. *)
Theorem C06_generic_intersect_total :
  forall T eqb cmp is_null null (P : T -> bool), P null = true ->
  forall a b, wf_cand is_null a = true -> wf_cand is_null b = true ->
    exists c, intersect eqb cmp is_null null a b = Ok c /\ wf_cand is_null c = true /\
              (cand_all P P a = true -> cand_all P P b = true -> cand_all P P c = true).
Proof. exact intersect_total. Qed.
Print Assumptions C06_generic_intersect_total.

Theorem C06_generic_normalize_total :
  forall T eqb cmp is_null null (P : T -> bool), P null = true ->
  forall a, exists c, normalize eqb cmp null a = Ok c /\
              (wf_cand is_null a = true -> wf_cand is_null c = true) /\
              (cand_all P P a = true -> cand_all P P c = true).
Proof. exact normalize_total. Qed.
Print Assumptions C06_generic_normalize_total.

Theorem C06_generic_exclude_total :
  forall T eqb cmp is_null null (P : T -> bool), P null = true ->
  forall a v, exists c, exclude eqb cmp is_null null a v = Ok c /\
              (wf_cand is_null a = true -> wf_cand is_null c = true) /\
              (cand_all P P a = true -> cand_all P P c = true).
Proof. exact exclude_total. Qed.
Print Assumptions C06_generic_exclude_total.

(* the hypotheses of part A are satisfiable: FieldValue's total comparator satisfies them (C08) *)
Theorem C06_fv_satisfies_carrier_laws : carrier_laws eqT cmpT fv_is_null Null.
Proof. exact fv_laws. Qed.
Print Assumptions C06_fv_satisfies_carrier_laws.

(* ------------------------------------------------------------------------------------------ *)
(* B. Closed theorems about the FieldValue instance that the correspondence run ties to the   *)
(*    implementation (f_intersect etc. use the transcribed fv_eq / fv_cmp).                   *)
(*    f_cand_ok c = range bounds non-null (Range::new) && every value well-formed (Values.wf: *)
(*    integers in range, floats finite).                                                      *)
(* ------------------------------------------------------------------------------------------ *)
Theorem C06_intersect_total :
  forall a b, f_cand_ok a = true -> f_cand_ok b = true ->
    exists c, f_intersect a b = Ok c /\ f_cand_ok c = true.
Proof. exact f_intersect_total. Qed.
Print Assumptions C06_intersect_total.

Theorem C06_mem_intersect :
  forall a b c x, f_cand_ok a = true -> f_cand_ok b = true -> wf x = true ->
    f_intersect a b = Ok c -> f_mem c x = f_mem a x && f_mem b x.
Proof. exact f_mem_intersect. Qed.
Print Assumptions C06_mem_intersect.

Theorem C06_normalize_total :
  forall a, exists c, f_normalize a = Ok c /\ (f_cand_ok a = true -> f_cand_ok c = true).
Proof. exact f_normalize_total. Qed.
Print Assumptions C06_normalize_total.

Theorem C06_mem_normalize :
  forall a c x, f_cand_ok a = true -> wf x = true -> f_normalize a = Ok c -> f_mem c x = f_mem a x.
Proof. exact f_mem_normalize. Qed.
Print Assumptions C06_mem_normalize.

Theorem C06_exclude_total :
  forall a v, exists c, f_exclude a v = Ok c /\ (f_cand_ok a = true -> f_cand_ok c = true).
Proof. exact f_exclude_total. Qed.
Print Assumptions C06_exclude_total.

Theorem C06_exclude_sub :
  forall a v c x, f_cand_ok a = true -> wf v = true -> wf x = true ->
    f_exclude a v = Ok c -> f_mem c x = true -> f_mem a x = true.
Proof. exact f_exclude_sub. Qed.
Print Assumptions C06_exclude_sub.

(* (the property does not ask for v itself to be removed: ranges over-approximate) *)
Theorem C06_exclude_sup :
  forall a v c x, f_cand_ok a = true -> wf v = true -> wf x = true ->
    f_exclude a v = Ok c -> f_mem a x = true -> eq_t x v = false -> f_mem c x = true.
Proof. exact f_exclude_sup. Qed.
Print Assumptions C06_exclude_sup.

(* Range::intersect / contains / degenerate *)
Theorem C06_range_intersect_exact :
  forall a b x, wf_range fv_is_null a = true -> wf_range fv_is_null b = true ->
    range_vals_wf a = true -> range_vals_wf b = true -> wf x = true ->
    exists r, f_range_intersect a b = Ok r /\ wf_range fv_is_null r = true /\ range_vals_wf r = true /\
              f_contains r x = f_contains a x && f_contains b x.
Proof. exact f_range_intersect_exact. Qed.
Print Assumptions C06_range_intersect_exact.

Theorem C06_degenerate_contains_no_non_null :
  forall r x, range_vals_wf r = true -> wf x = true ->
    f_degenerate r = true -> fv_is_null x = false -> f_contains r x = false.
Proof. exact f_degenerate_no_non_null. Qed.
Print Assumptions C06_degenerate_contains_no_non_null.

(* Range::new panics exactly when a bound value is null; otherwise it builds the range as given *)
Theorem C06_range_new_panics_iff_null_bound :
  forall s e n, f_range_new s e n =
    if bound_not_null fv_is_null s && bound_not_null fv_is_null e
    then Ok (mkRange s e n) else Panic "candidates.rs:assert cannot bound range with null value".
Proof. exact f_range_new_spec. Qed.
Print Assumptions C06_range_new_panics_iff_null_bound.

(* ------------------------------------------------------------------------------------------ *)
(* non-vacuity: concrete well-formed candidates with mixed I64/U64 bounds, null inclusion,    *)
(* strings; the hypotheses hold and the operations compute non-trivial results                *)
(* ------------------------------------------------------------------------------------------ *)
Example C06_nonvacuous_ranges :
  let a := CRange (mkRange (Incl (I64 (-1))) (Excl (U64 9223372036854775808)) true) in
  let b := CRange (mkRange (Excl (U64 0)) Unb false) in
  f_cand_ok a = true /\ f_cand_ok b = true /\
  f_intersect a b = Ok (CRange (mkRange (Excl (U64 0)) (Excl (U64 9223372036854775808)) false)) /\
  f_mem a (I64 0) = true /\ f_mem b (I64 0) = false /\
  f_mem a (U64 9223372036854775807) = true /\ f_mem b (I64 9223372036854775807) = true /\
  f_mem a Null = true /\ f_mem b Null = false /\
  (* point-like range with null: Included(I64 1)..=Included(U64 1) *)
  f_normalize (CRange (mkRange (Incl (I64 1)) (Incl (U64 1)) true)) = Ok (Multiple [Null; I64 1]) /\
  (* degenerate with null -> Single(null); without -> Impossible *)
  f_normalize (CRange (mkRange (Excl (Str "a")) (Excl (Str "a")) true)) = Ok (Single Null) /\
  f_normalize (CRange (mkRange (Incl (U64 2)) (Incl (I64 1)) false)) = Ok Impossible /\
  f_normalize (CRange (mkRange Unb Unb true)) = Ok All.
Proof. vm_compute. repeat split. Qed.
Print Assumptions C06_nonvacuous_ranges.

Example C06_nonvacuous_discrete :
  let m := Multiple [Null; Str "a"; I64 1; U64 1; Str "b"] in
  let r := CRange (mkRange (Incl (Str "")) (Excl (Str "b")) true) in
  f_cand_ok m = true /\ f_cand_ok r = true /\ wf (Str "a") = true /\
  f_intersect m r = Ok (Multiple [Null; Str "a"]) /\
  f_intersect r m = Ok (Multiple [Null; Str "a"]) /\
  f_intersect m (Single (U64 1)) = Ok (Single (U64 1)) /\
  f_intersect (Single (I64 1)) m = Ok (Single (I64 1)) /\
  f_exclude m (U64 1) = Ok (Multiple [Null; Str "a"; Str "b"]) /\
  f_exclude (CRange (mkRange (Incl (I64 0)) (Incl (U64 5)) true)) (U64 0)
    = Ok (CRange (mkRange (Excl (I64 0)) (Incl (U64 5)) true)) /\
  f_exclude All Null = Ok (CRange (mkRange Unb Unb false)) /\
  f_exclude (CRange (mkRange (Incl (I64 3)) (Incl (I64 3)) true)) (I64 3) = Ok (Single Null) /\
  f_range_new (Incl Null) Unb true = Panic "candidates.rs:assert cannot bound range with null value" /\
  f_range_new (Incl (I64 1)) (Excl (Str "x")) false = Ok (mkRange (Incl (I64 1)) (Excl (Str "x")) false).
Proof. vm_compute. repeat split. Qed.
Print Assumptions C06_nonvacuous_discrete.
