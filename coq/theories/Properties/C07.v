(* C07 — Filter operators decide exactly their mathematical definition.
   Only statements, `exact` proofs, Print Assumptions and non-vacuity examples live here.
   Model: Ops.v (transcription of interpreter/filtering.rs); definitions: OpsSpec.v; proofs: OpsProofs.v. *)
From TF Require Import Values ValuesProofs Ops OpsSpec OpsProofs.
Open Scope Z_scope.

(* ---------- equality: null-safe, numeric across signedness, element-wise on lists ---------- *)
Theorem C07_equals_spec : forall a b, wf a = true -> wf b = true -> equals a b = Ok (eqT a b).
Proof. exact equals_ok. Qed.
Print Assumptions C07_equals_spec.

(* ---------- ordering on integers: numeric on Z for all 2^128 pairs of either signedness
   (no well-formedness hypothesis is even needed) ---------- *)
Theorem C07_lt_ints : forall l r a b, int_val l = Some a -> int_val r = Some b -> less_than l r = Ok (a <? b).
Proof. exact lt_ints. Qed.
Print Assumptions C07_lt_ints.

Theorem C07_le_ints : forall l r a b, int_val l = Some a -> int_val r = Some b -> less_than_or_equal l r = Ok (a <=? b).
Proof. exact le_ints. Qed.
Print Assumptions C07_le_ints.

Theorem C07_gt_ints : forall l r a b, int_val l = Some a -> int_val r = Some b -> greater_than l r = Ok (b <? a).
Proof. exact gt_ints. Qed.
Print Assumptions C07_gt_ints.

Theorem C07_ge_ints : forall l r a b, int_val l = Some a -> int_val r = Some b -> greater_than_or_equal l r = Ok (b <=? a).
Proof. exact ge_ints. Qed.
Print Assumptions C07_ge_ints.

(* ---------- strings: byte-wise lexicographic; finite floats: order of the keys ---------- *)
Theorem C07_cmp_strings : forall o s t, cmp_fn o (Str s) (Str t) = Ok (ord_op o (String.compare s t)).
Proof. exact cmp_strs. Qed.
Print Assumptions C07_cmp_strings.

Theorem C07_string_compare_is_lexicographic : forall s t,
  (String.compare s t = Lt <-> str_lt s t) /\ (String.compare s t = Eq <-> s = t) /\ (String.compare s t = Gt <-> str_lt t s).
Proof. exact string_compare_lex. Qed.
Print Assumptions C07_string_compare_is_lexicographic.

Theorem C07_cmp_floats : forall o a b, f64_finite a = true -> f64_finite b = true ->
  cmp_fn o (F64 a) (F64 b) = Ok (z_op o (f64_key a) (f64_key b)).
Proof. exact cmp_floats. Qed.
Print Assumptions C07_cmp_floats.

(* ---------- comparisons involving null are false ---------- *)
Theorem C07_cmp_null_left : forall o r, cmp_fn o Null r = Ok false.
Proof. exact cmp_null_l. Qed.
Print Assumptions C07_cmp_null_left.

Theorem C07_cmp_null_right : forall o l, cmp_fn o l Null = Ok false.
Proof. exact cmp_null_r. Qed.
Print Assumptions C07_cmp_null_right.

(* ---------- uniform: on its domain each of <, <=, >, >= decides spec_cmp ---------- *)
Theorem C07_cmp_spec : forall o l r, wf l = true -> wf r = true -> cmp_defined l r = true ->
  exists b, cmp_fn o l r = Ok b /\ (b = true <-> spec_cmp o l r).
Proof. exact cmp_spec. Qed.
Print Assumptions C07_cmp_spec.

(* ---------- the slow-path unreachable! arms ----------
   Full statement one would like (what the frontend's Type::is_orderable promises, lists included):
     forall o l r, wf l -> wf r -> (operands_orderable l r  \/  both (nested) lists of orderable scalars)
       -> exists b, cmp_fn o l r = Ok b.
   It is FALSE for lists (finding F5, class K-list-ordering): see C07_cmp_lists_refuted.
   Proved: exact characterisation of the panicking pairs, and the property on the complement. *)
Theorem C07_cmp_unreachable_unreachable : forall o l r, operands_orderable l r = true -> exists b, cmp_fn o l r = Ok b.
Proof. exact cmp_no_panic_on_orderable. Qed.
Print Assumptions C07_cmp_unreachable_unreachable.

Theorem C07_cmp_panics_exactly_outside_domain : forall o l r,
  (exists s, cmp_fn o l r = Panic s) <-> cmp_defined l r = false.
Proof. exact cmp_panics_iff. Qed.
Print Assumptions C07_cmp_panics_exactly_outside_domain.

Theorem C07_cmp_list_operand_panics : forall o l x, is_null x = false ->
  (exists s, cmp_fn o (List l) x = Panic s) /\ (exists s, cmp_fn o x (List l) = Panic s).
Proof. exact cmp_list_panics. Qed.
Print Assumptions C07_cmp_list_operand_panics.

Theorem C07_cmp_lists_refuted :
  exists o l r, wf l = true /\ wf r = true /\ orderable_list_value l = true /\ orderable_list_value r = true /\
                exists s, cmp_fn o l r = Panic s.
Proof. exact cmp_never_panics_on_frontend_accepted_refuted. Qed.
Print Assumptions C07_cmp_lists_refuted.

(* ---------- string operators ---------- *)
Theorem C07_has_prefix_spec : forall l r, has_prefix (Str l) (Str r) = Ok (str_starts_with l r) /\
  (str_starts_with l r = true <-> is_prefix_of r l).
Proof. exact has_prefix_spec. Qed.
Print Assumptions C07_has_prefix_spec.

Theorem C07_has_suffix_spec : forall l r, has_suffix (Str l) (Str r) = Ok (str_ends_with l r) /\
  (str_ends_with l r = true <-> is_suffix_of r l).
Proof. exact has_suffix_spec. Qed.
Print Assumptions C07_has_suffix_spec.

Theorem C07_has_substring_spec : forall l r, has_substring (Str l) (Str r) = Ok (str_contains l r) /\
  (str_contains l r = true <-> is_substring_of r l).
Proof. exact has_substring_spec. Qed.
Print Assumptions C07_has_substring_spec.

Theorem C07_string_ops_null : forall l r, str_or_null l = true -> str_or_null r = true ->
  is_null l = true \/ is_null r = true ->
  has_prefix l r = Ok false /\ has_suffix l r = Ok false /\ has_substring l r = Ok false.
Proof. exact string_ops_null. Qed.
Print Assumptions C07_string_ops_null.

Theorem C07_string_ops_domain : forall l r,
  ((exists s, has_prefix l r = Panic s) <-> str_or_null l && str_or_null r = false) /\
  ((exists s, has_suffix l r = Panic s) <-> str_or_null l && str_or_null r = false) /\
  ((exists s, has_substring l r = Panic s) <-> str_or_null l && str_or_null r = false).
Proof. exact string_ops_domain. Qed.
Print Assumptions C07_string_ops_domain.

(* ---------- one_of / contains: membership up to value equality ---------- *)
Theorem C07_one_of_spec : forall l v, wf l = true -> forallb wf v = true ->
  exists b, one_of l (List v) = Ok b /\ (b = true <-> member l v).
Proof. exact one_of_spec. Qed.
Print Assumptions C07_one_of_spec.

Theorem C07_one_of_null : forall l, one_of l Null = Ok false.
Proof. exact one_of_null. Qed.
Print Assumptions C07_one_of_null.

Theorem C07_one_of_domain : forall l r, wf l = true -> wf r = true ->
  ((exists s, one_of l r = Panic s) <-> match r with Null | List _ => false | _ => true end = true).
Proof. exact one_of_domain. Qed.
Print Assumptions C07_one_of_domain.

Theorem C07_contains_spec : forall v r, forallb wf v = true -> wf r = true ->
  exists b, contains (List v) r = Ok b /\ (b = true <-> member r v).
Proof. exact contains_spec. Qed.
Print Assumptions C07_contains_spec.

Theorem C07_contains_null : forall r, contains Null r = Ok false.
Proof. exact contains_null. Qed.
Print Assumptions C07_contains_null.

(* ---------- is_null / is_not_null ---------- *)
Theorem C07_is_null_spec : forall v, is_null v = true <-> v = Null.
Proof. exact is_null_spec. Qed.
Print Assumptions C07_is_null_spec.

Theorem C07_apply_unary_spec : forall op v active,
  apply_unary op v active =
    match op with
    | IsNull => Some (negb active || is_null v)%bool
    | IsNotNull => Some (negb active || negb (is_null v))%bool
    | _ => None
    end.
Proof. exact apply_unary_spec. Qed.
Print Assumptions C07_apply_unary_spec.

(* ---------- negation_exact: every negated operation, in BOTH dispatch tables (and the unary
   path), is the exact boolean complement of its positive form, panicking exactly when it does ---------- *)
Theorem C07_negation_exact_static : forall re op pos l r, op_positive op = Some pos ->
  apply_static re op l r true = res_negb (apply_static re pos l r true).
Proof. exact negation_exact_static. Qed.
Print Assumptions C07_negation_exact_static.

Theorem C07_negation_exact_tagged : forall re op pos l r, op_positive op = Some pos ->
  apply_tagged re op l (Some r) true = res_negb (apply_tagged re pos l (Some r) true).
Proof. exact negation_exact_tagged. Qed.
Print Assumptions C07_negation_exact_tagged.

Theorem C07_negation_exact_unary : forall op pos l b, op_positive op = Some pos ->
  apply_unary pos l true = Some b -> apply_unary op l true = Some (negb b).
Proof. exact negation_exact_unary. Qed.
Print Assumptions C07_negation_exact_unary.

(* ---------- the positive table entries are wired to the operator they name ---------- *)
Theorem C07_tagged_wiring : forall re op f l r, positive_fn re op = Some f ->
  apply_tagged re op l (Some r) true = f l r.
Proof. exact tagged_wiring. Qed.
Print Assumptions C07_tagged_wiring.

Theorem C07_static_wiring : forall re op f l r, positive_fn re op = Some f -> op <> RegexMatches ->
  apply_static re op l r true = f l r.
Proof. exact static_wiring. Qed.
Print Assumptions C07_static_wiring.

Theorem C07_tagged_none_survives : forall re op l active, opk_unary op = false ->
  apply_tagged re op l None active = Ok true.
Proof. exact tagged_none_survives. Qed.
Print Assumptions C07_tagged_none_survives.

Theorem C07_tagged_inactive_survives : forall re op l r, opk_unary op = false ->
  apply_tagged re op l r false = Ok true.
Proof. exact tagged_inactive_survives. Qed.
Print Assumptions C07_tagged_inactive_survives.

Theorem C07_static_inactive_survives : forall re op l r, opk_unary op = false ->
  op <> RegexMatches -> op <> NotRegexMatches -> apply_static re op l r false = Ok true.
Proof. exact static_inactive_survives. Qed.
Print Assumptions C07_static_inactive_survives.

(* ---------- regex, relative to an abstract regex engine `re` ---------- *)
Theorem C07_regex_slow_spec : forall re, re_coherent re -> forall s p,
  regex_matches_slow_path re (Str s) (Str p) = Ok (match re p s with Some b => b | None => false end).
Proof. exact regex_slow_spec. Qed.
Print Assumptions C07_regex_slow_spec.

Theorem C07_regex_null : forall re l r, str_or_null l = true -> str_or_null r = true ->
  is_null l = true \/ is_null r = true -> regex_matches_slow_path re l r = Ok false.
Proof. exact regex_null. Qed.
Print Assumptions C07_regex_null.

Theorem C07_regex_tables_valid : forall re, re_coherent re -> forall s p b, re p s = Some b ->
  apply_static re RegexMatches (Str s) (Str p) true = Ok b /\
  apply_tagged re RegexMatches (Str s) (Some (Str p)) true = Ok b /\
  apply_static re NotRegexMatches (Str s) (Str p) true = Ok (negb b) /\
  apply_tagged re NotRegexMatches (Str s) (Some (Str p)) true = Ok (negb b) /\
  apply_static re RegexMatches Null (Str p) true = Ok false.
Proof. exact regex_tables_valid. Qed.
Print Assumptions C07_regex_tables_valid.

Theorem C07_regex_tables_invalid : forall re, re_coherent re -> forall s p, re p s = None ->
  apply_tagged re RegexMatches (Str s) (Some (Str p)) true = Ok false /\
  apply_tagged re NotRegexMatches (Str s) (Some (Str p)) true = Ok true /\
  (forall l active, exists site, apply_static re RegexMatches l (Str p) active = Panic site).
Proof. exact regex_tables_invalid. Qed.
Print Assumptions C07_regex_tables_invalid.

(* ---------- non-vacuity: concrete, non-trivial operands ---------- *)
Example C07_nonvacuous_ints :
  less_than (I64 (-1)) (U64 18446744073709551615) = Ok true /\
  greater_than (U64 9223372036854775808) (I64 9223372036854775807) = Ok true /\
  greater_than_or_equal (I64 (-9223372036854775808)) (U64 0) = Ok false /\
  less_than_or_equal (U64 18446744073709551615) (I64 (-1)) = Ok false /\
  equals (I64 5) (U64 5) = Ok true /\
  equals (U64 18446744073709551615) (I64 (-1)) = Ok false /\
  equals (List [I64 1; Null]) (List [U64 1; Null]) = Ok true.
Proof. vm_compute. repeat split. Qed.
Print Assumptions C07_nonvacuous_ints.

Example C07_nonvacuous_domain :
  operands_orderable (I64 (-1)) (U64 18446744073709551615) = true /\
  operands_orderable (Str "a") Null = true /\
  cmp_defined (F64 0%N) (F64 9223372036854775808%N) = true /\
  wf (F64 9223372036854775808%N) = true /\
  cmp_fn OpLe (F64 0%N) (F64 9223372036854775808%N) = Ok true /\   (* 0.0 <= -0.0 *)
  cmp_fn OpLt (Str "ab") (Str "b") = Ok true /\ str_lt "ab" "b" /\
  cmp_defined (Boolv true) (Boolv false) = false /\
  cmp_defined (Str "1") (I64 1) = false /\
  less_than (List [Str "a"]) (List [Str "b"]) = Panic "filtering.rs:126 unreachable".
Proof. vm_compute. repeat split. apply str_lt_head. vm_compute. reflexivity. Qed.
Print Assumptions C07_nonvacuous_domain.

Example C07_nonvacuous_strings_lists :
  has_substring (Str "hello") (Str "ell") = Ok true /\ is_substring_of "ell" "hello" /\
  has_prefix (Str "hello") (Str "ell") = Ok false /\
  has_suffix (Str "hello") (Str "llo") = Ok true /\ is_suffix_of "llo" "hello" /\
  one_of (U64 2) (List [I64 1; I64 2]) = Ok true /\ member (U64 2) [I64 1; I64 2] /\
  contains (List [Str "a"; Null]) Null = Ok true /\
  one_of (I64 1) (Str "x") = Panic "filtering.rs:186 unreachable".
Proof.
  repeat match goal with |- _ /\ _ => split end; try (vm_compute; reflexivity).
  - exists "h"%string, "o"%string. reflexivity.
  - exists "he"%string. reflexivity.
  - exists (I64 2). split; [right; left; reflexivity | reflexivity].
Qed.
Print Assumptions C07_nonvacuous_strings_lists.

(* a concrete coherent regex engine fragment: the hypotheses of the regex theorems are satisfiable,
   and op_positive / positive_fn are inhabited for every negated / positive operation *)
Open Scope string_scope.
Example C07_nonvacuous_tables :
  let re := re_table [("a+", "", Some false); ("a+", "caab", Some true)] in
  apply_static re NotRegexMatches (Str "caab") (Str "a+") true = Ok false /\
  apply_tagged re RegexMatches (Str "caab") (Some (Str "(")) true = Ok false /\
  apply_static re NotEquals (I64 5) (U64 5) true = Ok false /\
  apply_tagged re NotOneOf (U64 3) (Some (List [I64 1; I64 2])) true = Ok true /\
  apply_tagged re LessThan (I64 1) None true = Ok true /\
  apply_static re GreaterThan (I64 1) (I64 2) false = Ok true /\
  apply_unary IsNotNull Null true = Some false /\
  List.length (filter (fun o => match op_positive o with Some _ => true | None => false end) all_opk) = 8%nat /\
  List.length (filter (fun o => match positive_fn re o with Some _ => true | None => false end) all_opk) = 11%nat.
Proof. vm_compute. repeat split. Qed.
Print Assumptions C07_nonvacuous_tables.
