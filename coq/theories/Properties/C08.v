(* C08 — Field values form a consistent equality and total order.
   Only statements, `exact` proofs, Print Assumptions and non-vacuity examples live here. *)
From TF Require Import Values ValuesProofs.
Open Scope Z_scope.

(* On well-formed values (what the Rust types can hold: i64/u64 ranges, finite floats) the
   transcribed PartialOrd / PartialEq never hit their assert! and equal the total functions
   cmpT / eqT, for which the laws below hold for ALL values. *)
Theorem C08_cmp_total_no_panic : forall a b, wf a = true -> wf b = true -> fv_cmp a b = Ok (cmpT a b).
Proof. exact fv_cmp_ok. Qed.
Print Assumptions C08_cmp_total_no_panic.

Theorem C08_eq_no_panic : forall a b, wf a = true -> wf b = true -> fv_eq a b = Ok (eqT a b).
Proof. exact fv_eq_ok. Qed.
Print Assumptions C08_eq_no_panic.

Theorem C08_eq_refl : forall a, eqT a a = true.
Proof. exact eqT_refl. Qed.
Print Assumptions C08_eq_refl.

Theorem C08_eq_sym : forall a b, eqT a b = eqT b a.
Proof. exact eqT_sym. Qed.
Print Assumptions C08_eq_sym.

Theorem C08_eq_trans : forall a b c, eqT a b = true -> eqT b c = true -> eqT a c = true.
Proof. exact eqT_trans. Qed.
Print Assumptions C08_eq_trans.

Theorem C08_int_mixed_equal : forall z, eqT (I64 z) (U64 z) = true /\ eqT (U64 z) (I64 z) = true.
Proof. exact eqT_int_mixed. Qed.
Print Assumptions C08_int_mixed_equal.

Theorem C08_cmp_antisym : forall a b, cmpT b a = CompOpp (cmpT a b).
Proof. exact cmpT_antisym. Qed.
Print Assumptions C08_cmp_antisym.

Theorem C08_cmp_trans : forall a b c, cmpT a b = Lt -> cmpT b c = Lt -> cmpT a c = Lt.
Proof. exact cmpT_trans. Qed.
Print Assumptions C08_cmp_trans.

Theorem C08_cmp_eq_compat_l : forall a b c, cmpT a b = Eq -> cmpT a c = cmpT b c.
Proof. exact cmpT_eq_l. Qed.
Print Assumptions C08_cmp_eq_compat_l.

Theorem C08_cmp_eq_compat_r : forall a b c, cmpT b c = Eq -> cmpT a b = cmpT a c.
Proof. exact cmpT_eq_r. Qed.
Print Assumptions C08_cmp_eq_compat_r.

Theorem C08_cmp_total : forall a b, cmpT a b = Lt \/ cmpT a b = Eq \/ cmpT b a = Lt.
Proof. exact cmpT_total. Qed.
Print Assumptions C08_cmp_total.

(* order agrees with equality (eqT is by definition cmpT = Eq; fv_eq is proved equal to it) *)
Theorem C08_cmp_agrees_with_eq : forall a b, eqT a b = true <-> cmpT a b = Eq.
Proof. intros a b. unfold eqT. destruct (cmpT a b); split; congruence. Qed.
Print Assumptions C08_cmp_agrees_with_eq.

Theorem C08_cmp_numeric_on_integers :
  forall a b x y, int_val a = Some x -> int_val b = Some y -> cmpT a b = Z.compare x y.
Proof. exact cmpT_ints. Qed.
Print Assumptions C08_cmp_numeric_on_integers.

(* non-vacuity: concrete non-trivial well-formed values, including the mixed-sign boundary *)
Example C08_nonvacuous :
  wf (List [I64 (-1); U64 18446744073709551615; F64 9223372036854775808%N; Str "a"]) = true /\
  fv_cmp (I64 (-1)) (U64 18446744073709551615) = Ok Lt /\
  fv_eq (List [I64 1]) (List [U64 1]) = Ok true /\
  fv_cmp (F64 9223372036854775808%N) (F64 0%N) = Ok Eq.
Proof. vm_compute. repeat split. Qed.
Print Assumptions C08_nonvacuous.
