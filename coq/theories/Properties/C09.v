(* C09 — Executing an accepted query never panics.
   Every unwrap/expect/index/assert!/unreachable! of execution.rs, filtering.rs::apply_filter and the
   DataContext helpers is an explicit `Panic` outcome of Exec.v.  Full statement:
     forall re g args q, wf_query q -> typed_query S q -> args_ok q args -> conforms S g -> ~ Known q args ->
       exists rows, interpret re g args q = Ok rows

   PROVED HERE (whole interpreter, all queries with any nesting of plain / @optional / @recurse edges,
   @fold, tags, imported tags, fold-count filters and outputs; all graphs with type-independent
   neighbours; all arguments and regex oracles):
     C09_interpreter_panics_only_in_filter_operators
       np_ok args q = true -> interpret re g args q = Panic site -> operator_site site = true
   i.e. the ONLY way a run can panic is a filter operator function (Ops.v: equals, the four comparisons,
   contains / one_of, the string operators, the regex matchers; PartialEq on non-finite floats below
   them) or the regex compilation of a filter argument evaluated outside its domain (operator_site lists
   exactly these sites; even the unreachable!() arms and regex expect()s of the two dispatch tables are
   proved unreachable) — the classes C07 characterises exactly (K-list-ordering,
   K-regex-invalid, ...).  The engine's own bookkeeping never panics: vertices[..] lookups and
   record_vertex, values.pop(), the suspended-vertices stack and the piggy-backed contexts of @recurse,
   the folded_contexts / folded_values / imported_tags maps with all their expect()s and assert!s, the
   fold-count limit computation, query_arguments[..], component.vertices[..] / outputs[..] and both
   assert!s of construct_outputs.
   np_ok (NoPanic.v) is a decidable STATIC check of the lowered query and its arguments (no typing of
   values, no condition on the data): every referenced vid is a vertex of its component; edges and folds
   start at an already recorded vertex and edges lead to a new one; a @recurse edge has depth >= 1 and
   starts at the current vertex or an ancestor of it (depth-first numbering); a tag operand is the
   filtered vertex itself, an earlier vertex / completed fold of the same component, or imported by an
   enclosing fold; imported tags are defined earlier by the parent component and not already imported
   further out; unary operators have no operand, binary ones have one, variables are bound; count-filter
   arguments have integer shape; fold eids and the (eid, output name) keys are distinct; outputs name
   recorded vertices; output names are globally distinct.  It holds (by vm_compute) on every world the
   harness generated from the real frontend that was probed.
   NOT proved: that the frontend's output always satisfies np_ok (C10/C11/C12 are the frontend
   properties; np_ok is evaluated per query), and typing conditions under which the operators
   themselves stay in their domain (C07). *)
From TF Require Import Exec Sem Sim SimRec SimComp ExecNoPanic Run WfIR NoPanic NoPanicOps NoPanicEdges NoPanicFold NoPanicProofs WfNoPanic C01.
Local Open Scope string_scope.

(* The @recurse machinery (suspended-vertices stack, piggy-backed contexts, implicit-coercion gate):
   ensure_unsuspended's pop().unwrap(), the post-processing assert! and the vertices[from] index cannot
   fire — for every depth >= 1, every graph, every list of incoming contexts. *)
Theorem C09_recursive_expansion_never_panics :
  forall g, ty_indep g ->
  forall from to e r0 cs,
    r_depth r0 <> 0%N ->
    Forall (fun c => piggyback c = None /\ has_key_N (v_vid from) (vertices c) = true /\
                     (act_at c (v_vid from) = None -> active c = None \/ suspended c <> [])) cs ->
    exists r, expand_recursive_edge g from to e r0 cs = Ok r.
Proof. exact recursive_expansion_no_panic. Qed.
Print Assumptions C09_recursive_expansion_never_panics.

(* The fold-count limit computation (usize_from_field_value's panic!, three expect()s, one
   unreachable!()) cannot fire on arguments that validation accepts for count filters
   (integers of either signedness and any magnitude; lists of integers for one_of). *)
Theorem C09_fold_count_limits_never_panic :
  forall args h, forallb (count_arg_ok args) (fo_post h) = true ->
    (exists o, get_max_fold_count_limit args h = Ok o) /\ (exists o, get_min_fold_count_limit args h = Ok o).
Proof. exact fold_count_limits_no_panic. Qed.
Print Assumptions C09_fold_count_limits_never_panic.

(* A filter evaluated inside a missing @optional scope never reaches the operator functions, so none
   of their unreachable!() arms can fire there, whatever the operand shapes. *)
Theorem C09_inactive_filter_never_evaluates_operator :
  forall re op l r b, apply_tagged re op l r false = Ok b -> b = true.
Proof. exact apply_tagged_inactive. Qed.
Print Assumptions C09_inactive_filter_never_evaluates_operator.

(* non-vacuity: the hypotheses of the recursion theorem hold for a fresh context with a recorded vertex *)
Example C09_recursion_hypotheses_satisfiable :
  let c := mkCtx None [(1%N, Some 7%N)] [] [] [] [] None [] in
  piggyback c = None /\ has_key_N 1%N (vertices c) = true /\
  (act_at c 1%N = None -> active c = None \/ suspended c <> []) /\
  count_arg_ok [("n", U64 18446744073709551615%Z)] (mkPF GreaterThan (Some (AVar "n" (mkTy "Int" 1%N)))) = true.
Proof. cbn. repeat split; try reflexivity. discriminate. Qed.
Print Assumptions C09_recursion_hypotheses_satisfiable.

(* ================= the whole interpreter ================= *)

(* (A) every panic of the interpreter is a panic of a filter operator / of a filter's regex *)
Theorem C09_interpreter_panics_only_in_filter_operators :
  forall re g args, ty_indep g ->
  forall q site, np_ok args q = true -> interpret re g args q = Panic site -> operator_site site = true.
Proof. exact interpret_panics_only_in_operators. Qed.
Print Assumptions C09_interpreter_panics_only_in_filter_operators.

Theorem C09_interpreter_rows_or_operator_panic :
  forall re g args, ty_indep g ->
  forall q, np_ok args q = true ->
    (exists rows, interpret re g args q = Ok rows) \/
    (exists site, interpret re g args q = Panic site /\ operator_site site = true).
Proof. exact interpret_rows_or_operator_panic. Qed.
Print Assumptions C09_interpreter_rows_or_operator_panic.

(* equivalent formulation: if no filter operator panics, the run returns rows *)
Theorem C09_interpreter_returns_rows_unless_an_operator_panics :
  forall re g args, ty_indep g ->
  forall q, np_ok args q = true ->
    (forall site, interpret re g args q = Panic site -> operator_site site = false) ->
    exists rows, interpret re g args q = Ok rows.
Proof. exact interpret_ok_unless_operator_panics. Qed.
Print Assumptions C09_interpreter_returns_rows_unless_an_operator_panics.

(* from the Rust-shaped IR: the edge/fold merge loop of compute_component (its unreachable!() and its
   two visited-vid assert!s, Lower.v) does not panic on an IR with the structural invariants of C11 *)
Theorem C09_engine_from_raw_ir :
  forall re g args rq, ty_indep g -> wf_ir rq = true ->
  exists q, lower_query rq = Ok q /\
            (np_ok args q = true ->
             forall site, interpret re g args q = Panic site -> operator_site site = true).
Proof. exact engine_panics_only_in_operators. Qed.
Print Assumptions C09_engine_from_raw_ir.

(* ================= the stages, each under its invariant ================= *)

(* one component, any nesting: contexts with nothing recorded in, contexts satisfying the final invariant out *)
Theorem C09_component_panics_only_in_filter_operators :
  forall re g args, ty_indep g ->
  forall c impk cs, np_comp args impk c = true -> Forall (start_inv impk) cs ->
    safe (Forall (cinv impk (comp_final c))) (compute_component re g args c cs).
Proof. exact compute_component_safe. Qed.
Print Assumptions C09_component_panics_only_in_filter_operators.

(* a plain / @optional / @recurse edge followed by the entry into its destination vertex *)
Theorem C09_edge_stage_panics_only_in_filter_operators :
  forall re g args, ty_indep g ->
  forall vs ss impk st e cs, edge_np args vs ss impk st e = true -> Forall (cinv impk st) cs ->
    safe (Forall (cinv impk (st_edge st e))) (expand_edge re g args vs ss e cs).
Proof. exact expand_edge_safe. Qed.
Print Assumptions C09_edge_stage_panics_only_in_filter_operators.

(* compute_fold, given the same statement for the fold's sub-component *)
Theorem C09_fold_stage_panics_only_in_filter_operators :
  forall re g args vs ss impk st h sub cs,
    (forall impk' cs', np_comp args impk' sub = true -> Forall (start_inv impk') cs' ->
                       safe (Forall (cinv impk' (comp_final sub))) (compute_component re g args sub cs')) ->
    fold_np args vs ss impk st h sub = true -> np_comp args (impk ++ fo_imported h) sub = true ->
    Forall (cinv impk st) cs ->
    safe (Forall (cinv impk (st_fold st h sub)))
         (fold_step re g args vs ss h sub (compute_component re g args sub) cs).
Proof. exact fold_step_safe. Qed.
Print Assumptions C09_fold_stage_panics_only_in_filter_operators.

(* the fold-output bookkeeping (folded_values) never panics at all *)
Theorem C09_fold_outputs_never_panic :
  forall g impk impk' st h sub c fe,
    NoDup (FoldOut.fold_keys h sub) ->
    (forall k, In k (FoldOut.fold_keys h sub) -> ~ In k (s_fks st)) ->
    outs_np (c_vertices sub) (comp_final sub) (c_outputs sub) = true ->
    cinv impk (st_mid st h) c ->
    lookup_N (fo_eid h) (folded_contexts c) = Some fe ->
    match fe with Some els => Forall (cinv impk' (comp_final sub)) els | None => True end ->
    exists z, fold_outputs_one g h sub c = Ok z /\ cinv impk (st_fold st h sub) z.
Proof. exact fold_outputs_one_ok. Qed.
Print Assumptions C09_fold_outputs_never_panic.

(* construct_outputs never panics *)
Theorem C09_construct_outputs_never_panics :
  forall g c cx,
    outs_np (c_vertices c) (comp_final c) (c_outputs c) = true -> NoDup (all_output_names c) ->
    cinv [] (comp_final c) cx ->
    exists row, construct_output_one g c (sort_names (map fst (c_outputs c))) cx = Ok row.
Proof. exact construct_output_ok. Qed.
Print Assumptions C09_construct_outputs_never_panics.

(* the dispatch tables: for a binary operation whose static regex argument passed the stage-building
   pre-check, every panic is a panic of an operator function, whatever the operands (the tables' own
   unreachable!() arms and regex expect()s cannot fire) *)
Theorem C09_dispatch_tables_panic_only_at_operator_sites :
  forall re op l r ro act, opk_unary op = false ->
    (precheck_static re op r = Ok tt -> safe (fun _ => True) (apply_static re op l r act)) /\
    safe (fun _ => True) (apply_tagged re op l ro act).
Proof. intros re op l r ro act Hu. split; [intros Hp; now apply apply_static_safe|now apply apply_tagged_safe]. Qed.
Print Assumptions C09_dispatch_tables_panic_only_at_operator_sites.

(* ================= non-vacuity ================= *)

(* the theorem is not trivial: none of the bookkeeping panic sites of Exec.v / Lower.v is an operator site *)
Definition bookkeeping_sites : list string :=
  [ "filtering.rs: no value present"; "filtering.rs: no argument present for filter"; "static right value";
    "filtering.rs:459 regex argument was not a string"; "filtering.rs:460 regex argument was not a valid regex";
    "filtering.rs:470 unreachable"; "filtering.rs:534 unreachable";
    "mod.rs:record_vertex insert_or_error"; "context.vertices[vid]: key not found";
    "mod.rs:ensure_unsuspended pop().unwrap()"; "query_arguments[name]: key not found";
    "execution.rs:usize_from_field_value non-integer"; "execution.rs: for field value to be coercible to usize";
    "execution.rs:get_max_fold_count_limit unreachable"; "ctx.folded_contexts[fold_eid]: key not found";
    "ctx.imported_tags[field_ref]: key not found"; "component.vertices[vid]: key not found";
    "execution.rs:compute_fold expect(not Some)"; "execution.rs:compute_fold expect(not a Vec)";
    "execution.rs:compute_fold expect(key not present)"; "execution.rs:compute_fold expect(value was None)";
    "fold.component.outputs[name]"; "ctx.folded_contexts[fold_eid]";
    "execution.rs: this fold output was already computed";
    "execution.rs:compute_fold assert_eq!(disjoint folded_values)";
    "execution.rs:compute_fold folded_contexts.insert_or_error"; "root_component.outputs[name]";
    "execution.rs:construct_outputs assert!(values.len() == output_names.len())";
    "execution.rs:construct_outputs assert!(existing.is_none())";
    "execution.rs:compute_component unreachable (fold.eid == edge.eid)";
    "execution.rs:compute_component assert!(!from_vid_unvisited)";
    "execution.rs:compute_component assert!(to_vid_unvisited)" ].
Example C09_bookkeeping_sites_are_not_operator_sites :
  forallb (fun s => negb (operator_site s)) bookkeeping_sites = true.
Proof. vm_compute. reflexivity. Qed.
Print Assumptions C09_bookkeeping_sites_are_not_operator_sites.

(* np_ok holds on a query with nested @fold (one with a count filter against a tag), an @optional edge,
   a @recurse edge of depth 2, variables and outputs at three nesting levels (C01's agreement witness,
   produced by the real frontend), and its run returns rows *)
Example C09_np_ok_nonvacuous :
  match lower_query aw_rq with
  | Ok q => np_ok aw_args q = true /\
            match interpret aw_re (graph_of_dataset aw_d) aw_args q with
            | Ok rows => Nat.ltb 0 (List.length rows) = true
            | Panic _ => False
            end
  | Panic _ => False
  end.
Proof. vm_compute. split; reflexivity. Qed.
Print Assumptions C09_np_ok_nonvacuous.

(* ... on the fold-free witness of C01 (tags across @optional edges, @recurse, coercion) and on the
   truncating fold-count witness *)
Example C09_np_ok_nonvacuous_more :
  (match lower_query (snd (fst ff_world)) with Ok q => np_ok (snd ff_world) q = true | Panic _ => False end) /\
  (match lower_query tr_rq with Ok q => np_ok tr_args q = true | Panic _ => False end).
Proof. vm_compute. split; reflexivity. Qed.
Print Assumptions C09_np_ok_nonvacuous_more.

(* the other branch is real: an accepted-shape query whose filter orders lists passes np_ok and its run
   panics inside the operator (known class K-list-ordering) *)
Definition lo_rq : raw_query :=
  mkRQ "Item" []
       (RComp 1%N [mkV 1%N "Item" None [mkVF LessThan "tags" (mkTy "String" 6%N) (Some (AVar "v" (mkTy "String" 6%N)))]]
              [] [] [("o", mkCF 1%N "id" (mkTy "Int" 1%N))])
       [("v", mkTy "String" 6%N)].
Example C09_operator_panic_branch_is_inhabited :
  match lower_query lo_rq with
  | Ok q => np_ok [("v", List [Str "a"])] q = true /\
            interpret aw_re (graph_of_dataset aw_d) [("v", List [Str "a"])] q = Panic "filtering.rs:126 unreachable"
  | Panic _ => False
  end.
Proof. vm_compute. split; reflexivity. Qed.
Print Assumptions C09_operator_panic_branch_is_inhabited.

(* np_ok is not vacuously true either: a tag operand on a vertex that is not recorded yet is rejected *)
Definition bad_rq : raw_query :=
  mkRQ "Item" []
       (RComp 1%N [mkV 1%N "Item" None [mkVF Equals "id" (mkTy "Int" 1%N)
                                            (Some (ATag (FRContext (mkCF 2%N "id" (mkTy "Int" 1%N)))))];
                   mkV 2%N "Item" None []]
              [mkE 1%N 1%N 2%N "next" [] false None] [] [("o", mkCF 1%N "id" (mkTy "Int" 1%N))])
       [].
Example C09_np_ok_rejects_forward_tag :
  match lower_query bad_rq with
  | Ok q => np_ok [] q = false /\
            interpret aw_re (graph_of_dataset aw_d) [] q = Panic "context.vertices[vid]: key not found"
  | Panic _ => False
  end.
Proof. vm_compute. split; reflexivity. Qed.
Print Assumptions C09_np_ok_rejects_forward_tag.

(* ---- np_ok FOLLOWS from the frontend invariants (WfNoPanic.v) ----
   wf_np q = wf_ir q (the C11 validator) && np_extra q, where np_extra states the two facts np_ok
   needs that wf_ir does not contain: (1) a filter has no right-hand operand iff its operation is
   unary (in Rust: the shape of the Operation enum; IR.v flattens it); (2) vertices are numbered
   depth-first: in eid order every edge / fold starts at the current vertex or one of its ancestors
   (wf_ir only has from < to).  Both are evaluated, with wf_ir, on every IR the real frontend produces
   by ./check C11 (translation validation).
   args_fit args q' is everything about the ARGUMENTS: every variable recorded in the query has a
   value, and every fold-count filter whose operand is a variable gets an integer (a list of integers
   for one_of / not_one_of) — what argument validation accepts for the recorded Int! / [Int!]! types. *)
Theorem C09_wf_np_ok :
  forall args q q', WfNoPanic.wf_np q = true -> lower_query q = Ok q' -> WfNoPanic.args_fit args q' = true ->
    np_ok args q' = true.
Proof. exact WfNoPanic.wf_np_ok. Qed.
Print Assumptions C09_wf_np_ok.

(* executing any query that meets the frontend invariants, with fitting arguments, on any
   contract-abiding data source: the only panics are those of the filter operators *)
Theorem C09_wf_np_engine_panics_only_in_operators :
  forall re g args q q' site,
    ty_indep g -> WfNoPanic.wf_np q = true -> lower_query q = Ok q' -> WfNoPanic.args_fit args q' = true ->
    interpret re g args q' = Panic site -> operator_site site = true.
Proof. exact WfNoPanic.wf_np_engine_panics_only_in_operators. Qed.
Print Assumptions C09_wf_np_engine_panics_only_in_operators.

(* the premises are met by real frontend IRs with folds: C01's agreement witness (nested @fold, count
   filter against a tag, @optional, @recurse) and the truncating fold-count witness *)
Example C09_wf_np_premises_satisfiable :
  WfNoPanic.wf_np aw_rq = true /\ WfNoPanic.wf_np tr_rq = true /\
  (match lower_query aw_rq with Ok q => WfNoPanic.args_fit aw_args q = true | Panic _ => False end) /\
  (match lower_query tr_rq with Ok q => WfNoPanic.args_fit tr_args q = true | Panic _ => False end).
Proof. vm_compute. repeat split. Qed.
Print Assumptions C09_wf_np_premises_satisfiable.

(* np_extra is not implied by wf_ir: a breadth-first numbering (1 -> 2, 1 -> 3, then 2 -> 4) passes
   wf_ir, is not depth-first, and np_ok refuses it when the late edge is a @recurse edge; a binary
   filter without operand passes wf_ir and is refused by np_extra and np_ok *)
Definition bfs_rq : raw_query :=
  mkRQ "Item" []
       (RComp 1%N [mkV 1%N "Item" None []; mkV 2%N "Item" None []; mkV 3%N "Item" None []; mkV 4%N "Item" None []]
              [mkE 1%N 1%N 2%N "next" [] false None; mkE 2%N 1%N 3%N "next" [] false None;
               mkE 3%N 2%N 4%N "next" [] false (Some (mkRec 1%N None))]
              [] [("o", mkCF 4%N "id" (mkTy "Int" 1%N))])
       [].
Definition noarg_rq : raw_query :=
  mkRQ "Item" []
       (RComp 1%N [mkV 1%N "Item" None [mkVF Equals "id" (mkTy "Int" 1%N) None]] [] []
              [("o", mkCF 1%N "id" (mkTy "Int" 1%N))])
       [].
Example C09_np_extra_is_needed :
  WfIR.wf_ir bfs_rq = true /\ WfNoPanic.wf_np bfs_rq = false /\
  (match lower_query bfs_rq with Ok q => np_ok [] q = false | Panic _ => False end) /\
  WfIR.wf_ir noarg_rq = true /\ WfNoPanic.wf_np noarg_rq = false /\
  (match lower_query noarg_rq with Ok q => np_ok [] q = false | Panic _ => False end).
Proof. vm_compute. repeat split. Qed.
Print Assumptions C09_np_extra_is_needed.

(* args_fit from argument validation (C12): arguments accepted by Args.validate for the query's
   recorded variable types fit, provided the variables of fold-count filters are recorded as Int!
   ([Int!]! for one_of / not_one_of) — the frontend's typing of count filters, not part of wf_ir *)
Theorem C09_validated_arguments_fit :
  forall args q',
    Args.validate (q_vars q') args = Ok Args.VOk ->
    WfNoPanic.count_vars_typed (q_vars q') (q_comp q') = true ->
    WfNoPanic.args_fit args q' = true.
Proof. exact WfNoPanic.validate_args_fit. Qed.
Print Assumptions C09_validated_arguments_fit.

Example C09_validated_arguments_fit_nonvacuous :
  (match lower_query aw_rq with
   | Ok q => Args.validate (q_vars q) aw_args = Ok Args.VOk /\ WfNoPanic.count_vars_typed (q_vars q) (q_comp q) = true
   | Panic _ => False end) /\
  (match lower_query tr_rq with
   | Ok q => Args.validate (q_vars q) tr_args = Ok Args.VOk /\ WfNoPanic.count_vars_typed (q_vars q) (q_comp q) = true
   | Panic _ => False end).
Proof. vm_compute. repeat split. Qed.
Print Assumptions C09_validated_arguments_fit_nonvacuous.
