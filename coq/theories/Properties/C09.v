(* C09 — Executing an accepted query never panics.
   Every unwrap/expect/index/assert!/unreachable! of execution.rs, filtering.rs::apply_filter and the
   DataContext helpers is an explicit `Panic` outcome of Exec.v.  Full statement (the whole-interpreter
   theorem is staged; the run-time oracle runs catch_unwind(interpret_ir) on every generated world):
     forall re g args q, wf_query q -> typed_query S q -> args_ok q args -> conforms S g -> ~ Known q args ->
       exists rows, interpret re g args q = Ok rows                                                   *)
From TF Require Import Exec Sem Sim SimRec SimComp ExecNoPanic Run.
Local Open Scope string_scope.

(* The @recurse machinery (suspended-vertices stack, piggy-backed contexts, implicit-coercion gate):
   ensure_unsuspended's pop().unwrap(), the post-processing assert! and the vertices[from] index cannot
   fire — for every depth >= 1, every graph, every list of incoming contexts. *)
Theorem C09_recursive_expansion_never_panics :
  forall g, ty_indep g ->
  forall from to e r0 cs,
    r_depth r0 <> 0%N ->
    Forall (fun c => piggyback c = None /\ has_key_N (v_vid from) (vertices c) = true /\
                     (act_at c (v_vid from) = None -> active c = None \/ suspended c <> [])) cs ->
    exists r, expand_recursive_edge g from to e r0 cs = Ok r.
Proof. exact recursive_expansion_no_panic. Qed.
Print Assumptions C09_recursive_expansion_never_panics.

(* The fold-count limit computation (usize_from_field_value's panic!, three expect()s, one
   unreachable!()) cannot fire on arguments that validation accepts for count filters
   (integers of either signedness and any magnitude; lists of integers for one_of). *)
Theorem C09_fold_count_limits_never_panic :
  forall args h, forallb (count_arg_ok args) (fo_post h) = true ->
    (exists o, get_max_fold_count_limit args h = Ok o) /\ (exists o, get_min_fold_count_limit args h = Ok o).
Proof. exact fold_count_limits_no_panic. Qed.
Print Assumptions C09_fold_count_limits_never_panic.

(* A filter evaluated inside a missing @optional scope never reaches the operator functions, so none
   of their unreachable!() arms can fire there, whatever the operand shapes. *)
Theorem C09_inactive_filter_never_evaluates_operator :
  forall re op l r b, apply_tagged re op l r false = Ok b -> b = true.
Proof. exact apply_tagged_inactive. Qed.
Print Assumptions C09_inactive_filter_never_evaluates_operator.

(* non-vacuity: the hypotheses of the recursion theorem hold for a fresh context with a recorded vertex *)
Example C09_recursion_hypotheses_satisfiable :
  let c := mkCtx None [(1%N, Some 7%N)] [] [] [] [] None [] in
  piggyback c = None /\ has_key_N 1%N (vertices c) = true /\
  (act_at c 1%N = None -> active c = None \/ suspended c <> []) /\
  count_arg_ok [("n", U64 18446744073709551615%Z)] (mkPF GreaterThan (Some (AVar "n" (mkTy "Int" 1%N)))) = true.
Proof. cbn. repeat split; try reflexivity. discriminate. Qed.
Print Assumptions C09_recursion_hypotheses_satisfiable.
