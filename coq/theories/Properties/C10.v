(* C10 — The frontend never panics on any query text.
   Only statements, `exact` proofs, Print Assumptions and witnesses live here.

   Models.  QueryAst.v: the abstract GraphQL executable document (what query.rs reads from
   async_graphql_parser's ExecutableDocument).  QueryParse.v: transcription of graphql_query/query.rs +
   directives.rs (`parse_doc` = parse_document).  Front.v: transcription of frontend/{mod, validation,
   filters, tags, outputs, util}.rs (`front` = make_ir_for_query, `front_doc` = frontend::parse_doc,
   `front_parse` = frontend::parse incl. the IndexedQuery conversion of Indexed.v).  Every
   unwrap/expect/unreachable!/unimplemented!/assert!/index is a `Panic site`.
   The text -> AST step (async_graphql_parser::parse_query, third party) is NOT modelled: statements
   quantify over ALL abstract documents, which covers every AST the parser can produce; the property is
   claimed PARTIAL w.r.t. raw text (covered by the run-time oracle of ./check C10).

   FULL STATEMENT (false):
     forall d S q, schema_new d = Ok [] -> schema_of_doc d = Some S -> exists r, front_parse S q = Ok r.
   It is refuted below by one witness per known class.  The classes (boolean predicates):
     stage 1 (QueryParse.v, on the document):  K-two-operations (F1), and two AST-only classes the
       parser cannot produce: K-no-operations, K-empty-root-selection-set;
     stage 2 (Front.v, on schema + parsed query):  K-double-transform (F2), K-fragment-under-property
       (F3), K-root-typename, K-enum-argument, K-nonorderable-variable, K-one-of-max-depth,
       K-fold-count-output-clash, K-schema-duplicate-parameter, and K-output-list-depth (reached in
       IndexedQuery::try_from). *)
From TF Require Import Values Ty TyProofs QueryAst QueryParse QueryParseProofs SchemaAst SchemaNew IR Front FrontProofs FrontTotal.
Local Open Scope string_scope.
Local Open Scope list_scope.

(* ================= stage 1: graphql_query::parse_document (complete) ================= *)
(* never panics outside the stage-1 classes: every Panic site of query.rs / directives.rs is unreachable *)
Theorem C10_parse_document_total : forall d, ~ Known1 d -> exists r, parse_doc d = Ok r.
Proof. exact parse_document_total. Qed.
Print Assumptions C10_parse_document_total.

Theorem C10_parse_document_panic_only_if_known : forall d site, parse_doc d = Panic site -> Known1 d.
Proof. exact parse_document_panic_known. Qed.
Print Assumptions C10_parse_document_panic_only_if_known.

(* the stage-1 classes are exact: parse_document panics on precisely these documents *)
Theorem C10_parse_document_panics_iff : forall d, (exists site, parse_doc d = Panic site) <-> Known1 d.
Proof. exact parse_document_panics_iff. Qed.
Print Assumptions C10_parse_document_panics_iff.

(* F1 (repaired by a fix: commit): `query A {..} query B {..}` used to panic at query.rs:132
   `.nth(2).expect(..)`; with `nth(1)` it is the MultipleOperationsInDocument error (regression
   example; the K-two-operations class of Known1 is now empty) *)
Example C10_F1_two_operations_regression : exists e, parse_doc f1_doc = Ok (inl e).
Proof. exact f1_doc_is_error. Qed.
Print Assumptions C10_F1_two_operations_regression.

(* the helper parsers, each for ALL inputs *)
Theorem C10_make_directives_total : forall ds, exists r, make_directives ds = Ok r.
Proof. exact make_directives_np. Qed.
Print Assumptions C10_make_directives_total.
Theorem C10_make_transform_group_total : forall l o t f,
  exists r, make_transform_group l o t f = Ok r /\ forall g rest, r = inr (g, rest) -> rest = [].
Proof. exact make_transform_group_spec. Qed.
Print Assumptions C10_make_transform_group_total.
Theorem C10_make_field_connection_total : forall f, exists r, make_field_connection f = Ok r.
Proof. exact make_field_connection_np. Qed.
Print Assumptions C10_make_field_connection_total.
Theorem C10_make_field_node_total : forall fuel f,
  (sels_depth (f_sels f) < fuel)%nat -> exists r, make_field_node fuel f = Ok r.
Proof. exact make_field_node_np. Qed.
Print Assumptions C10_make_field_node_total.

(* ================= stage 2: the frontend proper ================= *)
(* refutation of the full statement: a schema accepted by (the transcribed) Schema::new and a document
   on which frontend::parse_doc panics *)
Theorem C10_front_total_refuted :
  exists (d : doc) (S : schema) (q : document),
    schema_new d = Ok [] /\ schema_of_doc d = Some S /\ forall r, front_doc S q <> Ok r.
Proof. exact front_total_refuted. Qed.
Print Assumptions C10_front_total_refuted.

(* one witness per class, with the site at which the model (and the implementation) panics *)
Theorem C10_F2_double_transform_refuted : front_doc mini_schema w_double_transform = Panic site_retransform.
Proof. exact w_double_transform_panics. Qed.
Print Assumptions C10_F2_double_transform_refuted.
Theorem C10_F3_fragment_under_property_refuted :
  front_doc mini_schema w_fragment_under_property = Panic site_val_index.
Proof. exact w_fragment_under_property_panics. Qed.
Print Assumptions C10_F3_fragment_under_property_refuted.
Theorem C10_root_typename_refuted : front_doc mini_schema w_root_typename = Panic site_edge_unreachable.
Proof. exact w_root_typename_panics. Qed.
Print Assumptions C10_root_typename_refuted.
Theorem C10_enum_argument_refuted : front_doc mini_schema w_enum_argument = Panic site_enum.
Proof. exact w_enum_argument_panics. Qed.
Print Assumptions C10_enum_argument_refuted.
Theorem C10_nonorderable_variable_refuted : front_doc mini_schema w_nonorderable_variable = Panic site_as_tag.
Proof. exact w_nonorderable_variable_panics. Qed.
Print Assumptions C10_nonorderable_variable_refuted.
Theorem C10_fold_count_output_clash_refuted :
  front_doc mini_schema w_fold_count_output_clash = Panic site_dup_index.
Proof. exact w_fold_count_output_clash_panics. Qed.
Print Assumptions C10_fold_count_output_clash_refuted.
Theorem C10_one_of_max_depth_refuted : front_doc mini_schema w_one_of_max_depth = Panic site_new_list.
Proof. exact w_one_of_max_depth_panics. Qed.
Print Assumptions C10_one_of_max_depth_refuted.
Theorem C10_schema_duplicate_parameter_refuted :
  schema_new mini_doc = Ok [] /\
  front_doc mini_schema w_schema_duplicate_parameter = Panic site_param_insert.
Proof. exact (conj mini_doc_accepted w_schema_duplicate_parameter_panics). Qed.
Print Assumptions C10_schema_duplicate_parameter_refuted.
Theorem C10_output_list_depth_refuted :
  (exists ir, front_doc mini_schema w_output_list_depth = Ok (inr ir)) /\
  front_parse mini_schema w_output_list_depth = Panic site_new_list.
Proof. exact (conj w_output_list_depth_front_ok w_output_list_depth_panics). Qed.
Print Assumptions C10_output_list_depth_refuted.

(* --- totality of the transcribed sub-functions (each for ALL inputs under the stated conditions) --- *)
(* parse_document only produces queries whose connection/node pairs describe the same field, so the
   assert_eq!s at validation.rs:38-39 cannot fire *)
Theorem C10_parse_doc_wf : forall d q, parse_doc d = Ok (inr q) -> wf_query q = true.
Proof. exact parse_doc_wf. Qed.
Print Assumptions C10_parse_doc_wf.

(* validation.rs completely: validate_query_against_schema never panics outside K-fragment-under-property
   (every pop/assert of the path bookkeeping is unreachable, for every schema) *)
Theorem C10_validation_total : forall S q,
  wf_query q = true -> k_fragment_under_property S q = false ->
  exists r, validate_query_against_schema S q = Ok r.
Proof. exact validate_query_total. Qed.
Print Assumptions C10_validation_total.

(* make_edge_parameters: no panic for an edge definition whose defaults Schema::new has checked, with
   distinct parameter names (else K-schema-duplicate-parameter), on enum-free arguments (else
   K-enum-argument) *)
Theorem C10_make_edge_parameters_total : forall (edge_definition : fld) specified,
  Forall arg_ok (SchemaAst.f_args edge_definition) ->
  has_dup (map a_name (SchemaAst.f_args edge_definition)) = false ->
  (forall kv, In kv specified -> enum_free (snd kv) = true) ->
  exists r, make_edge_parameters edge_definition specified = Ok r.
Proof. exact make_edge_parameters_total. Qed.
Print Assumptions C10_make_edge_parameters_total.

(* get_recurse_implicit_coercion: the two index sites are unreachable when every defined field has an
   origin whose single ancestor defines it (what get_field_origins computes) *)
Theorem C10_get_recurse_implicit_coercion_total : forall S v (ed : fld),
  origins_ok S -> s_field S (v_type v) (SchemaAst.f_name ed) <> None ->
  exists r, get_recurse_implicit_coercion S v ed = Ok r.
Proof. exact get_recurse_implicit_coercion_total. Qed.
Print Assumptions C10_get_recurse_implicit_coercion_total.

(* tags.rs: reference_tag never panics under the stack discipline tags_ok, and preserves it *)
Theorem C10_reference_tag_total : forall t name path vid,
  tags_ok t path -> exists r, th_reference_tag t name path vid = Ok r /\ tags_ok (fst r) path.
Proof. exact th_reference_tag_np. Qed.
Print Assumptions C10_reference_tag_total.

(* filters.rs completely: make_filter_expr (infer_variable_type, operand_types_valid and the six
   validity functions) never panics on a well-formed left operand type outside the two classes
   K-nonorderable-variable / K-one-of-max-depth (filter_ok) *)
Theorem C10_make_filter_expr_total : forall tags path vid lname lty fd,
  tags_ok tags path -> wf_ty lty = true -> filter_ok lty fd ->
  exists r, make_filter_expr tags path vid lname lty fd = Ok r /\ tags_ok (fst r) path.
Proof. exact make_filter_expr_total. Qed.
Print Assumptions C10_make_filter_expr_total.

(* fill_in_query_variables: no panic when every recorded variable type is well formed *)
Theorem C10_fill_in_query_variables_total : forall c variables,
  comp_vars_wf c -> tys_wf variables ->
  exists r, fill_in_query_variables variables c = Ok r /\ tys_wf (fst r).
Proof. exact fill_in_query_variables_total. Qed.
Print Assumptions C10_fill_in_query_variables_total.

(* ================= stage 2, the whole frontend ================= *)
(* make_ir_for_query never panics: for every schema satisfying schema_ok (root type present, field types
   builtin scalars or vertex types of <= 30 list levels, defaults of edge parameters checked, root fields
   are edges, every field has an origin, no type named __typename: what Schema::new establishes, and
   decidable by schema_okb) and every query produced by parse_document outside the classes
   known2_strict = K-root-typename, K-fragment-under-property, K-enum-argument, K-double-transform,
   K-nonorderable-variable, K-one-of-max-depth, K-schema-duplicate-parameter and the widened
   K-fold-count-output-clash' = "some @fold @transform(count) carries an @output".
   All 50 Panic sites of Front.v (unwrap/expect/unreachable!/index/assert! of frontend/mod.rs,
   validation.rs, filters.rs, tags.rs, outputs.rs, util.rs, error.rs) are unreachable there. *)
Theorem C10_front_total : forall S q,
  schema_ok S -> wf_query q = true -> known2_strict S q = false -> exists r, front S q = Ok r.
Proof. exact front_total. Qed.
Print Assumptions C10_front_total.

(* frontend::parse_doc over documents: parse_document, then make_ir_for_query *)
Theorem C10_front_doc_total : forall S d,
  schema_ok S -> known_strict S d = false -> exists r, front_doc S d = Ok r.
Proof. exact front_doc_total. Qed.
Print Assumptions C10_front_doc_total.

(* the classes reported by ./check (known) are contained in the classes excluded above *)
Theorem C10_known_sub_strict : forall S d, known S d = true -> known_strict S d = true.
Proof. exact known_sub_strict. Qed.
Print Assumptions C10_known_sub_strict.

(* schema_ok is decidable; the check evaluates schema_okb on every schema it uses *)
Theorem C10_schema_okb_sound : forall S, schema_okb S = true -> schema_ok S.
Proof. exact schema_okb_sound. Qed.
Print Assumptions C10_schema_okb_sound.

(* the construction core on its own: fill_in_vertex_data (with make_fold / make_query_component /
   make_vertex inside) preserves the handlers' stack discipline and never panics, for every node *)
Theorem C10_fill_in_vertex_data_total : forall S node, fill_spec S node.
Proof. exact fill_in_vertex_data_spec. Qed.
Print Assumptions C10_fill_in_vertex_data_total.

(* ================= non-vacuity ================= *)
(* `{ Four { value @output } }` parses (not in a class) *)
Example C10_nonvacuous_parse : ~ Known1 q_simple /\ exists q, parse_doc q_simple = Ok (inr q).
Proof. split; [vm_compute; discriminate | eexists; vm_compute; reflexivity]. Qed.
Print Assumptions C10_nonvacuous_parse.
(* a query with a filter on a variable, a tag used under an @optional coercion, a @fold whose count is
   filtered: outside every class, compiled to IR and indexed by the model *)
Example C10_nonvacuous_front :
  schema_ok mini_schema /\ known_strict mini_schema q_rich = false /\
  exists ir ix, front_parse mini_schema q_rich = Ok (inr (ir, ix)).
Proof. exact (conj mini_schema_ok (conj q_rich_not_known_strict q_rich_compiles)). Qed.
Print Assumptions C10_nonvacuous_front.
