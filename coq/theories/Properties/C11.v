(* C11 — Compiled queries are structurally well-formed.

   `WfIR.wf_ir : raw_query -> bool` is the executable conjunction of the structural invariants the
   engine relies on (the statement of C11 / the "TODO: most of the above" list of
   IndexedQuery::try_from / DESIGN.md Appendix A.4 #1-#8), over the Rust-shaped IR of IR.v:
     - BTreeMap order: a component's edges and its folds are listed by strictly increasing eid;
     - the component root is one of its vertices; every other vertex is the `to` of an edge of the
       same component (exactly one: eids are distinct and eid i leads to vid i+1);
     - every edge: to = eid+1, from and to are vertices of this component, from < to, a recursive
       edge has depth >= 1;
     - every fold: to = eid+1 = the root of the folded component, from is a vertex of this component,
       from < to;
     - every vid occurs in exactly one component, every eid on exactly one edge/fold, every output
       name (component outputs and fold-count outputs) is declared once in the whole query;
     - the eids of a component subtree with root r are exactly r .. r+n-1 (so a fold's eid r-1 is
       below every eid inside it, and sub-components are executed contiguously);
     - every tag operand (vertex filters and fold post-filters): if this component defines it, it is
       defined at a vid <= the using vertex (a count tag: its fold has a lower eid than the edge
       entering the using vertex, and the recorded root is eid+1), otherwise an enclosing fold
       imports it;
     - a fold's imported_tags, as a set, are exactly the tags used inside the fold (all nesting
       levels, vertex filters and post-filters) that the fold's parent component defines, each
       defined early enough to be known when the fold starts; duplicates are allowed;
     - every variable use `x : t` (vertex filters and post-filters) is recorded, `variables x = t0`,
       with t.is_scalar_only_subtype(t0);
     - outputs name vertices of their own component.

   What is proved here (all inputs, no bounds): a well-formed IR passes the engine's merge loop and
   visited-vid asserts (lowering), is accepted by IndexedQuery::try_from unless an output nests more
   than 30 list levels (a genuine panic of the real code, reproduced by the harness), and meets the
   hypotheses of the engine refinement / no-panic theorems.  That every query ACCEPTED BY THE
   FRONTEND is well-formed (front_wf) needs the frontend model (property C10) and is covered at run
   time instead: ./check C11 evaluates this validator (vm_compute) on every IR the real frontend
   produces for generated and corpus queries — translation-validation strength. *)
From TF Require Import Values Exec Sem Sim SimComp SimOut SimTop FoldOut SimGen SemT SimGenT EraseSem SimFinal WfIR WfIRProofs WfRefine.
Local Open Scope string_scope.
Local Open Scope list_scope.

(* (a) the merge loop's unreachable!() and the two visited-vid assert!s of compute_component cannot
   fire on a well-formed query: lowering (Lower.v) succeeds *)
Theorem C11_wf_ir_lower_ok :
  forall q, wf_ir q = true -> exists q', lower_query q = Ok q'.
Proof. exact wf_ir_lower_ok. Qed.
Print Assumptions C11_wf_ir_lower_ok.

(* (b) `ir_query.try_into().unwrap()` in frontend::parse: none of the GetBetterVariant(n) errors can
   be returned for a well-formed IR, and indexing does not panic unless some output nests more than
   30 list levels.
   Full statement (false for the real code, see C11_indexing_panics_on_deep_outputs_refuted):
     forall q, wf_ir q = true -> exists ix, index_query q = Ok (inr ix)                          *)
Theorem C11_indexed_ok :
  forall q, wf_ir q = true -> shallow_outputs q = true -> exists ix, index_query q = Ok (inr ix).
Proof. exact indexed_ok. Qed.
Print Assumptions C11_indexed_ok.

(* a successful indexing run recorded exactly the vids, eids and output names of the query *)
Theorem C11_indexed_contents :
  forall q ix, index_query q = Ok (inr ix) ->
    map fst (ix_vids ix) = all_vids (rq_comp q) /\
    map fst (ix_eids ix) = all_eids (rq_comp q) /\
    map fst (ix_outputs ix) = all_outs (rq_comp q).
Proof. exact index_query_contents. Qed.
Print Assumptions C11_indexed_contents.

(* (c) sufficiency: the structural hypotheses of the engine theorems follow from wf_ir *)
Theorem C11_wf_gives_edges_only :
  forall q q', wf_ir q = true -> fold_free q = true -> lower_query q = Ok q' ->
    edges_only (c_steps (q_comp q')) = true.
Proof. exact wf_ir_edges_only. Qed.
Print Assumptions C11_wf_gives_edges_only.

(* ... so C01's refinement theorem applies to every well-formed fold-free query as the frontend
   prints it (raw IR), through lowering *)
Theorem C11_wf_fold_free_engine_refines :
  forall re g args q q' rows,
    ty_indep g -> wf_ir q = true -> fold_free q = true -> lower_query q = Ok q' ->
    interpret re g args q' = Ok rows -> Forall2 row_equiv rows (sem re g args q').
Proof. exact wf_fold_free_engine_refines. Qed.
Print Assumptions C11_wf_fold_free_engine_refines.

(* the depth hypothesis of C09_recursive_expansion_never_panics, for every edge at every nesting level *)
Theorem C11_wf_gives_recursion_depth :
  forall q, wf_ir q = true ->
    forall e r, In e (all_edges (rq_comp q)) -> e_rec e = Some r -> r_depth r <> 0%N.
Proof. exact wf_ir_recursion_depth. Qed.
Print Assumptions C11_wf_gives_recursion_depth.

(* "tags are defined at vertices resolved before their uses", against the specification's run of a
   component: `sinv root done a` (WfIRProofs) describes every assignment `a` the specification has
   built after processing the steps `done` in eid order; when the next step is an edge, every tag
   operand of the entered vertex' filters that this component defines is the entered vertex itself or
   already recorded in `a` (context.vertices[&vid] / folded_contexts[&eid] cannot miss) ... *)
Theorem C11_vertex_filter_tags_recorded :
  forall re g args vars avail root vs es fs outs ss done e rest a tov f t,
    wf_comp vars avail (RComp root vs es fs outs) = true ->
    NoDup (all_eids (RComp root vs es fs outs)) -> interval_ok (RComp root vs es fs outs) = true ->
    lower (RComp root vs es fs outs) = Ok (mkComp root vs ss outs) ->
    ss = done ++ SEdge e :: rest -> sinv re g args root done a ->
    find_vertex vs (e_to e) = Some tov -> In f (v_filters tov) -> In t (arg_tags (vf_arg f)) ->
    tag_recorded (comp_vids vs) (comp_feids fs) a (Some (e_to e)) t.
Proof. exact vertex_filter_tags_recorded. Qed.
Print Assumptions C11_vertex_filter_tags_recorded.

(* ... and when it is a fold, every imported tag and every post-filter tag operand defined by this
   component is already recorded (a count tag: its fold is completed) *)
Theorem C11_fold_tags_recorded :
  forall re g args vars avail root vs es fs outs ss done h sub' rest a t,
    wf_comp vars avail (RComp root vs es fs outs) = true ->
    NoDup (all_eids (RComp root vs es fs outs)) -> NoDup (all_vids (RComp root vs es fs outs)) ->
    interval_ok (RComp root vs es fs outs) = true ->
    lower (RComp root vs es fs outs) = Ok (mkComp root vs ss outs) ->
    ss = done ++ SFold h sub' :: rest -> sinv re g args root done a ->
    In t (fo_imported h ++ post_tags h) ->
    tag_recorded (comp_vids vs) (comp_feids fs) a None t.
Proof. exact fold_tags_recorded. Qed.
Print Assumptions C11_fold_tags_recorded.

(* the invariant `sinv` is what the specification maintains on well-formed components *)
Theorem C11_spec_assignments_have_shape :
  forall re g args root vs ss outs imp r0 a,
    bound_ok [root] ss ->
    In a (sem_comp re g args (mkComp root vs ss outs) imp (Some r0)) -> sinv re g args root ss a.
Proof. exact sem_comp_inv. Qed.
Print Assumptions C11_spec_assignments_have_shape.

(* (c, complete) every hypothesis of the whole-query refinement theorem SimFinal.interpret_refines_sem
   follows from wf_ir, through lowering: fresh import keys at every fold (wf_comp_t), distinct fold
   output keys and fold eids at every level (wf_out), distinct output names, and the erasure
   conditions (fold-count references name the fold's root consistently, so nothing reads the count of
   a fold that compute_fold truncates).  What remains is the one non-structural condition
   `no_saturation args q'`: at every nesting level, a fold that compute_fold truncates with
   take(min) has min < usize::MAX (it depends on the argument values). *)
Theorem C11_wf_ir_refine_hyps :
  forall args q q', wf_ir q = true -> lower_query q = Ok q' -> no_saturation args (q_comp q') = true ->
    wf_comp_t [] (q_comp q') /\ wf_out (q_comp q') /\ NoDup (all_output_names (q_comp q')) /\
    erasable args (q_comp q').
Proof. exact wf_ir_refine_hyps. Qed.
Print Assumptions C11_wf_ir_refine_hyps.

(* ... so the engine model returns exactly the specification's rows (same order, rows as maps) on
   EVERY well-formed query — any nesting of @fold / @optional / @recurse, tags, count filters *)
Theorem C11_wf_ir_engine_refines :
  forall re g args q q' rows,
    ty_indep g -> wf_ir q = true -> lower_query q = Ok q' -> no_saturation args (q_comp q') = true ->
    interpret re g args q' = Ok rows -> Forall2 row_equiv rows (sem re g args q').
Proof. exact wf_ir_engine_refines. Qed.
Print Assumptions C11_wf_ir_engine_refines.

(* ---- (d) non-vacuity: IRs printed from the real frontend (harness irprint) ---- *)
(* generated query (world schema):
query {
  Leaf {
    flag @output(name: "o1") @filter(op: "is_null")
    ratio @filter(op: ">=", value: ["$v1"]) @output(name: "o2")
    parent {
      id @filter(op: "not_one_of", value: ["$v2"])
      name @filter(op: "<", value: ["$v3"]) @filter(op: "not_one_of", value: ["$v4"]) @output(name: "o3")
      score @output(name: "o4")
      parent {
        ratio @output(name: "o5")
        nums @filter(op: "contains", value: ["$v5"]) @output(name: "o6")
        parent {
          score @filter(op: ">=", value: ["$v6"]) @output(name: "o7")
          nums @output(name: "o8")
          parent @optional {
            nums @filter(op: ">=", value: ["$v7"]) @filter(op: "one_of", value: ["$v8"]) @output(name: "o9")
            score @output(name: "o10") @filter(op: ">=", value: ["$v9"])
            name @tag(name: "t2")
          }
          next(lo: 7, hi: 4) @fold @transform(op: "count") @filter(op: "one_of", value: ["$v10"]) @tag(name: "t3") @output(name: "o11") {
            id @filter(op: ">", value: ["$v11"]) @output(name: "o12")
          }
        }
        parent @fold {
          flag @filter(op: "not_one_of", value: ["$v12"]) @output(name: "o13")
          nums @filter(op: "contains", value: ["%t3"]) @output(name: "o14")
          next(hi: 0) @fold @transform(op: "count") @filter(op: "<", value: ["%t3"]) @filter(op: ">", value: ["$v13"]) {
            id @filter(op: ">", value: ["%t3"]) @filter(op: "!=", value: ["$v11"])
          }
        }
        parent @recurse(depth: 3) {
          ... on Leaf {
            nums @tag(name: "t6")
            id @filter(op: "not_one_of", value: ["%t6"]) @output(name: "o15")
            parent @recurse(depth: 3) {
              nums @output(name: "o16")
              score @filter(op: "<", value: ["$v14"])
            }
            next(lo: -1) @optional {
              name @filter(op: "not_has_substring", value: ["%t2"])
              score @output(name: "o17") @filter(op: "=", value: ["%t3"])
            }
            next(lo: 9, hi: 2) {
              __typename @output(name: "o18")
              flag @output(name: "o19")
              score @output(name: "o20")
            }
          }
        }
      }
    }
  }
}

   plain / @optional / @recurse edges, a coercion, three folds (one nested), a fold-count tag used
   in the parent component, inside a sibling fold and two levels deep (imported three times),
   variables at every level *)
Definition c11_real_query : raw_query :=
  (mkRQ "Leaf" [("hi", (I64 1000%Z))] (RComp 1%N [(mkV 1%N "Leaf" None [(mkVF IsNull "flag" (mkTy "Boolean" 0%N) None); (mkVF GreaterThanOrEqual "ratio" (mkTy "Float" 0%N) (Some (AVar "v1" (mkTy "Float" 1%N))))]); (mkV 2%N "Thing" None [(mkVF NotOneOf "id" (mkTy "Int" 1%N) (Some (AVar "v2" (mkTy "Int" 7%N)))); (mkVF LessThan "name" (mkTy "String" 0%N) (Some (AVar "v3" (mkTy "String" 1%N)))); (mkVF NotOneOf "name" (mkTy "String" 0%N) (Some (AVar "v4" (mkTy "String" 3%N))))]); (mkV 3%N "Thing" None [(mkVF Contains "nums" (mkTy "Int" 3%N) (Some (AVar "v5" (mkTy "Int" 0%N))))]); (mkV 4%N "Thing" None [(mkVF GreaterThanOrEqual "score" (mkTy "Int" 0%N) (Some (AVar "v6" (mkTy "Int" 1%N))))]); (mkV 5%N "Thing" None [(mkVF GreaterThanOrEqual "nums" (mkTy "Int" 3%N) (Some (AVar "v7" (mkTy "Int" 3%N)))); (mkVF OneOf "nums" (mkTy "Int" 3%N) (Some (AVar "v8" (mkTy "Int" 15%N)))); (mkVF GreaterThanOrEqual "score" (mkTy "Int" 0%N) (Some (AVar "v9" (mkTy "Int" 1%N))))]); (mkV 9%N "Leaf" (Some "Thing") [(mkVF NotOneOf "id" (mkTy "Int" 1%N) (Some (ATag (FRContext (mkCF 9%N "nums" (mkTy "Int" 3%N))))))]); (mkV 10%N "Thing" None [(mkVF LessThan "score" (mkTy "Int" 0%N) (Some (AVar "v14" (mkTy "Int" 1%N))))]); (mkV 11%N "Thing" None [(mkVF NotHasSubstring "name" (mkTy "String" 0%N) (Some (ATag (FRContext (mkCF 5%N "name" (mkTy "String" 0%N)))))); (mkVF Equals "score" (mkTy "Int" 0%N) (Some (ATag (FRFold (mkFF 5%N 6%N)))))]); (mkV 12%N "Thing" None [])] [(mkE 1%N 1%N 2%N "parent" [] false None); (mkE 2%N 2%N 3%N "parent" [] false None); (mkE 3%N 3%N 4%N "parent" [] false None); (mkE 4%N 4%N 5%N "parent" [] true None); (mkE 8%N 3%N 9%N "parent" [] false (Some (mkRec 3%N None))); (mkE 9%N 9%N 10%N "parent" [] false (Some (mkRec 3%N None))); (mkE 10%N 9%N 11%N "next" [("hi", (I64 1000%Z)); ("lo", (I64 (-1)%Z))] true None); (mkE 11%N 9%N 12%N "next" [("hi", (I64 2%Z)); ("lo", (I64 9%Z))] false None)] [(RFold (mkFH 5%N 4%N 6%N "next" [("hi", (I64 4%Z)); ("lo", (I64 7%Z))] [] ["o11"] [(mkPF OneOf (Some (AVar "v10" (mkTy "Int" 7%N))))]) (RComp 6%N [(mkV 6%N "Thing" None [(mkVF GreaterThan "id" (mkTy "Int" 1%N) (Some (AVar "v11" (mkTy "Int" 1%N))))])] [] [] [("o12", (mkCF 6%N "id" (mkTy "Int" 1%N)))])); (RFold (mkFH 6%N 3%N 7%N "parent" [] [(FRFold (mkFF 5%N 6%N)); (FRFold (mkFF 5%N 6%N)); (FRFold (mkFF 5%N 6%N))] [] []) (RComp 7%N [(mkV 7%N "Thing" None [(mkVF NotOneOf "flag" (mkTy "Boolean" 0%N) (Some (AVar "v12" (mkTy "Boolean" 3%N)))); (mkVF Contains "nums" (mkTy "Int" 3%N) (Some (ATag (FRFold (mkFF 5%N 6%N)))))])] [] [(RFold (mkFH 7%N 7%N 8%N "next" [("hi", (I64 0%Z)); ("lo", Null)] [] [] [(mkPF LessThan (Some (ATag (FRFold (mkFF 5%N 6%N))))); (mkPF GreaterThan (Some (AVar "v13" (mkTy "Int" 1%N))))]) (RComp 8%N [(mkV 8%N "Thing" None [(mkVF GreaterThan "id" (mkTy "Int" 1%N) (Some (ATag (FRFold (mkFF 5%N 6%N))))); (mkVF NotEquals "id" (mkTy "Int" 1%N) (Some (AVar "v11" (mkTy "Int" 1%N))))])] [] [] []))] [("o13", (mkCF 7%N "flag" (mkTy "Boolean" 0%N))); ("o14", (mkCF 7%N "nums" (mkTy "Int" 3%N)))]))] [("o1", (mkCF 1%N "flag" (mkTy "Boolean" 0%N))); ("o10", (mkCF 5%N "score" (mkTy "Int" 0%N))); ("o15", (mkCF 9%N "id" (mkTy "Int" 1%N))); ("o16", (mkCF 10%N "nums" (mkTy "Int" 3%N))); ("o17", (mkCF 11%N "score" (mkTy "Int" 0%N))); ("o18", (mkCF 12%N "__typename" (mkTy "String" 1%N))); ("o19", (mkCF 12%N "flag" (mkTy "Boolean" 0%N))); ("o2", (mkCF 1%N "ratio" (mkTy "Float" 0%N))); ("o20", (mkCF 12%N "score" (mkTy "Int" 0%N))); ("o3", (mkCF 2%N "name" (mkTy "String" 0%N))); ("o4", (mkCF 2%N "score" (mkTy "Int" 0%N))); ("o5", (mkCF 3%N "ratio" (mkTy "Float" 0%N))); ("o6", (mkCF 3%N "nums" (mkTy "Int" 3%N))); ("o7", (mkCF 4%N "score" (mkTy "Int" 0%N))); ("o8", (mkCF 4%N "nums" (mkTy "Int" 3%N))); ("o9", (mkCF 5%N "nums" (mkTy "Int" 3%N)))]) [("v1", (mkTy "Float" 1%N)); ("v10", (mkTy "Int" 7%N)); ("v11", (mkTy "Int" 1%N)); ("v12", (mkTy "Boolean" 3%N)); ("v13", (mkTy "Int" 1%N)); ("v14", (mkTy "Int" 1%N)); ("v2", (mkTy "Int" 7%N)); ("v3", (mkTy "String" 1%N)); ("v4", (mkTy "String" 3%N)); ("v5", (mkTy "Int" 0%N)); ("v6", (mkTy "Int" 1%N)); ("v7", (mkTy "Int" 3%N)); ("v8", (mkTy "Int" 15%N)); ("v9", (mkTy "Int" 1%N))]).

Example C11_real_query_is_wf :
  wf_ir c11_real_query = true /\ shallow_outputs c11_real_query = true /\
  (match lower_query c11_real_query with Ok _ => true | Panic _ => false end) = true /\
  (match index_query c11_real_query with Ok (inr ix) => Nat.eqb (List.length (ix_outputs ix)) 20 | _ => false end) = true.
Proof. vm_compute. repeat split. Qed.
Print Assumptions C11_real_query_is_wf.

(* corpus: valid_queries/filter_in_nested_fold_using_external_tag (a tag imported two levels down) *)
Definition c11_nested : raw_query :=
  (mkRQ "Two" [] (RComp 1%N [(mkV 1%N "Prime" None [])] [] [(RFold (mkFH 1%N 1%N 2%N "multiple" [("max", (I64 2%Z))] [(FRContext (mkCF 1%N "name" (mkTy "String" 0%N)))] [] []) (RComp 2%N [(mkV 2%N "Composite" None [])] [] [(RFold (mkFH 2%N 2%N 3%N "multiple" [("max", (I64 2%Z))] [] [] []) (RComp 3%N [(mkV 3%N "Composite" None [(mkVF LessThan "name" (mkTy "String" 0%N) (Some (ATag (FRContext (mkCF 1%N "name" (mkTy "String" 0%N))))))])] [] [] [("second", (mkCF 3%N "value" (mkTy "Int" 0%N)))]))] [("first", (mkCF 2%N "value" (mkTy "Int" 0%N)))]))] []) []).
(* corpus: valid_queries/fold_count_filter_on_a_tag *)
Definition c11_count : raw_query :=
  (mkRQ "Two" [] (RComp 1%N [(mkV 1%N "Prime" None []); (mkV 2%N "Composite" None [(mkVF Equals "value" (mkTy "Int" 0%N) (Some (AVar "six" (mkTy "Int" 0%N))))])] [(mkE 1%N 1%N 2%N "multiple" [("max", (I64 3%Z))] false None)] [(RFold (mkFH 2%N 2%N 3%N "primeFactor" [] [] [] [(mkPF GreaterThanOrEqual (Some (AVar "zero" (mkTy "Int" 1%N)))); (mkPF LessThan (Some (ATag (FRContext (mkCF 1%N "value" (mkTy "Int" 0%N))))))]) (RComp 3%N [(mkV 3%N "Prime" None [])] [] [] []))] [("value", (mkCF 2%N "value" (mkTy "Int" 0%N)))]) [("six", (mkTy "Int" 0%N)); ("zero", (mkTy "Int" 1%N))]).

Example C11_corpus_queries_are_wf : wf_ir c11_nested = true /\ wf_ir c11_count = true.
Proof. vm_compute. split; reflexivity. Qed.
Print Assumptions C11_corpus_queries_are_wf.

(* the premises of C11_wf_ir_refine_hyps are met by real IRs with folds (count filters with
   variables and tags, nested folds, imported count tags); the executable side conditions of
   SimFinal (refine_hyps) agree *)
Example C11_refine_premises_satisfiable :
  let args1 := [("six", I64 6%Z); ("zero", I64 0%Z)] in
  let args2 := [("v10", List [I64 1%Z; I64 2%Z]); ("v13", I64 0%Z)] in
  wf_ir c11_count = true /\ wf_ir c11_real_query = true /\
  match lower_query c11_count, lower_query c11_real_query with
  | Ok q1, Ok q2 =>
      no_saturation args1 (q_comp q1) = true /\ refine_hyps args1 q1 = true /\
      no_saturation args2 (q_comp q2) = true /\ refine_hyps args2 q2 = true
  | _, _ => False
  end.
Proof. vm_compute. repeat split. Qed.
Print Assumptions C11_refine_premises_satisfiable.

(* ---- hand-broken IRs are rejected ---- *)
(* the outer fold no longer imports the tag its nested fold uses *)
Definition c11_nested_missing_import : raw_query :=
  (mkRQ "Two" [] (RComp 1%N [(mkV 1%N "Prime" None [])] [] [(RFold (mkFH 1%N 1%N 2%N "multiple" [("max", (I64 2%Z))] [] [] []) (RComp 2%N [(mkV 2%N "Composite" None [])] [] [(RFold (mkFH 2%N 2%N 3%N "multiple" [("max", (I64 2%Z))] [] [] []) (RComp 3%N [(mkV 3%N "Composite" None [(mkVF LessThan "name" (mkTy "String" 0%N) (Some (ATag (FRContext (mkCF 1%N "name" (mkTy "String" 0%N))))))])] [] [] [("second", (mkCF 3%N "value" (mkTy "Int" 0%N)))]))] [("first", (mkCF 2%N "value" (mkTy "Int" 0%N)))]))] []) []).
(* ... or it is imported by the inner fold instead of the outermost fold below the definition *)
Definition c11_nested_import_wrong_level : raw_query :=
  (mkRQ "Two" [] (RComp 1%N [(mkV 1%N "Prime" None [])] [] [(RFold (mkFH 1%N 1%N 2%N "multiple" [("max", (I64 2%Z))] [] [] []) (RComp 2%N [(mkV 2%N "Composite" None [])] [] [(RFold (mkFH 2%N 2%N 3%N "multiple" [("max", (I64 2%Z))] [(FRContext (mkCF 1%N "name" (mkTy "String" 0%N)))] [] []) (RComp 3%N [(mkV 3%N "Composite" None [(mkVF LessThan "name" (mkTy "String" 0%N) (Some (ATag (FRContext (mkCF 1%N "name" (mkTy "String" 0%N))))))])] [] [] [("second", (mkCF 3%N "value" (mkTy "Int" 0%N)))]))] [("first", (mkCF 2%N "value" (mkTy "Int" 0%N)))]))] []) []).
(* the eids of an edge and a fold are swapped (edge 2 -> vertex 2, fold 1 -> vertex 3) *)
Definition c11_count_swapped_eids : raw_query :=
  (mkRQ "Two" [] (RComp 1%N [(mkV 1%N "Prime" None []); (mkV 2%N "Composite" None [(mkVF Equals "value" (mkTy "Int" 0%N) (Some (AVar "six" (mkTy "Int" 0%N))))])] [(mkE 2%N 1%N 2%N "multiple" [("max", (I64 3%Z))] false None)] [(RFold (mkFH 1%N 2%N 3%N "primeFactor" [] [] [] [(mkPF GreaterThanOrEqual (Some (AVar "zero" (mkTy "Int" 1%N)))); (mkPF LessThan (Some (ATag (FRContext (mkCF 1%N "value" (mkTy "Int" 0%N))))))]) (RComp 3%N [(mkV 3%N "Prime" None [])] [] [] []))] [("value", (mkCF 2%N "value" (mkTy "Int" 0%N)))]) [("six", (mkTy "Int" 0%N)); ("zero", (mkTy "Int" 1%N))]).
(* vertex 1 filters on a tag defined at vertex 2 *)
Definition c11_count_tag_before_definition : raw_query :=
  (mkRQ "Two" [] (RComp 1%N [(mkV 1%N "Prime" None [(mkVF Equals "value" (mkTy "Int" 0%N) (Some (ATag (FRContext (mkCF 2%N "value" (mkTy "Int" 0%N))))))]); (mkV 2%N "Composite" None [(mkVF Equals "value" (mkTy "Int" 0%N) (Some (AVar "six" (mkTy "Int" 0%N))))])] [(mkE 1%N 1%N 2%N "multiple" [("max", (I64 3%Z))] false None)] [(RFold (mkFH 2%N 2%N 3%N "primeFactor" [] [] [] [(mkPF GreaterThanOrEqual (Some (AVar "zero" (mkTy "Int" 1%N)))); (mkPF LessThan (Some (ATag (FRContext (mkCF 1%N "value" (mkTy "Int" 0%N))))))]) (RComp 3%N [(mkV 3%N "Prime" None [])] [] [] []))] [("value", (mkCF 2%N "value" (mkTy "Int" 0%N)))]) [("six", (mkTy "Int" 0%N)); ("zero", (mkTy "Int" 1%N))]).
(* a used variable is not recorded / is recorded with another type / is recorded nullable although a
   fold post-filter uses it as Int! (indexed.rs does not look at post-filters: wf_ir is stricter) *)
Definition c11_count_variable_missing : raw_query :=
  (mkRQ "Two" [] (RComp 1%N [(mkV 1%N "Prime" None []); (mkV 2%N "Composite" None [(mkVF Equals "value" (mkTy "Int" 0%N) (Some (AVar "six" (mkTy "Int" 0%N))))])] [(mkE 1%N 1%N 2%N "multiple" [("max", (I64 3%Z))] false None)] [(RFold (mkFH 2%N 2%N 3%N "primeFactor" [] [] [] [(mkPF GreaterThanOrEqual (Some (AVar "zero" (mkTy "Int" 1%N)))); (mkPF LessThan (Some (ATag (FRContext (mkCF 1%N "value" (mkTy "Int" 0%N))))))]) (RComp 3%N [(mkV 3%N "Prime" None [])] [] [] []))] [("value", (mkCF 2%N "value" (mkTy "Int" 0%N)))]) [("zero", (mkTy "Int" 1%N))]).
Definition c11_count_variable_other_type : raw_query :=
  (mkRQ "Two" [] (RComp 1%N [(mkV 1%N "Prime" None []); (mkV 2%N "Composite" None [(mkVF Equals "value" (mkTy "Int" 0%N) (Some (AVar "six" (mkTy "Int" 0%N))))])] [(mkE 1%N 1%N 2%N "multiple" [("max", (I64 3%Z))] false None)] [(RFold (mkFH 2%N 2%N 3%N "primeFactor" [] [] [] [(mkPF GreaterThanOrEqual (Some (AVar "zero" (mkTy "Int" 1%N)))); (mkPF LessThan (Some (ATag (FRContext (mkCF 1%N "value" (mkTy "Int" 0%N))))))]) (RComp 3%N [(mkV 3%N "Prime" None [])] [] [] []))] [("value", (mkCF 2%N "value" (mkTy "Int" 0%N)))]) [("six", (mkTy "String" 0%N)); ("zero", (mkTy "Int" 1%N))]).
Definition c11_count_variable_wider : raw_query :=
  (mkRQ "Two" [] (RComp 1%N [(mkV 1%N "Prime" None []); (mkV 2%N "Composite" None [(mkVF Equals "value" (mkTy "Int" 0%N) (Some (AVar "six" (mkTy "Int" 0%N))))])] [(mkE 1%N 1%N 2%N "multiple" [("max", (I64 3%Z))] false None)] [(RFold (mkFH 2%N 2%N 3%N "primeFactor" [] [] [] [(mkPF GreaterThanOrEqual (Some (AVar "zero" (mkTy "Int" 1%N)))); (mkPF LessThan (Some (ATag (FRContext (mkCF 1%N "value" (mkTy "Int" 0%N))))))]) (RComp 3%N [(mkV 3%N "Prime" None [])] [] [] []))] [("value", (mkCF 2%N "value" (mkTy "Int" 0%N)))]) [("six", (mkTy "Int" 0%N)); ("zero", (mkTy "Int" 0%N))]).

Example C11_broken_irs_refuted :
  wf_ir c11_nested_missing_import = false /\
  wf_ir c11_nested_import_wrong_level = false /\
  wf_ir c11_count_swapped_eids = false /\
  wf_ir c11_count_tag_before_definition = false /\
  wf_ir c11_count_variable_missing = false /\
  wf_ir c11_count_variable_other_type = false /\
  wf_ir c11_count_variable_wider = false.
Proof. vm_compute. repeat split. Qed.
Print Assumptions C11_broken_irs_refuted.

(* the swapped-eid IR is also what the engine's asserts and the indexer refuse *)
Example C11_swapped_eids_consequences :
  (match lower_query c11_count_swapped_eids with Panic _ => true | Ok _ => false end) = true /\
  index_query c11_count_swapped_eids = Ok (inl 4%Z) /\
  index_query c11_count_variable_missing = Ok (inl (-3)%Z) /\
  index_query c11_count_variable_other_type = Ok (inl (-2)%Z) /\
  (match index_query c11_count_variable_wider with Ok (inr _) => true | _ => false end) = true.
Proof. vm_compute. repeat split. Qed.
Print Assumptions C11_swapped_eids_consequences.

(* ---- the known class: outputs nesting more than 30 list levels ----
   `R { e @fold { deep @output } }` over a schema with `deep: [[..30 levels..Int..]]`: the frontend's IR
   (printed by the harness) is well-formed, and indexing it panics in Type::new_list_type — the real
   frontend::parse panics on this query (recorded by ./check C11 under extra.deep_list_probe). *)
Definition c11_deep : raw_query :=
  (mkRQ "R" [] (RComp 1%N [(mkV 1%N "R" None [])] [] [(RFold (mkFH 1%N 1%N 2%N "e" [] [] [] []) (RComp 2%N [(mkV 2%N "R" None [])] [] [] [("deep", (mkCF 2%N "deep" (mkTy "Int" 768614336404564650%N)))]))] []) []).
Example C11_indexing_panics_on_deep_outputs_refuted :
  exists q, wf_ir q = true /\ shallow_outputs q = false /\
            index_query q = Panic site_new_list.
Proof. exists c11_deep. vm_compute. repeat split. Qed.
Print Assumptions C11_indexing_panics_on_deep_outputs_refuted.
