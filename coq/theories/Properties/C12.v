(* C12 — Argument validation accepts exactly the well-typed, complete argument maps.
   Only statements, `exact` proofs, Print Assumptions and non-vacuity examples live here.

   Model: Args.v.  `validate vars args` transcribes InterpretedQuery::from_query_and_arguments on
   the query's `variables` map and the supplied argument map (both BTreeMaps = key-sorted
   association lists; `sorted_keys`).  `VErr errs` is the vector of errors the Rust code builds
   before `errors.into()` ([e] = the error e itself, two or more = MultipleErrors).
   `variables_of_uses uses` transcribes frontend::fill_in_query_variables on the sequence of
   variable use sites (name, use-site type) of the query.  `ty_valid` = Type::is_valid_value,
   `ty_meet` = Type::intersect (Ty.v / TyProofs.v, C17).

   Everything quantifies over ALL variable maps (any names, any types — not even well-formedness is
   needed for the validation theorems) and ALL argument maps (any names, values of any nesting).

   Known genuine defect F6 (class K-enum-arg): a FieldValue::Enum reached by a type check makes
   is_valid_value hit `unimplemented!`, so such an argument map is neither accepted nor refused.
   The full-strength statement

     Theorem validate_decides : forall vars args,
       (validate vars args = Ok VOk /\ acceptable vars args) \/
       (exists errs, validate vars args = Ok (VErr errs) /\ ~ acceptable vars args).

   is therefore refuted (C12_validate_enum_refuted) and proved on the complement of the class
   (`args_enum_free args = true`: C12_validate_refused_iff, C12_validate_never_panics_enum_free);
   the acceptance half (C12_validate_ok_iff) and the description of a refusal
   (C12_validate_errors_exact) hold for all inputs, and C12_validate_panics_exactly says precisely
   which inputs panic. *)
From Coq Require Import Sorted.
From TF Require Import Values ValuesProofs Show Ty TyProofs IR Args ArgsProofs.
Local Open Scope string_scope.
Local Open Scope list_scope.

(* accepted <-> every variable has an argument valid for its type, and every argument is a variable *)
Theorem C12_validate_ok_iff : forall vars args,
  validate vars args = Ok VOk <->
  (forall x t, In (x, t) vars -> exists v, lookup_str x args = Some v /\ ty_valid t v = Ok true) /\
  (forall x, In x (map fst args) -> In x (map fst vars)).
Proof. exact validate_ok_iff. Qed.
Print Assumptions C12_validate_ok_iff.

(* refused (with some error vector) <-> not acceptable; enum-free argument maps *)
Theorem C12_validate_refused_iff : forall vars args, args_enum_free args = true ->
  ((exists errs, validate vars args = Ok (VErr errs)) <->
   ~ ((forall x t, In (x, t) vars -> exists v, lookup_str x args = Some v /\ ty_valid t v = Ok true) /\
      (forall x, In x (map fst args) -> In x (map fst vars)))).
Proof. exact validate_refused_iff. Qed.
Print Assumptions C12_validate_refused_iff.

(* a refusal names exactly the offending variables and nothing else:
   - shape: the type errors (variable key order), then one Missing iff some name is missing, then
     one Unused iff some name is unused; never empty;
   - TypeErr x s v is reported iff x is a variable of type t (s = its text) whose argument v is not
     valid for t;
   - the Missing / Unused lists are exactly the variable names without argument / the argument
     names that are not variables;
   - on BTreeMaps (key-sorted) every name is reported once, in key order *)
Theorem C12_validate_errors_exact : forall vars args errs,
  validate vars args = Ok (VErr errs) ->
  errs = type_errs vars args ++ opt_err Missing (missing_names vars args)
                             ++ opt_err Unused (unused_names vars args) /\
  errs <> [] /\
  (forall x s v, In (TypeErr x s v) errs <->
     exists t, In (x, t) vars /\ s = ty_display t /\ lookup_str x args = Some v /\ ty_valid t v = Ok false) /\
  (forall ns, In (Missing ns) errs <-> ns = missing_names vars args /\ ns <> []) /\
  (forall ns, In (Unused ns) errs <-> ns = unused_names vars args /\ ns <> []) /\
  (forall x, In x (missing_names vars args) <-> In x (map fst vars) /\ lookup_str x args = None) /\
  (forall x, In x (unused_names vars args) <-> In x (map fst args) /\ ~ In x (map fst vars)) /\
  (sorted_keys vars = true ->
     StronglySorted str_lt (type_err_names errs) /\ NoDup (type_err_names errs) /\
     StronglySorted str_lt (missing_names vars args) /\ NoDup (missing_names vars args)) /\
  (sorted_keys args = true ->
     StronglySorted str_lt (unused_names vars args) /\ NoDup (unused_names vars args)).
Proof. exact validate_errors_exact. Qed.
Print Assumptions C12_validate_errors_exact.

Theorem C12_validate_never_panics_enum_free : forall vars args,
  args_enum_free args = true -> exists r, validate vars args = Ok r.
Proof. exact validate_never_panics_enum_free. Qed.
Print Assumptions C12_validate_never_panics_enum_free.

(* validation panics exactly when the type check of some variable's argument does (C17 describes
   when: the short-circuiting scan of the value reaches an Enum) *)
Theorem C12_validate_panics_exactly : forall vars args,
  (exists s, validate vars args = Panic s) <->
  (exists x t v s, In (x, t) vars /\ lookup_str x args = Some v /\ ty_valid t v = Panic s).
Proof. exact validate_panic_iff. Qed.
Print Assumptions C12_validate_panics_exactly.

(* F6: an Enum argument is neither accepted nor refused *)
Theorem C12_validate_enum_refuted :
  exists vars args, sorted_keys vars = true /\ sorted_keys args = true /\
    validate vars args = Panic site_enum /\
    ~ (validate vars args = Ok VOk \/ exists errs, validate vars args = Ok (VErr errs)).
Proof.
  exists [("x", ty_named "String" true)], [("x", Enum "a")].
  repeat split; try reflexivity. intros [H|[errs H]]; vm_compute in H; discriminate.
Qed.
Print Assumptions C12_validate_enum_refuted.

(* ---------- the type the query implies for a variable ---------- *)
(* the recorded type of x is the meet (Type::intersect, left to right) of all its use-site types:
   a subtype of each, the greatest such, and a value fits it iff it fits every use site *)
Theorem C12_variables_are_meets : forall uses vars, uses_wf uses ->
  variables_of_uses uses = Ok (Some vars) ->
  sorted_keys vars = true /\
  (forall x, In x (map fst vars) <-> In x (map fst uses)) /\
  (forall x T, lookup_str x vars = Some T ->
     exists t ts, uses_for x uses = t :: ts /\ meet_from t ts = Some T /\
       (forall u, In u (t :: ts) -> ty_sub u T = true) /\
       (forall d, wf_ty d = true -> (forall u, In u (t :: ts) -> ty_sub u d = true) -> ty_sub T d = true) /\
       (forall v, enum_free v = true ->
          (ty_valid T v = Ok true <-> forall u, In u (t :: ts) -> ty_valid u v = Ok true))).
Proof. exact variables_are_meets. Qed.
Print Assumptions C12_variables_are_meets.

(* the frontend refuses (IncompatibleVariableTypeRequirements) exactly when some variable's
   use-site types have no meet; it never panics *)
Theorem C12_variables_rejected_iff : forall uses, uses_wf uses ->
  (variables_of_uses uses = Ok None <->
   exists x t ts, uses_for x uses = t :: ts /\ meet_from t ts = None).
Proof. exact variables_rejected_iff. Qed.
Print Assumptions C12_variables_rejected_iff.

Theorem C12_variables_never_panic : forall uses, uses_wf uses -> exists r, variables_of_uses uses = Ok r.
Proof. exact variables_never_panic. Qed.
Print Assumptions C12_variables_never_panic.

(* both halves together: a compiled query accepts an (enum-free) argument map iff every use site
   of every variable gets a value that fits that use site's type, and nothing else is supplied *)
Theorem C12_accepts_iff_fits_every_use : forall uses vars args, uses_wf uses ->
  variables_of_uses uses = Ok (Some vars) -> args_enum_free args = true ->
  (validate vars args = Ok VOk <->
   (forall x t, In (x, t) uses -> exists v, lookup_str x args = Some v /\ ty_valid t v = Ok true) /\
   (forall x, In x (map fst args) -> In x (map fst uses))).
Proof. exact validate_ok_iff_uses. Qed.
Print Assumptions C12_accepts_iff_fits_every_use.

(* ---------- non-vacuity ---------- *)
Definition ex_vars : list (string * ty) :=
  [("a", ex_t "[Int]!"); ("b", ex_t "String"); ("c", ex_t "[[Int!]]"); ("d", ex_t "Float!")].

Example C12_nonvacuous_validate :
  sorted_keys ex_vars = true /\
  (* accepted: nested lists, nulls where allowed *)
  validate ex_vars [("a", List [I64 1; Null]); ("b", Null); ("c", List [List [U64 2]; Null]); ("d", F64 0%N)] = Ok VOk /\
  args_enum_free [("a", List [I64 1; Null]); ("b", Null); ("c", List [List [U64 2]; Null]); ("d", F64 0%N)] = true /\
  (* refused with all three kinds at once: a null for [Int]!, a null inside [Int!], d missing, two unused *)
  validate ex_vars [("a", Null); ("b", Str "x"); ("c", List [List [Null]]); ("e", I64 1); ("f", Null)] =
    Ok (VErr [TypeErr "a" "[Int]!" Null; TypeErr "c" "[[Int!]]" (List [List [Null]]); Missing ["d"]; Unused ["e"; "f"]]) /\
  (* a single error is the error itself *)
  validate ex_vars [("a", List []); ("b", I64 3); ("c", Null); ("d", F64 0%N)] = Ok (VErr [TypeErr "b" "String" (I64 3)]) /\
  show_validation (VErr [TypeErr "b" "String" (I64 3)]) = "ERR:TypeErr(62,537472696e67,i3)" /\
  (* an Enum behind an invalid element is never reached; an Enum that is reached panics *)
  validate ex_vars [("a", List [Str "s"; Enum "e"]); ("b", Null); ("c", Null); ("d", F64 0%N)] =
    Ok (VErr [TypeErr "a" "[Int]!" (List [Str "s"; Enum "e"])]) /\
  validate ex_vars [("a", List [I64 1; Enum "e"]); ("b", Null); ("c", Null); ("d", F64 0%N)] = Panic site_enum /\
  (* an unused Enum argument is refused as unused, not checked *)
  validate [] [("z", Enum "e")] = Ok (VErr [Unused ["z"]]).
Proof. vm_compute. repeat split. Qed.
Print Assumptions C12_nonvacuous_validate.

Definition ex_uses : list (string * ty) :=
  [("y", ex_t "[[Int!]]!"); ("x", ex_t "Int"); ("y", ex_t "[[Int]!]"); ("x", ex_t "Int!"); ("x", ex_t "Int")].

Example C12_nonvacuous_variables :
  uses_wf ex_uses /\
  variables_of_uses ex_uses = Ok (Some [("x", ex_t "Int!"); ("y", ex_t "[[Int!]!]!")]) /\
  uses_for "y" ex_uses = [ex_t "[[Int!]]!"; ex_t "[[Int]!]"] /\
  meet_from (ex_t "[[Int!]]!") [ex_t "[[Int]!]"] = Some (ex_t "[[Int!]!]!") /\
  (* incompatible requirements: different list shapes, different base types *)
  variables_of_uses [("x", ex_t "Int"); ("x", ex_t "[Int]")] = Ok None /\
  variables_of_uses [("a", ex_t "Int"); ("x", ex_t "Int"); ("x", ex_t "String"); ("x", ex_t "Int!")] = Ok None /\
  (* accepted exactly when the value fits every use *)
  validate [("x", ex_t "Int!"); ("y", ex_t "[[Int!]!]!")] [("x", I64 1); ("y", List [List [I64 2]])] = Ok VOk /\
  validate [("x", ex_t "Int!"); ("y", ex_t "[[Int!]!]!")] [("x", Null); ("y", List [Null])] =
    Ok (VErr [TypeErr "x" "Int!" Null; TypeErr "y" "[[Int!]!]!" (List [Null])]).
Proof.
  split; [repeat constructor|]. vm_compute. repeat split.
Qed.
Print Assumptions C12_nonvacuous_variables.
