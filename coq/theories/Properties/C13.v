(* C13 — Result rows carry exactly the declared outputs, typed as declared.

   Specification side (Sem.v) against the transcription of ir/indexed.rs (Indexed.v):
   * the keys of every row are exactly the output names the compiled query declares, and these are
     the keys of IndexedQuery.outputs;
   * every row value is valid (Type::is_valid_value, Ty.v) for the declared Output.value_type —
     for ALL well-formed queries, any nesting of @fold / @optional / @recurse, any dataset whose
     property values conform to the declared property types, any arguments;
   * the declared type itself is what the statement says: the property's type, made nullable iff an
     @optional edge lies on the vertex' path from its component root; one list level per enclosing
     @fold, that level nullable iff the fold starts inside @optional; `Int!` for fold counts, `Int`
     when the fold starts inside @optional.
   The transfer to the engine model goes through C01 and is stated here for the part of C01 that is
   proved (fold-free queries: `..._partial`); for queries with folds the implementation is covered by
   the run-time oracle of ./check C13 (every row of the real engine against the real declared types). *)
From Coq Require Import Permutation.
From TF Require Import Values Exec Sem Sim SimComp SimOut SimTop Run SimGen SimFull WfCheck SimFinal WfIR WfIRProofs TypedFull WfRefine.
Local Open Scope string_scope.

(* ---- exactly the declared names ---- *)
Theorem C13_row_names :
  forall g c a n, lookup_str n (sort_row (project g c a)) <> None <-> In n (all_output_names c).
Proof. exact row_names. Qed.
Print Assumptions C13_row_names.

(* the key list of a row is a function of the query alone (no duplicates are added or lost) *)
Theorem C13_row_keys :
  forall g c a, Permutation (map fst (sort_row (project g c a))) (all_output_names c).
Proof. exact row_keys_perm. Qed.
Print Assumptions C13_row_keys.

Theorem C13_declared_names_agree :
  forall q ix q', index_query q = Ok (inr ix) -> lower_query q = Ok q' ->
    map fst (ix_outputs ix) = all_output_names (q_comp q').
Proof. exact declared_names_agree. Qed.
Print Assumptions C13_declared_names_agree.

Theorem C13_rows_carry_exactly_the_indexed_outputs :
  forall re g args q ix q',
    index_query q = Ok (inr ix) -> lower_query q = Ok q' ->
    forall row, In row (sem re g args q') ->
      Permutation (map fst row) (map fst (ix_outputs ix)) /\
      forall n, lookup_str n row <> None <-> In n (map fst (ix_outputs ix)).
Proof. exact sem_rows_carry_indexed_outputs. Qed.
Print Assumptions C13_rows_carry_exactly_the_indexed_outputs.

(* ---- typed as declared ---- *)
Theorem C13_row_typed :
  forall re g args S q ix q',
    conforms S g -> wf_ir q = true -> outputs_typed S (rq_comp q) ->
    index_query q = Ok (inr ix) -> lower_query q = Ok q' ->
    forall row, In row (sem re g args q') ->
    forall n t v, In (n, (t, v)) (ix_outputs ix) -> ty_valid t (row_get row n) = Ok true.
Proof. exact row_typed. Qed.
Print Assumptions C13_row_typed.

(* the same for the rows of the engine model, where C01 is proved (no @fold) *)
Theorem C13_engine_rows_typed_fold_free_partial :
  forall re g args S q ix q' rows,
    ty_indep g -> conforms S g -> wf_ir q = true -> fold_free q = true -> outputs_typed S (rq_comp q) ->
    index_query q = Ok (inr ix) -> lower_query q = Ok q' ->
    interpret re g args q' = Ok rows ->
    forall row, In row rows ->
      (forall n, lookup_str n row <> None <-> In n (map fst (ix_outputs ix))) /\
      forall n t v, In (n, (t, v)) (ix_outputs ix) -> ty_valid t (row_get row n) = Ok true.
Proof. exact engine_rows_typed_fold_free_partial. Qed.
Print Assumptions C13_engine_rows_typed_fold_free_partial.

(* ... and for the rows of the engine model on EVERY query meeting the hypotheses of the whole-query
   refinement theorem C01_engine_refines_spec (any nesting of folds; spec_hyps is their executable
   conjunction, evaluated on every generated world by the C01 harness) *)
Theorem C13_engine_rows_typed :
  forall re g args S q ix q' rows,
    ty_indep g -> conforms S g -> wf_ir q = true -> spec_hyps args q' = true -> outputs_typed S (rq_comp q) ->
    index_query q = Ok (inr ix) -> lower_query q = Ok q' ->
    interpret re g args q' = Ok rows ->
    forall row, In row rows ->
      (forall n, lookup_str n row <> None <-> In n (map fst (ix_outputs ix))) /\
      forall n t v, In (n, (t, v)) (ix_outputs ix) -> ty_valid t (row_get row n) = Ok true.
Proof. exact engine_rows_typed. Qed.
Print Assumptions C13_engine_rows_typed.

(* ... and with the unrestricted refinement theorem (refine_hyps: no condition on fold-count limits) *)
Theorem C13_engine_rows_typed_all :
  forall re g args S q ix q' rows,
    ty_indep g -> conforms S g -> wf_ir q = true -> refine_hyps args q' = true -> outputs_typed S (rq_comp q) ->
    index_query q = Ok (inr ix) -> lower_query q = Ok q' ->
    interpret re g args q' = Ok rows ->
    forall row, In row rows ->
      (forall n, lookup_str n row <> None <-> In n (map fst (ix_outputs ix))) /\
      forall n t v, In (n, (t, v)) (ix_outputs ix) -> ty_valid t (row_get row n) = Ok true.
Proof. exact engine_rows_typed_all. Qed.
Print Assumptions C13_engine_rows_typed_all.

(* ... and with the structural hypotheses DERIVED from wf_ir (WfRefine.wf_ir_refine_hyps) instead of
   evaluated: for every well-formed query; `no_saturation` (the one non-structural condition) = no
   fold-count limit that compute_fold truncates to reaches usize::MAX *)
Theorem C13_engine_rows_typed_wf :
  forall re g args S q ix q' rows,
    ty_indep g -> conforms S g -> wf_ir q = true -> outputs_typed S (rq_comp q) ->
    index_query q = Ok (inr ix) -> lower_query q = Ok q' -> no_saturation args (q_comp q') = true ->
    interpret re g args q' = Ok rows ->
    forall row, In row rows ->
      (forall n, lookup_str n row <> None <-> In n (map fst (ix_outputs ix))) /\
      forall n t v, In (n, (t, v)) (ix_outputs ix) -> ty_valid t (row_get row n) = Ok true.
Proof. exact engine_rows_typed_wf. Qed.
Print Assumptions C13_engine_rows_typed_wf.

(* ---- the three clauses about the declared types ---- *)
(* every declared output is justified by one of the three rules of `declares` *)
Theorem C13_indexed_outputs_are_declared :
  forall q ix n t v, index_query q = Ok (inr ix) -> In (n, (t, v)) (ix_outputs ix) ->
    declares (rq_comp q) [] n t v.
Proof. exact indexed_outputs_declared. Qed.
Print Assumptions C13_indexed_outputs_are_declared.

(* get_optional_vertices_in_component = "an @optional edge lies on the path from the root" *)
Theorem C13_optional_vertices_are_the_optional_scopes :
  forall vars avail root vs es fs outs,
    wf_comp vars avail (RComp root vs es fs outs) = true ->
    forall v, In v (optional_vertices es) <-> under_optional es v.
Proof. intros vars avail root vs es fs outs H. exact (optional_vertices_under es (wf_edges_ordered _ _ _ _ _ _ _ H)). Qed.
Print Assumptions C13_optional_vertices_are_the_optional_scopes.

Theorem C13_own_output_nullable_iff_optional :
  forall v ft opt t, get_output_type v ft opt [] = Ok t ->
    t = if memN v opt then ty_with_nullability ft true else ft.
Proof. exact declared_own_clause. Qed.
Print Assumptions C13_own_output_nullable_iff_optional.

Theorem C13_one_list_level_per_fold :
  forall S sub b n t v, outputs_typed S sub -> declares sub [b] n t v ->
    exists t1, declares sub [] n t1 v /\ ty_as_list t = Some t1 /\ ty_is_list t = true /\ ty_nullable t = b.
Proof. exact declared_fold_clause. Qed.
Print Assumptions C13_one_list_level_per_fold.

Theorem C13_fold_count_type :
  forall v opt t, get_output_type v count_type opt [] = Ok t ->
    t = if memN v opt then ty_named "Int" true else ty_named "Int" false.
Proof. exact declared_count_clause. Qed.
Print Assumptions C13_fold_count_type.

(* ---- non-vacuity: a concrete world meeting every hypothesis of C13_row_typed ----
   Start { value @output(v)
           next @optional { value @output(ov)
                            next @fold @transform(count) @output(ocnt) { value @output(ofv) } }
           next @fold @transform(count) @output(cnt) { value @output(fv) } }            *)
Definition c13_int : ty := mkTy "Int" 0%N.
Definition c13_schema : schema_lite :=
  fun _ p => if String.eqb p "value" then Some c13_int else None.
Definition c13_ds : dataset :=
  mkDS [(1%N, "T"); (2%N, "T"); (3%N, "T")]
       [(1%N, [("value", I64 1%Z)]); (2%N, [("value", I64 2%Z)]); (3%N, [("value", U64 3%Z)])]
       [(1%N, [("next", [2%N; 3%N])]); (2%N, [("next", [3%N])])]
       [("Start", [1%N; 2%N; 3%N])]
       [("T", ["T"])].
Definition c13_query : raw_query :=
  mkRQ "Start" []
    (RComp 1%N [mkV 1%N "T" None []; mkV 2%N "T" None []]
       [mkE 1%N 1%N 2%N "next" [] true None]
       [RFold (mkFH 2%N 2%N 3%N "next" [] [] ["ocnt"] [])
              (RComp 3%N [mkV 3%N "T" None []] [] [] [("ofv", mkCF 3%N "value" c13_int)]);
        RFold (mkFH 3%N 1%N 4%N "next" [] [] ["cnt"] [])
              (RComp 4%N [mkV 4%N "T" None []] [] [] [("fv", mkCF 4%N "value" c13_int)])]
       [("ov", mkCF 2%N "value" c13_int); ("v", mkCF 1%N "value" c13_int)])
    [].

Example C13_world_conforms : conforms c13_schema (graph_of_dataset c13_ds).
Proof.
  intros T p t v H. unfold c13_schema in H. destruct (String.eqb_spec p "value") as [->|]; [|discriminate].
  injection H as <-. cbn [graph_of_dataset g_prop]. unfold ds_prop. cbn [String.eqb Ascii.eqb Bool.eqb typename_field].
  unfold c13_ds. cbn [d_props lookup_N].
  destruct (N.eqb v 1); [reflexivity|]. destruct (N.eqb v 2); [reflexivity|]. destruct (N.eqb v 3); reflexivity.
Qed.
Print Assumptions C13_world_conforms.

Example C13_outputs_typed_witness : outputs_typed c13_schema (rq_comp c13_query).
Proof.
  cbn. repeat split; intros; repeat match goal with H : _ \/ _ |- _ => destruct H end;
    try contradiction; try (match goal with H : (_, _) = (_, _) |- _ => injection H as <- <- end);
    reflexivity.
Qed.
Print Assumptions C13_outputs_typed_witness.

Example C13_hypotheses_satisfiable :
  wf_ir c13_query = true /\
  match index_query c13_query, lower_query c13_query with
  | Ok (inr ix), Ok q' =>
      (* the declared types: own, under @optional, count, count under @optional, lists *)
      show_outputs (ix_outputs ix) =
        "636e74:496e7421#1@4,6676:5b496e745d21#3@4,6f636e74:496e74#0@3,6f6676:5b496e745d#2@3,6f76:496e74#0@2,76:496e74#0@1"
      (* four rows; the last one has the @optional edge missing: ov, ocnt, ofv are null *)
      /\ show_rows (sem (fun _ _ => None) (graph_of_dataset c13_ds) [] q') =
         "cnt=u2;fv=[i2,u3];ocnt=u1;ofv=[u3];ov=i2;v=i1|cnt=u2;fv=[i2,u3];ocnt=u0;ofv=[];ov=u3;v=i1|cnt=u1;fv=[u3];ocnt=u0;ofv=[];ov=u3;v=i2|cnt=u0;fv=[];ocnt=n;ofv=n;ov=n;v=u3"
  | _, _ => False
  end.
Proof. vm_compute. repeat split. Qed.
Print Assumptions C13_hypotheses_satisfiable.
