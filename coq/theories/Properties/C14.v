(* C14 — Compilation and execution are deterministic.   (claimed PARTIAL)

   "Compiling the same query against the same schema always yields the same compiled query or the same
    error, and executing it with the same arguments against the same deterministic adapter yields the same
    rows in the same order via the same sequence of adapter calls, across repeated runs and separate
    processes."

   A Gallina function is deterministic by construction, so what Coq can say non-vacuously is that the
   OBSERVABLES DO NOT DEPEND ON THE ITERATION ORDER OF UNORDERED CONTAINERS (the only thing that varies
   with the per-process hash seed).  Perm.v lists every HashMap/HashSet use of trustfall_core with the
   shape that models it (`hash_order entries it` = "it is what iterating the container may yield", an
   arbitrary permutation); the theorems below say that each shape is order-independent, for ALL entry
   lists and ALL permutations.  What is NOT in Coq and is only observed by the harness (tfh_det c14: k
   separate processes with fresh RandomState keys, byte-wise comparison of IR / errors / row sequence /
   adapter-call trace): that the Rust code really has these shapes and no other source of nondeterminism.

   Full statement for the introspection adapter (FALSE, finding F14, see the C14_introspection theorems):
     forall root entries it it', hash_order entries it -> hash_order entries it' ->
       vertex_type_rows root it = vertex_type_rows root it'.
   It concerns an ADAPTER shipped with the crate that is itself not deterministic across Schema
   instances, which the property's premise ("the same deterministic adapter") excludes; the engine's
   rows and calls given that adapter's answers are deterministic. *)
From Coq Require Import List String Permutation Sorted.
From TF Require Import Perm PermProofs.
Import ListNotations.
Local Open Scope string_scope.

(* ---- shape A: schema/mod.rs:266,334,519,572,607,731,748 — `.iter().sorted_by_key(name)` then anything *)
Theorem C14_sorted_iteration_canonical :
  forall (V R : Type) (f : list (string * V) -> R) (entries it it' : list (string * V)),
    NoDup (map fst entries) -> hash_order entries it -> hash_order entries it' ->
    sorted_then String.leb f it = sorted_then String.leb f it'.
Proof. exact @str_sorted_then_perm_invariant. Qed.
Print Assumptions C14_sorted_iteration_canonical.

(* ---- shape B: util.rs:64 `map.into_iter().collect::<BTreeMap>()` *)
Theorem C14_collect_into_btreemap_canonical :
  forall (V : Type) (entries it it' : list (string * V)),
    NoDup (map fst entries) -> hash_order entries it -> hash_order entries it' ->
    collect_btree String.leb it = collect_btree String.leb it'.
Proof. exact @str_collect_btree_perm_invariant. Qed.
Print Assumptions C14_collect_into_btreemap_canonical.

(* ---- shape C: util.rs:49 `map.drain()` into BTreeMap<K, Vec<V>> (MultipleOutputsWithSameName) *)
Theorem C14_duplicate_report_canonical :
  forall (V : Type) (it it' : list (string * V)) (dup : string * V) (rest : list (string * V)),
    hash_order it it' -> NoDup (map fst it) ->
    collect_duplicates String.leb String.eqb it dup rest = collect_duplicates String.leb String.eqb it' dup rest.
Proof. exact @str_collect_duplicates_perm_invariant. Qed.
Print Assumptions C14_duplicate_report_canonical.

(* ---- keyed access (`get`, `contains_key`, index) sees no order *)
Theorem C14_lookup_order_independent :
  forall (V : Type) (k : string) (it it' : list (string * V)),
    hash_order it it' -> NoDup (map fst it) -> lookup_kv String.eqb k it = lookup_kv String.eqb k it'.
Proof. exact @str_lookup_perm_invariant. Qed.
Print Assumptions C14_lookup_order_independent.

(* ---- shape S: hash sets used as membership tests (BUILTIN_SCALARS; `seen.insert(x)` dedup filters) *)
Theorem C14_membership_order_independent :
  forall (x : string) (s s' : list string), hash_order s s' -> mem_k String.eqb x s = mem_k String.eqb x s'.
Proof. exact str_mem_perm_invariant. Qed.
Print Assumptions C14_membership_order_independent.

Theorem C14_dedup_filter_layout_independent :
  forall (place place' : string -> list string -> list string) (l : list string),
    places String.eqb place -> places String.eqb place' ->
    forall seen seen', (forall y, mem_k String.eqb y seen = mem_k String.eqb y seen') ->
    dedup_by String.eqb place seen l = dedup_by String.eqb place' seen' l.
Proof. exact str_dedup_by_layout_irrelevant. Qed.
Print Assumptions C14_dedup_filter_layout_independent.

(* ---- commutative accumulations over an unordered iteration *)
Theorem C14_fold_commutative_perm_invariant :
  forall (A S : Type) (f : S -> A -> S), (forall s a b, f (f s a) b = f (f s b) a) ->
  forall l l', Permutation l l' -> forall s, fold_left f l s = fold_left f l' s.
Proof. exact @fold_commutative_perm_invariant. Qed.
Print Assumptions C14_fold_commutative_perm_invariant.

(* ---- the generic fact behind A/B/C: the sorted permutation is unique *)
Theorem C14_sorted_after_perm_canonical :
  forall (V : Type) (it it' : list (string * V)),
    Permutation it it' -> NoDup (map fst it) -> sort_kv String.leb it = sort_kv String.leb it'.
Proof. exact @str_sort_kv_perm_canonical. Qed.
Print Assumptions C14_sorted_after_perm_canonical.

(* ---- execution: output names are sorted before the resolve_property calls are issued *)
Theorem C14_output_names_sorted_canonical :
  forall l l', Permutation l l' -> sort_names l = sort_names l'.
Proof. exact sort_names_perm_invariant. Qed.
Print Assumptions C14_output_names_sorted_canonical.

Theorem C14_construct_outputs_call_order_canonical :
  forall root vs ss outs outs', Permutation outs outs' ->
    output_call_order (mkComp root vs ss outs) = output_call_order (mkComp root vs ss outs').
Proof. exact output_call_order_canonical. Qed.
Print Assumptions C14_construct_outputs_call_order_canonical.

Theorem C14_rows_independent_of_output_map_layout :
  forall re g args name ps root vs ss outs outs' vars,
    Permutation outs outs' -> NoDup (map fst outs) ->
    interpret re g args (mkQ name ps (mkComp root vs ss outs) vars) =
    interpret re g args (mkQ name ps (mkComp root vs ss outs') vars).
Proof. exact interpret_output_storage_order_irrelevant. Qed.
Print Assumptions C14_rows_independent_of_output_map_layout.

(* The execution model is a FUNCTION of (regex oracle, graph, arguments, compiled query): it has no hash
   container, no address, no clock, no thread and no random source — on the Rust side the execution path
   (interpreter/execution.rs, filtering.rs, DataContext) uses BTreeMap/Vec only.  Trivial, stated for the
   record; the content is in the tie (Exec model = interpret_ir on every generated world, C01/C09). *)
Theorem C14_interpret_is_a_function :
  forall re g args q r1 r2, interpret re g args q = r1 -> interpret re g args q = r2 -> r1 = r2.
Proof. exact interpret_deterministic. Qed.
Print Assumptions C14_interpret_is_a_function.

(* ---- the introspection adapter (schema/adapter/mod.rs:105-110): F14 *)
Theorem C14_introspection_rows_multiset_invariant :
  forall root it it', hash_order it it' -> Permutation (vertex_type_rows root it) (vertex_type_rows root it').
Proof. exact vertex_type_rows_multiset_invariant. Qed.
Print Assumptions C14_introspection_rows_multiset_invariant.

Theorem C14_introspection_row_order_refuted :
  exists root entries it it',
    NoDup (map fst entries) /\ hash_order entries it /\ hash_order entries it' /\
    vertex_type_rows root it <> vertex_type_rows root it'.
Proof. exact vertex_type_rows_order_refuted. Qed.
Print Assumptions C14_introspection_row_order_refuted.

Theorem C14_introspection_sorted_would_be_canonical :
  forall root entries it it',
    NoDup (map fst entries) -> hash_order entries it -> hash_order entries it' ->
    vertex_type_rows_sorted root it = vertex_type_rows_sorted root it'.
Proof. exact vertex_type_rows_sorted_canonical. Qed.
Print Assumptions C14_introspection_sorted_would_be_canonical.

(* ---- non-vacuity: a concrete 4-entry "vertex_types" map, two genuinely different iteration orders;
        the sorted view, a lookup and the duplicate report coincide, the unsorted enumeration does not *)
Example C14_hypotheses_satisfiable :
  let entries := [("Thing", 1); ("Item", 2); ("Box", 3); ("RootSchemaQuery", 4)] in
  let it  := [("Box", 3); ("RootSchemaQuery", 4); ("Thing", 1); ("Item", 2)] in
  let it' := [("Item", 2); ("Thing", 1); ("RootSchemaQuery", 4); ("Box", 3)] in
  NoDup (map fst entries) /\ hash_order entries it /\ hash_order entries it' /\ it <> it' /\
  sort_kv String.leb it = [("Box", 3); ("Item", 2); ("RootSchemaQuery", 4); ("Thing", 1)] /\
  sort_kv String.leb it' = sort_kv String.leb it /\
  lookup_kv String.eqb "Item" it = Some 2 /\ lookup_kv String.eqb "Item" it' = Some 2 /\
  collect_duplicates String.leb String.eqb it ("Item", 7) [("Box", 8); ("Item", 9)] =
    [("Box", [3; 8]); ("Item", [2; 7; 9])] /\
  collect_duplicates String.leb String.eqb it' ("Item", 7) [("Box", 8); ("Item", 9)] =
    [("Box", [3; 8]); ("Item", [2; 7; 9])] /\
  sort_names ["o2"; "o10"; "o1"] = ["o1"; "o10"; "o2"].
Proof.
  cbv zeta. repeat split; try reflexivity; try discriminate.
  - repeat constructor; cbn; intuition discriminate.
  - unfold hash_order.
    apply (perm_trans (l' := [("Box", 3); ("Thing", 1); ("Item", 2); ("RootSchemaQuery", 4)])).
    + apply Permutation_sym, Permutation_cons_app with (l1 := [("Thing", 1); ("Item", 2)]) (l2 := [("RootSchemaQuery", 4)]).
      apply Permutation_refl.
    + apply perm_skip. apply Permutation_sym.
      apply Permutation_cons_app with (l1 := [("Thing", 1); ("Item", 2)]) (l2 := []). cbn. apply Permutation_refl.
  - unfold hash_order.
    apply (perm_trans (l' := [("Item", 2); ("Thing", 1); ("Box", 3); ("RootSchemaQuery", 4)])).
    + apply Permutation_sym, Permutation_cons_app with (l1 := [("Thing", 1)]) (l2 := [("Box", 3); ("RootSchemaQuery", 4)]).
      apply Permutation_refl.
    + do 2 apply perm_skip. apply perm_swap.
Qed.
Print Assumptions C14_hypotheses_satisfiable.
