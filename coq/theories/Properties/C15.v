(* C15 — Recorded traces replay to the same results.
   "Executing a query through the tracing adapter produces the same rows as executing it directly, and
    replaying the recorded trace (after serializing and deserializing it) reproduces exactly those
    rows without consulting the original data source."

   PARTIAL.  Proved here, for ALL programs / data sources, on the interaction-tree abstraction of
   Interact.v (the interpreter = a deterministic program whose only contact with the data source is a
   sequence of requests and answers; AdapterTap = [record]; TraceReaderAdapter +
   assert_interpreted_results = [replay]).  That execution.rs together with a concrete adapter IS such
   a tree (Rust iterators, closures), and the serde round trip of the trace, are observed by the
   harness only (tfh_pull c15: real AdapterTap / tap_results / ron + serde_json /
   assert_interpreted_results on every generated world, also under batching adapters). *)
From Coq Require Import String List ZArith.
From TF Require Import Interact InteractProofs.
Import ListNotations.
Local Open Scope list_scope.

(* the tap is transparent *)
Theorem C15_tap_transparent :
  forall (Req Ans Row O : Type) (answer : O -> Req -> Ans * O) (p : prog Req Ans Row) (o : O),
    fst (record answer p o) = run answer p o.
Proof. exact tap_transparent. Qed.
Print Assumptions C15_tap_transparent.

(* replaying the recording yields exactly the rows of the direct run *)
Theorem C15_replay_faithful :
  forall (Req Ans Row : Type) (req_eqb : Req -> Req -> bool) (row_eqb : Row -> Row -> bool),
    (forall a b, req_eqb a b = true <-> a = b) ->
    (forall a b, row_eqb a b = true <-> a = b) ->
    forall (O : Type) (answer : O -> Req -> Ans * O) (p : prog Req Ans Row) (o : O),
      replay req_eqb row_eqb p (snd (record answer p o)) = ROk (run answer p o).
Proof. exact replay_faithful. Qed.
Print Assumptions C15_replay_faithful.

(* ... and consumes the trace exactly: one more operation is left over, one less ends too early *)
Theorem C15_replay_consumes_trace_exactly :
  forall (Req Ans Row : Type) (req_eqb : Req -> Req -> bool) (row_eqb : Row -> Row -> bool),
    (forall a b, req_eqb a b = true <-> a = b) ->
    (forall a b, row_eqb a b = true <-> a = b) ->
    forall (O : Type) (answer : O -> Req -> Ans * O) (p : prog Req Ans Row) (o : O),
      (forall e l, replay req_eqb row_eqb p (snd (record answer p o) ++ e :: l)
                   = RLeftover (length (snd (record answer p o)))) /\
      (forall l1 e l2, snd (record answer p o) = l1 ++ e :: l2 ->
                       replay req_eqb row_eqb p l1 = RTraceEnded (length l1)).
Proof. exact replay_consumes_exactly. Qed.
Print Assumptions C15_replay_consumes_trace_exactly.

(* [replay] has no data-source argument; what it returns are the rows stored in the trace, for ANY trace *)
Theorem C15_replay_returns_recorded_rows :
  forall (Req Ans Row : Type) (req_eqb : Req -> Req -> bool) (row_eqb : Row -> Row -> bool),
    (forall a b, row_eqb a b = true <-> a = b) ->
    forall (p : prog Req Ans Row) (log : list (event Req Ans Row)) (rows : list Row),
      replay req_eqb row_eqb p log = ROk rows -> rows = rows_of log.
Proof. exact replay_ok_rows. Qed.
Print Assumptions C15_replay_returns_recorded_rows.

(* the original data source is not needed: the trace alone determines the rows *)
Theorem C15_replay_needs_no_data_source :
  forall (Req Ans Row : Type) (O1 O2 : Type) (a1 : O1 -> Req -> Ans * O1) (a2 : O2 -> Req -> Ans * O2)
         (p : prog Req Ans Row) (o1 : O1) (o2 : O2),
    snd (record a1 p o1) = snd (record a2 p o2) -> run a1 p o1 = run a2 p o2.
Proof. exact rows_determined_by_trace. Qed.
Print Assumptions C15_replay_needs_no_data_source.

(* a tampered trace is rejected: with the same answers only one trace is accepted *)
Theorem C15_replay_accepts_one_trace_per_answers :
  forall (Req Ans Row : Type) (req_eqb : Req -> Req -> bool) (row_eqb : Row -> Row -> bool),
    (forall a b, req_eqb a b = true <-> a = b) ->
    (forall a b, row_eqb a b = true <-> a = b) ->
    forall (p : prog Req Ans Row) (l l' : list (event Req Ans Row)) (rows rows' : list Row),
      replay req_eqb row_eqb p l = ROk rows -> replay req_eqb row_eqb p l' = ROk rows' ->
      answers_of l = answers_of l' -> l = l'.
Proof. exact replay_unique. Qed.
Print Assumptions C15_replay_accepts_one_trace_per_answers.

(* determinism of the interpreter: rows and trace are functions of the answers *)
Theorem C15_run_deterministic :
  forall (Req Ans Row O : Type) (a1 a2 : O -> Req -> Ans * O) (p : prog Req Ans Row) (o : O),
    (forall o0 q, a1 o0 q = a2 o0 q) ->
    run a1 p o = run a2 p o /\ record a1 p o = record a2 p o.
Proof. exact run_deterministic. Qed.
Print Assumptions C15_run_deterministic.

(* the trace: ProduceQueryResult entries are the rows in order; opids are 1..n in recording order *)
Theorem C15_trace_shape :
  forall (Req Ans Row O : Type) (answer : O -> Req -> Ans * O) (p : prog Req Ans Row) (o : O),
    rows_of (snd (record answer p o)) = run answer p o /\
    map fst (trace_of (snd (record answer p o))) = seq 1 (length (snd (record answer p o))) /\
    map snd (trace_of (snd (record answer p o))) = snd (record answer p o).
Proof. exact trace_shape. Qed.
Print Assumptions C15_trace_shape.

(* non-vacuity: a resolver-shaped program (one call, then the output iterator pumped to exhaustion)
   against a three-element data source: 3 rows, a 8-operation trace, replay = the rows; the trace
   with one answer changed (7 instead of 5) makes the program produce another row: rejected. *)
Example C15_resolver_shaped_program :
  let p := call_and_pump 10 in
  let src := [5; 6; 7]%Z in
  let log := snd (record list_oracle p src) in
  run list_oracle p src = src /\
  fst (record list_oracle p src) = src /\
  length log = 8 /\
  replay Nat.eqb Z.eqb p log = ROk src /\
  replay Nat.eqb Z.eqb p (removelast log) = RTraceEnded 7 /\
  replay Nat.eqb Z.eqb p (log ++ [EvRow 9%Z]) = RLeftover 8 /\
  replay Nat.eqb Z.eqb p (set_nth 1 (EvAsk 1 (Some 7%Z)) log) = RMismatch 2 /\
  (forall l fuel, length l < fuel -> run list_oracle (pump fuel) l = l).
Proof. vm_compute. repeat split; try reflexivity. exact pump_rows. Qed.
Print Assumptions C15_resolver_shaped_program.
