From TF Require Import Ty.
