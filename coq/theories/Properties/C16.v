(* C16 (type-text part) — rendering a type to text and parsing it back returns the same type.
   Only statements, `exact` proofs, Print Assumptions and non-vacuity examples live here.

   Model: Ty.v — `ty_display` transcribes `impl Display for Type`; `ty_parse_res` transcribes
   `Type::parse` = async_graphql_parser::types::Type::new (strip one trailing '!', then "[" inner "]"
   recursively, else ANY remainder is the name) followed by `Type::from_type`, which PANICS on more
   than 30 list levels (Ok None = Err(TypeParseError), Panic = that panic; `ty_parse` maps both to
   None).  `name_ok s` = s does not end in '!' and does not start with '['  (the empty name, names
   with spaces, inner brackets etc. all round-trip). *)
From TF Require Import Values Ty TyProofs.
Local Open Scope string_scope.

Theorem C16_type_text_roundtrip_res : forall t, wf_ty t = true -> name_ok (tbase t) = true ->
  ty_parse_res (ty_display t) = Ok (Some t).
Proof. exact parse_display_roundtrip. Qed.
Print Assumptions C16_type_text_roundtrip_res.

Theorem C16_type_text_roundtrip : forall t, wf_ty t = true -> name_ok (tbase t) = true ->
  ty_parse (ty_display t) = Some t.
Proof. exact parse_display_roundtrip_opt. Qed.
Print Assumptions C16_type_text_roundtrip.

(* the condition on names is necessary: for a name violating it already the nullable named type
   does not survive *)
Theorem C16_name_ok_necessary : forall s,
  ty_parse_res (ty_display (ty_named s true)) = Ok (Some (ty_named s true)) -> name_ok s = true.
Proof. exact name_ok_necessary. Qed.
Print Assumptions C16_name_ok_necessary.

(* the other direction, for EVERY string (no whitespace or name restrictions: the parser keeps
   every character it does not consume as syntax inside the name): whatever parses is well formed
   and prints back verbatim *)
Theorem C16_parse_display_stable : forall s t, ty_parse_res s = Ok (Some t) ->
  wf_ty t = true /\ ty_display t = s.
Proof. exact parse_sound. Qed.
Print Assumptions C16_parse_display_stable.

(* non-vacuity *)
Example C16_type_text_nonvacuous :
  ty_parse_res "[[Int!]]!" = Ok (Some (mkTy "Int" 27)) /\
  wf_ty (mkTy "Int" 27) = true /\ name_ok "Int" = true /\
  ty_display (mkTy "Int" 27) = "[[Int!]]!" /\
  ty_parse_res "[ Int ]" = Ok (Some (mkTy " Int " 2)) /\
  ty_parse_res "" = Ok (Some (mkTy "" 0)) /\
  ty_parse_res "[Int" = Ok None /\ ty_parse_res "[Int]]!" = Ok (Some (mkTy "Int]" 3)) /\
  name_ok "Int!" = false /\ ty_parse_res (ty_display (ty_named "Int!" true)) = Ok (Some (ty_named "Int" false)) /\
  name_ok "[x]" = false /\ ty_parse_res (ty_display (ty_named "[x]" true)) = Ok (Some (mkTy "x" 2)).
Proof. vm_compute. repeat split. Qed.
Print Assumptions C16_type_text_nonvacuous.

(* 30 list levels round-trip; 31 levels of text make Type::parse panic (from_type) *)
Example C16_type_text_max_depth :
  (exists t, ty_parse_res (deep_text 30) = Ok (Some t) /\ wf_ty t = true /\ ty_depth t = 30%nat /\
             ty_display t = deep_text 30) /\
  ty_parse_res (deep_text 31) = Panic site_from_type /\ ty_parse (deep_text 31) = None.
Proof. vm_compute. split; [eexists; repeat split | split; reflexivity]. Qed.
Print Assumptions C16_type_text_max_depth.

(* =====================================================================================
   C16 (values, untagged JSON, serde attributes) — model: SerdeModel.v, lemmas: SerdeProofs.v.

   Trustfall code decided here: the `TransparentValue` conversions, the variant order that drives
   serde's untagged resolution, `Type`'s text-based Serialize/Deserialize, and every
   `#[serde(default …, skip_serializing_if = …)]` attribute.  serde-derive, serde_json (Value
   representation, text printing/parsing) and ron are third-party: modelled where stated, never
   verified, only exercised by the harness (`tfh_c16 c16`) => the property is claimed PARTIAL.
   ===================================================================================== *)
From TF Require Import ValuesProofs IR SerdeModel SerdeProofs.

(* ---- 1. FieldValue <-> TransparentValue ---- *)
Theorem C16_transparent_roundtrip : forall v, from_transparent (to_transparent v) = v.
Proof. exact transparent_roundtrip. Qed.
Print Assumptions C16_transparent_roundtrip.

Theorem C16_transparent_roundtrip_conv : forall t, to_transparent (from_transparent t) = t.
Proof. exact transparent_roundtrip_conv. Qed.
Print Assumptions C16_transparent_roundtrip_conv.

(* ---- 2. untagged JSON ----
   Full statement of the property (REFUTED, defect F13):
     forall v, wf v = true -> exists v', of_json (to_json v) = Some v' /\ eqT v' v = true.
   Counterexample: Enum "foo" |-> JSON string "foo" |-> String "foo", which PartialEq (C08)
   distinguishes from the Enum.  Known-defect class K-enum-json = `contains_enum v = true`. *)
Theorem C16_untagged_json_enum_refuted :
  exists v, wf v = true /\
    exists v', of_json (to_json v) = Some v' /\ eqT v' v = false /\ fv_eq v' v = Ok false.
Proof. exact untagged_json_enum_refuted. Qed.
Print Assumptions C16_untagged_json_enum_refuted.

(* on the complement of the class, for ALL values (any nesting, all integers, all finite floats) *)
Theorem C16_untagged_json_roundtrip : forall v, wf v = true -> enum_free v = true ->
  exists v', of_json (to_json v) = Some v' /\ eqT v' v = true.
Proof. exact untagged_json_roundtrip. Qed.
Print Assumptions C16_untagged_json_roundtrip.

(* the same with the transcribed `PartialEq::eq` itself (which asserts finiteness): no panic, true *)
Theorem C16_untagged_json_roundtrip_eq : forall v, wf v = true -> enum_free v = true ->
  exists v', of_json (to_json v) = Some v' /\ wf v' = true /\ fv_eq v' v = Ok true.
Proof. exact untagged_json_roundtrip_eq. Qed.
Print Assumptions C16_untagged_json_roundtrip_eq.

(* the exact image: Uint64 <= i64::MAX comes back as Int64, Enum as String, everything else
   (also Uint64 > i64::MAX, every finite float incl. integral ones and -0.0) unchanged *)
Theorem C16_untagged_json_image : forall v, wf v = true -> of_json (to_json v) = Some (canon v).
Proof. exact json_roundtrip_image. Qed.
Print Assumptions C16_untagged_json_image.

(* the class is exact: the trip returns an equal value iff the value contains no Enum *)
Theorem C16_untagged_json_roundtrip_iff : forall v, wf v = true ->
  ((exists v', of_json (to_json v) = Some v' /\ eqT v' v = true) <-> contains_enum v = false).
Proof. exact untagged_json_roundtrip_iff. Qed.
Print Assumptions C16_untagged_json_roundtrip_iff.

(* after one trip the value is a fixed point (and well formed, and Enum-free) *)
Theorem C16_untagged_json_second_trip : forall v, wf v = true ->
  of_json (to_json (canon v)) = Some (canon v) /\ wf (canon v) = true /\ enum_free (canon v) = true.
Proof. intros v W. split; [now apply untagged_json_second_trip | split; [now apply wf_canon | apply canon_enum_free]]. Qed.
Print Assumptions C16_untagged_json_second_trip.

(* the other direction: every JSON document without objects (numbers as serde_json holds them) is
   accepted, and the value it is read to writes back the same document; objects are refused *)
Theorem C16_json_value_json : forall j, wf_json j = true -> exists v, of_json j = Some v /\ to_json v = j.
Proof. exact json_value_json. Qed.
Print Assumptions C16_json_value_json.

Example C16_untagged_json_nonvacuous :
  (* Uint64 5 |-> 5 |-> Int64 5, equal *)
  to_json (U64 5) = JNum (PosInt 5) /\ of_json (JNum (PosInt 5)) = Some (I64 5) /\ eqT (I64 5) (U64 5) = true /\
  (* Uint64 2^63 stays Uint64, Int64 -1 is a NegInt *)
  of_json (to_json (U64 (2^63))) = Some (U64 (2^63)) /\ to_json (I64 (-1)) = JNum (NegInt (-1)) /\
  (* Float64 1.0 (bits 0x3FF0…) stays a float: the JSON number keeps its kind; -0.0 too *)
  of_json (to_json (F64 4607182418800017408)) = Some (F64 4607182418800017408) /\
  of_json (to_json (F64 9223372036854775808)) = Some (F64 9223372036854775808) /\
  (* nested *)
  of_json (to_json (List [U64 1; Null; List [Str "a"; F64 4609434218613702656]; Boolv true]))
    = Some (List [I64 1; Null; List [Str "a"; F64 4609434218613702656]; Boolv true]) /\
  wf (List [U64 1; Null; List [Str "a"; F64 4609434218613702656]; Boolv true]) = true /\
  enum_free (List [U64 1; Null; List [Str "a"; F64 4609434218613702656]; Boolv true]) = true /\
  (* F13 inside a list *)
  of_json (to_json (List [I64 1; Enum "a"])) = Some (List [I64 1; Str "a"]) /\
  eqT (List [I64 1; Str "a"]) (List [I64 1; Enum "a"]) = false /\
  (* outside wf: a NaN (bits 0x7FF8…) is written as null *)
  to_json (F64 9221120237041090560) = JNull /\ of_json JNull = Some Null /\
  (* objects match no variant; one bad element refuses the whole list *)
  of_json (JObj [("a", JNull)]) = None /\ of_json (JArr [JNull; JObj []]) = None.
Proof. vm_compute. repeat split. Qed.
Print Assumptions C16_untagged_json_nonvacuous.

(* ---- 3. Type through serde: serialize_str(Display) / visit_str -> Type::parse ---- *)
Theorem C16_type_serde_roundtrip : forall t, wf_ty t = true -> name_ok (tbase t) = true ->
  ty_of_json (ty_to_json t) = Ok (Some t).
Proof. exact type_serde_roundtrip. Qed.
Print Assumptions C16_type_serde_roundtrip.

(* ---- 4. skip_serializing_if / default attributes ---- *)
(* a field with `skip_serializing_if = skip` and `default = dflt` survives serialise-then-
   deserialise for ALL values iff the predicate skips nothing but the default *)
Theorem C16_skip_default_field_roundtrip : forall (A : Type) (skip : A -> bool) (dflt : A),
  (forall v, field_de dflt (field_ser skip v) = v) <-> (forall v, skip v = true -> v = dflt).
Proof. exact skip_default_field_roundtrip. Qed.
Print Assumptions C16_skip_default_field_roundtrip.

(* all 23 attribute instances (16 in ir/mod.rs, 6 on SerializableContext, 1 on Trace) *)
Theorem C16_all_attrs_consistent : Forall attr_consistent attr_table.
Proof. exact all_attrs_consistent. Qed.
Print Assumptions C16_all_attrs_consistent.

Theorem C16_all_attrs_roundtrip : Forall attr_roundtrips attr_table.
Proof. exact all_attrs_roundtrip. Qed.
Print Assumptions C16_all_attrs_roundtrip.

(* non-vacuity: the table has 23 entries, each with a value that is kept and one that is skipped;
   a wrong default function (`default_optional` = true) violates the obligation *)
Example C16_attrs_nonvacuous :
  List.length attr_table = 23%nat /\
  Forall (fun a => a_skip a (a_sample a) = false /\ a_skip a (a_default a) = true) attr_table /\
  ~ attr_consistent (mkAttr "IREdge" "optional" "is_false" "default_optional" bool is_false true true shape_bool) /\
  attr_case_named "IREdge" "optional" false = "omitted=T|back=F" /\
  attr_case_named "IREdge" "optional" true = "omitted=F|back=T".
Proof.
  split; [reflexivity|]. split; [exact attr_samples_ok|]. split; [exact attr_wrong_default_refuted|].
  split; reflexivity.
Qed.
Print Assumptions C16_attrs_nonvacuous.
