(* C16 (type-text part) — rendering a type to text and parsing it back returns the same type.
   Only statements, `exact` proofs, Print Assumptions and non-vacuity examples live here.

   Model: Ty.v — `ty_display` transcribes `impl Display for Type`; `ty_parse_res` transcribes
   `Type::parse` = async_graphql_parser::types::Type::new (strip one trailing '!', then "[" inner "]"
   recursively, else ANY remainder is the name) followed by `Type::from_type`, which PANICS on more
   than 30 list levels (Ok None = Err(TypeParseError), Panic = that panic; `ty_parse` maps both to
   None).  `name_ok s` = s does not end in '!' and does not start with '['  (the empty name, names
   with spaces, inner brackets etc. all round-trip). *)
From TF Require Import Values Ty TyProofs.
Local Open Scope string_scope.

Theorem C16_type_text_roundtrip_res : forall t, wf_ty t = true -> name_ok (tbase t) = true ->
  ty_parse_res (ty_display t) = Ok (Some t).
Proof. exact parse_display_roundtrip. Qed.
Print Assumptions C16_type_text_roundtrip_res.

Theorem C16_type_text_roundtrip : forall t, wf_ty t = true -> name_ok (tbase t) = true ->
  ty_parse (ty_display t) = Some t.
Proof. exact parse_display_roundtrip_opt. Qed.
Print Assumptions C16_type_text_roundtrip.

(* the condition on names is necessary: for a name violating it already the nullable named type
   does not survive *)
Theorem C16_name_ok_necessary : forall s,
  ty_parse_res (ty_display (ty_named s true)) = Ok (Some (ty_named s true)) -> name_ok s = true.
Proof. exact name_ok_necessary. Qed.
Print Assumptions C16_name_ok_necessary.

(* the other direction, for EVERY string (no whitespace or name restrictions: the parser keeps
   every character it does not consume as syntax inside the name): whatever parses is well formed
   and prints back verbatim *)
Theorem C16_parse_display_stable : forall s t, ty_parse_res s = Ok (Some t) ->
  wf_ty t = true /\ ty_display t = s.
Proof. exact parse_sound. Qed.
Print Assumptions C16_parse_display_stable.

(* non-vacuity *)
Example C16_type_text_nonvacuous :
  ty_parse_res "[[Int!]]!" = Ok (Some (mkTy "Int" 27)) /\
  wf_ty (mkTy "Int" 27) = true /\ name_ok "Int" = true /\
  ty_display (mkTy "Int" 27) = "[[Int!]]!" /\
  ty_parse_res "[ Int ]" = Ok (Some (mkTy " Int " 2)) /\
  ty_parse_res "" = Ok (Some (mkTy "" 0)) /\
  ty_parse_res "[Int" = Ok None /\ ty_parse_res "[Int]]!" = Ok (Some (mkTy "Int]" 3)) /\
  name_ok "Int!" = false /\ ty_parse_res (ty_display (ty_named "Int!" true)) = Ok (Some (ty_named "Int" false)) /\
  name_ok "[x]" = false /\ ty_parse_res (ty_display (ty_named "[x]" true)) = Ok (Some (mkTy "x" 2)).
Proof. vm_compute. repeat split. Qed.
Print Assumptions C16_type_text_nonvacuous.

(* 30 list levels round-trip; 31 levels of text make Type::parse panic (from_type) *)
Example C16_type_text_max_depth :
  (exists t, ty_parse_res (deep_text 30) = Ok (Some t) /\ wf_ty t = true /\ ty_depth t = 30%nat /\
             ty_display t = deep_text 30) /\
  ty_parse_res (deep_text 31) = Panic site_from_type /\ ty_parse (deep_text 31) = None.
Proof. vm_compute. split; [eexists; repeat split | split; reflexivity]. Qed.
Print Assumptions C16_type_text_max_depth.
