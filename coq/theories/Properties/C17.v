(* C17 — Type operations obey the subtype lattice laws.
   Only statements, `exact` proofs, Print Assumptions and non-vacuity examples live here.

   Model: Ty.v (mask-level transcription of trustfall_core/src/ir/types/base.rs).  `wf_ty t` says the
   mask of t encodes at most 30 list levels over a 0/1 scalar mask; C17_wf_iff_reachable shows this is
   exactly "built by new_named_type / new_list_type".  `ty_meet a b` is the Ok-value of
   `ty_intersect a b` (C17_intersect_no_panic).  `ty_sub parent child` is
   `parent.is_scalar_only_subtype(child)`.  All statements quantify over ALL well-formed types (every
   depth <= 30, every nullability pattern, every base name) and ALL field values. *)
From TF Require Import Values ValuesProofs Ty TyProofs.
Local Open Scope string_scope.

(* ---------- well-formedness is reachability; constructors; no panics ---------- *)
Theorem C17_wf_iff_reachable : forall t, wf_ty t = true <-> ty_reach t.
Proof. exact wf_iff_reach. Qed.
Print Assumptions C17_wf_iff_reachable.

Theorem C17_named_type : forall s nl,
  wf_ty (ty_named s nl) = true /\ ty_nullable (ty_named s nl) = nl /\ ty_is_list (ty_named s nl) = false /\
  ty_as_list (ty_named s nl) = None /\ tbase (ty_named s nl) = s /\ ty_depth (ty_named s nl) = O.
Proof. exact ty_named_wf. Qed.
Print Assumptions C17_named_type.

(* new_list_type panics exactly at 30 list levels (the at_max_list_depth check); below that it
   returns a well-formed type that fits u64, whose as_list is the argument *)
Theorem C17_list_type : forall t nl, wf_ty t = true ->
  if Nat.eqb (ty_depth t) 30 then ty_list t nl = Panic site_new_list
  else exists t', ty_list t nl = Ok t' /\ wf_ty t' = true /\ ty_as_list t' = Some t /\
                  ty_nullable t' = nl /\ ty_is_list t' = true /\ tbase t' = tbase t /\
                  ty_depth t' = S (ty_depth t) /\ (tmask t' < 2 ^ 64)%N.
Proof. exact ty_list_spec. Qed.
Print Assumptions C17_list_type.

Theorem C17_depth_bound : forall t, wf_ty t = true -> (ty_depth t <= 30)%nat.
Proof. exact ty_depth_le. Qed.
Print Assumptions C17_depth_bound.

Theorem C17_as_list : forall t t', wf_ty t = true -> ty_as_list t = Some t' ->
  wf_ty t' = true /\ tbase t' = tbase t /\ ty_depth t = S (ty_depth t').
Proof. exact ty_as_list_wf. Qed.
Print Assumptions C17_as_list.

Theorem C17_with_nullability : forall t nl, wf_ty t = true ->
  wf_ty (ty_with_nullability t nl) = true /\ ty_nullable (ty_with_nullability t nl) = nl /\
  ty_as_list (ty_with_nullability t nl) = ty_as_list t /\ tbase (ty_with_nullability t nl) = tbase t /\
  ty_eq_ign_null (ty_with_nullability t nl) t = true.
Proof. exact ty_with_nullability_spec. Qed.
Print Assumptions C17_with_nullability.

Theorem C17_intersect_no_panic : forall a b, wf_ty a = true -> wf_ty b = true ->
  ty_intersect a b = Ok (ty_meet a b).
Proof. exact ty_intersect_ok. Qed.
Print Assumptions C17_intersect_no_panic.

Theorem C17_intersect_result_wf : forall a b c, wf_ty a = true -> wf_ty b = true -> ty_meet a b = Some c ->
  wf_ty c = true /\ tbase c = tbase a /\ tbase c = tbase b /\ ty_depth c = ty_depth a /\ ty_depth c = ty_depth b.
Proof. exact ty_meet_wf. Qed.
Print Assumptions C17_intersect_result_wf.

(* ---------- intersect is the meet of the subtype order ---------- *)
Theorem C17_intersect_comm : forall a b, wf_ty a = true -> wf_ty b = true -> ty_meet a b = ty_meet b a.
Proof. exact ty_meet_comm. Qed.
Print Assumptions C17_intersect_comm.

Theorem C17_intersect_idem : forall a, wf_ty a = true -> ty_meet a a = Some a.
Proof. exact ty_meet_idem. Qed.
Print Assumptions C17_intersect_idem.

Theorem C17_intersect_assoc : forall a b c, wf_ty a = true -> wf_ty b = true -> wf_ty c = true ->
  obind (ty_meet a b) (fun x => ty_meet x c) = obind (ty_meet b c) (fun y => ty_meet a y).
Proof. exact ty_meet_assoc. Qed.
Print Assumptions C17_intersect_assoc.

(* the result is a subtype of both inputs *)
Theorem C17_intersect_lower_bound : forall a b c, wf_ty a = true -> wf_ty b = true ->
  ty_meet a b = Some c -> ty_sub a c = true /\ ty_sub b c = true.
Proof. exact ty_meet_lower. Qed.
Print Assumptions C17_intersect_lower_bound.

(* ... and the greatest one: every common subtype d is a subtype of the (then existing) result *)
Theorem C17_intersect_greatest : forall a b d, wf_ty a = true -> wf_ty b = true -> wf_ty d = true ->
  ty_sub a d = true -> ty_sub b d = true -> exists c, ty_meet a b = Some c /\ ty_sub c d = true.
Proof. exact ty_meet_greatest. Qed.
Print Assumptions C17_intersect_greatest.

(* None exactly when base names or list shapes (= list depths) differ *)
Theorem C17_intersect_none_iff : forall a b, wf_ty a = true -> wf_ty b = true ->
  (ty_meet a b = None <-> tbase a <> tbase b \/ ty_depth a <> ty_depth b).
Proof. exact ty_meet_none. Qed.
Print Assumptions C17_intersect_none_iff.

Theorem C17_intersect_none_iff_not_eq_ign_null : forall a b, wf_ty a = true -> wf_ty b = true ->
  (ty_meet a b = None <-> ty_eq_ign_null a b = false).
Proof. exact ty_meet_none_eqn. Qed.
Print Assumptions C17_intersect_none_iff_not_eq_ign_null.

(* ---------- the scalar subtype relation is a partial order ---------- *)
Theorem C17_sub_refl : forall a, wf_ty a = true -> ty_sub a a = true.
Proof. exact ty_sub_refl. Qed.
Print Assumptions C17_sub_refl.

Theorem C17_sub_antisym : forall a b, wf_ty a = true -> wf_ty b = true ->
  ty_sub a b = true -> ty_sub b a = true -> a = b.
Proof. exact ty_sub_antisym. Qed.
Print Assumptions C17_sub_antisym.

Theorem C17_sub_trans : forall a b c, wf_ty a = true -> wf_ty b = true -> wf_ty c = true ->
  ty_sub a b = true -> ty_sub b c = true -> ty_sub a c = true.
Proof. exact ty_sub_trans. Qed.
Print Assumptions C17_sub_trans.

(* ---------- equality ignoring nullability is an equivalence, implied by sub ---------- *)
Theorem C17_eq_ign_null_refl : forall a, wf_ty a = true -> ty_eq_ign_null a a = true.
Proof. exact ty_eqn_refl. Qed.
Print Assumptions C17_eq_ign_null_refl.

Theorem C17_eq_ign_null_sym : forall a b, wf_ty a = true -> wf_ty b = true ->
  ty_eq_ign_null a b = ty_eq_ign_null b a.
Proof. exact ty_eqn_sym. Qed.
Print Assumptions C17_eq_ign_null_sym.

Theorem C17_eq_ign_null_trans : forall a b c, wf_ty a = true -> wf_ty b = true -> wf_ty c = true ->
  ty_eq_ign_null a b = true -> ty_eq_ign_null b c = true -> ty_eq_ign_null a c = true.
Proof. exact ty_eqn_trans. Qed.
Print Assumptions C17_eq_ign_null_trans.

Theorem C17_eq_ign_null_iff : forall a b, wf_ty a = true -> wf_ty b = true ->
  (ty_eq_ign_null a b = true <-> tbase a = tbase b /\ ty_depth a = ty_depth b).
Proof. exact ty_eqn_iff. Qed.
Print Assumptions C17_eq_ign_null_iff.

Theorem C17_sub_implies_eq_ign_null : forall a b, wf_ty a = true -> wf_ty b = true ->
  ty_sub a b = true -> ty_eq_ign_null a b = true.
Proof. exact ty_sub_eqn. Qed.
Print Assumptions C17_sub_implies_eq_ign_null.

(* ---------- value validity ---------- *)
(* a value valid for a type is valid for every supertype — for ALL values (also Enum-containing
   ones: `valid b v = Ok true` already says the scan of v met no Enum) *)
Theorem C17_valid_mono : forall a b v, wf_ty a = true -> wf_ty b = true ->
  ty_sub a b = true -> ty_valid b v = Ok true -> ty_valid a v = Ok true.
Proof. exact ty_valid_mono. Qed.
Print Assumptions C17_valid_mono.

(* valid for the intersection <-> valid for both (enum-free values) *)
Theorem C17_valid_meet : forall a b c v, wf_ty a = true -> wf_ty b = true -> enum_free v = true ->
  ty_meet a b = Some c ->
  (ty_valid c v = Ok true <-> ty_valid a v = Ok true /\ ty_valid b v = Ok true).
Proof. exact ty_valid_meet. Qed.
Print Assumptions C17_valid_meet.

(* is_valid_value cannot panic on enum-free values (any type, well-formed or not) *)
Theorem C17_valid_no_panic_enum_free : forall t v, enum_free v = true -> exists b, ty_valid t v = Ok b.
Proof. exact ty_valid_enum_free_ok. Qed.
Print Assumptions C17_valid_no_panic_enum_free.

(* ... and it panics (unimplemented!, defect F6, accounted under C12) exactly when the
   short-circuiting scan reaches an Enum: `enum_reached` (TyProofs.v) = v is an Enum, or v is a list,
   the type is a list, and some element reaches an Enum while all elements before it are valid *)
Theorem C17_valid_panics_exactly_on_reached_enum : forall t v, wf_ty t = true ->
  ((exists site, ty_valid t v = Panic site) <-> enum_reached (tbase t) (ty_view t) v = true).
Proof. exact ty_valid_panic_iff. Qed.
Print Assumptions C17_valid_panics_exactly_on_reached_enum.

(* ---------- the fuel in the model is adequate ---------- *)
Theorem C17_sub_fuel_adequate : forall f a b, wf_ty a = true -> wf_ty b = true -> (31 <= f)%nat ->
  sub_fuel f a b = ty_sub a b.
Proof. exact sub_fuel_adequate. Qed.
Print Assumptions C17_sub_fuel_adequate.

Theorem C17_intersect_fuel_adequate : forall f a b, wf_ty a = true -> wf_ty b = true -> (31 <= f)%nat ->
  intersect_impl f a b = intersect_impl mask_fuel a b.
Proof. exact intersect_fuel_adequate. Qed.
Print Assumptions C17_intersect_fuel_adequate.

(* ---------- non-vacuity: concrete, non-trivial well-formed types ---------- *)
Example C17_nonvacuous :
  wf_ty (ex_t "[[Int!]]!") = true /\ tmask (ex_t "[[Int!]]!") = 27%N /\
  ty_intersect (ex_t "[[Int!]]!") (ex_t "[[Int]!]") = Ok (Some (ex_t "[[Int!]!]!")) /\
  ty_intersect (ex_t "[Int]") (ex_t "[[Int]]") = Ok None /\
  ty_intersect (ex_t "[Int]") (ex_t "[String]") = Ok None /\
  ty_sub (ex_t "[[Int]]") (ex_t "[[Int!]!]!") = true /\ ty_sub (ex_t "[[Int!]!]!") (ex_t "[[Int]]") = false /\
  ty_eq_ign_null (ex_t "[Int!]") (ex_t "[Int]!") = true /\
  ty_valid (ex_t "[[Int!]]!") (List [List [I64 1; U64 2]; Null]) = Ok true /\
  ty_valid (ex_t "[[Int]]") (List [List [I64 1; U64 2]; Null]) = Ok true /\
  ty_valid (ex_t "[[Int!]!]!") (List [List [I64 1; U64 2]; Null]) = Ok false /\
  enum_free (List [List [I64 1; U64 2]; Null]) = true /\
  ty_valid (ex_t "[Int]") (List [Str "a"; Enum "x"]) = Ok false /\
  ty_valid (ex_t "[Int]") (List [I64 1; Enum "x"]) = Panic site_enum.
Proof. vm_compute. repeat split. Qed.
Print Assumptions C17_nonvacuous.

(* depth 30 is well formed and is where new_list_type panics; depth 29 does not *)
Example C17_nonvacuous_max_depth :
  (exists t, nest 30 (ty_named "Int" false) = Ok t /\ wf_ty t = true /\ ty_depth t = 30%nat /\
             ty_list t true = Panic site_new_list /\ ty_intersect t t = Ok (Some t)) /\
  nest 31 (ty_named "Int" false) = Panic site_new_list.
Proof. vm_compute. split; [eexists; repeat split | reflexivity]. Qed.
Print Assumptions C17_nonvacuous_max_depth.
