(* C18 — Decoding rows (and edge params) into structs is faithful.
   "Decoding a result row (or edge parameters) into a struct yields exactly the row's values when each
   value is representable in the target field type, and returns an error, never a silently truncated
   or wrapped number, when an integer does not fit."
   Only statements, `exact` proofs, Print Assumptions and non-vacuity examples live here.

   Model: Decode.v (trustfall's deserializers composed with the serde visitors they forward to).
   `decode t v` is `<T as Deserialize>::deserialize(FieldValueDeserializer { value: v })`;
   `decode_row fields r` is `r.try_into_struct::<S>()` for a struct S with the given named fields;
   `decode_params` is the same for edge params.  `denotes x v` says the decoded Rust value x IS the
   row value v (same integer, same string, same bool, same float value, None for null, element-wise
   for lists). *)
From Coq Require Import Lia.
From TF Require Import Values Decode DecodeProofs.
Open Scope Z_scope.

(* ------------------------------------------------------------------ integers: exact or Err *)

(* For all 8 integer targets, both integer kinds of row value and every integer the Rust types can
   hold: in range => decoded to exactly that integer; out of range => a returned Err(range) — never
   a wrapped or truncated number, never a panic. *)
Theorem C18_decode_int_range : forall t lo hi v z,
  trange t = Some (lo, hi) -> int_val v = Some z -> ints_wf v = true ->
  (lo <= z <= hi -> decode t v = DOk (VInt z)) /\
  (~ lo <= z <= hi -> decode t v = DErr ERange).
Proof. exact decode_int_range. Qed.
Print Assumptions C18_decode_int_range.

(* Conversely, whatever an integer target decodes to is the row's integer, and it is in range. *)
Theorem C18_decode_int_ok : forall t lo hi v x,
  trange t = Some (lo, hi) -> ints_wf v = true -> decode t v = DOk x ->
  exists z, int_val v = Some z /\ x = VInt z /\ lo <= z <= hi.
Proof. exact decode_int_ok. Qed.
Print Assumptions C18_decode_int_ok.

(* the complete behaviour of an integer target on every kind of row value *)
Theorem C18_decode_int_spec : forall t v lo hi,
  trange t = Some (lo, hi) -> ints_wf v = true ->
  decode t v =
  match v with
  | I64 z | U64 z => if fits t z then DOk (VInt z) else DErr ERange
  | Enum _ => DPanic todo_site
  | _ => DErr EType
  end.
Proof. exact decode_int_spec. Qed.
Print Assumptions C18_decode_int_spec.

(* ------------------------------------------------------------------ faithfulness *)

(* FULL-STRENGTH STATEMENT (what the property asks for):

     forall t v x, ints_wf v = true -> decode t v = DOk x -> denotes x v.

   It is FALSE for the code as written (genuine defect F16): a float target fed by an integer is
   converted with `as` by serde's float visitor, and an f32 target fed by a Float64 is narrowed with
   `as` by deserialize_f32.  Refuted below; proved outside the two classes
     K-int-into-float  : an f64/f32 position receives an integer with more than 53/24 significant bits
     K-float-narrowing : an f32 position receives an f64 that is not exactly a binary32 value
   which together are `lossy t v = true`. *)
Theorem C18_decode_exact_full_refuted :
  ~ (forall t v x, ints_wf v = true -> decode t v = DOk x -> denotes x v).
Proof. exact decode_exact_full_refuted. Qed.
Print Assumptions C18_decode_exact_full_refuted.

(* Int64(2^53+1) into an f64 field: Ok(9007199254740992.0), which is the value of 2^53, not the row's *)
Theorem C18_decode_int_into_float_refuted :
  ints_wf (I64 (2 ^ 53 + 1)) = true /\
  decode TF64 (I64 (2 ^ 53 + 1)) = DOk (VF64 4845873199050653696%N) /\
  ~ denotes (VF64 4845873199050653696%N) (I64 (2 ^ 53 + 1)) /\
  denotes (VF64 4845873199050653696%N) (I64 (2 ^ 53)).
Proof. exact int_into_f64_witness. Qed.
Print Assumptions C18_decode_int_into_float_refuted.

(* Uint64(u64::MAX) into an f64 field: Ok(18446744073709551616.0) = 2^64 *)
Theorem C18_decode_u64_max_into_float_refuted :
  ints_wf (U64 u64_max) = true /\
  decode TF64 (U64 u64_max) = DOk (VF64 4895412794951729152%N) /\
  ~ denotes (VF64 4895412794951729152%N) (U64 u64_max) /\
  denotes (VF64 4895412794951729152%N) (U64 (2 ^ 64)).
Proof. exact u64_max_into_f64_witness. Qed.
Print Assumptions C18_decode_u64_max_into_float_refuted.

(* Float64(1e300) into an f32 field: Ok(+infinity) *)
Theorem C18_decode_float_narrowing_refuted :
  wf (F64 9094988921128908188%N) = true /\
  decode TF32 (F64 9094988921128908188%N) = DOk (VF32 2139095040%N) /\
  ~ denotes (VF32 2139095040%N) (F64 9094988921128908188%N).
Proof. exact float_narrowing_witness. Qed.
Print Assumptions C18_decode_float_narrowing_refuted.

(* Outside the two classes the decoded value IS the row value — every target (any nesting of
   Option / Vec / tuples), every row value. *)
Theorem C18_decode_exact : forall t v x,
  ints_wf v = true -> decode t v = DOk x -> lossy t v = false -> denotes x v.
Proof. exact decode_exact. Qed.
Print Assumptions C18_decode_exact.

(* The classes are exactly where the conversion is inexact ("lossy iff not exactly representable"):
   the float produced for an integer equals that integer iff it has at most 53 / 24 significant bits,
   and the binary32 produced for a binary64 equals it iff no bit is lost and there is no overflow. *)
Theorem C18_int_into_f64_exact_iff : forall z, - 2 ^ 64 < z < 2 ^ 64 ->
  f64_is_int (Z.to_N (int_to_f64 z)) z = f64_exactb z.
Proof. exact int_to_f64_spec. Qed.
Print Assumptions C18_int_into_f64_exact_iff.

Theorem C18_int_into_f32_exact_iff : forall z, - 2 ^ 64 < z < 2 ^ 64 ->
  f32_is_int (Z.to_N (int_to_f32 z)) z = f32_exactb z.
Proof. exact int_to_f32_spec. Qed.
Print Assumptions C18_int_into_f32_exact_iff.

Theorem C18_f64_into_f32_exact_iff : forall b,
  f32_eq_f64 (Z.to_N (f64_to_f32 (Z.of_N b))) b = f64_fits_f32 b.
Proof. exact f64_to_f32_spec. Qed.
Print Assumptions C18_f64_into_f32_exact_iff.

(* what the integer class means: z = a * 2^e with |a| < 2^53 (resp. 2^24); in particular every
   |z| <= 2^53 (resp. 2^24) is outside the class *)
Theorem C18_f64_exact_meaning : forall z,
  f64_exactb z = true <-> exists a e, 0 <= e /\ Z.abs a < 2 ^ 53 /\ z = a * 2 ^ e.
Proof. exact f64_exactb_spec. Qed.
Print Assumptions C18_f64_exact_meaning.

Theorem C18_f32_exact_meaning : forall z,
  f32_exactb z = true <-> exists a e, 0 <= e /\ Z.abs a < 2 ^ 24 /\ z = a * 2 ^ e.
Proof. exact f32_exactb_spec. Qed.
Print Assumptions C18_f32_exact_meaning.

(* what the narrowing class means: the value is outside it iff SOME finite binary32 value equals it *)
Theorem C18_f64_fits_f32_meaning : forall b,
  f64_fits_f32 b = true <-> exists b32, f32_eq_f64 b32 b = true.
Proof. exact f64_fits_f32_spec. Qed.
Print Assumptions C18_f64_fits_f32_meaning.

Theorem C18_f64_exact_small : forall z, Z.abs z <= 2 ^ 53 -> f64_exactb z = true.
Proof. exact f64_exactb_small. Qed.
Print Assumptions C18_f64_exact_small.

Theorem C18_f32_exact_small : forall z, Z.abs z <= 2 ^ 24 -> f32_exactb z = true.
Proof. exact f32_exactb_small. Qed.
Print Assumptions C18_f32_exact_small.

(* the rounding model itself: the bit pattern produced for m * 2^e denotes m * 2^e exactly iff no
   bit is dropped (any precision p, any minimal exponent) *)
Theorem C18_round_mag_exact_iff : forall p emin m e, 1 <= p -> 0 < m ->
  dy_eq (mag_val p emin (round_mag p emin m e)) (m, e) = dy_exactb p emin m e.
Proof. exact round_mag_value. Qed.
Print Assumptions C18_round_mag_exact_iff.

(* ------------------------------------------------------------------ Err, not panic *)

(* Decoding returns (Ok or Err) on every value without an Enum; the only panic is the todo!() that
   deserialize_any hits on FieldValue::Enum — a genuine defect (F19, class K-enum-todo): *)
Theorem C18_decode_no_panic : forall t v s, enum_free v = true -> decode t v <> DPanic s.
Proof. exact decode_no_panic. Qed.
Print Assumptions C18_decode_no_panic.

Theorem C18_decode_panic_only_enum : forall t v s,
  decode t v = DPanic s -> s = todo_site /\ enum_free v = false.
Proof. exact decode_panic_inv. Qed.
Print Assumptions C18_decode_panic_only_enum.

Theorem C18_decode_enum_panics : forall t s, decode t (Enum s) = DPanic todo_site.
Proof. exact decode_enum_panics. Qed.
Print Assumptions C18_decode_enum_panics.

(* ------------------------------------------------------------------ structure *)

Theorem C18_option_null : forall t, decode (TOption t) Null = DOk VNone.
Proof. exact decode_option_null. Qed.
Print Assumptions C18_option_null.

Theorem C18_option_some : forall t v, v <> Null -> decode (TOption t) v = dmap_res VSome (decode t v).
Proof. exact decode_option_some. Qed.
Print Assumptions C18_option_some.

(* null into anything but an Option is an error *)
Theorem C18_null_non_option : forall t, (forall t', t <> TOption t') -> decode t Null = DErr EType.
Proof. exact decode_null_non_option. Qed.
Print Assumptions C18_null_non_option.

(* a list of the wrong length into a tuple is an error *)
Theorem C18_tuple_length_mismatch : forall ts l,
  ts <> [] -> List.length ts <> List.length l -> decode (TTuple ts) (List l) = DErr ELen.
Proof. exact decode_tuple_length. Qed.
Print Assumptions C18_tuple_length_mismatch.

Theorem C18_tuple_ok_shape : forall ts v x,
  decode (TTuple ts) v = DOk x ->
  exists l xs, v = List l /\ x = VSeq xs /\ List.length l = List.length ts /\ List.length xs = List.length ts.
Proof. exact decode_tuple_ok. Qed.
Print Assumptions C18_tuple_ok_shape.

Theorem C18_vec_ok_length : forall t l x,
  decode (TVec t) (List l) = DOk x -> exists xs, x = VSeq xs /\ List.length xs = List.length l.
Proof. exact decode_vec_length. Qed.
Print Assumptions C18_vec_ok_length.

(* no coercion between kinds: what kind of row value a target can accept at all *)
Theorem C18_decode_kind : forall t v x, decode t v = DOk x ->
  match t with
  | TI8 | TI16 | TI32 | TI64 | TU8 | TU16 | TU32 | TU64 => exists z, int_val v = Some z
  | TF32 | TF64 => (exists z, int_val v = Some z) \/ (exists b, v = F64 b)
  | TBool => exists b, v = Boolv b
  | TString => exists s, v = Str s
  | TOption _ => True
  | TVec _ | TTuple _ => exists l, v = List l
  end.
Proof. exact decode_kind. Qed.
Print Assumptions C18_decode_kind.

(* ------------------------------------------------------------------ rows and edge params *)

(* A successfully decoded struct: every field whose key is in the row holds the decoding of that
   row value (hence, by C18_decode_exact, the row value itself); a field whose key is absent is an
   Option and holds None. *)
Theorem C18_decode_row_fields : forall fields r xs,
  NoDup (map fst fields) -> decode_row fields r = DOk xs -> Forall2 (field_ok r) fields xs.
Proof. exact decode_row_fields. Qed.
Print Assumptions C18_decode_row_fields.

(* a missing key for a non-Option field is never Ok *)
Theorem C18_decode_row_missing : forall fields r n t xs,
  NoDup (map fst fields) -> In (n, t) fields -> slot r n = None -> ~ is_option t ->
  decode_row fields r <> DOk xs.
Proof. exact decode_row_missing. Qed.
Print Assumptions C18_decode_row_missing.

(* extra keys are ignored without looking at their value *)
Theorem C18_decode_row_extra_ignored : forall fields k v r1 r2,
  field_target fields k = None ->
  decode_row fields (r1 ++ (k, v) :: r2)%list = decode_row fields (r1 ++ r2)%list.
Proof. exact decode_row_extra_ignored. Qed.
Print Assumptions C18_decode_row_extra_ignored.

(* row level "never wrapped": an integer field of a decoded struct holds the row's integer, and
   that integer is within the field type's range *)
Theorem C18_decode_row_int_field : forall fields r xs n t lo hi v z,
  NoDup (map fst fields) -> decode_row fields r = DOk xs ->
  In (n, t) fields -> trange t = Some (lo, hi) ->
  slot r n = Some v -> int_val v = Some z -> ints_wf v = true ->
  lo <= z <= hi /\ exists i, nth_error fields i = Some (n, t) /\ nth_error xs i = Some (VInt z).
Proof. exact decode_row_int_field. Qed.
Print Assumptions C18_decode_row_int_field.

(* edge params go through the very same deserializer *)
Theorem C18_decode_params_same : forall fields contents,
  decode_params fields contents = decode_row fields contents.
Proof. exact decode_params_same. Qed.
Print Assumptions C18_decode_params_same.

(* FieldValue's invariant (Values.wf) implies the integer well-formedness used above *)
Theorem C18_wf_ints_wf : forall v, wf v = true -> ints_wf v = true.
Proof. exact wf_ints_wf. Qed.
Print Assumptions C18_wf_ints_wf.

(* ------------------------------------------------------------------ non-vacuity *)
Example C18_nonvacuous :
  (* a nested, well-formed, non-lossy value decodes, and integers at the limits behave *)
  ints_wf (List [List [I64 65535; U64 0]; List []]) = true /\
  lossy (TVec (TVec TU16)) (List [List [I64 65535; U64 0]; List []]) = false /\
  decode (TVec (TVec TU16)) (List [List [I64 65535; U64 0]; List []])
    = DOk (VSeq [VSeq [VInt 65535; VInt 0]; VSeq []]) /\
  decode (TVec (TVec TU16)) (List [List [I64 65536]]) = DErr ERange /\
  decode TI8 (U64 128) = DErr ERange /\ decode TI8 (I64 (-128)) = DOk (VInt (-128)) /\
  decode TI64 (U64 (2 ^ 63)) = DErr ERange /\ decode TU64 (I64 (-1)) = DErr ERange /\
  decode TU64 (U64 u64_max) = DOk (VInt u64_max) /\
  decode (TTuple [TI64; TString]) (List [I64 1; Str "a"]) = DOk (VSeq [VInt 1; VStr "a"]) /\
  decode (TTuple [TI64; TString]) (List [I64 1]) = DErr ELen /\
  decode (TOption (TOption TI64)) (I64 7) = DOk (VSome (VSome (VInt 7))) /\
  (* f64 from a representable integer, f32 from a representable f64 (1.5) *)
  lossy TF64 (I64 (2 ^ 53)) = false /\ decode TF64 (I64 (2 ^ 53)) = DOk (VF64 4845873199050653696%N) /\
  lossy TF32 (F64 4609434218613702656%N) = false /\
  decode TF32 (F64 4609434218613702656%N) = DOk (VF32 1069547520%N) /\
  (* a struct {a: i64, b: String, c: Option<u8>}: extra key with an Enum ignored, missing Option *)
  decode_row [("a", TI64); ("b", TString); ("c", TOption TU8)]
             [("a", I64 5); ("b", Str "s"); ("zz", Enum "E")]
    = DOk [VInt 5; VStr "s"; VNone] /\
  decode_row [("a", TI64); ("b", TString); ("c", TOption TU8)] [("a", I64 5); ("c", I64 256)]
    = DErr ERange /\
  decode_row [("a", TI64); ("b", TString); ("c", TOption TU8)] [("a", I64 5)] = DErr EMissing /\
  decode_row [("a", TI64)] [("a", Enum "E")] = DPanic todo_site.
Proof. vm_compute. repeat split. Qed.
Print Assumptions C18_nonvacuous.
