(* C19 — Schema validation never panics and accepts exactly the valid schemas.
   Only statements, `exact` proofs, Print Assumptions and witnesses live here.

   Model: SchemaNew.v, a function-by-function transcription of trustfall_core/src/schema/mod.rs
   (`Schema::new`, all `check_*` functions, `is_subtype`, `get_field_origins` with its work queue as a
   fuelled loop, `check_ambiguous_field_origins`); every assert!/expect/unwrap/unreachable!/index is a
   `Panic site`.  `schema_new d : res (list schema_error)`; `Ok []` = accepted.
   Documents: SchemaAst.v (`doc` = the definitions Schema::new reads from the parser's ServiceDocument,
   in document order).  The text -> AST step (async_graphql_parser::parse_schema, third party) is NOT
   modelled: the statements are about ALL ASTs over the supported constructs, which includes every AST
   the parser can produce for such texts (property claimed partial w.r.t. raw text).
   Specification: SchemaSpec.v (`valid_schema`, the documented rules stated declaratively, and the
   known-defect classes `Known`).

   FULL STATEMENT (false, defect F12):   forall d, exists r, schema_new d = Ok r.
   It is refuted below (C19_never_panics_refuted and one witness per class); what is proved is the
   statement on the complement of `Known`, the union of the ten classes
     K-no-schema-block, K-dup-schema-block, K-schema-without-query (AST only),
     K-builtin-scalar-redeclared, K-dup-scalar, K-dup-directive, K-undefined-query-type,
     K-interface-query-type, K-list-depth, K-enum-default,
   each a boolean predicate on the document (SchemaSpec.v section 1). *)
From TF Require Import Values Ty SchemaAst SchemaNew SchemaSpec SchemaProofs.
Local Open Scope string_scope.
Local Open Scope list_scope.

(* ---------- totality: never panics outside the known classes ---------- *)
Theorem C19_schema_new_total : forall d, ~ Known d -> exists r, schema_new d = Ok r.
Proof. exact schema_new_total. Qed.
Print Assumptions C19_schema_new_total.

(* equivalently: every Panic constructor of the model (the sixteen sites of schema/mod.rs, the two of
   ir/types/base.rs reached from it, and fuel exhaustion) is unreachable outside the known classes *)
Theorem C19_panic_only_if_known : forall d site, schema_new d = Panic site -> Known d.
Proof. exact schema_new_panic_known. Qed.
Print Assumptions C19_panic_only_if_known.

(* ---------- exactness: accepted exactly when the declarative rules hold ---------- *)
Theorem C19_schema_new_exact : forall d, ~ Known d -> (schema_new d = Ok [] <-> valid_schema d).
Proof. exact schema_new_exact. Qed.
Print Assumptions C19_schema_new_exact.

(* both at once, in terms of the error list *)
Theorem C19_schema_new_spec : forall d, known d = false ->
  exists errors, schema_new d = Ok errors /\ (errors = [] <-> valid_schema d).
Proof. exact schema_new_spec. Qed.
Print Assumptions C19_schema_new_spec.

(* ---------- rule by rule (ts: the vertex type definitions, names unique) ---------- *)
(* interfaces exist, are interfaces, and are implemented transitively (up to the immediate cycle the
   code leaves to the cycle check) <-> no ImplementingNonExistentType / ImplementingNonInterface /
   MissingTransitiveInterfaceImplementation *)
Theorem C19_rule_implements : forall ts, uniq ts -> (check_transitive ts = [] <-> P_transitive ts).
Proof. exact check_transitive_nil. Qed.
Print Assumptions C19_rule_implements.

(* inherited fields are present <-> no MissingRequiredField *)
Theorem C19_rule_inherited_present : forall ts, uniq ts ->
  (check_required_fields ts (all_fields ts) = [] <-> P_present ts).
Proof. exact check_required_fields_nil. Qed.
Print Assumptions C19_rule_inherited_present.

(* inherited fields are only narrowed (type compatibility + parameters) <-> none of the four
   narrowing errors; never panics when no type has more than 30 list levels *)
Theorem C19_rule_inherited_narrowed : forall ts, uniq ts ->
  (forall t f g, In t ts -> In f (t_fields t) -> In g (fld_gtys f) -> (gdepth g <= 30)%nat) ->
  exists errors, check_narrowing ts (all_fields ts) = Ok errors /\ (errors = [] <-> P_narrowed ts).
Proof. exact check_narrowing_spec. Qed.
Print Assumptions C19_rule_inherited_narrowed.

(* is_subtype is the declarative compatibility relation *)
Theorem C19_is_subtype : forall ts, uniq ts -> forall p c, is_subtype ts p c = true <-> gsub ts p c.
Proof. exact is_subtype_iff. Qed.
Print Assumptions C19_is_subtype.

(* reserved names, field types, edges into the root, property parameters, edge shape, defaults *)
Theorem C19_rule_invariants : forall ts,
  (forall t f g, In t ts -> In f (t_fields t) -> In g (fld_gtys f) -> (gdepth g <= 30)%nat) ->
  (forall t f a, In t ts -> In f (t_fields t) -> In a (f_args f) -> arg_has_enum a = false) ->
  forall q, exists errors, check_invariants q ts = Ok errors /\ (errors = [] <-> P_invariants ts q).
Proof. exact check_invariants_spec. Qed.
Print Assumptions C19_rule_invariants.

(* implementation cycles and field origins: get_field_origins never panics; it reports
   CircularImplementsRelationships exactly when there is no topological numbering; otherwise
   check_ambiguous_field_origins reports nothing exactly when every field has a single origin *)
Theorem C19_rule_cycles_and_origins : forall ts, uniq ts ->
  exists r, get_field_origins ts = Ok r /\
    match r with
    | inl _ => ~ acyclic ts
    | inr origins => acyclic ts /\
                     exists errors, check_ambiguous (all_fields ts) origins = Ok errors /\
                                    (errors = [] <-> unambiguous ts)
    end.
Proof. exact get_field_origins_spec. Qed.
Print Assumptions C19_rule_cycles_and_origins.

(* a topological numbering excludes every cycle of the implements relation *)
Theorem C19_acyclic_no_self_reach : forall ts, acyclic ts -> forall n, ~ reaches ts n n.
Proof. exact acyclic_no_self_reach. Qed.
Print Assumptions C19_acyclic_no_self_reach.

(* ---------- fuel adequacy of the work queue: |types| + 1 ---------- *)
Theorem C19_fuel_adequate : forall ts, uniq ts ->
  exists r, fo_loop (fo_fuel ts) ts [] (initial_queue ts) (required_resolutions ts) = Ok r /\
            forall k, fo_loop (fo_fuel ts + k) ts [] (initial_queue ts) (required_resolutions ts) = Ok r.
Proof. exact fo_fuel_adequate. Qed.
Print Assumptions C19_fuel_adequate.

(* the first loop: outside the classes it stops with DuplicateTypeOrInterfaceDefinition /
   DuplicateFieldDefinition exactly when a type name or a field name within a type is repeated *)
Theorem C19_first_loop : forall d s,
  s_fields s = all_fields (s_types s) -> uniq (s_types s) ->
  existsb builtin_scalar (doc_scalars d) = false ->
  existsb (fun t => builtin_scalar (t_name t)) (doc_types d) = false ->
  NoDup (s_dirs s ++ doc_directives d) -> NoDup (s_scalars s ++ doc_scalars d) ->
  (List.length (olist (s_schema s) ++ doc_schemas d) <= 1)%nat ->
  (uniq (s_types s ++ doc_types d) /\
   exists s', loop1 d s = Ok (Cont s') /\ s_types s' = s_types s ++ doc_types d /\
              s_fields s' = all_fields (s_types s') /\
              olist (s_schema s') = olist (s_schema s) ++ doc_schemas d) \/
  (~ uniq (s_types s ++ doc_types d) /\ exists e, loop1 d s = Ok (Early e)).
Proof. exact loop1_spec. Qed.
Print Assumptions C19_first_loop.

(* ---------- refutation witnesses: each known class contains a document that panics ---------- *)
Theorem C19_never_panics_refuted : ~ (forall d, exists r, schema_new d = Ok r).
Proof. exact schema_new_never_panics_refuted. Qed.
Print Assumptions C19_never_panics_refuted.

Theorem C19_schema_new_refuted_empty_document : k_no_schema_block w_empty = true /\ panics w_empty.
Proof. exact w_empty_panics. Qed.
Print Assumptions C19_schema_new_refuted_empty_document.
Theorem C19_schema_new_refuted_no_schema_block : k_no_schema_block w_no_schema = true /\ panics w_no_schema.
Proof. exact w_no_schema_panics. Qed.
Print Assumptions C19_schema_new_refuted_no_schema_block.
Theorem C19_schema_new_refuted_dup_schema_block : k_dup_schema_block w_dup_schema = true /\ panics w_dup_schema.
Proof. exact w_dup_schema_panics. Qed.
Print Assumptions C19_schema_new_refuted_dup_schema_block.
Theorem C19_schema_new_refuted_schema_without_query : k_schema_without_query w_no_query = true /\ panics w_no_query.
Proof. exact w_no_query_panics. Qed.
Print Assumptions C19_schema_new_refuted_schema_without_query.
Theorem C19_schema_new_refuted_builtin_scalar_redeclared :
  k_builtin_scalar_redeclared w_builtin_scalar = true /\ panics w_builtin_scalar.
Proof. exact w_builtin_scalar_panics. Qed.
Print Assumptions C19_schema_new_refuted_builtin_scalar_redeclared.
Theorem C19_schema_new_refuted_builtin_name_object :
  k_builtin_scalar_redeclared w_builtin_object = true /\ panics w_builtin_object.
Proof. exact w_builtin_object_panics. Qed.
Print Assumptions C19_schema_new_refuted_builtin_name_object.
Theorem C19_schema_new_refuted_dup_scalar : k_dup_scalar w_dup_scalar = true /\ panics w_dup_scalar.
Proof. exact w_dup_scalar_panics. Qed.
Print Assumptions C19_schema_new_refuted_dup_scalar.
Theorem C19_schema_new_refuted_dup_directive : k_dup_directive w_dup_directive = true /\ panics w_dup_directive.
Proof. exact w_dup_directive_panics. Qed.
Print Assumptions C19_schema_new_refuted_dup_directive.
Theorem C19_schema_new_refuted_undefined_query_type :
  k_undefined_query_type w_undefined_query = true /\ panics w_undefined_query.
Proof. exact w_undefined_query_panics. Qed.
Print Assumptions C19_schema_new_refuted_undefined_query_type.
Theorem C19_schema_new_refuted_interface_query_type :
  k_interface_query_type w_interface_query = true /\ panics w_interface_query.
Proof. exact w_interface_query_panics. Qed.
Print Assumptions C19_schema_new_refuted_interface_query_type.
Theorem C19_schema_new_refuted_list_depth : k_list_depth w_list_depth = true /\ panics w_list_depth.
Proof. exact w_list_depth_panics. Qed.
Print Assumptions C19_schema_new_refuted_list_depth.
Theorem C19_schema_new_refuted_enum_default : k_enum_default w_enum_default = true /\ panics w_enum_default.
Proof. exact w_enum_default_panics. Qed.
Print Assumptions C19_schema_new_refuted_enum_default.

(* ---------- non-vacuity ---------- *)
(* a 4-type schema (+ root) with an interface hierarchy, transitive implements, a narrowed edge,
   narrowed nullability, parameters with defaults, three entry points: outside every known class,
   accepted by the model, hence valid by the theorem *)
Example C19_nonvacuous_valid :
  ~ Known ex_valid /\ schema_new ex_valid = Ok [] /\ valid_schema ex_valid.
Proof. exact (conj ex_valid_unknown (conj ex_valid_accepted ex_valid_valid)). Qed.
Print Assumptions C19_nonvacuous_valid.

(* ... and a variant violating three rules: rejected with exactly those errors, hence invalid *)
Example C19_nonvacuous_invalid :
  ~ Known ex_invalid /\
  show_schema_result (schema_new ex_invalid) =
  "ERR:MissingTransitive(Person,Entity,Named)|Widening(id,Person,Entity,Int,Int!)|MissingParams(friend,Person,Entity,[tags])"
  /\ ~ valid_schema ex_invalid.
Proof. exact ex_invalid_rejected. Qed.
Print Assumptions C19_nonvacuous_invalid.
