(* C20 — Schema introspection reports exactly the schema's contents.
   Only statements, `exact` proofs, Print Assumptions and witnesses live here.

   Model: Introspect.v, a function-by-function transcription of trustfall_core/src/schema/adapter/mod.rs
   (`SchemaAdapter`: vertex kinds, `vertex_type_iter` with its `statically_required_property("name")`
   shortcut, `entrypoints_iter`, the four resolvers with their `resolve_*_with` helpers, `Schema::subtypes`);
   every expect/unwrap/unreachable!/panic! is a `Panic site`.  A schema is `schema_of_doc d` for the
   document AST `d` of SchemaAst.v; "valid schema" is `valid_schema d /\ ~ Known d` of SchemaSpec.v — by
   C19 exactly the documents for which Schema::new returns a Schema.  All theorems are stated for
   `wf_schema s`, the handful of consequences of validity they need; `C20_valid_schemas_are_wf` bridges.
   `q_* s` = the rows the engine computes for the canonical meta-queries by composing the resolvers;
   `spec_* s` = the same relations written directly from the AST (Introspect.v, last section).
   `answers q spec` = q does not panic and returns a permutation of spec: the order of the real
   `VertexType` enumeration is HashMap order (F14, accounted under C14), so only multisets are claimed.

   Not covered: `docs` properties (SchemaAst.v drops descriptions); the decimal text of float defaults
   (abstracted to the bit pattern); running the meta-queries through the engine model Exec.v/Sem.v (the
   rows are the resolver compositions those queries denote; the real engine runs them in the tie).

   The `implementer` edge as DOCUMENTED in schema.graphql ("Subtypes of this vertex type.  If this is not
   an interface type, this edge is guaranteed to be empty."):
       forall d, valid_schema d -> ~ Known d ->
         answers (q_implementer (schema_of_doc d)) (spec_implementer_documented (schema_of_doc d))
   HOLDS (C20_intro_implementer_valid, and inside C20_introspection_exact).  It used to be false (defect
   F18: `Schema::subtypes` includes the type itself, so every type was its own implementer); /repo commit
   00e79dd filters the own name out and the model follows.  For `wf_schema s` the relation the code computes
   is characterised exactly (C20_intro_implementer_exact: the OTHER types listing the type in their
   `implements`), never contains a self row (C20_implementer_excludes_self, any s), differs from the
   documented one only by the self row of an interface listing itself (C20_implementer_actual_vs_documented)
   and equals it when no type lists itself (C20_implementer_actual_eq_documented), which validity
   guarantees through "no implementation cycles" (C20_valid_no_self_impl).
   C20_implementer_regression replays the former witness of F18.
   Finding (class K-hint-duplicate-names): under a `one_of` hint the enumeration performs one lookup
   per ELEMENT of the list, so a repeated name repeats the vertex type (C20_hinted_multiple,
   C20_hinted_duplicates_refuted); as SETS the hinted and the filtered enumerations agree
   (C20_hinted_iter_equiv). *)
From Coq Require Import Permutation.
From TF Require Import Values Ty SchemaAst SchemaNew SchemaSpec Introspect IntrospectProofs Checker CheckerProofs.
Local Open Scope list_scope.
Local Open Scope string_scope.

(* ---------- valid schemas ---------- *)
Theorem C20_valid_schemas_are_wf : forall d, valid_schema d -> ~ Known d -> wf_schema (schema_of_doc d).
Proof. exact valid_wf. Qed.
Print Assumptions C20_valid_schemas_are_wf.

(* ---------- the whole property for a valid schema document ---------- *)
Theorem C20_introspection_exact : forall d, valid_schema d -> ~ Known d ->
  let s := schema_of_doc d in
  answers (q_types s) (spec_types s) /\
  answers (q_implements s) (spec_implements s) /\
  answers (q_implementer s) (spec_implementer_documented s) /\
  answers (q_properties s) (spec_properties s) /\
  answers (q_edges s) (spec_edges s) /\
  answers (q_params s) (spec_params s) /\
  answers (q_entrypoints s) (spec_entrypoints s) /\
  answers (q_entry_params s) (spec_entry_params s).
Proof. exact introspection_exact. Qed.
Print Assumptions C20_introspection_exact.

(* ---------- relation by relation ---------- *)
(* vertex types with their interface flag: every object / interface definition except the root query type *)
Theorem C20_intro_types_exact : forall s, answers (q_types s) (spec_types s).   (* needs no validity *)
Proof. exact intro_types_exact. Qed.
Print Assumptions C20_intro_types_exact.
Theorem C20_spec_types_reading : forall s n b,
  In [Str n; Boolv b] (spec_types s) <->
  exists t, In t (sc_types s) /\ t_name t = n /\ n <> sc_query s /\ b = is_interface t.
Proof. exact spec_types_iff. Qed.
Print Assumptions C20_spec_types_reading.

(* implements *)
Theorem C20_intro_implements_exact : forall s, wf_schema s -> answers (q_implements s) (spec_implements s).
Proof. exact intro_implements_exact. Qed.
Print Assumptions C20_intro_implements_exact.
Theorem C20_spec_implements_reading : forall s n i,
  In [Str n; Str i] (spec_implements s) <->
  exists t, In t (sc_types s) /\ t_name t = n /\ n <> sc_query s /\ In i (t_impl t).
Proof. exact spec_implements_iff. Qed.
Print Assumptions C20_spec_implements_reading.

(* properties with their type text *)
Theorem C20_intro_props_exact : forall s, wf_schema s -> answers (q_properties s) (spec_properties s).
Proof. exact intro_props_exact. Qed.
Print Assumptions C20_intro_props_exact.
Theorem C20_spec_properties_reading : forall s n p ty,
  In [Str n; Str p; Str ty] (spec_properties s) <->
  exists t f, In t (sc_types s) /\ t_name t = n /\ n <> sc_query s /\ In f (t_fields t) /\
              builtin_scalar (gbase (f_ty f)) = true /\ f_name f = p /\ gty_text (f_ty f) = ty.
Proof. exact spec_properties_iff. Qed.
Print Assumptions C20_spec_properties_reading.

(* edges with target and cardinalities *)
Theorem C20_intro_edges_exact : forall s, wf_schema s -> answers (q_edges s) (spec_edges s).
Proof. exact intro_edges_exact. Qed.
Print Assumptions C20_intro_edges_exact.
Theorem C20_spec_edges_reading : forall s n e many alo tgt,
  In [Str n; Str e; Boolv many; Boolv alo; Str tgt] (spec_edges s) <->
  exists t f, In t (sc_types s) /\ t_name t = n /\ n <> sc_query s /\ In f (t_fields t) /\
              builtin_scalar (gbase (f_ty f)) = false /\ f_name f = e /\
              many = g_is_list (f_ty f) /\ alo = negb (gnullable (f_ty f)) /\ tgt = gbase (f_ty f).
Proof. exact spec_edges_iff. Qed.
Print Assumptions C20_spec_edges_reading.

(* parameters with type text and JSON default *)
Theorem C20_intro_params_exact : forall s, wf_schema s -> answers (q_params s) (spec_params s).
Proof. exact intro_params_exact. Qed.
Print Assumptions C20_intro_params_exact.
Theorem C20_spec_params_reading : forall s n e p pty d,
  In [Str n; Str e; Str p; Str pty; d] (spec_params s) <->
  exists t f a, In t (sc_types s) /\ t_name t = n /\ n <> sc_query s /\ In f (t_fields t) /\
                builtin_scalar (gbase (f_ty f)) = false /\ f_name f = e /\ In a (f_args f) /\
                a_name a = p /\ gty_text (a_ty a) = pty /\ d = spec_default a.
Proof. exact spec_params_iff. Qed.
Print Assumptions C20_spec_params_reading.

(* entry points and their parameters; the same through the `Schema` vertex *)
Theorem C20_intro_entrypoints_exact : forall s, wf_schema s -> answers (q_entrypoints s) (spec_entrypoints s).
Proof. exact intro_entrypoints_exact. Qed.
Print Assumptions C20_intro_entrypoints_exact.
Theorem C20_intro_entry_params_exact : forall s, wf_schema s -> answers (q_entry_params s) (spec_entry_params s).
Proof. exact intro_entry_params_exact. Qed.
Print Assumptions C20_intro_entry_params_exact.
Theorem C20_spec_entrypoints_reading : forall s e many alo tgt,
  In [Str e; Boolv many; Boolv alo; Str tgt] (spec_entrypoints s) <->
  exists f, In f (root_fields s) /\ f_name f = e /\
            many = g_is_list (f_ty f) /\ alo = negb (gnullable (f_ty f)) /\ tgt = gbase (f_ty f).
Proof. exact spec_entrypoints_iff. Qed.
Print Assumptions C20_spec_entrypoints_reading.
Theorem C20_intro_schema_types_exact : forall s, answers (q_schema_types s) (spec_types s).
Proof. exact intro_schema_types_exact. Qed.
Print Assumptions C20_intro_schema_types_exact.
Theorem C20_intro_schema_entrypoints_exact : forall s, wf_schema s -> answers (q_schema_entrypoints s) (spec_entrypoints s).
Proof. exact intro_schema_entrypoints_exact. Qed.
Print Assumptions C20_intro_schema_entrypoints_exact.

(* ---------- implementer (F18, repaired by /repo 00e79dd) ---------- *)
(* what the code does: the types other than the type itself that list it in their `implements` *)
Theorem C20_intro_implementer_exact : forall s, wf_schema s -> answers (q_implementer s) (spec_implementer_actual s).
Proof. exact intro_implementer_exact. Qed.
Print Assumptions C20_intro_implementer_exact.
Theorem C20_spec_implementer_actual_reading : forall s n m,
  In [Str n; Str m] (spec_implementer_actual s) <->
  exists t u, In t (visible_types s) /\ In u (sc_types s) /\ t_name t = n /\ t_name u = m /\
              m <> n /\ In n (t_impl u).
Proof. exact spec_implementer_actual_iff. Qed.
Print Assumptions C20_spec_implementer_actual_reading.
Theorem C20_spec_implementer_documented_reading : forall s n m,
  In [Str n; Str m] (spec_implementer_documented s) <->
  exists t u, In t (visible_types s) /\ In u (sc_types s) /\ t_name t = n /\ t_name u = m /\
              is_interface t = true /\ In n (t_impl u).
Proof. exact spec_implementer_documented_iff. Qed.
Print Assumptions C20_spec_implementer_documented_reading.
(* no type is its own implementer, for ANY schema *)
Theorem C20_implementer_excludes_self : forall s n, ~ In [Str n; Str n] (spec_implementer_actual s).
Proof. exact implementer_excludes_self. Qed.
Print Assumptions C20_implementer_excludes_self.
(* exact difference from the documentation on a well-formed schema: the self row of an interface that
   lists itself in its `implements`, nothing else *)
Theorem C20_implementer_actual_vs_documented : forall s, wf_schema s -> forall n m,
  In [Str n; Str m] (spec_implementer_documented s) <->
  In [Str n; Str m] (spec_implementer_actual s) \/
  (m = n /\ exists t, In t (visible_types s) /\ t_name t = n /\ In n (t_impl t)).
Proof. exact implementer_actual_vs_documented. Qed.
Print Assumptions C20_implementer_actual_vs_documented.
(* ... hence none when no type lists itself: the code's relation IS the documented one *)
Theorem C20_implementer_actual_eq_documented : forall s, wf_schema s -> no_self_impl s ->
  spec_implementer_actual s = spec_implementer_documented s.
Proof. exact implementer_actual_eq_documented. Qed.
Print Assumptions C20_implementer_actual_eq_documented.
Theorem C20_intro_implementer_documented : forall s, wf_schema s -> no_self_impl s ->
  answers (q_implementer s) (spec_implementer_documented s).
Proof. exact intro_implementer_documented. Qed.
Print Assumptions C20_intro_implementer_documented.
(* validity excludes self-implementation (no implementation cycles) ... *)
Theorem C20_valid_no_self_impl : forall d, valid_schema d -> no_self_impl (schema_of_doc d).
Proof. exact valid_no_self_impl. Qed.
Print Assumptions C20_valid_no_self_impl.
(* ... so the documented statement holds for every valid schema *)
Theorem C20_intro_implementer_valid : forall d, valid_schema d -> ~ Known d ->
  answers (q_implementer (schema_of_doc d)) (spec_implementer_documented (schema_of_doc d)) /\
  spec_implementer_actual (schema_of_doc d) = spec_implementer_documented (schema_of_doc d).
Proof. exact intro_implementer_valid. Qed.
Print Assumptions C20_intro_implementer_valid.
(* regression of the former F18 witness: Vowel is an OBJECT type and is no longer its own implementer *)
Example C20_implementer_regression :
  q_implementer wit = Ok [[Str "Letter"; Str "Vowel"]] /\
  ~ In [Str "Vowel"; Str "Vowel"] [[Str "Letter"; Str "Vowel"]] /\
  spec_implementer_documented wit = [[Str "Letter"; Str "Vowel"]] /\
  (exists t, sget wit "Vowel" = Some t /\ is_interface t = false).
Proof. exact implementer_regression. Qed.
Print Assumptions C20_implementer_regression.

(* ---------- the `name` hint of the VertexType enumeration ---------- *)
(* as sets, the enumeration under any hint = the full enumeration filtered by what the hint denotes *)
Theorem C20_hinted_iter_equiv : forall s, wf_schema s -> forall h, hint_strings h ->
  exists rows, q_types_hinted s h = Ok rows /\
               forall r, In r rows <-> In r (engine_filter (hint_allows h) (spec_types s)).
Proof. exact hinted_iter_equiv. Qed.
Print Assumptions C20_hinted_iter_equiv.
(* `=`: exactly (as a list) the filtered enumeration *)
Theorem C20_hinted_single : forall s, wf_schema s -> forall n,
  q_types_hinted s (HSingleStr n) = Ok (engine_filter (String.eqb n) (spec_types s)).
Proof. exact hinted_single. Qed.
Print Assumptions C20_hinted_single.
(* `one_of`: one lookup per element of the list *)
Theorem C20_hinted_multiple : forall s, wf_schema s -> forall names,
  q_types_hinted s (HMultiple (map Str names)) =
  Ok (flat_map (fun n => engine_filter (String.eqb n) (spec_types s)) names).
Proof. exact hinted_multiple. Qed.
Print Assumptions C20_hinted_multiple.
(* for a list without repetitions the hinted enumeration IS the filtered one, also as a multiset:
   the defect class K-hint-duplicate-names is exactly "the one_of list repeats a name" *)
Theorem C20_hinted_multiple_nodup : forall s, wf_schema s -> forall names, NoDup names ->
  exists rows, q_types_hinted s (HMultiple (map Str names)) = Ok rows /\
               Permutation rows (engine_filter (fun n => mem n names) (spec_types s)).
Proof. exact hinted_multiple_nodup. Qed.
Print Assumptions C20_hinted_multiple_nodup.
(* hence a repeated name repeats the row: as MULTISETS the hinted enumeration is not the filtered one *)
Theorem C20_hinted_duplicates_refuted :
  q_types_hinted wit (HMultiple [Str "Vowel"; Str "Vowel"]) = Ok [[Str "Vowel"; Boolv false]; [Str "Vowel"; Boolv false]]
  /\ engine_filter (hint_allows (HMultiple [Str "Vowel"; Str "Vowel"])) (spec_types wit) = [[Str "Vowel"; Boolv false]].
Proof. exact hinted_duplicates_refuted. Qed.
Print Assumptions C20_hinted_duplicates_refuted.

(* ---------- the introspection adapter satisfies the adapter contract ---------- *)
(* resolve_property / resolve_neighbors: every context exactly once and in order; Null / no neighbours
   when there is no active vertex; no panic on vertex-less contexts *)
Theorem C20_intro_contract_property : forall (C : Type) f (cs : list (ctx C)) out,
  resolve_property_with f cs = Ok out ->
  map fst out = cs /\ forall c x, In (c, x) out -> snd c = None -> x = Null.
Proof. exact @property_contract. Qed.
Print Assumptions C20_intro_contract_property.
Theorem C20_intro_contract_neighbors : forall (C : Type) f (cs : list (ctx C)) out,
  resolve_neighbors_with f cs = Ok out ->
  map fst out = cs /\ forall c x, In (c, x) out -> snd c = None -> x = [].
Proof. exact @neighbors_contract. Qed.
Print Assumptions C20_intro_contract_neighbors.
Theorem C20_intro_contract_vertexless : forall (C : Type) f (cs : list (ctx C)),
  (forall c, In c cs -> snd c = None) -> resolve_property_with f cs = Ok (map (fun c => (c, Null)) cs).
Proof. exact @property_vertexless. Qed.
Print Assumptions C20_intro_contract_vertexless.
(* resolve_coercion is `unreachable!`: the meta-schema has no interfaces, so it is never called; in
   particular check_adapter_invariants (model: Checker.v, property C25) run on the meta-schema passes for
   the introspection adapter of ANY schema *)
Theorem C20_intro_passes_checker : forall s, check (schema_of_doc meta_doc) (intro_adapter s) = true.
Proof. exact intro_passes_checker. Qed.
Print Assumptions C20_intro_passes_checker.

(* ---------- non-vacuity ---------- *)
Example C20_witness_valid : valid_schema wit_doc /\ ~ Known wit_doc /\ wf_schema wit.
Proof. exact (conj wit_valid (conj wit_not_known wit_wf)). Qed.
Print Assumptions C20_witness_valid.
Example C20_witness_params :
  q_params wit = Ok [[Str "Letter"; Str "next"; Str "n"; Str "Int!"; Str "1"];
                     [Str "Letter"; Str "next"; Str "tag"; Str "String"; Str "null"];
                     [Str "Vowel"; Str "next"; Str "n"; Str "Int!"; Str "1"];
                     [Str "Vowel"; Str "next"; Str "tag"; Str "String"; Str "null"];
                     [Str "Vowel"; Str "pair"; Str "other"; Str "Int!"; Null]].
Proof. exact wit_params. Qed.
Print Assumptions C20_witness_params.
