(* C21 — Adapters are only called with arguments the adapter contract promises.

   Calls.v lists every adapter call the Exec.v model of execution.rs can make for a query
   (`calls_of_query`), a schema-lite, the typing discipline of IR queries (`typed_query`, what the
   frontend is supposed to establish — checked on every generated query by the harness) and the
   static clauses of the contract (`contract_ok`).

   STATIC clauses (type defined; property/edge defined on it or __typename; coercion target a subtype
   of the named type; parameters = exactly the declared ones, with valid values): proved for ALL typed
   queries, any nesting of folds / recursion / coercions.
   `calls_of_query` is justified against Exec.v extensionally: the interpreter model depends on the
   graph ONLY through the listed calls (two graphs answering alike on them give the same result).
   DYNAMIC clause (every non-null active vertex is an instance of the named type): proved for
   fold-free queries at every stage boundary (`…_partial`); what is missing is stated there.

   Finding (K-recurse-coercion-to-sibling-interface): the hypothesis `typed_query` is NOT established
   by the frontend for @recurse through sibling interfaces; see C21_sibling_interfaces_witness. *)
From TF Require Import Exec Sem SimComp Calls CallsProofs.
Local Open Scope string_scope.
Local Open Scope list_scope.

(* ---- static clauses ---- *)
Theorem C21_calls_respect_contract :
  forall S q, typed_query S q = true -> Forall (fun c => contract_ok S c = true) (calls_of_query q).
Proof. exact calls_respect_contract. Qed.
Print Assumptions C21_calls_respect_contract.

(* the calls made while interpret_ir builds the pipeline are among them *)
Theorem C21_static_calls_are_calls :
  forall q, incl (static_calls_of_query q) (calls_of_query q).
Proof. exact static_calls_incl. Qed.
Print Assumptions C21_static_calls_are_calls.

(* ---- calls_of_query lists every call of the model: a stage depends on the graph only through its
        listed calls (same rows, same panics) ---- *)
Theorem C21_enter_vertex_only_makes_listed_calls :
  forall re args g g' vs ss v cs,
    agree_on (enter_calls vs v) g g' ->
    enter_vertex re g args vs ss v cs = enter_vertex re g' args vs ss v cs.
Proof. exact enter_vertex_agree. Qed.
Print Assumptions C21_enter_vertex_only_makes_listed_calls.

Theorem C21_expand_edge_only_makes_listed_calls :
  forall re args g g' vs ss e cs,
    agree_on (edge_calls vs e) g g' ->
    expand_edge re g args vs ss e cs = expand_edge re g' args vs ss e cs.
Proof. exact expand_edge_agree. Qed.
Print Assumptions C21_expand_edge_only_makes_listed_calls.

Theorem C21_fold_only_makes_listed_calls :
  forall re args g g' vs ss h sub sub_calls sc sc' cs,
    agree_on (fold_calls true vs h sub sub_calls) g g' ->
    (agree_on sub_calls g g' -> forall l, sc l = sc' l) ->
    fold_step re g args vs ss h sub sc cs = fold_step re g' args vs ss h sub sc' cs.
Proof. exact fold_step_agree. Qed.
Print Assumptions C21_fold_only_makes_listed_calls.

Theorem C21_interpreter_only_makes_listed_calls :
  forall re args g g' q,
    agree_on (calls_of_query q) g g' -> interpret re g args q = interpret re g' args q.
Proof. exact interpret_agree. Qed.
Print Assumptions C21_interpreter_only_makes_listed_calls.

(* ---- dynamic clause, PARTIAL ----
   Full statement (not proved): for every typed query, conforming graph and every call the engine
   makes, every `Some` active vertex of every context flowing into the call is an instance of the
   call's type_name.
   Proved: for FOLD-FREE typed queries (plain / @optional / @recurse edges, coercions, filters, tags),
   after ANY prefix of the root component's steps every vertex recorded in every context is an
   instance of its IR vertex' type — via the specification (assignments only contain vertices
   produced by g_starts / g_nbrs at the declared destination, narrowed by coercions; recursion by
   induction on the depth, through the implicit-coercion gate) and the C01 simulation.  These are the
   vertices made active for the next neighbour call (corollary), for tag computations and for the
   output calls.
   Missing: candidates DURING a vertex' filter stage (active = a neighbour that passed the coercion
   but is not recorded yet), contexts inside the @recurse rounds (later hops at `recursing_from`), and
   everything inside @fold.  Those are covered only by the run-time ContractAdapter. *)
Theorem C21_recorded_vertices_typed_partial :
  forall S inst re g args,
    conforms S inst g -> ty_indep g ->
    forall q d root vs ss outs rv pre post cs0 cs,
      q_comp q = mkComp root vs ss outs ->
      find_decl (q_root_name q) (s_entries S) = Some d ->
      typed_query S q = true ->
      edges_only ss = true -> ss = pre ++ post ->
      find_vertex vs root = Some rv ->
      enter_vertex re g args vs ss rv
        (map (fun v => ctx_new (Some v)) (g_starts g (q_root_name q) (q_root_params q))) = Ok cs0 ->
      exec_steps re g args vs ss pre cs0 = Ok cs ->
      Forall (ctx_typed inst vs) cs.
Proof. exact recorded_vertices_typed_partial. Qed.
Print Assumptions C21_recorded_vertices_typed_partial.

Theorem C21_neighbor_call_active_vertices_typed_partial :
  forall S inst re g args,
    conforms S inst g -> ty_indep g ->
    forall q d root vs ss outs rv pre e post from cs0 cs cs1,
      q_comp q = mkComp root vs ss outs ->
      find_decl (q_root_name q) (s_entries S) = Some d ->
      typed_query S q = true ->
      edges_only ss = true -> ss = pre ++ SEdge e :: post ->
      find_vertex vs root = Some rv ->
      find_vertex vs (e_from e) = Some from ->
      enter_vertex re g args vs ss rv
        (map (fun v => ctx_new (Some v)) (g_starts g (q_root_name q) (q_root_params q))) = Ok cs0 ->
      exec_steps re g args vs ss pre cs0 = Ok cs ->
      mapM (fun c => activate_vertex c (e_from e)) cs = Ok cs1 ->
      Forall (fun c => forall v, active c = Some v -> inst v (v_type from)) cs1.
Proof. exact neighbor_call_active_vertices_typed_partial. Qed.
Print Assumptions C21_neighbor_call_active_vertices_typed_partial.

(* finite datasets: a decidable check implies `conforms` (so the hypothesis is satisfiable, below) *)
Theorem C21_dataset_conforms_sound :
  forall S d, dataset_conforms S d = true -> conforms S (inst_of d) (graph_of_dataset d).
Proof. exact dataset_conforms_sound. Qed.
Print Assumptions C21_dataset_conforms_sound.

(* ---- non-vacuity: the harness' world schema and a query produced by the real frontend:
        coercion at the root, @recurse(depth: 2) with the implicit coercion Thing -> Item (Leaf.up leads
        to Thing, which has no `up`), a parameter filled in from its schema default, a @fold with
        filters and an output ---- *)
Definition c21_ws : schema := (mkSchema ["Thing"; "Item"; "Box"; "Leaf"; "Gadget"] [("Thing", ["Thing"; "Item"; "Box"; "Leaf"; "Gadget"]); ("Item", ["Item"; "Box"; "Leaf"]); ("Box", ["Box"]); ("Leaf", ["Leaf"]); ("Gadget", ["Gadget"])] [("Thing", [("id", (mkTy "Int" 1%N)); ("name", (mkTy "String" 0%N)); ("score", (mkTy "Int" 0%N)); ("ratio", (mkTy "Float" 0%N)); ("flag", (mkTy "Boolean" 0%N)); ("tags", (mkTy "String" 6%N)); ("nums", (mkTy "Int" 3%N))]); ("Item", [("id", (mkTy "Int" 1%N)); ("name", (mkTy "String" 0%N)); ("score", (mkTy "Int" 0%N)); ("ratio", (mkTy "Float" 0%N)); ("flag", (mkTy "Boolean" 0%N)); ("tags", (mkTy "String" 6%N)); ("nums", (mkTy "Int" 3%N)); ("weight", (mkTy "Int" 1%N)); ("label", (mkTy "String" 1%N))]); ("Box", [("id", (mkTy "Int" 1%N)); ("name", (mkTy "String" 0%N)); ("score", (mkTy "Int" 0%N)); ("ratio", (mkTy "Float" 0%N)); ("flag", (mkTy "Boolean" 0%N)); ("tags", (mkTy "String" 6%N)); ("nums", (mkTy "Int" 3%N)); ("weight", (mkTy "Int" 1%N)); ("label", (mkTy "String" 1%N)); ("capacity", (mkTy "Int" 0%N))]); ("Leaf", [("id", (mkTy "Int" 1%N)); ("name", (mkTy "String" 0%N)); ("score", (mkTy "Int" 0%N)); ("ratio", (mkTy "Float" 0%N)); ("flag", (mkTy "Boolean" 0%N)); ("tags", (mkTy "String" 6%N)); ("nums", (mkTy "Int" 3%N)); ("weight", (mkTy "Int" 1%N)); ("label", (mkTy "String" 1%N)); ("leafy", (mkTy "String" 0%N))]); ("Gadget", [("id", (mkTy "Int" 1%N)); ("name", (mkTy "String" 0%N)); ("score", (mkTy "Int" 0%N)); ("ratio", (mkTy "Float" 0%N)); ("flag", (mkTy "Boolean" 0%N)); ("tags", (mkTy "String" 6%N)); ("nums", (mkTy "Int" 3%N)); ("power", (mkTy "Int" 0%N))])] [("Thing", [(mkED "next" "Thing" [("lo", (mkTy "Int" 0%N)); ("hi", (mkTy "Int" 0%N))]); (mkED "link" "Thing" []); (mkED "parent" "Thing" [])]); ("Item", [(mkED "next" "Thing" [("lo", (mkTy "Int" 0%N)); ("hi", (mkTy "Int" 0%N))]); (mkED "link" "Thing" []); (mkED "parent" "Thing" []); (mkED "peer" "Item" []); (mkED "up" "Thing" [("hi", (mkTy "Int" 1%N))])]); ("Box", [(mkED "next" "Thing" [("lo", (mkTy "Int" 0%N)); ("hi", (mkTy "Int" 0%N))]); (mkED "link" "Thing" []); (mkED "parent" "Thing" []); (mkED "peer" "Box" []); (mkED "up" "Thing" [("hi", (mkTy "Int" 1%N))]); (mkED "contains" "Item" []); (mkED "inner" "Box" [("lo", (mkTy "Int" 0%N))])]); ("Leaf", [(mkED "next" "Thing" [("lo", (mkTy "Int" 0%N)); ("hi", (mkTy "Int" 0%N))]); (mkED "link" "Thing" []); (mkED "parent" "Thing" []); (mkED "peer" "Item" []); (mkED "up" "Thing" [("hi", (mkTy "Int" 1%N))])]); ("Gadget", [(mkED "next" "Thing" [("lo", (mkTy "Int" 0%N)); ("hi", (mkTy "Int" 0%N))]); (mkED "link" "Thing" []); (mkED "parent" "Thing" []); (mkED "gears" "Gadget" [])])] [(mkED "Thing" "Thing" [("lo", (mkTy "Int" 0%N)); ("hi", (mkTy "Int" 0%N))]); (mkED "Item" "Item" [("lo", (mkTy "Int" 0%N)); ("hi", (mkTy "Int" 0%N))]); (mkED "Box" "Box" []); (mkED "Leaf" "Leaf" [("hi", (mkTy "Int" 1%N))]); (mkED "Gadget" "Gadget" [])]).
Definition c21_rq : raw_query := (mkRQ "Item" [("hi", Null); ("lo", (I64 0%Z))] (RComp 1%N [(mkV 1%N "Leaf" (Some "Item") []); (mkV 2%N "Thing" None [])] [(mkE 1%N 1%N 2%N "up" [("hi", (I64 500%Z))] false (Some (mkRec 2%N (Some "Item"))))] [(RFold (mkFH 2%N 1%N 3%N "link" [] [] [] []) (RComp 3%N [(mkV 3%N "Thing" None [(mkVF Equals "name" (mkTy "String" 0%N) (Some (AVar "v1" (mkTy "String" 0%N)))); (mkVF NotHasPrefix "name" (mkTy "String" 0%N) (Some (AVar "v2" (mkTy "String" 1%N))))])] [] [] [("o3", (mkCF 3%N "name" (mkTy "String" 0%N)))]))] [("o1", (mkCF 1%N "score" (mkTy "Int" 0%N))); ("o2", (mkCF 2%N "name" (mkTy "String" 0%N)))]) [("v1", (mkTy "String" 0%N)); ("v2", (mkTy "String" 1%N))]).

Example C21_nonvacuous :
  match lower_query c21_rq with
  | Ok q => typed_query c21_ws q = true /\
            forallb (contract_ok c21_ws) (calls_of_query q) = true /\
            List.length (calls_of_query q) = 11%nat /\
            existsb (fun c => String.eqb (show_call c) "C@1:Thing>Item") (calls_of_query q) = true /\
            existsb (fun c => String.eqb (show_call c) "N@1/1:Item.up(hi=i500)") (calls_of_query q) = true
  | Panic _ => False
  end.
Proof. vm_compute. repeat split; reflexivity. Qed.
Print Assumptions C21_nonvacuous.

(* the hypotheses of the dynamic theorem are satisfiable: a dataset that conforms to the world schema,
   a fold-free typed query with recursion and coercions, and a run that returns rows *)
Definition c21_ds : dataset :=
  mkDS [(1%N, "Leaf"); (2%N, "Box"); (3%N, "Gadget")]
       [(1%N, [("id", I64 1%Z); ("score", I64 5%Z)]); (2%N, [("id", I64 2%Z); ("name", Str "b")]); (3%N, [("id", I64 3%Z)])]
       [(1%N, [("link", [3%N]); ("up", [2%N; 3%N])]); (2%N, [("up", [1%N])])]
       [("Item", [1%N; 2%N])]
       [("Thing", ["Box"; "Leaf"; "Gadget"]); ("Item", ["Box"; "Leaf"]); ("Box", ["Box"]); ("Leaf", ["Leaf"]); ("Gadget", ["Gadget"])].
Definition c21_rq_ff : raw_query := (mkRQ "Item" [("hi", Null); ("lo", (I64 0%Z))] (RComp 1%N [(mkV 1%N "Leaf" (Some "Item") []); (mkV 2%N "Thing" None [])] [(mkE 1%N 1%N 2%N "up" [("hi", (I64 500%Z))] false (Some (mkRec 2%N (Some "Item"))))] [] [("o1", (mkCF 1%N "score" (mkTy "Int" 0%N))); ("o2", (mkCF 2%N "name" (mkTy "String" 0%N)))]) []).

Example C21_dynamic_hypotheses_satisfiable :
  dataset_conforms c21_ws c21_ds = true /\
  match lower_query c21_rq_ff with
  | Ok q => typed_query c21_ws q = true /\ edges_only (c_steps (q_comp q)) = true /\
            match interpret (re_table [] []) (graph_of_dataset c21_ds) [] q with
            | Ok rows => List.length rows = 4%nat
            | Panic _ => False
            end
  | Panic _ => False
  end.
Proof. vm_compute. repeat split; reflexivity. Qed.
Print Assumptions C21_dynamic_hypotheses_satisfiable.

(* ---- the finding: sibling interfaces.  `A implements X & D`, edge `e: [D!]` declared on X only.
        The IR below is what the real frontend produces for `{ A { e @recurse(depth: 2) { did @output } } }`
        (tied on every run): coerce_to = X, which is not a subtype of D.  The model makes the call
        resolve_coercion(D -> X), which breaks the contract; consistently the query is not typed, i.e.
        the frontend does not establish the hypothesis of C21_calls_respect_contract here. ---- *)
Definition c21_sib_schema : schema := (mkSchema ["X"; "D"; "A"; "B"] [("X", ["X"; "A"]); ("D", ["D"; "A"; "B"]); ("A", ["A"]); ("B", ["B"])] [("X", [("xid", (mkTy "Int" 1%N))]); ("D", [("did", (mkTy "Int" 1%N))]); ("A", [("xid", (mkTy "Int" 1%N)); ("did", (mkTy "Int" 1%N))]); ("B", [("did", (mkTy "Int" 1%N))])] [("X", [(mkED "e" "D" [])]); ("D", []); ("A", [(mkED "e" "D" [])]); ("B", [])] [(mkED "A" "A" [])]).
Definition c21_sib_rq : raw_query := (mkRQ "A" [] (RComp 1%N [(mkV 1%N "A" None []); (mkV 2%N "D" None [])] [(mkE 1%N 1%N 2%N "e" [] false (Some (mkRec 2%N (Some "X"))))] [] [("did", (mkCF 2%N "did" (mkTy "Int" 1%N)))]) []).

Example C21_sibling_interfaces_witness :
  match lower_query c21_sib_rq with
  | Ok q => typed_query c21_sib_schema q = false /\
            In (coerce_call "D" "X" 1%N) (calls_of_query q) /\
            contract_ok c21_sib_schema (coerce_call "D" "X" 1%N) = false /\
            subtype_of c21_sib_schema "X" "D" = false
  | Panic _ => False
  end.
Proof. vm_compute. repeat split; try reflexivity. right. right. left. reflexivity. Qed.
Print Assumptions C21_sibling_interfaces_witness.
