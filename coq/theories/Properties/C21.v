(* C21 — placeholder while the tie is being debugged *)
From TF Require Import Exec Calls CallsProofs.
Local Open Scope string_scope.
Local Open Scope list_scope.

Theorem C21_calls_respect_contract :
  forall S q, typed_query S q = true -> Forall (fun c => contract_ok S c = true) (calls_of_query q).
Proof. exact calls_respect_contract. Qed.
Print Assumptions C21_calls_respect_contract.
