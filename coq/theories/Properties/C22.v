(* C22 — Fold-count early termination is invisible in results.
   execution.rs stops materialising a fold early in two ways: it drops a fold as soon as it has more
   than `max` elements (max derived from =, <, <=, one_of count filters) and it truncates a fold to
   `min` elements (`take(min)`, min derived from >, >= count filters) when it believes nothing observes
   the count or the contents. *)
From TF Require Import Exec Sem Sim SimComp SimOut SimFold SimGen SimFull FoldLimits Run SemT SimGenT SimFullT EraseSem EraseWf SimFinal.
Local Open Scope string_scope.

(* Maximum side, for every sign and magnitude of the arguments (negative values clamp to 0, `<` uses
   saturating_sub): a fold with more elements than the limit fails one of its count filters, so
   dropping it early is exactly what the filters would have done. *)
Theorem C22_max_limit_sound :
  forall re g args vs ss imp a cur cur_ty cand h m n,
    get_max_fold_count_limit args h = Ok (Some m) -> (m < n)%Z ->
    forallb (fun pf => filter_passes re (pf_op pf) true (U64 n)
                         (option_map (arg_value g args vs ss imp a cur cur_ty cand) (pf_arg pf)))
            (fo_post h) = false.
Proof. exact max_limit_sound. Qed.
Print Assumptions C22_max_limit_sound.

(* Consequently the interpreter model WITH the max-limit early termination computes, for every
   component with any nesting of edges and folds, exactly the assignments of the specification, which
   materialises every fold fully and has no limits at all.  (Hypothesis wf_comp: recursion depths >= 1,
   fresh import keys, and no fold eligible for the MIN truncation — see below.) *)
Theorem C22_early_termination_invisible_without_min_truncation :
  forall re g args, ty_indep g ->
  forall c outer imp cs r,
    wf_comp args outer c -> keys_within outer imp ->
    Forall (clean imp) cs -> Forall fresh cs ->
    compute_component re g args c cs = Ok r ->
    map asg_of r = flat_map (fun x => sem_comp re g args c imp (active x)) cs.
Proof. intros re g args Hi. exact (compute_component_spec re g args Hi). Qed.
Print Assumptions C22_early_termination_invisible_without_min_truncation.

(* ... and the same at the level of result rows, for whole queries: the interpreter model WITH the
   maximum early termination returns exactly the rows of the specification, which has no limits.
   (wf_out / NoDup: output keys and names distinct, guaranteed by the frontend.) *)
Theorem C22_max_early_termination_invisible_in_rows :
  forall re g args q rows, ty_indep g ->
    wf_comp args [] (q_comp q) -> wf_out (q_comp q) -> NoDup (all_output_names (q_comp q)) ->
    interpret re g args q = Ok rows ->
    Forall2 row_equiv rows (sem re g args q).
Proof. intros re g args q rows Hi. exact (interpret_spec re g args Hi q rows). Qed.
Print Assumptions C22_max_early_termination_invisible_in_rows.

(* Minimum side.  take(min) is applied only to folds passing `min_eligible` (Exec.v): no output at any
   depth inside the fold, no count output, and no use of the count tag by a filter of the parent
   component's vertices, by a count filter of one of the parent component's folds, or inside one of
   those folds (import).  Before the repair of genuine defect F9 the test looked only at the fold's OWN
   outputs and at vertex filters, and invisibility was FALSE (the two regression worlds further down
   were its kernel-checked refutation).  With the repaired test it is a theorem: *)

(* why the REPAIRED eligibility test is the right one: when every reference to a fold count names the
   fold's root consistently (frontend invariant, C11), no filter, import or count filter of the component
   reads the count of a fold that passes min_eligible - which is the `reads_ok_here` part of `erasable` *)
Theorem C22_repaired_eligibility_suffices :
  forall vs ss, refs_consistent_here vs ss = true -> reads_ok_here vs ss = true.
Proof. exact consistent_reads_ok. Qed.
Print Assumptions C22_repaired_eligibility_suffices.

(* the count filters that define the minimum cannot tell min(n, m) from n *)
Theorem C22_min_limit_sound :
  forall re g args vs ss imp a a' cur cur_ty cand h m n,
    get_min_fold_count_limit args h = Ok (Some m) -> (m < usize_max)%Z -> (0 <= n)%Z ->
    forallb (fun pf => filter_passes re (pf_op pf) true (U64 (Z.min n (Z.max m 0)))
                         (option_map (arg_value g args vs ss imp a cur cur_ty cand) (pf_arg pf))) (fo_post h)
    = forallb (fun pf => filter_passes re (pf_op pf) true (U64 n)
                           (option_map (arg_value g args vs ss imp a' cur cur_ty cand) (pf_arg pf))) (fo_post h).
Proof. exact min_limit_sound. Qed.
Print Assumptions C22_min_limit_sound.

(* the specification WITH the truncation (SemT: a fold with trunc_of = Some m keeps its first m
   elements) and the specification without it produce the same rows *)
Theorem C22_truncating_spec_equals_spec :
  forall re g args q, erasable args (q_comp q) -> sem_t re g args q = sem re g args q.
Proof. exact sem_t_eq_sem. Qed.
Print Assumptions C22_truncating_spec_equals_spec.

(* the interpreter model computes exactly the truncating specification, for every query *)
Theorem C22_engine_refines_truncating_spec :
  forall re g args q rows, ty_indep g ->
    wf_comp_t [] (q_comp q) -> wf_out (q_comp q) -> NoDup (all_output_names (q_comp q)) ->
    interpret re g args q = Ok rows ->
    Forall2 row_equiv rows (sem_t re g args q).
Proof. intros re g args q rows Hi. exact (interpret_spec_t re g args Hi q rows). Qed.
Print Assumptions C22_engine_refines_truncating_spec.

(* hence BOTH early terminations are invisible in the rows *)
Theorem C22_early_termination_invisible :
  forall re g args q rows, ty_indep g ->
    wf_comp_t [] (q_comp q) -> wf_out (q_comp q) -> NoDup (all_output_names (q_comp q)) ->
    erasable args (q_comp q) ->
    interpret re g args q = Ok rows ->
    Forall2 row_equiv rows (sem re g args q).
Proof. intros re g args q rows Hi. exact (interpret_refines_sem re g args Hi q rows). Qed.
Print Assumptions C22_early_termination_invisible.

(* F9a: a fold whose only outputs are inside a NESTED fold, with count filter `>= $a`, a = 0:
   take(0) emptied the outer fold, and the nested output list was lost. *)
Definition f9a_exec := run_exec (re_table [] []) (mkDS [(1%N, "Gadget")] [(1%N, [("flag", (Boolv true)); ("id", (I64 1%Z)); ("name", (Str "a")); ("nums", (List [(I64 (-9223372036854775808)%Z)])); ("power", (I64 4%Z)); ("ratio", (F64 0%N)); ("score", (I64 (-3)%Z)); ("tags", (List [(Str "ba")]))])] [(1%N, [("gears", [1%N; 1%N; 1%N]); ("next", [1%N; 1%N])])] [("Box", []); ("Gadget", [1%N]); ("Item", []); ("Leaf", []); ("Thing", [1%N])] [("Thing", ["Box"; "Leaf"; "Gadget"]); ("Item", ["Box"; "Leaf"]); ("Box", ["Box"]); ("Leaf", ["Leaf"]); ("Gadget", ["Gadget"])]) (mkRQ "Thing" [("hi", Null); ("lo", Null)] (RComp 1%N [(mkV 1%N "Thing" None [])] [] [(RFold (mkFH 1%N 1%N 2%N "next" [("hi", (I64 1000%Z)); ("lo", Null)] [] [] [(mkPF GreaterThanOrEqual (Some (AVar "a" (mkTy "Int" 1%N))))]) (RComp 2%N [(mkV 2%N "Thing" None [(mkVF IsNotNull "flag" (mkTy "Boolean" 0%N) None)])] [] [(RFold (mkFH 2%N 2%N 3%N "next" [("hi", (I64 1000%Z)); ("lo", Null)] [] [] []) (RComp 3%N [(mkV 3%N "Thing" None [])] [] [] [("o1", (mkCF 3%N "id" (mkTy "Int" 1%N)))]))] []))] [("o0", (mkCF 1%N "id" (mkTy "Int" 1%N)))]) [("a", (mkTy "Int" 1%N))]) [("a", (I64 0%Z))].
Definition f9a_sem := run_sem (re_table [] []) (mkDS [(1%N, "Gadget")] [(1%N, [("flag", (Boolv true)); ("id", (I64 1%Z)); ("name", (Str "a")); ("nums", (List [(I64 (-9223372036854775808)%Z)])); ("power", (I64 4%Z)); ("ratio", (F64 0%N)); ("score", (I64 (-3)%Z)); ("tags", (List [(Str "ba")]))])] [(1%N, [("gears", [1%N; 1%N; 1%N]); ("next", [1%N; 1%N])])] [("Box", []); ("Gadget", [1%N]); ("Item", []); ("Leaf", []); ("Thing", [1%N])] [("Thing", ["Box"; "Leaf"; "Gadget"]); ("Item", ["Box"; "Leaf"]); ("Box", ["Box"]); ("Leaf", ["Leaf"]); ("Gadget", ["Gadget"])]) (mkRQ "Thing" [("hi", Null); ("lo", Null)] (RComp 1%N [(mkV 1%N "Thing" None [])] [] [(RFold (mkFH 1%N 1%N 2%N "next" [("hi", (I64 1000%Z)); ("lo", Null)] [] [] [(mkPF GreaterThanOrEqual (Some (AVar "a" (mkTy "Int" 1%N))))]) (RComp 2%N [(mkV 2%N "Thing" None [(mkVF IsNotNull "flag" (mkTy "Boolean" 0%N) None)])] [] [(RFold (mkFH 2%N 2%N 3%N "next" [("hi", (I64 1000%Z)); ("lo", Null)] [] [] []) (RComp 3%N [(mkV 3%N "Thing" None [])] [] [] [("o1", (mkCF 3%N "id" (mkTy "Int" 1%N)))]))] []))] [("o0", (mkCF 1%N "id" (mkTy "Int" 1%N)))]) [("a", (mkTy "Int" 1%N))]) [("a", (I64 0%Z))].
Example C22_min_truncation_nested_output_regression :
  f9a_exec = f9a_sem /\ f9a_sem = "ROWS:o0=i1;o1=[[i1,i1],[i1,i1]]".
Proof. vm_compute. split; reflexivity. Qed.
Print Assumptions C22_min_truncation_nested_output_regression.

(* F9b: the count of a fold with `> $a` is tagged and used by a SIBLING fold's count filter: the
   sibling saw the truncated count. *)
Definition f9b_exec := run_exec (re_table [] []) (mkDS [(1%N, "Gadget"); (2%N, "Gadget"); (3%N, "Box"); (4%N, "Leaf")] [(1%N, [("flag", (Boolv false)); ("id", (I64 1%Z)); ("name", (Str (sb [195;169]%N))); ("nums", (List [Null; (U64 9223372036854775808%Z)])); ("power", (I64 2%Z)); ("ratio", (F64 4611686018427387904%N)); ("score", (I64 (-2)%Z)); ("tags", (List [(Str "abc")]))]); (2%N, [("flag", (Boolv true)); ("id", (I64 2%Z)); ("name", (Str "")); ("nums", (List [(U64 1%Z); (I64 (-9223372036854775808)%Z)])); ("power", (I64 (-9223372036854775808)%Z)); ("score", (I64 9223372036854775807%Z))]); (3%N, [("flag", (Boolv false)); ("id", (I64 3%Z)); ("label", (Str "ab")); ("name", (Str "abc")); ("nums", (List [])); ("score", (U64 18446744073709551615%Z)); ("tags", (List [(Str "a"); (Str ""); (Str "a")])); ("weight", (U64 2%Z))]); (4%N, [("flag", (Boolv true)); ("id", (I64 4%Z)); ("label", (Str "a(")); ("leafy", (Str "ba")); ("name", (Str "a")); ("nums", (List [(I64 0%Z); (I64 0%Z); (I64 0%Z)])); ("ratio", (F64 4609434218613702656%N)); ("score", (U64 3%Z)); ("tags", (List [(Str "a")])); ("weight", (I64 3%Z))])] [(1%N, [("gears", [1%N; 1%N]); ("link", [2%N]); ("next", [2%N])]); (2%N, [("gears", [1%N]); ("link", [2%N; 1%N; 1%N]); ("next", [4%N; 3%N; 3%N]); ("parent", [2%N])]); (3%N, [("inner", [3%N]); ("next", [4%N; 2%N]); ("parent", [4%N]); ("up", [3%N; 1%N])]); (4%N, [("link", [4%N; 2%N; 2%N; 4%N]); ("next", [1%N]); ("parent", [1%N]); ("peer", [4%N; 4%N]); ("up", [1%N; 2%N])])] [("Box", [3%N]); ("Gadget", [1%N; 2%N]); ("Item", [3%N; 4%N]); ("Leaf", [4%N]); ("Thing", [4%N; 3%N; 2%N; 1%N])] [("Thing", ["Box"; "Leaf"; "Gadget"]); ("Item", ["Box"; "Leaf"]); ("Box", ["Box"]); ("Leaf", ["Leaf"]); ("Gadget", ["Gadget"])]) (mkRQ "Thing" [("hi", Null); ("lo", Null)] (RComp 1%N [(mkV 1%N "Thing" None [])] [] [(RFold (mkFH 1%N 1%N 2%N "link" [] [] [] [(mkPF GreaterThan (Some (AVar "a" (mkTy "Int" 1%N))))]) (RComp 2%N [(mkV 2%N "Thing" None [(mkVF IsNotNull "flag" (mkTy "Boolean" 0%N) None)])] [] [] [])); (RFold (mkFH 2%N 1%N 3%N "link" [] [] ["o1"] [(mkPF LessThanOrEqual (Some (ATag (FRFold (mkFF 1%N 2%N)))))]) (RComp 3%N [(mkV 3%N "Thing" None [(mkVF IsNotNull "flag" (mkTy "Boolean" 0%N) None)])] [] [] []))] [("o0", (mkCF 1%N "id" (mkTy "Int" 1%N)))]) [("a", (mkTy "Int" 1%N))]) [("a", (I64 1%Z))].
Definition f9b_sem := run_sem (re_table [] []) (mkDS [(1%N, "Gadget"); (2%N, "Gadget"); (3%N, "Box"); (4%N, "Leaf")] [(1%N, [("flag", (Boolv false)); ("id", (I64 1%Z)); ("name", (Str (sb [195;169]%N))); ("nums", (List [Null; (U64 9223372036854775808%Z)])); ("power", (I64 2%Z)); ("ratio", (F64 4611686018427387904%N)); ("score", (I64 (-2)%Z)); ("tags", (List [(Str "abc")]))]); (2%N, [("flag", (Boolv true)); ("id", (I64 2%Z)); ("name", (Str "")); ("nums", (List [(U64 1%Z); (I64 (-9223372036854775808)%Z)])); ("power", (I64 (-9223372036854775808)%Z)); ("score", (I64 9223372036854775807%Z))]); (3%N, [("flag", (Boolv false)); ("id", (I64 3%Z)); ("label", (Str "ab")); ("name", (Str "abc")); ("nums", (List [])); ("score", (U64 18446744073709551615%Z)); ("tags", (List [(Str "a"); (Str ""); (Str "a")])); ("weight", (U64 2%Z))]); (4%N, [("flag", (Boolv true)); ("id", (I64 4%Z)); ("label", (Str "a(")); ("leafy", (Str "ba")); ("name", (Str "a")); ("nums", (List [(I64 0%Z); (I64 0%Z); (I64 0%Z)])); ("ratio", (F64 4609434218613702656%N)); ("score", (U64 3%Z)); ("tags", (List [(Str "a")])); ("weight", (I64 3%Z))])] [(1%N, [("gears", [1%N; 1%N]); ("link", [2%N]); ("next", [2%N])]); (2%N, [("gears", [1%N]); ("link", [2%N; 1%N; 1%N]); ("next", [4%N; 3%N; 3%N]); ("parent", [2%N])]); (3%N, [("inner", [3%N]); ("next", [4%N; 2%N]); ("parent", [4%N]); ("up", [3%N; 1%N])]); (4%N, [("link", [4%N; 2%N; 2%N; 4%N]); ("next", [1%N]); ("parent", [1%N]); ("peer", [4%N; 4%N]); ("up", [1%N; 2%N])])] [("Box", [3%N]); ("Gadget", [1%N; 2%N]); ("Item", [3%N; 4%N]); ("Leaf", [4%N]); ("Thing", [4%N; 3%N; 2%N; 1%N])] [("Thing", ["Box"; "Leaf"; "Gadget"]); ("Item", ["Box"; "Leaf"]); ("Box", ["Box"]); ("Leaf", ["Leaf"]); ("Gadget", ["Gadget"])]) (mkRQ "Thing" [("hi", Null); ("lo", Null)] (RComp 1%N [(mkV 1%N "Thing" None [])] [] [(RFold (mkFH 1%N 1%N 2%N "link" [] [] [] [(mkPF GreaterThan (Some (AVar "a" (mkTy "Int" 1%N))))]) (RComp 2%N [(mkV 2%N "Thing" None [(mkVF IsNotNull "flag" (mkTy "Boolean" 0%N) None)])] [] [] [])); (RFold (mkFH 2%N 1%N 3%N "link" [] [] ["o1"] [(mkPF LessThanOrEqual (Some (ATag (FRFold (mkFF 1%N 2%N)))))]) (RComp 3%N [(mkV 3%N "Thing" None [(mkVF IsNotNull "flag" (mkTy "Boolean" 0%N) None)])] [] [] []))] [("o0", (mkCF 1%N "id" (mkTy "Int" 1%N)))]) [("a", (mkTy "Int" 1%N))]) [("a", (I64 1%Z))].
Example C22_min_truncation_sibling_tag_regression :
  f9b_exec = f9b_sem /\ f9b_sem = "ROWS:o0=i4;o1=u4|o0=i2;o1=u3".
Proof. vm_compute. split; reflexivity. Qed.
Print Assumptions C22_min_truncation_sibling_tag_regression.

(* an ELIGIBLE fold (count filter `>= 2`, nothing observes the fold): the model takes only 2 elements
   and still agrees with the specification *)
Definition elig_exec := run_exec (re_table [] []) (mkDS [(1%N, "Gadget")] [(1%N, [("flag", (Boolv true)); ("id", (I64 1%Z)); ("name", (Str "a")); ("nums", (List [(I64 (-9223372036854775808)%Z)])); ("power", (I64 4%Z)); ("ratio", (F64 0%N)); ("score", (I64 (-3)%Z)); ("tags", (List [(Str "ba")]))])] [(1%N, [("gears", [1%N; 1%N; 1%N]); ("next", [1%N; 1%N])])] [("Box", []); ("Gadget", [1%N]); ("Item", []); ("Leaf", []); ("Thing", [1%N])] [("Thing", ["Box"; "Leaf"; "Gadget"]); ("Item", ["Box"; "Leaf"]); ("Box", ["Box"]); ("Leaf", ["Leaf"]); ("Gadget", ["Gadget"])]) (mkRQ "Thing" [("hi", Null); ("lo", Null)] (RComp 1%N [(mkV 1%N "Thing" None [])] [] [(RFold (mkFH 1%N 1%N 2%N "next" [("hi", (I64 1000%Z)); ("lo", Null)] [] [] [(mkPF GreaterThanOrEqual (Some (AVar "a" (mkTy "Int" 1%N))))]) (RComp 2%N [(mkV 2%N "Thing" None [(mkVF IsNotNull "flag" (mkTy "Boolean" 0%N) None)])] [] [] []))] [("o0", (mkCF 1%N "id" (mkTy "Int" 1%N)))]) [("a", (mkTy "Int" 1%N))]) [("a", (I64 2%Z))].
Definition elig_sem := run_sem (re_table [] []) (mkDS [(1%N, "Gadget")] [(1%N, [("flag", (Boolv true)); ("id", (I64 1%Z)); ("name", (Str "a")); ("nums", (List [(I64 (-9223372036854775808)%Z)])); ("power", (I64 4%Z)); ("ratio", (F64 0%N)); ("score", (I64 (-3)%Z)); ("tags", (List [(Str "ba")]))])] [(1%N, [("gears", [1%N; 1%N; 1%N]); ("next", [1%N; 1%N])])] [("Box", []); ("Gadget", [1%N]); ("Item", []); ("Leaf", []); ("Thing", [1%N])] [("Thing", ["Box"; "Leaf"; "Gadget"]); ("Item", ["Box"; "Leaf"]); ("Box", ["Box"]); ("Leaf", ["Leaf"]); ("Gadget", ["Gadget"])]) (mkRQ "Thing" [("hi", Null); ("lo", Null)] (RComp 1%N [(mkV 1%N "Thing" None [])] [] [(RFold (mkFH 1%N 1%N 2%N "next" [("hi", (I64 1000%Z)); ("lo", Null)] [] [] [(mkPF GreaterThanOrEqual (Some (AVar "a" (mkTy "Int" 1%N))))]) (RComp 2%N [(mkV 2%N "Thing" None [(mkVF IsNotNull "flag" (mkTy "Boolean" 0%N) None)])] [] [] []))] [("o0", (mkCF 1%N "id" (mkTy "Int" 1%N)))]) [("a", (mkTy "Int" 1%N))]) [("a", (I64 2%Z))].
Example C22_min_truncation_eligible_example : elig_exec = elig_sem /\ elig_sem = "ROWS:o0=i1".
Proof. vm_compute. split; reflexivity. Qed.
Print Assumptions C22_min_truncation_eligible_example.

(* non-vacuity of the max-limit theorem: count filter `<= 1` gives max 1; a 2-element fold fails it *)
Example C22_max_limit_nonvacuous :
  let args := [("n", I64 1%Z)] in
  let h := mkFH 1%N 1%N 2%N "e" [] [] [] [mkPF LessThanOrEqual (Some (AVar "n" (mkTy "Int" 1%N)))] in
  get_max_fold_count_limit args h = Ok (Some 1%Z) /\
  forallb (fun pf => filter_passes (fun _ _ => None) (pf_op pf) true (U64 2%Z)
                       (option_map (arg_value (mkGraph (fun _ _ => []) (fun _ _ _ => Null) (fun _ _ _ _ => []) (fun _ _ _ => false))
                                              args [] [] [] (Asg [] []) 1%N "T" None) (pf_arg pf))) (fo_post h) = false.
Proof. vm_compute. split; reflexivity. Qed.
Print Assumptions C22_max_limit_nonvacuous.
