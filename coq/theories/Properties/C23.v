(* C23 — Query transformations with known effects change results exactly as predicted.
   All statements are about the SPECIFICATION `sem` (Sem.v: what the query language defines), for ALL
   queries, graphs and arguments; the engine model equals `sem` by property C01, and the harness
   (`tfh_c23`) applies every transformation to query TEXT and checks the predicted relation on the
   real engine.  `sublist` is an order-preserving sub-sequence (hence a sub-multiset: C23_sublist_is_submultiset).
   Transformations are defined in Meta.v on the lowered IR; they act on vertices / edges of the ROOT
   component (= not under a @fold) unless stated otherwise.

   NOT covered by a theorem (PARTIAL):
   * reordering sibling EDGE selections renumbers vids/eids in the frontend; only swapping sibling
     PROPERTY selections is a theorem (it permutes one vertex' filter list: C23_reorder_sibling_properties);
     sibling edges are checked at run time only.
   * tags have no names in the IR (the frontend resolves them to field references), so renaming a tag
     is the identity on the IR; that the frontend does so is checked at run time only.
   * a filter added INSIDE a @fold: the fold's element list shrinks (C23_add_filter_inside_fold_step)
     but the enclosing query can GAIN rows when a fold-count filter reads the count
     (C23_add_filter_inside_fold_can_add_rows); the harness therefore adds filters outside folds only. *)
From Coq Require Import Permutation.
From TF Require Import ValuesProofs OpsProofs Sem SemProofs Meta MetaProofs.
Local Open Scope string_scope.
Local Open Scope N_scope.
Local Open Scope list_scope.

Theorem C23_sublist_is_submultiset :
  forall (A : Type) (l1 l2 : list A), sublist l1 l2 -> exists rest, Permutation l2 (l1 ++ rest).
Proof. exact @sublist_multiset. Qed.
Print Assumptions C23_sublist_is_submultiset.

(* ---- 1. adding a filter never adds rows ---- *)
Theorem C23_add_filter_shrinks :
  forall re g args vid f q, sublist (sem re g args (with_comp q (add_filter vid f (q_comp q)))) (sem re g args q).
Proof. exact add_filter_shrinks. Qed.
Print Assumptions C23_add_filter_shrinks.

Theorem C23_add_filter_never_adds_rows :
  forall re g args vid f q,
    (List.length (sem re g args (with_comp q (add_filter vid f (q_comp q)))) <= List.length (sem re g args q))%nat.
Proof. exact add_filter_never_adds_rows. Qed.
Print Assumptions C23_add_filter_never_adds_rows.

(* assignment level, for any component (with or without folds; also a fold's own component) *)
Theorem C23_add_filter_shrinks_assignments :
  forall re g args vid f c imp r,
    sublist (sem_comp re g args (add_filter vid f c) imp r) (sem_comp re g args c imp r).
Proof. exact add_filter_shrinks_asg. Qed.
Print Assumptions C23_add_filter_shrinks_assignments.

Theorem C23_add_filter_inside_fold_step :
  forall re g args vs ss imp h sub vid f a,
    fo_post h = [] ->
    let new := step_fold re g args vs ss imp h (sem_comp re g args (add_filter vid f sub)) a in
    let old := step_fold re g args vs ss imp h (sem_comp re g args sub) a in
    (new = [] /\ old = []) \/
    (new = [set_af a (fo_eid h) None] /\ old = [set_af a (fo_eid h) None]) \/
    exists l' l, sublist l' l /\ new = [set_af a (fo_eid h) (Some l')] /\ old = [set_af a (fo_eid h) (Some l)].
Proof. exact add_filter_in_fold_step. Qed.
Print Assumptions C23_add_filter_inside_fold_step.

(* ---- 2. raising a recursion depth never removes rows ---- *)
Theorem C23_raise_depth_grows :
  forall re g args eid k q, sublist (sem re g args q) (sem re g args (with_comp q (raise_depth eid k (q_comp q)))).
Proof. exact raise_depth_grows. Qed.
Print Assumptions C23_raise_depth_grows.

Theorem C23_raise_depth_grows_assignments :
  forall re g args eid k c imp r,
    sublist (sem_comp re g args c imp r) (sem_comp re g args (raise_depth eid k c) imp r).
Proof. exact raise_depth_grows_asg. Qed.
Print Assumptions C23_raise_depth_grows_assignments.

(* ---- 3. making an edge @optional keeps all previous rows ---- *)
Theorem C23_make_optional_keeps_rows :
  forall re g args eid q, sublist (sem re g args q) (sem re g args (with_comp q (make_optional eid (q_comp q)))).
Proof. exact make_optional_keeps_rows. Qed.
Print Assumptions C23_make_optional_keeps_rows.

Theorem C23_make_optional_keeps_assignments :
  forall re g args eid c imp r,
    sublist (sem_comp re g args c imp r) (sem_comp re g args (make_optional eid c) imp r).
Proof. exact make_optional_keeps_asg. Qed.
Print Assumptions C23_make_optional_keeps_assignments.

(* ---- 4. a parameterised edge without @optional/@recurse behaves like the equivalent filter ---- *)
Theorem C23_param_edge_filters_neighbours :
  forall d ty name ps v, ds_nbrs d ty name ps v = filter (params_keep ps) (ds_nbrs d ty name [] v).
Proof. exact ds_nbrs_params. Qed.
Print Assumptions C23_param_edge_filters_neighbours.

Theorem C23_param_edge_one_more_parameter :
  forall d ty name p ps v, ds_nbrs d ty name (p :: ps) v = filter (param_keeps p) (ds_nbrs d ty name ps v).
Proof. exact ds_nbrs_more_params. Qed.
Print Assumptions C23_param_edge_one_more_parameter.

(* general form: any graph whose parameters filter neighbour lists, any filter `f` that decides the
   dropped parameters on the destination vertex *)
Theorem C23_param_edge_is_filter :
  forall re g args, params_filter_nbrs g ->
  forall eid tovid ps' f keepf (dom : N -> Prop),
    (forall ty name v n, In n (g_nbrs g ty name [] v) -> dom n) ->
    (forall vs ss imp a ty n, dom n -> fpass re g args vs ss imp a tovid ty (Some n) f = keepf n) ->
  forall q root vs ss outs,
    q_comp q = mkComp root vs ss outs ->
    entered_only_by eid tovid (q_comp q) = true ->
    (forall e, In (SEdge e) ss -> e_eid e = eid -> edge_splits tovid ps' keepf e) ->
    sem re g args (with_comp q (param_to_filter eid ps' tovid f (q_comp q))) = sem re g args q.
Proof. exact param_edge_is_filter_rows. Qed.
Print Assumptions C23_param_edge_is_filter.

(* the instance the harness tests: `edge(lo: k)` = `edge` + `id @filter(op: ">=", value: ["$p"])` with p = k *)
Theorem C23_lo_param_is_ge_filter :
  forall re d args q root vs ss outs eid tovid ps1 ps2 p kv k fty t,
    ds_ids_ok d = true -> lookup_str p args = Some kv -> int_val kv = Some k ->
    q_comp q = mkComp root vs ss outs -> entered_only_by eid tovid (q_comp q) = true ->
    (forall e, In (SEdge e) ss -> e_eid e = eid ->
               e_to e = tovid /\ e_rec e = None /\ e_optional e = false /\ e_params e = ps1 ++ ("lo", kv) :: ps2) ->
    sem re (graph_of_dataset d) args
        (with_comp q (param_to_filter eid (ps1 ++ ("lo", Null) :: ps2) tovid (id_ge_filter p fty t) (q_comp q))) =
    sem re (graph_of_dataset d) args q.
Proof. exact lo_param_is_ge_filter. Qed.
Print Assumptions C23_lo_param_is_ge_filter.

(* ---- 5. `=` and `one_of` with a single-element list agree ---- *)
Theorem C23_eq_is_singleton_one_of :
  forall re l r, wf l = true -> wf r = true -> holds re Equals l r = holds re OneOf l (List [r]).
Proof. exact eq_is_singleton_one_of. Qed.
Print Assumptions C23_eq_is_singleton_one_of.

Theorem C23_eq_to_one_of_same_rows :
  forall re g args x xs t',
    (forall ty fld v, wf (g_prop g ty fld v) = true) ->
    wf (arg_or_null args x) = true ->
    lookup_str xs args = Some (List [arg_or_null args x]) ->
    forall vid q, sem re g args (with_comp q (map_filters vid (eq_to_one_of x xs t') (q_comp q))) = sem re g args q.
Proof. exact eq_to_one_of_same_rows. Qed.
Print Assumptions C23_eq_to_one_of_same_rows.

(* ---- 6. a filter and its negation partition rows outside missing optional scopes ---- *)
Theorem C23_filter_negation_exact :
  forall re op left r b,
    opk_unary op = false -> has_negation op = true ->
    apply_tagged re op left (Some r) true = Ok b ->
    filter_passes re (negate_op op) true left (Some (TSome r)) =
    negb (filter_passes re op true left (Some (TSome r))).
Proof. exact filter_negation_exact. Qed.
Print Assumptions C23_filter_negation_exact.

Theorem C23_filter_negation_unary :
  forall re op left right, opk_unary op = true ->
    filter_passes re (negate_op op) true left right = negb (filter_passes re op true left right).
Proof. exact filter_negation_unary. Qed.
Print Assumptions C23_filter_negation_unary.

(* inside a missing @optional scope, and against a tag from a missing @optional scope, BOTH pass *)
Theorem C23_filter_negation_missing_scope :
  forall re op left right,
    filter_passes re op false left right = true /\ filter_passes re (negate_op op) false left right = true.
Proof. exact filter_negation_missing_scope. Qed.
Print Assumptions C23_filter_negation_missing_scope.

Theorem C23_filter_negation_missing_tag :
  forall re op left present, opk_unary op = false ->
    filter_passes re op present left (Some TNone) = true /\
    filter_passes re (negate_op op) present left (Some TNone) = true.
Proof. exact filter_negation_missing_tag. Qed.
Print Assumptions C23_filter_negation_missing_tag.

(* a panicking operator (C07/C09: e.g. ordering on lists) counts as "no" for both: hence the hypothesis *)
Theorem C23_filter_negation_panic :
  forall re op l r site, opk_unary op = false -> apply_tagged re op l (Some r) true = Panic site ->
    holds re op l r = false /\ holds re (negate_op op) l r = false.
Proof. exact filter_negation_panic. Qed.
Print Assumptions C23_filter_negation_panic.

(* rows: a filter on the root vertex (always present) whose right operand is a variable or a tag of
   the root vertex itself, and its negation, partition the rows of the query without the filter *)
Theorem C23_filter_negation_partitions_root :
  forall re g args q root vs ss outs rv f,
    q_comp q = mkComp root vs ss outs ->
    find_vertex vs root = Some rv -> never_entered root ss = true ->
    arg_local root f = true -> has_negation (vf_op f) = true ->
    filter_no_panic re g args root (v_type rv) f ->
    Permutation (sem re g args q)
                (sem re g args (with_comp q (add_filter root f (q_comp q))) ++
                 sem re g args (with_comp q (add_filter root (negate_filter f) (q_comp q)))).
Proof. exact filter_negation_partitions_root. Qed.
Print Assumptions C23_filter_negation_partitions_root.

Theorem C23_equals_never_panics_on_wellformed :
  forall re g args vid ty op fld fty x t,
    (op = Equals \/ op = NotEquals) ->
    (forall ty fld v, wf (g_prop g ty fld v) = true) -> wf (arg_or_null args x) = true ->
    filter_no_panic re g args vid ty (mkVF op fld fty (Some (AVar x t))).
Proof. exact equals_filter_no_panic. Qed.
Print Assumptions C23_equals_never_panics_on_wellformed.

(* ---- 7. renaming outputs changes no row contents ---- *)
Theorem C23_rename_outputs :
  forall re g args rho, (forall a b, rho a = rho b -> a = b) ->
  forall q, Forall2 (row_renamed rho) (sem re g args (with_comp q (rename_comp rho (q_comp q)))) (sem re g args q).
Proof. exact rename_outputs_rows. Qed.
Print Assumptions C23_rename_outputs.

Theorem C23_rename_outputs_same_assignments :
  forall re g args rho c imp r, sem_comp re g args (rename_comp rho c) imp r = sem_comp re g args c imp r.
Proof. exact sem_comp_rename. Qed.
Print Assumptions C23_rename_outputs_same_assignments.

(* ---- 8. swapping sibling property selections = permuting one vertex' filters ---- *)
Theorem C23_reorder_sibling_properties :
  forall re g args vid fs' q,
    (forall v, find_vertex (c_vertices (q_comp q)) vid = Some v -> Permutation (v_filters v) fs') ->
    sem re g args (with_comp q (reorder_filters vid fs' (q_comp q))) = sem re g args q.
Proof. exact reorder_filters_same_rows. Qed.
Print Assumptions C23_reorder_sibling_properties.

Theorem C23_datasets_have_wellformed_values :
  forall d, ds_props_wf d = true -> forall ty fld v, wf (g_prop (graph_of_dataset d) ty fld v) = true.
Proof. exact ds_props_wf_ok. Qed.
Print Assumptions C23_datasets_have_wellformed_values.

(* ================= non-vacuity on a concrete world ================= *)
Definition tI : ty := mkTy "Int" 1%N.
Definition tS : ty := mkTy "String" 0%N.
Definition ex_ds : dataset :=
  mkDS [(1, "Box"); (2, "Box"); (3, "Leaf"); (4, "Leaf")]
       [(1, [("id", I64 1%Z); ("name", Str "a")]); (2, [("id", I64 2%Z); ("name", Str "b")]);
        (3, [("id", U64 3%Z)]); (4, [("id", I64 4%Z); ("name", Str "a")])]
       [(1, [("next", [2; 3; 4])]); (2, [("next", [3])]); (3, [("next", [4])])]
       [("Thing", [1; 2; 3; 4])]
       [("Thing", ["Box"; "Leaf"])].
Definition ex_g := graph_of_dataset ex_ds.
Definition ex_re : string -> string -> option bool := fun _ _ => None.
Definition ex_args : list (string * fv) :=
  [("p", I64 3%Z); ("x", Str "a"); ("xs", List [Str "a"]); ("zero", I64 0%Z); ("y", Str "b")].
Definition ex_vs := [mkV 1 "Thing" None []; mkV 2 "Thing" None []].
Definition ex_outs := [("o1", mkCF 1 "id" tI); ("o2", mkCF 2 "id" tI)].
Definition ex_edge (ps : params) (opt : bool) (rc : option recursive) := mkE 1 1 2 "next" ps opt rc.
Definition ex_q (e : ir_edge) : ir_query := mkQ "Thing" [] (mkComp 1 ex_vs [SEdge e] ex_outs) [].
Definition ex_plain := ex_q (ex_edge [("hi", Null); ("lo", Null)] false None).
Definition ex_name_eq (x : string) : vfilter := mkVF Equals "name" tS (Some (AVar x tS)).
Definition ex_sem := sem ex_re ex_g ex_args.

Example C23_add_filter_nonvacuous :
  List.length (ex_sem ex_plain) = 5%nat /\
  List.length (ex_sem (with_comp ex_plain (add_filter 2 (ex_name_eq "x") (q_comp ex_plain)))) = 2%nat.
Proof. vm_compute. split; reflexivity. Qed.
Print Assumptions C23_add_filter_nonvacuous.

Example C23_raise_depth_nonvacuous :
  let q := ex_q (ex_edge [("hi", Null); ("lo", Null)] false (Some (mkRec 1 None))) in
  List.length (ex_sem q) = 9%nat /\
  List.length (ex_sem (with_comp q (raise_depth 1 1 (q_comp q)))) = 12%nat.
Proof. vm_compute. split; reflexivity. Qed.
Print Assumptions C23_raise_depth_nonvacuous.

Example C23_make_optional_nonvacuous :
  List.length (ex_sem ex_plain) = 5%nat /\
  List.length (ex_sem (with_comp ex_plain (make_optional 1 (q_comp ex_plain)))) = 6%nat.
Proof. vm_compute. split; reflexivity. Qed.
Print Assumptions C23_make_optional_nonvacuous.

(* the hypotheses of C23_lo_param_is_ge_filter hold for `next(lo: 3)`, and the rows are non-trivial *)
Example C23_param_edge_nonvacuous :
  let q := ex_q (ex_edge ([("hi", Null)] ++ ("lo", I64 3%Z) :: []) false None) in
  ds_ids_ok ex_ds = true /\ lookup_str "p" ex_args = Some (I64 3%Z) /\
  entered_only_by 1 2 (q_comp q) = true /\
  List.length (ex_sem q) = 4%nat /\
  ex_sem (with_comp q (param_to_filter 1 ([("hi", Null)] ++ ("lo", Null) :: []) 2 (id_ge_filter "p" tI tI) (q_comp q)))
  = ex_sem q.
Proof. vm_compute. repeat split; reflexivity. Qed.
Print Assumptions C23_param_edge_nonvacuous.

Example C23_eq_one_of_nonvacuous :
  let q := with_comp ex_plain (add_filter 2 (ex_name_eq "x") (q_comp ex_plain)) in
  ds_props_wf ex_ds = true /\ wf (arg_or_null ex_args "x") = true /\
  lookup_str "xs" ex_args = Some (List [arg_or_null ex_args "x"]) /\
  c_vertices (q_comp (with_comp q (map_filters 2 (eq_to_one_of "x" "xs" tS) (q_comp q)))) =
    [mkV 1 "Thing" None []; mkV 2 "Thing" None [mkVF OneOf "name" tS (Some (AVar "xs" tS))]] /\
  List.length (ex_sem q) = 2%nat.
Proof. vm_compute. repeat split; reflexivity. Qed.
Print Assumptions C23_eq_one_of_nonvacuous.

(* root filter `name = $x` and `name != $x`: 3 + 2 = 5 rows; all hypotheses of the partition theorem hold *)
Example C23_negation_nonvacuous :
  find_vertex ex_vs 1 = Some (mkV 1 "Thing" None []) /\
  never_entered 1 (c_steps (q_comp ex_plain)) = true /\
  arg_local 1 (ex_name_eq "x") = true /\ has_negation (vf_op (ex_name_eq "x")) = true /\
  filter_no_panic ex_re ex_g ex_args 1 "Thing" (ex_name_eq "x") /\
  List.length (ex_sem (with_comp ex_plain (add_filter 1 (ex_name_eq "x") (q_comp ex_plain)))) = 3%nat /\
  List.length (ex_sem (with_comp ex_plain (add_filter 1 (negate_filter (ex_name_eq "x")) (q_comp ex_plain)))) = 2%nat.
Proof.
  split; [reflexivity|]. split; [reflexivity|]. split; [reflexivity|]. split; [reflexivity|].
  split; [|split; vm_compute; reflexivity].
  apply equals_filter_no_panic; [now left| |reflexivity].
  apply ds_props_wf_ok. reflexivity.
Qed.
Print Assumptions C23_negation_nonvacuous.

Example C23_rename_nonvacuous :
  let rho := String.append "x" in
  (forall a b, rho a = rho b -> a = b) /\
  ex_sem (with_comp ex_plain (rename_comp rho (q_comp ex_plain))) =
  map (rename_row rho) (ex_sem ex_plain) /\ List.length (ex_sem ex_plain) = 5%nat.
Proof.
  split; [|vm_compute; split; reflexivity]. intros a b H. cbn in H. now injection H.
Qed.
Print Assumptions C23_rename_nonvacuous.

Example C23_reorder_nonvacuous :
  let fs := [ex_name_eq "x"; mkVF IsNotNull "id" tI None] in
  let q := with_comp ex_plain (reorder_filters 2 fs (q_comp ex_plain)) in
  Permutation fs (rev fs) /\ List.length (ex_sem (with_comp q (reorder_filters 2 (rev fs) (q_comp q)))) = 2%nat.
Proof. split; [apply Permutation_rev|vm_compute; reflexivity]. Qed.
Print Assumptions C23_reorder_nonvacuous.

(* the restriction "not under a @fold" is necessary: with a fold-count filter `count = $zero`, adding
   the filter `name = $y` INSIDE the fold takes the query from 1 row to 3 rows *)
Example C23_add_filter_inside_fold_can_add_rows :
  let h := mkFH 1 1 2 "next" [("hi", Null); ("lo", Null)] [] [] [mkPF Equals (Some (AVar "zero" tI))] in
  let q := mkQ "Thing" [] (mkComp 1 [mkV 1 "Thing" None []]
                                  [SFold h (mkComp 2 [mkV 2 "Thing" None []] [] [])]
                                  [("o1", mkCF 1 "id" tI)]) [] in
  List.length (ex_sem q) = 1%nat /\
  List.length (ex_sem (with_comp q (add_filter_in_fold 1 (ex_name_eq "y") (q_comp q)))) = 3%nat.
Proof. vm_compute. split; reflexivity. Qed.
Print Assumptions C23_add_filter_inside_fold_can_add_rows.
