(* C24 — Schemas and compiled queries can be shared across threads.   (claimed PARTIAL)

   "Schemas and compiled queries are thread-safe values: they can be sent to and shared between threads,
    and compiling or executing queries concurrently from many threads yields the same results as doing so
    sequentially."

   What Coq proves is the logical core (Threads.v): threads that only READ shared immutable data and use
   write-once cells (the five OnceLock statics of trustfall_core, incl. the nested initialisation
   NON_NULL_INT_TYPE -> INT_TYPE_NAME_ARC) compute, under EVERY interleaving — no fairness assumed,
   blocked and finished threads stutter — exactly what they compute when run alone, and every write-once
   cell is published once, with the value its initialiser computes sequentially, which every
   get_or_init returns.  What Coq does NOT prove and the harness observes (tfh_det c24): that Schema,
   IndexedQuery, IRQuery, Type, FieldValue, EdgeParameters, Arc<IndexedQuery>, InterpretedQuery really
   are Send + Sync (compile-time assertion: the harness no longer builds otherwise), that they really
   contain no other interior mutability, and the memory model (Arc counts, OnceLock's publication).
   Progress (a fair schedule finishes every thread when initialisers do not depend on each other
   cyclically) is not proved; non-vacuity is shown on a concrete instance below. *)
From Coq Require Import List Arith.
From TF Require Import Threads ThreadsProofs.
Import ListNotations.

Theorem C24_once_cell_linearisable :
  forall (E V : Type) (inits : nat -> prog E V) (env : E) (ts : list (prog E V)) (sigma : list nat),
    let cfg := run E V inits env sigma (init_config ts) in
    NoDup (write_cells (log cfg)) /\
    (forall t c w t' w', In (EvReturn t c w) (log cfg) -> In (EvReturn t' c w') (log cfg) -> w = w') /\
    (forall t c w t' w', In (EvWrite t c w) (log cfg) -> In (EvReturn t' c w') (log cfg) -> w = w') /\
    (forall t c w, In (EvReturn t c w) (log cfg) -> Den E V inits env (inits c) w) /\
    (forall t c w, In (EvReturn t c w) (log cfg) -> cells cfg c = Full w).
Proof. exact once_cell_linearisable. Qed.
Print Assumptions C24_once_cell_linearisable.

Theorem C24_constant_initialiser_always_returned :
  forall (E V : Type) (inits : nat -> prog E V) (env : E) ts sigma c v,
    inits c = Ret v ->
    forall t w, In (EvReturn t c w) (log (run E V inits env sigma (init_config ts))) -> w = v.
Proof. exact constant_initialiser_returned. Qed.
Print Assumptions C24_constant_initialiser_always_returned.

(* a finished thread returns the sequential value of its program, whatever the other threads did *)
Theorem C24_finished_thread_has_sequential_value :
  forall (E V : Type) (inits : nat -> prog E V) (env : E) ts sigma i r,
    result_of (run E V inits env sigma (init_config ts)) i = Some r ->
    exists p, nth_error ts i = Some p /\ Den E V inits env p r.
Proof. exact finished_thread_sound. Qed.
Print Assumptions C24_finished_thread_has_sequential_value.

Theorem C24_sequential_value_unique :
  forall (E V : Type) (inits : nat -> prog E V) (env : E) p v,
    Den E V inits env p v -> forall v', Den E V inits env p v' -> v = v'.
Proof. exact Den_functional. Qed.
Print Assumptions C24_sequential_value_unique.

Theorem C24_readers_schedule_independent :
  forall (E V : Type) (inits : nat -> prog E V) (env : E) ts sigma sigma' i r r',
    result_of (run E V inits env sigma (init_config ts)) i = Some r ->
    result_of (run E V inits env sigma' (init_config ts)) i = Some r' -> r = r'.
Proof. exact readers_schedule_independent. Qed.
Print Assumptions C24_readers_schedule_independent.

Theorem C24_concurrent_equals_run_alone :
  forall (E V : Type) (inits : nat -> prog E V) (env : E) ts sigma i p r n r',
    nth_error ts i = Some p ->
    result_of (run E V inits env sigma (init_config ts)) i = Some r ->
    alone E V inits env n p = Some r' -> r = r'.
Proof. exact readers_agree_with_run_alone. Qed.
Print Assumptions C24_concurrent_equals_run_alone.

Theorem C24_results_schedule_independent :
  forall (E V : Type) (inits : nat -> prog E V) (env : E) ts sigma sigma',
    all_done (run E V inits env sigma (init_config ts)) -> all_done (run E V inits env sigma' (init_config ts)) ->
    results (run E V inits env sigma (init_config ts)) = results (run E V inits env sigma' (init_config ts)).
Proof. exact results_schedule_independent. Qed.
Print Assumptions C24_results_schedule_independent.

Theorem C24_results_are_sequential_values :
  forall (E V : Type) (inits : nat -> prog E V) (env : E) ts sigma,
    all_done (run E V inits env sigma (init_config ts)) ->
    Forall2 (fun p o => exists r, o = Some r /\ Den E V inits env p r) ts
            (results (run E V inits env sigma (init_config ts))).
Proof. exact results_are_sequential_values. Qed.
Print Assumptions C24_results_are_sequential_values.

(* ---- non-vacuity: cell 0 ~ INT_TYPE_NAME_ARC (constant initialiser), cell 1 ~ NON_NULL_INT_TYPE (its
   initialiser calls get_or_init on cell 0); three threads racing for both cells while reading the shared
   value 5; a round-robin schedule, a schedule that lets thread 2 win every race, and an unfair one in which
   thread 1 is blocked for a while on the cell thread 0 is initialising: all threads finish, with the
   results they have when run alone, and each cell is published exactly once. *)
Definition ex_inits (c : nat) : prog nat nat :=
  match c with
  | 0 => Ret 7
  | 1 => GetOrInit 0 (fun v => Ret (v + 100))
  | _ => Ret 0
  end.
Definition ex_threads : list (prog nat nat) :=
  [ GetOrInit 1 (fun a => Read (fun e => Ret (a + e)));
    GetOrInit 0 (fun a => GetOrInit 1 (fun b => Ret (a + b)));
    Read (fun e => GetOrInit 1 (fun a => Ret (e * a))) ].
Definition ex_run sigma := run nat nat ex_inits 5 sigma (init_config ex_threads).
Definition round_robin := [0;1;2; 0;1;2; 0;1;2; 0;1;2; 0;1;2; 0;1;2; 0;1;2; 0;1;2].
Definition two_first := [2;2;2;2;2;2;2;2; 1;1;1;1; 0;0;0;0].
Definition unfair := [0; 1;1;1;1;1;1;1; 0;0;0;0;0;0;0; 1;1;1;1; 2;2;2;2].

Example C24_example_all_schedules_agree :
  results (ex_run round_robin) = [Some 112; Some 114; Some 535] /\
  results (ex_run two_first) = [Some 112; Some 114; Some 535] /\
  results (ex_run unfair) = [Some 112; Some 114; Some 535] /\
  map (alone nat nat ex_inits 5 10) ex_threads = [Some 112; Some 114; Some 535] /\
  write_cells (log (ex_run round_robin)) = [0; 1] /\
  write_cells (log (ex_run two_first)) = [0; 1] /\
  write_cells (log (ex_run unfair)) = [0; 1] /\
  all_done (ex_run unfair) /\
  (* in the unfair schedule thread 1 really is blocked for a while: after the first 8 entries it has been
     scheduled 7 times (3 steps to initialise and read cell 0, then 4 stuttering steps waiting for cell 1,
     which thread 0 is still initialising) and has no result yet *)
  result_of (ex_run (firstn 8 unfair)) 1 = None.
Proof.
  repeat split; try (vm_compute; reflexivity).
  vm_compute. repeat constructor; discriminate.
Qed.
Print Assumptions C24_example_all_schedules_agree.
