(* C25 — The adapter invariant checker catches every contract violation it documents.
   Only statements, `exact` proofs, Print Assumptions and witnesses live here.

   Model: Checker.v, a transcription of trustfall_core/src/interpreter/helpers/correctness.rs
   (`check_adapter_invariants`, its three `check_*_are_implemented` functions with their meta-queries over
   SchemaAdapter — Introspect.v, property C20 —, `make_contexts`, `get_context_order_values` and the
   assertions).  `check s A = true` iff the checker returns normally.  The adapter under test `A` is its
   behaviour on contexts WITHOUT an active vertex (the only ones the checker creates): per resolver a
   function from the nine input tags 0..8 to the (tag, outcome) list it yields, or a panic.
   Schemas: `wf_schema s` (the consequences of `valid_schema d /\ ~ Known d` that are used; bridge below).

   What is proved: the checker passes EXACTLY when the adapter returns, at every probed resolver, every
   context once, in order, with the neutral outcome (C25_check_characterisation); hence a contract-abiding
   adapter passes, and any reordering, lost or duplicated context, non-null property, neighbour, true
   coercion or panic at a probed resolver fails.

   FULL STATEMENT (property text: "fails for any adapter that ... for any schema", "every single injected
   contract violation on any resolver / type / field"):
       forall s t f, wf_schema s -> fault_effective f -> check s (inject honest t f) = false
   is FALSE.  The probed resolvers are characterised exactly (C25_covered_*_iff); two classes of resolvers a
   query can reach are never probed:
     K-unchecked-required-parameter-edge: an edge with a non-nullable parameter that has no default (the
       checker's own doc comment lists this limitation);
     K-unchecked-root-type: every resolver whose type is the root query type (`VertexType` never
       enumerates it), reachable as a vertex as soon as the root type implements an interface.
   Refuted by C25_every_fault_detected_refuted; what holds is the statement restricted to `covered`
   (C25_covered_faults_detected) and its converse (C25_uncovered_faults_not_detected). *)
From TF Require Import Values Ty SchemaAst SchemaNew SchemaSpec Introspect IntrospectProofs Checker CheckerProofs.
Local Open Scope list_scope.
Local Open Scope string_scope.

Theorem C25_valid_schemas_are_wf : forall d, valid_schema d -> ~ Known d -> wf_schema (schema_of_doc d).
Proof. exact valid_wf. Qed.
Print Assumptions C25_valid_schemas_are_wf.

(* ---------- the assertions on one resolver's output ---------- *)
Theorem C25_check_output_iff : forall (O : Type) (nb : O -> bool) (nv : O) (out : list (Z * O)),
  (forall o, nb o = true <-> o = nv) ->
  (check_output nb out = true <-> out = neutral_output nv initial_contexts).
Proof. exact @check_output_iff. Qed.
Print Assumptions C25_check_output_iff.

(* ---------- which resolvers are probed: the checker's meta-queries = the AST-level coverage ---------- *)
Theorem C25_property_targets : forall s, wf_schema s -> property_targets s = Ok (spec_property_targets s).
Proof. exact property_targets_eq. Qed.
Print Assumptions C25_property_targets.
Theorem C25_edge_targets : forall s, wf_schema s -> edge_targets s = Ok (spec_edge_targets s).
Proof. exact edge_targets_eq. Qed.
Print Assumptions C25_edge_targets.
Theorem C25_coercion_targets : forall s, wf_schema s -> coercion_targets s = Ok (spec_coercion_targets s).
Proof. exact coercion_targets_eq. Qed.
Print Assumptions C25_coercion_targets.

(* ---------- the characterisation ---------- *)
Theorem C25_check_characterisation : forall s, wf_schema s -> forall A,
  check s A = true <->
  (forall tn pn, In (tn, pn) (spec_property_targets s) -> honest_property A tn pn) /\
  (forall tn en ps, In (tn, en, ps) (spec_edge_targets s) -> honest_edge A tn en ps) /\
  (forall tn to_, In (tn, to_) (spec_coercion_targets s) -> honest_coercion A tn to_).
Proof. exact check_characterisation. Qed.
Print Assumptions C25_check_characterisation.

(* an adapter that honours the contract passes, for any schema *)
Theorem C25_contract_abiding_passes : forall s, wf_schema s -> forall A,
  (forall tn pn, honest_property A tn pn) -> (forall tn en ps, honest_edge A tn en ps) ->
  (forall tn to_, honest_coercion A tn to_) -> check s A = true.
Proof. exact contract_abiding_passes. Qed.
Print Assumptions C25_contract_abiding_passes.
Theorem C25_honest_passes : forall s, wf_schema s -> check s honest = true.
Proof. exact honest_passes. Qed.
Print Assumptions C25_honest_passes.

(* ANY deviation at a probed resolver is caught *)
Theorem C25_property_deviation_detected : forall s, wf_schema s -> forall A tn pn,
  In (tn, pn) (spec_property_targets s) -> ~ honest_property A tn pn -> check s A = false.
Proof. exact property_deviation_detected. Qed.
Print Assumptions C25_property_deviation_detected.
Theorem C25_edge_deviation_detected : forall s, wf_schema s -> forall A tn en ps,
  In (tn, en, ps) (spec_edge_targets s) -> ~ honest_edge A tn en ps -> check s A = false.
Proof. exact edge_deviation_detected. Qed.
Print Assumptions C25_edge_deviation_detected.
Theorem C25_coercion_deviation_detected : forall s, wf_schema s -> forall A tn to_,
  In (tn, to_) (spec_coercion_targets s) -> ~ honest_coercion A tn to_ -> check s A = false.
Proof. exact coercion_deviation_detected. Qed.
Print Assumptions C25_coercion_deviation_detected.

(* ---------- the documented fault kinds, for an arbitrary adapter ---------- *)
(* reordered contexts *)
Theorem C25_property_reorder_detected : forall s, wf_schema s -> forall A tn pn out,
  In (tn, pn) (spec_property_targets s) -> a_prop A tn pn initial_contexts = Ok out ->
  map fst out <> initial_contexts -> check s A = false.
Proof. exact property_reorder_detected. Qed.
Print Assumptions C25_property_reorder_detected.
Theorem C25_edge_reorder_detected : forall s, wf_schema s -> forall A tn en ps out,
  In (tn, en, ps) (spec_edge_targets s) -> a_nbrs A tn en ps initial_contexts = Ok out ->
  map fst out <> initial_contexts -> check s A = false.
Proof. exact edge_reorder_detected. Qed.
Print Assumptions C25_edge_reorder_detected.
Theorem C25_coercion_reorder_detected : forall s, wf_schema s -> forall A tn to_ out,
  In (tn, to_) (spec_coercion_targets s) -> a_coerce A tn to_ initial_contexts = Ok out ->
  map fst out <> initial_contexts -> check s A = false.
Proof. exact coercion_reorder_detected. Qed.
Print Assumptions C25_coercion_reorder_detected.
(* lost or duplicated contexts *)
Theorem C25_property_count_detected : forall s, wf_schema s -> forall A tn pn out,
  In (tn, pn) (spec_property_targets s) -> a_prop A tn pn initial_contexts = Ok out ->
  List.length out <> 9%nat -> check s A = false.
Proof. exact property_count_detected. Qed.
Print Assumptions C25_property_count_detected.
Theorem C25_edge_count_detected : forall s, wf_schema s -> forall A tn en ps out,
  In (tn, en, ps) (spec_edge_targets s) -> a_nbrs A tn en ps initial_contexts = Ok out ->
  List.length out <> 9%nat -> check s A = false.
Proof. exact edge_count_detected. Qed.
Print Assumptions C25_edge_count_detected.
Theorem C25_coercion_count_detected : forall s, wf_schema s -> forall A tn to_ out,
  In (tn, to_) (spec_coercion_targets s) -> a_coerce A tn to_ initial_contexts = Ok out ->
  List.length out <> 9%nat -> check s A = false.
Proof. exact coercion_count_detected. Qed.
Print Assumptions C25_coercion_count_detected.
(* a non-null property / any neighbour / a true coercion for a context without an active vertex *)
Theorem C25_property_non_null_detected : forall s, wf_schema s -> forall A tn pn out c v,
  In (tn, pn) (spec_property_targets s) -> a_prop A tn pn initial_contexts = Ok out ->
  In (c, v) out -> v <> Null -> check s A = false.
Proof. exact property_non_null_detected. Qed.
Print Assumptions C25_property_non_null_detected.
Theorem C25_edge_neighbor_detected : forall s, wf_schema s -> forall A tn en ps out c n,
  In (tn, en, ps) (spec_edge_targets s) -> a_nbrs A tn en ps initial_contexts = Ok out ->
  In (c, n) out -> n <> O -> check s A = false.
Proof. exact edge_neighbor_detected. Qed.
Print Assumptions C25_edge_neighbor_detected.
Theorem C25_coercion_true_detected : forall s, wf_schema s -> forall A tn to_ out c,
  In (tn, to_) (spec_coercion_targets s) -> a_coerce A tn to_ initial_contexts = Ok out ->
  In (c, true) out -> check s A = false.
Proof. exact coercion_true_detected. Qed.
Print Assumptions C25_coercion_true_detected.
(* a panicking resolver *)
Theorem C25_property_panic_detected : forall s, wf_schema s -> forall A tn pn site,
  In (tn, pn) (spec_property_targets s) -> a_prop A tn pn initial_contexts = Panic site -> check s A = false.
Proof. exact property_panic_detected. Qed.
Print Assumptions C25_property_panic_detected.

(* ---------- single injected faults (what the fault-enumeration harness runs) ---------- *)
Theorem C25_apply_fault_breaks : forall (O : Type) (nv bad : O) f, bad <> nv -> fault_effective f ->
  apply_fault bad f (Ok (neutral_output nv initial_contexts)) <> Ok (neutral_output nv initial_contexts).
Proof. exact @apply_fault_breaks. Qed.
Print Assumptions C25_apply_fault_breaks.
Theorem C25_covered_faults_detected : forall s, wf_schema s -> forall t f,
  covered s t = true -> fault_effective f -> check s (inject honest t f) = false.
Proof. exact covered_faults_detected. Qed.
Print Assumptions C25_covered_faults_detected.
(* the converse: misbehaviour confined to an unprobed resolver passes *)
Theorem C25_uncovered_faults_not_detected : forall s, wf_schema s -> forall t f,
  covered s t = false -> check s (inject honest t f) = true.
Proof. exact uncovered_faults_not_detected. Qed.
Print Assumptions C25_uncovered_faults_not_detected.
Theorem C25_misbehaviour_elsewhere_passes : forall s, wf_schema s -> forall A,
  (forall tn pn, In (tn, pn) (spec_property_targets s) -> honest_property A tn pn) ->
  (forall tn en ps, In (tn, en, ps) (spec_edge_targets s) -> honest_edge A tn en ps) ->
  (forall tn to_, In (tn, to_) (spec_coercion_targets s) -> honest_coercion A tn to_) ->
  check s A = true.
Proof. exact misbehaviour_elsewhere_passes. Qed.
Print Assumptions C25_misbehaviour_elsewhere_passes.

(* ---------- exactly which resolvers are probed ---------- *)
Theorem C25_covered_property_iff : forall s, wf_schema s -> forall tn pn,
  covered s (TProp tn pn) = true <->
  exists t, In t (sc_types s) /\ t_name t = tn /\ tn <> sc_query s /\
            (pn = "__typename" \/ exists f, In f (t_fields t) /\ fld_is_property f = true /\ f_name f = pn).
Proof. exact covered_property_iff. Qed.
Print Assumptions C25_covered_property_iff.
Theorem C25_covered_edge_iff : forall s, wf_schema s -> forall tn en,
  covered s (TEdge tn en) = true <->
  exists t f, In t (sc_types s) /\ t_name t = tn /\ tn <> sc_query s /\ In f (t_fields t) /\
              fld_is_property f = false /\ f_name f = en /\ edge_checkable f = true.
Proof. exact covered_edge_iff. Qed.
Print Assumptions C25_covered_edge_iff.
Theorem C25_covered_coercion_iff : forall s, wf_schema s -> forall tn to_,
  covered s (TCoerce tn to_) = true <->
  exists t, In t (sc_types s) /\ t_name t = to_ /\ to_ <> sc_query s /\ In tn (t_impl t).
Proof. exact covered_coercion_iff. Qed.
Print Assumptions C25_covered_coercion_iff.

(* the two uncovered classes *)
Theorem C25_root_type_uncovered : forall s, wf_schema s ->
  (forall pn, covered s (TProp (sc_query s) pn) = false) /\
  (forall en, covered s (TEdge (sc_query s) en) = false) /\
  (forall tn, covered s (TCoerce tn (sc_query s)) = false).
Proof. exact root_type_uncovered. Qed.
Print Assumptions C25_root_type_uncovered.
Theorem C25_required_parameter_edge_uncovered : forall s, wf_schema s -> forall t f a,
  In t (sc_types s) -> In f (t_fields t) -> In a (f_args f) -> required_parameter a ->
  covered s (TEdge (t_name t) (f_name f)) = false.
Proof. exact required_parameter_edge_uncovered. Qed.
Print Assumptions C25_required_parameter_edge_uncovered.
(* and they are the only ones, for edges *)
Theorem C25_visible_edge_covered : forall s, wf_schema s -> forall t f,
  In t (sc_types s) -> t_name t <> sc_query s -> In f (t_fields t) -> fld_is_property f = false ->
  (forall a, In a (f_args f) -> ~ required_parameter a) -> covered s (TEdge (t_name t) (f_name f)) = true.
Proof. exact visible_edge_covered. Qed.
Print Assumptions C25_visible_edge_covered.

(* ---------- refutation of the unrestricted statement ---------- *)
Theorem C25_every_fault_detected_refuted :
  check wit2 (inject honest (TEdge "Thing" "other") (FBad 0)) = true /\
  check wit2 (inject honest (TProp "Root" "__typename") (FBad 0)) = true /\
  check wit2 (inject honest (TEdge "Root" "things") (FBad 0)) = true /\
  check wit2 (inject honest (TCoerce "Named" "Root") (FBad 0)) = true.
Proof. exact every_fault_detected_refuted. Qed.
Print Assumptions C25_every_fault_detected_refuted.

(* ---------- non-vacuity ---------- *)
Example C25_witness_valid : valid_schema wit2_doc /\ ~ Known wit2_doc /\ wf_schema wit2.
Proof. exact (conj wit2_valid (conj wit2_not_known wit2_wf)). Qed.
Print Assumptions C25_witness_valid.
(* the witness has probed resolvers of all three kinds, and a probed fault is caught *)
Example C25_witness_covered :
  covered wit2 (TProp "Thing" "label") = true /\ covered wit2 (TEdge "Thing" "self") = true /\
  covered wit2 (TCoerce "Named" "Thing") = true /\
  check wit2 (inject honest (TCoerce "Named" "Thing") (FSwap 3 7)) = false /\
  check wit2 honest = true.
Proof. exact wit2_covered. Qed.
Print Assumptions C25_witness_covered.
