(* C26 — Generated adapter stubs compile for every valid schema.   (claimed as PARTIAL)
   "Compiles" is rustc's judgement.  What is decided here is the IDENTIFIER-level necessary
   condition: `idents_ok st` (Names.v) collects, for the identifiers the generator emits, every
   condition found necessary for the stub crate to compile (pairwise distinct definitions per
   namespace, called `as_*` conversions exist, no bare reserved word, parameters do not capture
   the bindings the generated code relies on).  The harness compiles real stubs and checks that
   the model's verdict predicts rustc on them.
   Only statements, `exact` proofs, Print Assumptions and non-vacuity examples live here. *)
From TF Require Import Values Names NamesProofs.
Open Scope string_scope.

(* The full-strength property is FALSE of the faithful model (genuine defects of /repo):

     Theorem guards_imply_distinct_idents : forall s st,
       wf_schema s = true -> generate s = Ok st -> idents_ok st = true.
       (if both guards pass — which `generate s = Ok st` implies — then (a) the enum variants are
        pairwise distinct, (b) the per-type resolver fns / modules / `as_*` conversions are
        distinct and exist, (c) no generated identifier is a bare Rust keyword)

     and, read as "every valid schema gets a stub that compiles", also
       forall s, wf_schema s = true -> exists st, generate s = Ok st /\ idents_ok st = true.  *)

(* F15: types `aB` and `AB` pass the snake-case guard (a_b <> ab); both become variant `AB`. *)
Theorem C26_guards_imply_distinct_variants_refuted :
  exists s st, wf_schema s = true /\ guards s = true /\ known s = true /\ generate s = Ok st /\
               ~ NoDup (st_variants st) /\ idents_ok st = false.
Proof. exact guards_imply_distinct_variants_refuted. Qed.
Print Assumptions C26_guards_imply_distinct_variants_refuted.

(* one witness per known class: valid, guards pass, in exactly that class, identifiers cannot compile *)
Theorem C26_known_class_witnesses :
  refutes w_f15 "K-variant-collision" /\
  refutes w_mismatch "K-conversion-name-mismatch" /\
  refutes w_derive "K-derive-conversion-collision" /\
  refutes w_entry "K-entrypoint-collision" /\
  refutes w_reserved_param "K-reserved-word-unescaped" /\
  refutes w_capture "K-parameter-capture" /\
  refutes w_import "K-import-clash" /\
  refutes w_shadow "K-crate-shadow".
Proof. exact class_witnesses. Qed.
Print Assumptions C26_known_class_witnesses.

Theorem C26_reserved_word_panics_witness :
  wf_schema w_reserved_panic = true /\ guards w_reserved_panic = true /\
  show_classes w_reserved_panic = "K-reserved-word-unescaped" /\
  exists site, generate w_reserved_panic = Panic site.
Proof. exact reserved_word_panics_witness. Qed.
Print Assumptions C26_reserved_word_panics_witness.

(* K-guard-rejects-valid-schema: valid schemas (types type/type_, and a_b/aB) get no stub at all *)
Theorem C26_guard_rejects_valid_schema_witness :
  wf_schema w_guard = true /\ guards w_guard = false /\
  show_classes w_guard = "K-guard-rejects-valid-schema" /\ (exists site, generate w_guard = Panic site) /\
  wf_schema w_guard2 = true /\ guards w_guard2 = false /\ (exists site, generate w_guard2 = Panic site).
Proof. exact guard_rejects_valid_schema_witness. Qed.
Print Assumptions C26_guard_rejects_valid_schema_witness.

(* The restricted property: OUTSIDE the nine known classes every valid schema gets a stub and all
   identifier-level conditions hold — the list of classes is complete at this level. *)
Theorem C26_classification_complete : forall s,
  wf_schema s = true -> known s = false ->
  exists st, generate s = Ok st /\ idents_ok st = true.
Proof. exact classification_complete. Qed.
Print Assumptions C26_classification_complete.

(* (a) restricted: outside K-variant-collision the variants are distinct *)
Theorem C26_variants_distinct_outside_class : forall s,
  NoDup (type_names s) -> ensure_no_vertex_name_conflicts (type_names s) = true ->
  K_variant_collision s = false -> NoDup (map variant_name (type_names s)).
Proof. exact variants_distinct_outside_class. Qed.
Print Assumptions C26_variants_distinct_outside_class.

(* (b) what the guards give with NO class excluded: whenever a stub is produced, the property /
   edge resolver fns, the edge modules and the edge fns inside each module are pairwise distinct,
   and adapter_impl.rs refers to edge resolvers that exist (snake case is applied twice there). *)
Theorem C26_guards_imply_resolver_names_distinct : forall s st,
  generate s = Ok st ->
  NoDup (st_prop_fns st) /\ NoDup (st_edge_fns st) /\ NoDup (map fst (st_mods st)) /\
  (forall m, In m (st_mods st) -> NoDup (map ef_name (snd m))) /\
  (forall r, In r (st_edge_refs st) -> In r (st_edge_fns st)).
Proof. exact guards_imply_resolver_names_distinct. Qed.
Print Assumptions C26_guards_imply_resolver_names_distinct.

Theorem C26_distinct_snake_names_give_distinct_resolvers : forall names,
  NoDup (map to_lower_snake_case names) ->
  NoDup (map property_resolver_fn_name names) /\ NoDup (map type_edge_resolver_fn_name names).
Proof. exact distinct_snake_names_give_distinct_resolvers. Qed.
Print Assumptions C26_distinct_snake_names_give_distinct_resolvers.

Theorem C26_distinct_variants_give_distinct_called_conversions : forall vs,
  NoDup (map to_lower_snake_case vs) -> NoDup (map conversion_fn_name vs).
Proof. exact distinct_variants_give_distinct_called_conversions. Qed.
Print Assumptions C26_distinct_variants_give_distinct_called_conversions.

(* the called conversion is the one #[derive(TrustfallEnumVertex)] defines exactly when the variant
   has no two adjacent upper-case letters (K-conversion-name-mismatch characterised) *)
Theorem C26_conversion_names_agree_iff : forall v,
  conversion_fn_name v = derive_conversion_name v <-> adj_ok underscore v = true.
Proof. exact conversion_names_agree_iff. Qed.
Print Assumptions C26_conversion_names_agree_iff.

(* (c) keywords *)
Theorem C26_keyword_escaped : forall n, In n escaped_keywords ->
  escaped_rust_name n = n ++ "_" /\ reserved (escaped_rust_name n) = false.
Proof. exact keyword_escaped. Qed.
Print Assumptions C26_keyword_escaped.

Theorem C26_escaped_not_in_escape_list : forall n, mem (escaped_rust_name n) escaped_keywords = false.
Proof. exact escaped_not_in_escape_list. Qed.
Print Assumptions C26_escaped_not_in_escape_list.

(* exactly the names that stay reserved after escaping: `_` and the twelve reserved-for-future-use
   keywords missing from escaped_rust_name's list *)
Theorem C26_reserved_after_escape : forall n,
  reserved (escaped_rust_name n) = true <-> In n unescaped_reserved.
Proof. exact reserved_after_escape. Qed.
Print Assumptions C26_reserved_after_escape.

(* no produced stub defines a bare reserved word: the generator panics ("not valid Rust") instead *)
Theorem C26_produced_idents_not_reserved : forall s st i,
  generate s = Ok st -> In i (defined_idents st) -> reserved i = false.
Proof. exact produced_idents_not_reserved. Qed.
Print Assumptions C26_produced_idents_not_reserved.

(* guards_total: which name lists the guards reject, and when no stub is produced *)
Theorem C26_vertex_guard_spec : forall names,
  ensure_no_vertex_name_conflicts names = true <-> NoDup (map mod_name names).
Proof. exact vertex_guard_spec. Qed.
Print Assumptions C26_vertex_guard_spec.

Theorem C26_vertex_guard_rejects_iff : forall names,
  NoDup names ->
  (ensure_no_vertex_name_conflicts names = false <->
   exists a b, In a names /\ In b names /\ a <> b /\ mod_name a = mod_name b).
Proof. exact vertex_guard_rejects_iff. Qed.
Print Assumptions C26_vertex_guard_rejects_iff.

Theorem C26_field_guard_spec : forall ts,
  ensure_no_field_name_conflicts_on_vertex_type ts = true <->
  forall t, In t ts -> NoDup (map mod_name (field_names t)).
Proof. exact field_guard_spec. Qed.
Print Assumptions C26_field_guard_spec.

Theorem C26_generate_panics_iff : forall s,
  forallb nonempty (type_names s) = true ->
  ((exists site, generate s = Panic site) <-> guards s = false \/ syn_accepts (stub_of s) = false).
Proof. exact generate_panics_iff. Qed.
Print Assumptions C26_generate_panics_iff.

(* facts about to_lower_snake_case used above *)
Theorem C26_snake_case_idempotent : forall s,
  to_lower_snake_case (to_lower_snake_case s) = to_lower_snake_case s.
Proof. exact to_lower_snake_case_idempotent. Qed.
Print Assumptions C26_snake_case_idempotent.

Theorem C26_snake_case_no_upper : forall s, no_upper (to_lower_snake_case s) = true.
Proof. exact to_lower_snake_case_no_upper. Qed.
Print Assumptions C26_snake_case_no_upper.

Theorem C26_snake_case_facts :
  to_lower_snake_case "aB" = to_lower_snake_case "a_b" /\
  to_lower_snake_case "AB" = "ab" /\ derive_to_lower_snake_case "AB" = "a_b" /\
  variant_name "aB" = variant_name "AB" /\ mod_name "aB" <> mod_name "AB" /\
  mod_name "type" = mod_name "type_".
Proof. exact snake_facts. Qed.
Print Assumptions C26_snake_case_facts.

(* non-vacuity of C26_classification_complete: an adversarial schema (case/underscore variants,
   escaped keywords as type, field, edge, entry-point and parameter names) outside every class *)
Example C26_nonvacuous :
  wf_schema w_clean = true /\ known w_clean = false /\ show_verdict w_clean = "T" /\
  show_generate w_clean =
  "V[_aB,A_1,Ab,Self_,Type]P[resolve__a_b_property,resolve_a_1_property,resolve_ab_property,resolve_self_property,resolve_type_property]E[resolve__a_b_edge,resolve_a_1_edge,resolve_ab_edge,resolve_self_edge,resolve_type_edge]R[resolve__a_b_edge,resolve_a_1_edge,resolve_ab_edge,resolve_self_edge,resolve_type_edge]M[_a_b{_ab()@as__a_b},a_1{ab_()@as_a_1},ab{a1()@as_ab;a__b(aB,a_b)@as_ab},self_{me(raw)@as_self_;type_()@as_self_},type_{async_(gen,union)@as_type;fn_()@as_type}]S[ab(A_B),a_b(),crate_(),type_(auto)]".
Proof. exact clean_witness. Qed.
Print Assumptions C26_nonvacuous.
