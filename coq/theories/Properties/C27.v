(* C27 — Python bindings return the same results as the Rust engine: the conversion half.
   Only statements, `exact` proofs, Print Assumptions and non-vacuity examples live here.

   Level: PARTIAL.  CPython and pyo3 are outside the model; what is decided here is the conversion
   logic of pytrustfall/src/value.rs (model: PyConv.v) for ALL Python objects (unbounded ints, any
   nesting) and ALL field values.  "Same rows as the Rust engine" is checked at run time by ./check C27
   (real extension module built from the working tree vs the Rust engine on generated worlds).

   Two classes of inputs on which the code contradicts the property text are recorded as known findings:
     K-py-bigint-float   : a Python int outside [-2^63, 2^64) is not rejected; it is silently converted
                           to the nearest binary64 float (rejected only from |z| >= 2^1024 - 2^970)
     K-py-mixed-int-list : a list containing ints on both sides of 2^63 (Int64 and Uint64 after
                           conversion) is rejected as "elements of different types" *)
From TF Require Import Values ValuesProofs PyConv PyConvProofs.
Open Scope Z_scope.

(* ------------------------------------------------------------------ extract is faithful *)

(* Full statement (REFUTED, class K-py-bigint-float):
     forall p v, extract p = ROk v -> denotes v p *)
Theorem C27_extract_faithful_refuted : exists p v, extract p = ROk v /\ ~ denotes v p.
Proof. exact extract_faithful_refuted_w. Qed.
Print Assumptions C27_extract_faithful_refuted.

(* Restricted to the complement of the class: no int outside [-2^63, 2^64) occurs in p. *)
Theorem C27_extract_faithful : forall p v, no_bigint p = true -> extract p = ROk v -> denotes v p.
Proof. exact extract_faithful_nb. Qed.
Print Assumptions C27_extract_faithful.

(* what arrives in the engine is a well-formed FieldValue (integer ranges, finite floats), never an enum *)
Theorem C27_extract_wellformed : forall p v, extract p = ROk v -> wf v = true /\ enum_free v = true.
Proof. exact extract_wf. Qed.
Print Assumptions C27_extract_wellformed.

(* the integer boundary: exact on all of [-2^63, 2^64), Int64 below 2^63 and Uint64 from 2^63 *)
Theorem C27_extract_int_signed : forall z, i64_min <= z <= i64_max -> extract (PInt z) = ROk (I64 z).
Proof. exact extract_i64_range. Qed.
Print Assumptions C27_extract_int_signed.

Theorem C27_extract_int_unsigned : forall z, i64_max < z <= u64_max -> extract (PInt z) = ROk (U64 z).
Proof. exact extract_u64_range. Qed.
Print Assumptions C27_extract_int_unsigned.

(* ------------------------------------------------------------------ rejections *)

Theorem C27_extract_rejects_other : extract POther = Err e_unsupported.
Proof. exact extract_other. Qed.
Print Assumptions C27_extract_rejects_other.

Theorem C27_extract_rejects_nonfinite : forall b, f64_finite b = false -> extract (PFloat b) = Err e_nonfinite.
Proof. exact extract_nonfinite. Qed.
Print Assumptions C27_extract_rejects_nonfinite.

(* Full statement (REFUTED, class K-py-bigint-float):
     forall z, ~ (i64_min <= z <= u64_max) -> exists k, extract (PInt z) = Err k *)
Theorem C27_extract_rejects_bigint_refuted :
  exists z, ~ (i64_min <= z <= u64_max) /\ exists v, extract (PInt z) = ROk v.
Proof. exact extract_rejects_bigint_refuted_w. Qed.
Print Assumptions C27_extract_rejects_bigint_refuted.

(* what does hold for every z: ints of magnitude >= 2^1024 are rejected *)
Theorem C27_extract_rejects_huge_int : forall z, 2 ^ 1024 <= Z.abs z -> extract (PInt z) = Err e_unsupported.
Proof. exact extract_huge_int. Qed.
Print Assumptions C27_extract_rejects_huge_int.

(* a list with a non-convertible element (at any position) is rejected *)
Theorem C27_extract_rejects_list_element :
  forall l p k, In p l -> extract p = Err k -> exists k', extract (PList l) = Err k'.
Proof. exact extract_PList_elem_err. Qed.
Print Assumptions C27_extract_rejects_list_element.

(* heterogeneous lists: two non-null converted elements of different variants => rejected *)
Theorem C27_extract_rejects_heterogeneous :
  forall l c a b, extract_list l = ROk c -> In a c -> In b c -> is_null a = false -> is_null b = false ->
    discriminant a <> discriminant b -> extract (PList l) = Err e_hetero.
Proof. exact extract_PList_hetero. Qed.
Print Assumptions C27_extract_rejects_heterogeneous.

(* the list branch completely: accepted iff all elements convert and all non-null converted elements
   have one variant (shallow: every nested list counts as "list", whatever it contains) *)
Theorem C27_extract_list_spec :
  forall l v, extract (PList l) = ROk v <->
    exists c, extract_list l = ROk c /\ v = List c /\ same_key discriminant c.
Proof. exact extract_PList_spec. Qed.
Print Assumptions C27_extract_list_spec.

(* shim.rs: an argument that does not convert raises the Python exception (arg_value = extract by
   definition); a property value that does not convert is a Rust panic *)
Theorem C27_property_value :
  forall p, (forall v, extract p = ROk v -> property_value p = Ok v) /\
            (forall k, extract p = Err k -> exists site, property_value p = Panic site).
Proof. exact property_value_spec. Qed.
Print Assumptions C27_property_value.

(* ------------------------------------------------------------------ Rust -> Python -> Rust *)

(* Full statement (REFUTED, class K-py-mixed-int-list):
     forall v, wf v = true -> enum_free v = true ->
       exists p v', into_py v = Ok p /\ extract p = ROk v' /\ eqT v' v = true *)
Theorem C27_py_roundtrip_refuted :
  exists v, wf v = true /\ enum_free v = true /\ forall p, into_py v = Ok p -> exists k, extract p = Err k.
Proof. exact py_roundtrip_refuted_w. Qed.
Print Assumptions C27_py_roundtrip_refuted.

(* Restricted to values all of whose lists have a homogeneous Python image (py_homog); equality is
   the FieldValue equality of C08 (an Int64 5 and a Uint64 5 both travel as the Python int 5). *)
Theorem C27_py_roundtrip :
  forall v, wf v = true -> enum_free v = true -> py_homog v = true ->
    exists p v', into_py v = Ok p /\ extract p = ROk v' /\ eqT v' v = true.
Proof. exact py_roundtrip_homog. Qed.
Print Assumptions C27_py_roundtrip.

(* ... and the restriction is exact: outside it the Python image is always rejected *)
Theorem C27_py_roundtrip_class_exact :
  forall v, wf v = true -> enum_free v = true -> py_homog v = false ->
    exists p k, into_py v = Ok p /\ extract p = Err k.
Proof. exact py_roundtrip_nonhomog. Qed.
Print Assumptions C27_py_roundtrip_class_exact.

Theorem C27_into_py_total : forall v, enum_free v = true -> exists p, into_py v = Ok p.
Proof. exact into_py_total. Qed.
Print Assumptions C27_into_py_total.

(* FieldValue::Enum => todo!() *)
Theorem C27_into_py_enum_panics : forall s, exists site, into_py (Enum s) = Panic site.
Proof. exact into_py_enum. Qed.
Print Assumptions C27_into_py_enum_panics.

(* ------------------------------------------------------------------ Python -> Rust -> Python *)

(* Full statement (REFUTED, class K-py-bigint-float):
     forall p v, extract p = ROk v -> into_py v = Ok p *)
Theorem C27_into_py_extract_stable_refuted : exists p v, extract p = ROk v /\ into_py v <> Ok p.
Proof. exact into_py_extract_refuted_w. Qed.
Print Assumptions C27_into_py_extract_stable_refuted.

Theorem C27_into_py_extract_stable :
  forall p v, no_bigint p = true -> extract p = ROk v -> into_py v = Ok p.
Proof. exact into_py_extract_nb. Qed.
Print Assumptions C27_into_py_extract_stable.

(* ------------------------------------------------------------------ non-vacuity *)
Example C27_nonvacuous_boundaries :
  extract (PInt (2 ^ 63 - 1)) = ROk (I64 (2 ^ 63 - 1)) /\
  extract (PInt (2 ^ 63)) = ROk (U64 (2 ^ 63)) /\
  extract (PInt (2 ^ 64 - 1)) = ROk (U64 (2 ^ 64 - 1)) /\
  extract (PInt (- 2 ^ 63)) = ROk (I64 (- 2 ^ 63)) /\
  extract (PInt (2 ^ 64)) = ROk (F64 4895412794951729152%N) /\
  extract (PInt (- 2 ^ 63 - 1)) = ROk (F64 14114281232179134464%N) /\
  extract (PInt (2 ^ 1024 - 2 ^ 970 - 1)) = ROk (F64 9218868437227405311%N) /\
  extract (PInt (2 ^ 1024 - 2 ^ 970)) = Err e_unsupported /\
  extract (PBool true) = ROk (Boolv true) /\
  extract (PFloat 9218868437227405312%N) = Err e_nonfinite /\
  extract (PList [PInt 1; PInt (2 ^ 63)]) = Err e_hetero /\
  extract (PList [PInt 1; PBool true]) = Err e_hetero.
Proof. vm_compute. repeat split. Qed.
Print Assumptions C27_nonvacuous_boundaries.

Example C27_nonvacuous_nested :
  let v := List [List [I64 1; Null; U64 2]; Null; List []; List [U64 (2 ^ 63); U64 (2 ^ 64 - 1)]] in
  wf v = true /\ enum_free v = true /\ py_homog v = true /\
  into_py v = Ok (PList [PList [PInt 1; PNone; PInt 2]; PNone; PList []; PList [PInt (2 ^ 63); PInt (2 ^ 64 - 1)]]) /\
  extract (PList [PList [PInt 1; PNone; PInt 2]; PNone; PList []; PList [PInt (2 ^ 63); PInt (2 ^ 64 - 1)]])
    = ROk (List [List [I64 1; Null; I64 2]; Null; List []; List [U64 (2 ^ 63); U64 (2 ^ 64 - 1)]]) /\
  (* the homogeneity check is shallow: these nested lists are accepted *)
  extract (PList [PList [PInt 1]; PList [PFloat 4611686018427387904%N]])
    = ROk (List [List [I64 1]; List [F64 4611686018427387904%N]]) /\
  no_bigint (PList [PList [PList [PInt (2 ^ 64 - 1)]]]) = true /\
  extract (PList [PList [PList [PInt (2 ^ 64 - 1)]]]) = ROk (List [List [List [U64 (2 ^ 64 - 1)]]]).
Proof. vm_compute. repeat split. Qed.
Print Assumptions C27_nonvacuous_nested.
