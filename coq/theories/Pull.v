(* Pull.v — C02: a pull-machine for the interpreter's iterator pipelines, with query carriers.

   MODEL FILE: definitions only (proofs are in PullProofs.v).

   What is transcribed (trustfall_core/src/interpreter/execution.rs):

   * The engine builds one lazy iterator per query component by wrapping an input iterator, resolver
     after resolver.  Every resolver construction has the same shape

         let query = carrier.query.take().expect("query was not returned");   (take)
         let resolve_info = ResolveInfo::new(query, ..);
         let it = adapter.resolve_xxx(iterator, .., &resolve_info);            (adapter call)
         carrier.query = Some(resolve_info.into_inner());                      (put)
         Box::new(it.map / filter_map / flat_map (closure))                    (engine closure)

     (perform_coercion, compute_local_field, apply_filter's tag look-ups, expand_edge,
     expand_recursive_edge, compute_fold's imported tags and its resolve_neighbors, construct_outputs).
     The adapter call receives the *input iterator*; an adapter that reads ahead pulls contexts from
     it INSIDE the call, i.e. between `take` and `put` (VariableChunkIterator::new of the repo's fuzz
     target does exactly that: `buffer.extend(iter.by_ref().take(chunk))` in the constructor).
     Plan step [Resolve sched k].
   * compute_fold, after its own resolve_neighbors call, clones the carrier
     (`let mut cloned_carrier = carrier.clone();`) and moves the clone into the `filter_map` closure
     which, PER PULLED CONTEXT, runs `compute_component(.., &mut cloned_carrier, fold_component, ..)`
     (resolver constructions = take/put on the CLONE) over the neighbours of that context and collects
     the result (`collect_fold_elements`).  The closure computing the fold's outputs owns a second clone
     and does take / resolve_property / put on it for every output name, per pulled context.
     Plan step [Nested true inner nb fin]: `inner` is the plan of the fold component (respectively the
     sequence of output resolvers), `nb` yields the inner source (the neighbours / the fold elements),
     `fin` is what the closure makes of the outer context and the collected list (None = dropped by
     `?` / filter_map).  [Nested false ..] is the sharing pattern WITHOUT the clone (the closure uses
     the cell of its constructor): issue #205.
   * A carrier is a one-slot cell `Option<InterpretedQuery>`: [store] = one boolean per cell
     (true = holds the query); `clone()` allocates a new cell with the same content.

   Iterators are stages with state; [pull] is `Iterator::next`.  Unbounded loops (filter_map /
   flat_map skipping, collecting) consume explicit fuel; running out of fuel is the distinguished
   outcome [Bad OutOfFuel] (PullProofs.v proves it does not happen for large enough fuel).

   Not modelled: the values inside contexts (abstract type A; every closure is an arbitrary function),
   early termination of collect_fold_elements (`take(max+1)`), Rust ownership itself. *)
From Coq Require Import String DecimalString List Arith Bool ZArith.
Import ListNotations.

Inductive err := OutOfFuel | Panicked (site : string).
Inductive out (X : Type) := Bad (e : err) | Good (x : X).
Arguments Bad {X} e.
Arguments Good {X} x.

Definition bind {X Y : Type} (r : out X) (f : X -> out Y) : out Y :=
  match r with Bad e => Bad e | Good x => f x end.

(* ------------------------------------------------------------------ carriers *)

Definition cell := nat.
Definition store := list bool.

Fixpoint upd (c : cell) (b : bool) (st : store) : store :=
  match st, c with
  | [], _ => []
  | _ :: r, O => b :: r
  | x :: r, S c => x :: upd c b r
  end.

Definition full (st : store) (c : cell) : bool := nth c st false.

(* `carrier.query.take().expect("query was not returned")` *)
Definition take_cell (c : cell) (st : store) : out store :=
  if full st c then Good (upd c false st) else Bad (Panicked "query was not returned").
(* `carrier.query = Some(..)` *)
Definition put_cell (c : cell) (st : store) : store := upd c true st.
(* `carrier.clone()` *)
Definition clone_cell (c : cell) (st : store) : cell * store := (length st, st ++ [full st c]).

(* ------------------------------------------------------------------ schedules *)

(* VariableChunkIterator::new: the first chunk is pre-fetched by the constructor.  The empty schedule
   is the adapter that does not read ahead at all. *)
Definition first_chunk (sched : list nat) : nat * list nat :=
  match sched with [] => (0, []) | k :: r => (k, r) end.
(* VariableChunkIterator::next on an empty buffer: one element, then chunk-1 more. *)
Definition next_chunk (sched : list nat) : nat * list nat :=
  match sched with [] => (1, []) | k :: r => (k, r) end.

Section Pull.
Variable A : Type.

(* what execution.rs builds, step by step, on top of an input iterator *)
Inductive plan :=
| Done
| Resolve (sched : list nat) (k : A -> list A) (rest : plan)
| Nested (own : bool) (inner : plan) (nb : A -> list A) (fin : A -> list A -> option A) (rest : plan).

(* iterators (with their state) *)
Inductive stage :=
| Src (l : list A)                                              (* vec::IntoIter *)
| FlatMapS (f : A -> list A) (cur : list A) (u : stage)         (* map / filter_map / flat_map *)
| Buf (sched : list nat) (buf : list A) (u : stage)             (* VariableChunkIterator *)
| NestS (c : cell) (inner : plan) (nb : A -> list A) (fin : A -> list A -> option A) (u : stage).

(* `map f` and `filter_map f` are flat_map with at most one element per input: same pull order *)
Definition MapS (f : A -> A) (u : stage) : stage := FlatMapS (fun x => [f x]) [] u.
Definition FilterMapS (f : A -> option A) (u : stage) : stage :=
  FlatMapS (fun x => match f x with Some y => [y] | None => [] end) [] u.

Fixpoint pull (n : nat) (s : stage) (st : store) {struct n} : out (option A * stage * store) :=
  match n with
  | O => Bad OutOfFuel
  | S n =>
    match s with
    | Src [] => Good (None, Src [], st)
    | Src (x :: l) => Good (Some x, Src l, st)
    | FlatMapS f (y :: cur) u => Good (Some y, FlatMapS f cur u, st)
    | FlatMapS f [] u =>
        bind (pull n u st) (fun r =>
          match r with
          | (None, u', st') => Good (None, FlatMapS f [] u', st')
          | (Some x, u', st') => pull n (FlatMapS f (f x) u') st'
          end)
    | Buf sched (x :: b) u => Good (Some x, Buf sched b u, st)
    | Buf sched [] u =>
        bind (pull n u st) (fun r =>
          match r with
          | (None, u', st') => Good (None, Buf sched [] u', st')
          | (Some x, u', st') =>
              let (k, sched') := next_chunk sched in
              bind (take n (k - 1) u' st') (fun r2 =>
                match r2 with (xs, u'', st'') => Good (Some x, Buf sched' xs u'', st'') end)
          end)
    | NestS c inner nb fin u =>
        bind (pull n u st) (fun r =>
          match r with
          | (None, u', st') => Good (None, NestS c inner nb fin u', st')
          | (Some x, u', st') =>
              (* compute_component(.., &mut cloned_carrier, ..) over the neighbours, then collect *)
              bind (build n c inner (Src (nb x)) st') (fun r2 =>
                match r2 with (si, st1) =>
                  bind (drain n si st1) (fun r3 =>
                    match r3 with (elems, st2) =>
                      match fin x elems with
                      | Some y => Good (Some y, NestS c inner nb fin u', st2)
                      | None => pull n (NestS c inner nb fin u') st2
                      end
                    end)
                end)
          end)
    end
  end

(* `iter.by_ref().take(k)` collected: stops at the first None *)
with take (n : nat) (k : nat) (s : stage) (st : store) {struct n} : out (list A * stage * store) :=
  match n with
  | O => Bad OutOfFuel
  | S n =>
    match k with
    | O => Good ([], s, st)
    | S k =>
        bind (pull n s st) (fun r =>
          match r with
          | (None, s', st') => Good ([], s', st')
          | (Some x, s', st') =>
              bind (take n k s' st') (fun r2 =>
                match r2 with (xs, s'', st'') => Good (x :: xs, s'', st'') end)
          end)
    end
  end

(* `.collect()` *)
with drain (n : nat) (s : stage) (st : store) {struct n} : out (list A * store) :=
  match n with
  | O => Bad OutOfFuel
  | S n =>
      bind (pull n s st) (fun r =>
        match r with
        | (None, _, st') => Good ([], st')
        | (Some x, s', st') =>
            bind (drain n s' st') (fun r2 => match r2 with (xs, st'') => Good (x :: xs, st'') end)
        end)
  end

(* construction of the iterator of one component with carrier cell c *)
with build (n : nat) (c : cell) (p : plan) (up : stage) (st : store) {struct n} : out (stage * store) :=
  match n with
  | O => Bad OutOfFuel
  | S n =>
    match p with
    | Done => Good (up, st)
    | Resolve sched k rest =>
        bind (take_cell c st) (fun st1 =>
          let (k0, sched') := first_chunk sched in
          (* the adapter call: the (possibly eager) resolver is constructed while the cell is empty *)
          bind (take n k0 up st1) (fun r =>
            match r with (xs, up', st2) =>
              build n c rest (FlatMapS k [] (Buf sched' xs up')) (put_cell c st2)
            end))
    | Nested own inner nb fin rest =>
        let (c', st1) := if own then clone_cell c st else (c, st) in
        build n c rest (NestS c' inner nb fin up) st1
    end
  end.

(* the engine's whole run: one carrier holding the query, build over the source, collect *)
Definition run (n : nat) (p : plan) (src : list A) : out (list A) :=
  bind (build n 0 p (Src src) [true]) (fun r =>
    match r with (s, st) =>
      bind (drain n s st) (fun r2 => Good (fst r2))
    end).

(* drain of a stage that owns no cells (fold-free pipelines) *)
Definition to_list (n : nat) (s : stage) : out (list A) :=
  bind (drain n s []) (fun r => Good (fst r)).

(* the eager constructor of VariableChunkIterator around an existing stage *)
Definition Buffered (n : nat) (sched : list nat) (s : stage) : out stage :=
  let (k0, sched') := first_chunk sched in
  bind (take n k0 s []) (fun r => match r with (xs, s', _) => Good (Buf sched' xs s') end).

(* ------------------------------------------------------------------ list semantics (schedule-free) *)

Definition omap (f : A -> option A) (l : list A) : list A :=
  flat_map (fun x => match f x with Some y => [y] | None => [] end) l.

Fixpoint denP (p : plan) (l : list A) : list A :=
  match p with
  | Done => l
  | Resolve _ k rest => denP rest (flat_map k l)
  | Nested _ inner nb fin rest => denP rest (omap (fun x => fin x (denP inner (nb x))) l)
  end.

Fixpoint den (s : stage) : list A :=
  match s with
  | Src l => l
  | FlatMapS f cur u => cur ++ flat_map f (den u)
  | Buf _ b u => b ++ den u
  | NestS _ inner nb fin u => omap (fun x => fin x (denP inner (nb x))) (den u)
  end.

(* ------------------------------------------------------------------ carrier discipline *)

(* every closure that constructs resolvers at pull time owns a clone *)
Fixpoint well_cloned (p : plan) : Prop :=
  match p with
  | Done => True
  | Resolve _ _ rest => well_cloned rest
  | Nested own inner _ _ rest => own = true /\ well_cloned inner /\ well_cloned rest
  end.

(* cells owned by the closures of a stage, and the plans they will run *)
Fixpoint cells (s : stage) : list cell :=
  match s with
  | Src _ => []
  | FlatMapS _ _ u => cells u
  | Buf _ _ u => cells u
  | NestS c _ _ _ u => c :: cells u
  end.

Fixpoint wc_stage (s : stage) : Prop :=
  match s with
  | Src _ => True
  | FlatMapS _ _ u => wc_stage u
  | Buf _ _ u => wc_stage u
  | NestS _ inner _ _ u => well_cloned inner /\ wc_stage u
  end.

(* replacing the schedules of a plan (the family of resolvers is the whole plan, nested ones included) *)
Fixpoint same_plan (p q : plan) : Prop :=
  match p, q with
  | Done, Done => True
  | Resolve _ k r, Resolve _ k' r' => k = k' /\ same_plan r r'
  | Nested o i nb fin r, Nested o' i' nb' fin' r' =>
      o = o' /\ nb = nb' /\ fin = fin' /\ same_plan i i' /\ same_plan r r'
  | _, _ => False
  end.

(* same pipeline, possibly different buffers / positions / schedules / extra Buf stages *)
Inductive sim : stage -> stage -> Prop :=
| sim_src : forall l l', sim (Src l) (Src l')
| sim_flat : forall f cur cur' u u', sim u u' -> sim (FlatMapS f cur u) (FlatMapS f cur' u')
| sim_buf : forall sc sc' b b' u u', sim u u' -> sim (Buf sc b u) (Buf sc' b' u')
| sim_nest : forall c c' inner nb fin u u', sim u u' -> sim (NestS c inner nb fin u) (NestS c' inner nb fin u').

(* s2 is s1 with other schedules, and with empty buffers inserted or removed anywhere (also inside the
   plans that closures will run) *)
Inductive rebuf : stage -> stage -> Prop :=
| rb_src : forall l, rebuf (Src l) (Src l)
| rb_flat : forall f cur u u', rebuf u u' -> rebuf (FlatMapS f cur u) (FlatMapS f cur u')
| rb_buf : forall sc sc' b u u', rebuf u u' -> rebuf (Buf sc b u) (Buf sc' b u')
| rb_ins : forall sc u u', rebuf u u' -> rebuf u (Buf sc [] u')
| rb_del : forall sc u u', rebuf u u' -> rebuf (Buf sc [] u) u'
| rb_nest : forall c c' inner inner' nb fin u u',
    same_plan inner inner' -> rebuf u u' -> rebuf (NestS c inner nb fin u) (NestS c' inner' nb fin u').

End Pull.

Arguments Done {A}.
Arguments Resolve {A} sched k rest.
Arguments Nested {A} own inner nb fin rest.
Arguments Src {A} l.
Arguments FlatMapS {A} f cur u.
Arguments Buf {A} sched buf u.
Arguments NestS {A} c inner nb fin u.
Arguments MapS {A} f u.
Arguments FilterMapS {A} f u.
Arguments pull {A} n s st.
Arguments take {A} n k s st.
Arguments drain {A} n s st.
Arguments build {A} n c p up st.
Arguments run {A} n p src.
Arguments to_list {A} n s.
Arguments Buffered {A} n sched s.
Arguments omap {A} f l.
Arguments denP {A} p l.
Arguments den {A} s.
Arguments well_cloned {A} p.
Arguments cells {A} s.
Arguments wc_stage {A} s.
Arguments same_plan {A} p q.
Arguments sim {A} _ _.
Arguments sim_src {A} l l'.
Arguments sim_flat {A} f cur cur' u u' _.
Arguments sim_buf {A} sc sc' b b' u u' _.
Arguments sim_nest {A} c c' inner nb fin u u' _.
Arguments rebuf {A} _ _.

(* ------------------------------------------------------------------ the instance used by the tie
   (harness/src/bin/tfh_pull.rs builds the same pipelines from real Rust iterators, closures,
   RefCell<Option<..>> carriers and a VariableChunkIterator with list schedules) *)

Local Open Scope Z_scope.

Inductive fn := FInc (k : Z) | FKeep (m r : Z) | FRep (m : Z) | FPair (k : Z).
Definition app_fn (f : fn) (x : Z) : list Z :=
  match f with
  | FInc k => [x + k]
  | FKeep m r => if Z.eqb (Z.modulo x m) r then [x] else []
  | FRep m => repeat x (Z.to_nat (Z.modulo x m))
  | FPair k => [x; x * 2 + k]
  end.

Inductive finf := FinSum | FinNonEmpty | FinLenMod (m : Z).
Definition zsum (l : list Z) : Z := fold_left Z.add l 0.
Definition app_fin (g : finf) (x : Z) (l : list Z) : option Z :=
  match g with
  | FinSum => Some (x + zsum l)
  | FinNonEmpty => match l with [] => None | _ => Some (x * 10 + Z.of_nat (length l)) end
  | FinLenMod m => if Z.eqb (Z.modulo (Z.of_nat (length l)) m) 0 then Some (x + zsum l) else None
  end.

Inductive splan :=
| SDone
| SResolve (sched : list nat) (k : fn) (rest : splan)
| SNested (own : bool) (inner : splan) (nb : fn) (g : finf) (rest : splan).

Fixpoint plan_of (p : splan) : plan Z :=
  match p with
  | SDone => Done
  | SResolve sc k r => Resolve sc (app_fn k) (plan_of r)
  | SNested o i nb g r => Nested o (plan_of i) (app_fn nb) (app_fin g) (plan_of r)
  end.

Local Open Scope string_scope.

Definition show_z (z : Z) : string := DecimalString.NilZero.string_of_int (Z.to_int z).

Definition show_run (r : out (list Z)) : string :=
  match r with
  | Good l => "ROWS:" ++ String.concat "," (map show_z l)
  | Bad OutOfFuel => "FUEL"
  | Bad (Panicked _) => "PANIC"
  end.

Definition tie_fuel : nat := N.to_nat 3000.

(* `sp` over source `src` *)
Definition run_show (sp : splan) (src : list Z) : string := show_run (run tie_fuel (plan_of sp) src).
