(* PullProofs.v — C02: the pull machine of Pull.v computes the schedule-free list semantics, never
   takes an empty carrier when every pull-time closure owns a clone, and terminates. *)
From Coq Require Import String List Arith Bool Lia ZArith.
From TF Require Import Pull.
Import ListNotations.

(* ------------------------------------------------------------------ outcomes *)

Definition settled {X} (r : out X) : Prop := r <> Bad OutOfFuel.

(* r' is r with (possibly) more fuel *)
Definition le_out {X} (r r' : out X) : Prop := r = Bad OutOfFuel \/ r = r'.

Lemma le_out_refl : forall X (r : out X), le_out r r.
Proof. intros; right; reflexivity. Qed.

Lemma le_out_bind : forall X Y (r r' : out X) (f f' : X -> out Y),
  le_out r r' -> (forall x, le_out (f x) (f' x)) -> le_out (bind r f) (bind r' f').
Proof.
  intros X Y r r' f f' [Hr | Hr] Hf.
  - subst r. left. reflexivity.
  - subst r'. destruct r as [e | x]; cbn.
    + right. reflexivity.
    + apply Hf.
Qed.

Lemma le_out_settled : forall X (r r' : out X), le_out r r' -> settled r -> r' = r.
Proof. intros X r r' [H | H] Hs; [contradiction | symmetry; exact H]. Qed.

(* properties of good results *)
Definition sat {X} (P : X -> Prop) (r : out X) : Prop :=
  match r with Good x => P x | Bad _ => True end.

Lemma sat_bind : forall X Y (Q : X -> Prop) (P : Y -> Prop) (r : out X) (f : X -> out Y),
  sat Q r -> (forall x, Q x -> sat P (f x)) -> sat P (bind r f).
Proof. intros X Y Q P [e | x] f Hr Hf; cbn in *; auto. Qed.

(* good or out of fuel, never a panic *)
Definition safe {X} (P : X -> Prop) (r : out X) : Prop :=
  match r with Good x => P x | Bad OutOfFuel => True | Bad (Panicked _) => False end.

Lemma safe_bind : forall X Y (Q : X -> Prop) (P : Y -> Prop) (r : out X) (f : X -> out Y),
  safe Q r -> (forall x, Q x -> safe P (f x)) -> safe P (bind r f).
Proof. intros X Y Q P [[| m] | x] f Hr Hf; cbn in *; auto. Qed.

Lemma safe_impl : forall X (P Q : X -> Prop) (r : out X),
  (forall x, P x -> Q x) -> safe P r -> safe Q r.
Proof. intros X P Q [[| m] | x] H Hs; cbn in *; auto. Qed.

Lemma safe_good : forall X (P : X -> Prop) (r : out X) x, safe P r -> r = Good x -> P x.
Proof. intros; subst; assumption. Qed.

Lemma safe_no_panic : forall X (P : X -> Prop) (r : out X) m, safe P r -> r <> Bad (Panicked m).
Proof. intros X P r m H E; subst; exact H. Qed.

(* ------------------------------------------------------------------ stores *)

Lemma full_lt : forall st c, full st c = true -> c < length st.
Proof.
  unfold full. induction st as [| b st IH]; intros [| c] H; cbn in *; try discriminate; try lia.
  apply IH in H. lia.
Qed.

Lemma full_upd_other : forall st c c' b, c <> c' -> full (upd c b st) c' = full st c'.
Proof.
  unfold full. induction st as [| x st IH]; intros [| c] [| c'] b H; cbn; try reflexivity; try congruence.
  apply IH. congruence.
Qed.

Lemma upd_app : forall st c b e, c < length st -> upd c b (st ++ e) = upd c b st ++ e.
Proof.
  induction st as [| x st IH]; intros [| c] b e H; cbn in *; try lia; try reflexivity.
  rewrite IH by lia. reflexivity.
Qed.

Lemma upd_upd : forall st c b b', upd c b (upd c b' st) = upd c b st.
Proof.
  induction st as [| x st IH]; intros [| c] b b'; cbn; try reflexivity.
  rewrite IH. reflexivity.
Qed.

Lemma upd_same : forall st c, full st c = true -> upd c true st = st.
Proof.
  unfold full. induction st as [| x st IH]; intros [| c] H; cbn in *; try reflexivity; try discriminate.
  - subst. reflexivity.
  - rewrite IH by assumption. reflexivity.
Qed.

Lemma full_app : forall st e c, full st c = true -> full (st ++ e) c = true.
Proof.
  intros st e c H. unfold full in *. rewrite app_nth1; [assumption |]. apply full_lt. exact H.
Qed.

Lemma full_new : forall st b, full (st ++ [b]) (length st) = b.
Proof. intros. unfold full. rewrite app_nth2 by lia. rewrite Nat.sub_diag. reflexivity. Qed.

(* st' is st with new full cells appended *)
Definition ext (st st' : store) : Prop := exists e, st' = st ++ e /\ Forall (fun b => b = true) e.

Lemma ext_refl : forall st, ext st st.
Proof. intros. exists []. rewrite app_nil_r. split; [reflexivity | constructor]. Qed.

Lemma ext_trans : forall a b c, ext a b -> ext b c -> ext a c.
Proof.
  intros a b c (e1 & -> & H1) (e2 & -> & H2). exists (e1 ++ e2). rewrite app_assoc. split; [reflexivity |].
  apply Forall_app. split; assumption.
Qed.

Lemma ext_full : forall st st' c, ext st st' -> full st c = true -> full st' c = true.
Proof. intros st st' c (e & -> & _) H. apply full_app. exact H. Qed.

(* take; (the store grows); put *)
Lemma take_put : forall st c st2,
  full st c = true -> ext (upd c false st) st2 -> ext st (put_cell c st2).
Proof.
  intros st c st2 Hf (e & -> & He). exists e. split; [| exact He].
  unfold put_cell. rewrite upd_app.
  - rewrite upd_upd. rewrite upd_same by exact Hf. reflexivity.
  - assert (Hl : forall s c b, length (upd c b s) = length s).
    { induction s as [| x s IH]; intros [| k] b; cbn; try reflexivity. rewrite IH. reflexivity. }
    rewrite Hl. apply full_lt. exact Hf.
Qed.

Section PullProofs.
Variable A : Type.
Notation stage := (stage A).
Notation plan := (plan A).

(* ------------------------------------------------------------------ unfolding equations *)

Lemma pull_S : forall n (s : stage) st, pull (S n) s st =
    match s with
    | Src [] => Good (None, Src [], st)
    | Src (x :: l) => Good (Some x, Src l, st)
    | FlatMapS f (y :: cur) u => Good (Some y, FlatMapS f cur u, st)
    | FlatMapS f [] u =>
        bind (pull n u st) (fun r =>
          match r with
          | (None, u', st') => Good (None, FlatMapS f [] u', st')
          | (Some x, u', st') => pull n (FlatMapS f (f x) u') st'
          end)
    | Buf sched (x :: b) u => Good (Some x, Buf sched b u, st)
    | Buf sched [] u =>
        bind (pull n u st) (fun r =>
          match r with
          | (None, u', st') => Good (None, Buf sched [] u', st')
          | (Some x, u', st') =>
              let (k, sched') := next_chunk sched in
              bind (take n (k - 1) u' st') (fun r2 =>
                match r2 with (xs, u'', st'') => Good (Some x, Buf sched' xs u'', st'') end)
          end)
    | NestS c inner nb fin u =>
        bind (pull n u st) (fun r =>
          match r with
          | (None, u', st') => Good (None, NestS c inner nb fin u', st')
          | (Some x, u', st') =>
              bind (build n c inner (Src (nb x)) st') (fun r2 =>
                match r2 with (si, st1) =>
                  bind (drain n si st1) (fun r3 =>
                    match r3 with (elems, st2) =>
                      match fin x elems with
                      | Some y => Good (Some y, NestS c inner nb fin u', st2)
                      | None => pull n (NestS c inner nb fin u') st2
                      end
                    end)
                end)
          end)
    end.
Proof. reflexivity. Qed.

Lemma take_S : forall n k (s : stage) st, take (S n) k s st =
    match k with
    | O => Good ([], s, st)
    | S k =>
        bind (pull n s st) (fun r =>
          match r with
          | (None, s', st') => Good ([], s', st')
          | (Some x, s', st') =>
              bind (take n k s' st') (fun r2 =>
                match r2 with (xs, s'', st'') => Good (x :: xs, s'', st'') end)
          end)
    end.
Proof. reflexivity. Qed.

Lemma drain_S : forall n (s : stage) st, drain (S n) s st =
    bind (pull n s st) (fun r =>
      match r with
      | (None, _, st') => Good ([], st')
      | (Some x, s', st') =>
          bind (drain n s' st') (fun r2 => match r2 with (xs, st'') => Good (x :: xs, st'') end)
      end).
Proof. reflexivity. Qed.

Lemma build_S : forall n c (p : plan) (up : stage) st, build (S n) c p up st =
    match p with
    | Done => Good (up, st)
    | Resolve sched k rest =>
        bind (take_cell c st) (fun st1 =>
          let (k0, sched') := first_chunk sched in
          bind (take n k0 up st1) (fun r =>
            match r with (xs, up', st2) =>
              build n c rest (FlatMapS k [] (Buf sched' xs up')) (put_cell c st2)
            end))
    | Nested own inner nb fin rest =>
        let (c', st1) := if own then clone_cell c st else (c, st) in
        build n c rest (NestS c' inner nb fin up) st1
    end.
Proof. reflexivity. Qed.

Lemma pull_0 : forall (s : stage) st, pull 0 s st = Bad OutOfFuel.
Proof. reflexivity. Qed.
Lemma take_0 : forall k (s : stage) st, take 0 k s st = Bad OutOfFuel.
Proof. reflexivity. Qed.
Lemma drain_0 : forall (s : stage) st, drain 0 s st = Bad OutOfFuel.
Proof. reflexivity. Qed.
Lemma build_0 : forall c (p : plan) (up : stage) st, build 0 c p up st = Bad OutOfFuel.
Proof. reflexivity. Qed.

Opaque pull take drain build.

(* ------------------------------------------------------------------ more fuel never changes a settled result *)

Lemma mono_all : forall n,
  (forall m (s : stage) st, n <= m -> le_out (pull n s st) (pull m s st)) /\
  (forall m k (s : stage) st, n <= m -> le_out (take n k s st) (take m k s st)) /\
  (forall m (s : stage) st, n <= m -> le_out (drain n s st) (drain m s st)) /\
  (forall m c (p : plan) (up : stage) st, n <= m -> le_out (build n c p up st) (build m c p up st)).
Proof.
  induction n as [| n IH].
  - repeat split; intros; left; reflexivity.
  - destruct IH as (IHp & IHt & IHd & IHb).
    repeat split.
    + intros [| m] s st Hle; [lia |]. assert (Hnm : n <= m) by lia.
      rewrite !pull_S. destruct s as [l | f cur u | sc b u | c inner nb fin u].
      * apply le_out_refl.
      * destruct cur; [| apply le_out_refl].
        apply le_out_bind; [apply IHp; exact Hnm |].
        intros [[[x |] u'] st']; [apply IHp; exact Hnm | apply le_out_refl].
      * destruct b; [| apply le_out_refl].
        apply le_out_bind; [apply IHp; exact Hnm |].
        intros [[[x |] u'] st']; [| apply le_out_refl].
        destruct (next_chunk sc) as [k sc'].
        apply le_out_bind; [apply IHt; exact Hnm |].
        intros [[xs u''] st'']. apply le_out_refl.
      * apply le_out_bind; [apply IHp; exact Hnm |].
        intros [[[x |] u'] st']; [| apply le_out_refl].
        apply le_out_bind; [apply IHb; exact Hnm |].
        intros [si st1].
        apply le_out_bind; [apply IHd; exact Hnm |].
        intros [elems st2]. destruct (fin x elems); [apply le_out_refl | apply IHp; exact Hnm].
    + intros [| m] k s st Hle; [lia |]. assert (Hnm : n <= m) by lia.
      rewrite !take_S. destruct k; [apply le_out_refl |].
      apply le_out_bind; [apply IHp; exact Hnm |].
      intros [[[x |] s'] st']; [| apply le_out_refl].
      apply le_out_bind; [apply IHt; exact Hnm |].
      intros [[xs s''] st'']. apply le_out_refl.
    + intros [| m] s st Hle; [lia |]. assert (Hnm : n <= m) by lia.
      rewrite !drain_S.
      apply le_out_bind; [apply IHp; exact Hnm |].
      intros [[[x |] s'] st']; [| apply le_out_refl].
      apply le_out_bind; [apply IHd; exact Hnm |].
      intros [xs st'']. apply le_out_refl.
    + intros [| m] c p up st Hle; [lia |]. assert (Hnm : n <= m) by lia.
      rewrite !build_S. destruct p as [| sc k rest | own inner nb fin rest].
      * apply le_out_refl.
      * apply le_out_bind; [apply le_out_refl |].
        intros st1. destruct (first_chunk sc) as [k0 sc'].
        apply le_out_bind; [apply IHt; exact Hnm |].
        intros [[xs up'] st2]. apply IHb; exact Hnm.
      * destruct (if own then clone_cell c st else (c, st)) as [c' st1]. apply IHb; exact Hnm.
Qed.

Lemma pull_mono : forall n m (s : stage) st, n <= m -> settled (pull n s st) -> pull m s st = pull n s st.
Proof. intros n m s st H Hs. apply le_out_settled; [apply (proj1 (mono_all n)); exact H | exact Hs]. Qed.
Lemma take_mono : forall n m k (s : stage) st, n <= m -> settled (take n k s st) -> take m k s st = take n k s st.
Proof. intros n m k s st H Hs. apply le_out_settled; [apply (proj1 (proj2 (mono_all n))); exact H | exact Hs]. Qed.
Lemma drain_mono : forall n m (s : stage) st, n <= m -> settled (drain n s st) -> drain m s st = drain n s st.
Proof. intros n m s st H Hs. apply le_out_settled; [apply (proj1 (proj2 (proj2 (mono_all n)))); exact H | exact Hs]. Qed.
Lemma build_mono : forall n m c (p : plan) (up : stage) st,
  n <= m -> settled (build n c p up st) -> build m c p up st = build n c p up st.
Proof. intros n m c p up st H Hs. apply le_out_settled; [apply (proj2 (proj2 (proj2 (mono_all n)))); exact H | exact Hs]. Qed.

(* ------------------------------------------------------------------ the machine computes the list semantics *)

Lemma sat_impl : forall X (P Q : X -> Prop) (r : out X), (forall x, P x -> Q x) -> sat P r -> sat Q r.
Proof. intros X P Q [e | x] H Hs; cbn in *; auto. Qed.

Definition pull_ok (s : stage) (r : option A * stage * store) : Prop :=
  match r with
  | (Some x, s', _) => den s = x :: den s'
  | (None, s', _) => den s = [] /\ den s' = []
  end.

Lemma pull_ok_den : forall s1 s2 r, den s1 = den s2 -> pull_ok s1 r -> pull_ok s2 r.
Proof. intros s1 s2 [[[x |] s'] st'] E H; cbn in *; rewrite <- E; exact H. Qed.

Definition take_ok (k : nat) (s : stage) (r : list A * stage * store) : Prop :=
  match r with (xs, s', _) => den s = xs ++ den s' /\ length xs <= k end.

Lemma sound_all : forall n,
  (forall (s : stage) st, sat (pull_ok s) (pull n s st)) /\
  (forall k (s : stage) st, sat (take_ok k s) (take n k s st)) /\
  (forall (s : stage) st, sat (fun r => fst r = den s) (drain n s st)) /\
  (forall c (p : plan) (up : stage) st, sat (fun r => den (fst r) = denP p (den up)) (build n c p up st)).
Proof.
  induction n as [| n IH].
  - repeat split; intros; exact I.
  - destruct IH as (IHp & IHt & IHd & IHb).
    repeat split.
    + intros s st. rewrite pull_S. destruct s as [l | f cur u | sc b u | c inner nb fin u].
      * destruct l; cbn; auto.
      * destruct cur as [| y cur]; [| cbn; reflexivity].
        eapply sat_bind; [apply IHp |].
        intros [[[x |] u'] st'] Hq; cbn in Hq.
        -- eapply sat_impl; [| apply IHp]. intros r Hr. eapply pull_ok_den; [| exact Hr].
           cbn. rewrite Hq. cbn. reflexivity.
        -- destruct Hq as [E1 E2]. cbn. rewrite E1, E2. cbn. auto.
      * destruct b as [| y b]; [| cbn; reflexivity].
        eapply sat_bind; [apply IHp |].
        intros [[[x |] u'] st'] Hq; cbn in Hq.
        -- destruct (next_chunk sc) as [k sc'].
           eapply sat_bind; [apply IHt |].
           intros [[xs u''] st''] [Ht _]. cbn. rewrite Hq, Ht. reflexivity.
        -- destruct Hq as [E1 E2]. cbn. rewrite E1, E2. auto.
      * eapply sat_bind; [apply IHp |].
        intros [[[x |] u'] st'] Hq; cbn in Hq.
        -- eapply sat_bind; [apply IHb |].
           intros [si st1] Hb. cbn in Hb.
           eapply sat_bind; [apply IHd |].
           intros [elems st2] Hd. cbn in Hd. subst elems. rewrite Hb.
           destruct (fin x (denP inner (nb x))) as [y |] eqn:Ef.
           ++ cbn. rewrite Hq. cbn. rewrite Ef. reflexivity.
           ++ eapply sat_impl; [| apply IHp]. intros r Hr. eapply pull_ok_den; [| exact Hr].
              cbn. rewrite Hq. cbn. rewrite Ef. reflexivity.
        -- destruct Hq as [E1 E2]. cbn. rewrite E1, E2. cbn. auto.
    + intros k s st. rewrite take_S. destruct k as [| k]; [cbn; auto |].
      eapply sat_bind; [apply IHp |].
      intros [[[x |] s'] st'] Hq; cbn in Hq.
      * eapply sat_bind; [apply IHt |].
        intros [[xs s''] st''] [Ht Hl]. cbn. rewrite Hq, Ht. split; [reflexivity | lia].
      * destruct Hq as [E1 E2]. cbn. rewrite E1, E2. split; [reflexivity | lia].
    + intros s st. rewrite drain_S.
      eapply sat_bind; [apply IHp |].
      intros [[[x |] s'] st'] Hq; cbn in Hq.
      * eapply sat_bind; [apply IHd |].
        intros [xs st''] Hd. cbn in *. rewrite Hq, Hd. reflexivity.
      * destruct Hq as [E1 _]. cbn. rewrite E1. reflexivity.
    + intros c p up st. rewrite build_S. destruct p as [| sc k rest | own inner nb fin rest].
      * cbn. reflexivity.
      * eapply sat_bind with (Q := fun _ => True); [destruct (take_cell c st); exact I |].
        intros st1 _. destruct (first_chunk sc) as [k0 sc'].
        eapply sat_bind; [apply IHt |].
        intros [[xs up'] st2] [Ht _].
        eapply sat_impl; [| apply IHb]. intros r Hr. rewrite Hr. cbn. rewrite Ht. reflexivity.
      * destruct (if own then clone_cell c st else (c, st)) as [c' st1].
        eapply sat_impl; [| apply IHb]. intros r Hr. rewrite Hr. cbn. reflexivity.
Qed.

Lemma pull_sound : forall n (s : stage) st o s' st',
  pull n s st = Good (o, s', st') ->
  match o with Some x => den s = x :: den s' | None => den s = [] /\ den s' = [] end.
Proof.
  intros n s st o s' st' H. pose proof (proj1 (sound_all n) s st) as Hs. rewrite H in Hs.
  destruct o; exact Hs.
Qed.

Lemma take_sound : forall n k (s : stage) st xs s' st',
  take n k s st = Good (xs, s', st') -> den s = xs ++ den s' /\ length xs <= k.
Proof.
  intros n k s st xs s' st' H. pose proof (proj1 (proj2 (sound_all n)) k s st) as Hs. rewrite H in Hs. exact Hs.
Qed.

Lemma drain_sound : forall n (s : stage) st l st', drain n s st = Good (l, st') -> l = den s.
Proof.
  intros n s st l st' H. pose proof (proj1 (proj2 (proj2 (sound_all n))) s st) as Hs. rewrite H in Hs. exact Hs.
Qed.

Lemma build_sound : forall n c (p : plan) (up : stage) st s' st',
  build n c p up st = Good (s', st') -> den s' = denP p (den up).
Proof.
  intros n c p up st s' st' H. pose proof (proj2 (proj2 (proj2 (sound_all n))) c p up st) as Hs.
  rewrite H in Hs. exact Hs.
Qed.

(* ------------------------------------------------------------------ no take ever finds its cell empty *)

Definition allfull (st : store) (s : stage) : Prop := Forall (fun c => full st c = true) (cells s).

Lemma allfull_ext : forall st st' (s s' : stage),
  allfull st s -> ext st st' -> cells s' = cells s -> allfull st' s'.
Proof.
  intros st st' s s' H He Hc. unfold allfull in *. rewrite Hc.
  eapply Forall_impl; [| exact H]. intros c Hf. eapply ext_full; eassumption.
Qed.

Definition pull_safe (st : store) (s : stage) (r : option A * stage * store) : Prop :=
  match r with (_, s', st') => ext st st' /\ cells s' = cells s /\ wc_stage s' end.
Definition take_safe (st : store) (s : stage) (r : list A * stage * store) : Prop :=
  match r with (_, s', st') => ext st st' /\ cells s' = cells s /\ wc_stage s' end.
Definition build_safe (st : store) (c : cell) (r : stage * store) : Prop :=
  match r with (s', st') => ext st st' /\ wc_stage s' /\ allfull st' s' /\ ~ In c (cells s') end.

Lemma safe_all : forall n,
  (forall (s : stage) st, wc_stage s -> allfull st s -> safe (pull_safe st s) (pull n s st)) /\
  (forall k (s : stage) st, wc_stage s -> allfull st s -> safe (take_safe st s) (take n k s st)) /\
  (forall (s : stage) st, wc_stage s -> allfull st s -> safe (fun r => ext st (snd r)) (drain n s st)) /\
  (forall c (p : plan) (up : stage) st,
     well_cloned p -> wc_stage up -> allfull st up -> full st c = true -> ~ In c (cells up) ->
     safe (build_safe st c) (build n c p up st)).
Proof.
  induction n as [| n IH].
  - repeat split; intros; exact I.
  - destruct IH as (IHp & IHt & IHd & IHb).
    repeat split.
    + intros s st Hwc Hfull. rewrite pull_S. destruct s as [l | f cur u | sc b u | c inner nb fin u].
      * destruct l; cbn; repeat split; auto using ext_refl.
      * cbn in Hwc. destruct cur as [| y cur]; [| cbn; repeat split; auto using ext_refl].
        eapply safe_bind; [apply IHp; assumption |].
        intros [[[x |] u'] st'] (He & Hc & Hw).
        -- eapply safe_impl; [| apply IHp; [exact Hw | eapply allfull_ext; eassumption]].
           intros [[o u2] st2] (He2 & Hc2 & Hw2). cbn in *. repeat split.
           ++ eapply ext_trans; eassumption.
           ++ congruence.
           ++ exact Hw2.
        -- cbn. repeat split; assumption.
      * cbn in Hwc. destruct b as [| y b]; [| cbn; repeat split; auto using ext_refl].
        eapply safe_bind; [apply IHp; assumption |].
        intros [[[x |] u'] st'] (He & Hc & Hw).
        -- destruct (next_chunk sc) as [k sc'].
           eapply safe_bind; [apply IHt; [exact Hw | eapply allfull_ext; eassumption] |].
           intros [[xs u2] st2] (He2 & Hc2 & Hw2). cbn in *. repeat split.
           ++ eapply ext_trans; eassumption.
           ++ congruence.
           ++ exact Hw2.
        -- cbn. repeat split; assumption.
      * cbn in Hwc. destruct Hwc as [Hwi Hwu].
        assert (Hfc : full st c = true) by (unfold allfull in Hfull; cbn in Hfull; inversion Hfull; assumption).
        assert (Hfu : allfull st u) by (unfold allfull in *; cbn in Hfull; inversion Hfull; assumption).
        eapply safe_bind; [apply IHp; assumption |].
        intros [[[x |] u'] st'] (He & Hc & Hw).
        -- eapply safe_bind.
           { apply IHb; [exact Hwi | exact I | constructor | eapply ext_full; eassumption | intros []]. }
           intros [si st1] (He1 & Hw1 & Hf1 & _).
           eapply safe_bind; [apply IHd; assumption |].
           intros [elems st2] He2. cbn in He2.
           assert (He02 : ext st st2) by (eapply ext_trans; [eapply ext_trans |]; eassumption).
           destruct (fin x elems) as [y |].
           ++ cbn. repeat split; [exact He02 | congruence | exact Hwi | exact Hw].
           ++ eapply safe_impl; [| apply IHp].
              ** intros [[o u2] st3] (He3 & Hc3 & Hw3). cbn in *. repeat split.
                 --- eapply ext_trans; eassumption.
                 --- congruence.
                 --- exact Hw3.
              ** cbn. split; assumption.
              ** unfold allfull. cbn. constructor.
                 --- eapply ext_full; eassumption.
                 --- exact (allfull_ext st st2 u u' Hfu He02 Hc).
        -- cbn. repeat split; try assumption. congruence.
    + intros k s st Hwc Hfull. rewrite take_S. destruct k as [| k]; [cbn; repeat split; auto using ext_refl |].
      eapply safe_bind; [apply IHp; assumption |].
      intros [[[x |] s'] st'] (He & Hc & Hw).
      * eapply safe_bind; [apply IHt; [exact Hw | eapply allfull_ext; eassumption] |].
        intros [[xs s2] st2] (He2 & Hc2 & Hw2). cbn in *. repeat split.
        -- eapply ext_trans; eassumption.
        -- congruence.
        -- exact Hw2.
      * cbn. repeat split; assumption.
    + intros s st Hwc Hfull. rewrite drain_S.
      eapply safe_bind; [apply IHp; assumption |].
      intros [[[x |] s'] st'] (He & Hc & Hw).
      * eapply safe_bind; [apply IHd; [exact Hw | eapply allfull_ext; eassumption] |].
        intros [xs st2] He2. cbn in *. eapply ext_trans; eassumption.
      * cbn. exact He.
    + intros c p up st Hp Hwu Hfu Hfc Hnin. rewrite build_S.
      destruct p as [| sc k rest | own inner nb fin rest].
      * cbn. repeat split; auto using ext_refl.
      * cbn in Hp. unfold take_cell. rewrite Hfc. cbn [bind].
        destruct (first_chunk sc) as [k0 sc'].
        assert (Hfu1 : allfull (upd c false st) up).
        { unfold allfull in *. rewrite Forall_forall in *. intros c' Hin.
          rewrite full_upd_other; [apply Hfu; exact Hin |]. intros ->. contradiction. }
        eapply safe_bind; [apply IHt; [exact Hwu | exact Hfu1] |].
        intros [[xs up'] st2] (He & Hc & Hw).
        assert (Hput : ext st (put_cell c st2)) by (apply take_put; assumption).
        eapply safe_impl; [| apply IHb].
        -- intros [s' st'] (He' & Hw' & Hf' & Hn'). cbn. repeat split; try assumption.
           eapply ext_trans; eassumption.
        -- exact Hp.
        -- cbn. exact Hw.
        -- eapply allfull_ext; [exact Hfu | exact Hput | cbn; exact Hc].
        -- eapply ext_full; eassumption.
        -- cbn. rewrite Hc. exact Hnin.
      * cbn in Hp. destruct Hp as (-> & Hpi & Hpr). cbn.
        assert (Hlt : c < length st) by (apply full_lt; exact Hfc).
        assert (Hext : ext st (st ++ [full st c])).
        { exists [full st c]. split; [reflexivity |]. rewrite Hfc. repeat constructor. }
        eapply safe_impl; [| apply IHb].
        -- intros [s' st'] (He' & Hw' & Hf' & Hn'). cbn. repeat split; try assumption.
           eapply ext_trans; eassumption.
        -- exact Hpr.
        -- cbn. split; assumption.
        -- unfold allfull. cbn. constructor.
           ++ rewrite full_new. exact Hfc.
           ++ eapply allfull_ext; [exact Hfu | exact Hext | reflexivity].
        -- eapply ext_full; eassumption.
        -- cbn. intros [E | Hin]; [lia | contradiction].
Qed.

(* ------------------------------------------------------------------ pulling keeps the shape *)

Lemma sim_refl : forall s : stage, sim s s.
Proof. induction s; constructor; assumption. Qed.

Lemma sim_trans : forall a b c : stage, sim a b -> sim b c -> sim a c.
Proof.
  intros a b c H. revert c. induction H; intros c0 H2; inversion H2; subst; constructor; auto.
Qed.

Lemma sat_true : forall X (r : out X), sat (fun _ => True) r.
Proof. intros X [e | x]; exact I. Qed.

Lemma sim_all : forall n,
  (forall (s : stage) st, sat (fun r => sim s (snd (fst r))) (pull n s st)) /\
  (forall k (s : stage) st, sat (fun r => sim s (snd (fst r))) (take n k s st)).
Proof.
  induction n as [| n IH].
  - split; intros; exact I.
  - destruct IH as (IHp & IHt). split.
    + intros s st. rewrite pull_S. destruct s as [l | f cur u | sc b u | c inner nb fin u].
      * destruct l; cbn; constructor.
      * destruct cur as [| y cur]; [| cbn; constructor; apply sim_refl].
        eapply sat_bind; [apply IHp |].
        intros [[[x |] u'] st'] Hq; cbn in Hq.
        -- eapply sat_impl; [| apply IHp]. intros [[o s2] st2] Hr. cbn in *.
           eapply sim_trans; [| exact Hr]. constructor. exact Hq.
        -- cbn. constructor. exact Hq.
      * destruct b as [| y b]; [| cbn; constructor; apply sim_refl].
        eapply sat_bind; [apply IHp |].
        intros [[[x |] u'] st'] Hq; cbn in Hq.
        -- destruct (next_chunk sc) as [k sc'].
           eapply sat_bind; [apply IHt |].
           intros [[xs u2] st2] Ht. cbn in *. constructor. eapply sim_trans; eassumption.
        -- cbn. constructor. exact Hq.
      * eapply sat_bind; [apply IHp |].
        intros [[[x |] u'] st'] Hq; cbn in Hq.
        -- eapply sat_bind; [apply sat_true |]. intros [si st1] _.
           eapply sat_bind; [apply sat_true |]. intros [elems st2] _.
           destruct (fin x elems).
           ++ cbn. constructor. exact Hq.
           ++ eapply sat_impl; [| apply IHp]. intros [[o s2] st3] Hr. cbn in *.
              eapply sim_trans; [| exact Hr]. constructor. exact Hq.
        -- cbn. constructor. exact Hq.
    + intros k s st. rewrite take_S. destruct k as [| k]; [cbn; apply sim_refl |].
      eapply sat_bind; [apply IHp |].
      intros [[[x |] s'] st'] Hq; cbn in Hq.
      * eapply sat_bind; [apply IHt |].
        intros [[xs s2] st2] Ht. cbn in *. eapply sim_trans; eassumption.
      * cbn. exact Hq.
Qed.

Lemma pull_sim : forall n (s : stage) st o s' st', pull n s st = Good (o, s', st') -> sim s s'.
Proof.
  intros n s st o s' st' H. pose proof (proj1 (sim_all n) s st) as Hs. rewrite H in Hs. exact Hs.
Qed.

Lemma take_sim : forall n k (s : stage) st xs s' st', take n k s st = Good (xs, s', st') -> sim s s'.
Proof.
  intros n k s st xs s' st' H. pose proof (proj2 (sim_all n) k s st) as Hs. rewrite H in Hs. exact Hs.
Qed.

(* ------------------------------------------------------------------ termination *)

Definition halts {X} (f : nat -> out X) : Prop := exists n, settled (f n).

(* every iterator of this shape answers every pull with finite fuel *)
Definition Tm (s : stage) : Prop := forall s2, sim s s2 -> forall st, halts (fun n => pull n s2 st).

Definition TmB (p : plan) : Prop :=
  forall c (up : stage) st, Tm up ->
    exists n, settled (build n c p up st) /\ forall s' st', build n c p up st = Good (s', st') -> Tm s'.

Lemma Tm_sim : forall s s' : stage, Tm s -> sim s s' -> Tm s'.
Proof. intros s s' H Hs s2 H2 st. apply H. eapply sim_trans; eassumption. Qed.

Lemma settled_good : forall X (x : X), settled (Good x).
Proof. intros X x H. discriminate H. Qed.

Lemma settled_bind : forall X Y (r : out X) (f : X -> out Y),
  settled r -> (forall x, r = Good x -> settled (f x)) -> settled (bind r f).
Proof.
  intros X Y [e | x] f Hr Hf; cbn; [| apply Hf; reflexivity].
  intros E. apply Hr. inversion E. reflexivity.
Qed.

Ltac bad_done H := cbn [bind]; let Hx := fresh "Hx" in intros Hx; apply H; inversion Hx; reflexivity.

Lemma pull_lift : forall n m (s : stage) st r, pull n s st = r -> settled r -> n <= m -> pull m s st = r.
Proof. intros n m s st r E Hs Hle. subst r. apply pull_mono; assumption. Qed.
Lemma take_lift : forall n m k (s : stage) st r, take n k s st = r -> settled r -> n <= m -> take m k s st = r.
Proof. intros n m k s st r E Hs Hle. subst r. apply take_mono; assumption. Qed.
Lemma drain_lift : forall n m (s : stage) st r, drain n s st = r -> settled r -> n <= m -> drain m s st = r.
Proof. intros n m s st r E Hs Hle. subst r. apply drain_mono; assumption. Qed.
Lemma build_lift : forall n m c (p : plan) (up : stage) st r,
  build n c p up st = r -> settled r -> n <= m -> build m c p up st = r.
Proof. intros n m c p up st r E Hs Hle. subst r. apply build_mono; assumption. Qed.

Lemma T_src : forall l : list A, Tm (Src l).
Proof.
  intros l s2 Hs st. inversion Hs; subst. exists 1. rewrite pull_S. destruct l'; apply settled_good.
Qed.

Lemma flat_loop : forall (u : stage) f, Tm u ->
  forall k u', length (den u') < k -> sim u u' -> forall st, halts (fun n => pull n (FlatMapS f [] u') st).
Proof.
  intros u f Hu. induction k as [| k IH]; intros u' Hlen Hsim st; [lia |].
  destruct (Hu u' Hsim st) as [n1 Hn1].
  destruct (pull n1 u' st) as [e | [[[x |] u2] st']] eqn:E1.
  - exists (S n1). rewrite pull_S, E1. bad_done Hn1.
  - pose proof (pull_sound _ _ _ _ _ _ E1) as Hd. cbn in Hd.
    assert (Hs2 : sim u u2) by (eapply sim_trans; [exact Hsim | eapply pull_sim; exact E1]).
    assert (H2 : halts (fun n => pull n (FlatMapS f (f x) u2) st')).
    { destruct (f x) as [| y l] eqn:Ef.
      - apply IH; [rewrite Hd in Hlen; cbn in Hlen; lia | exact Hs2].
      - exists 1. rewrite pull_S. apply settled_good. }
    destruct H2 as [n2 Hn2].
    exists (S (Nat.max n1 n2)). rewrite pull_S.
    rewrite (pull_lift _ _ _ _ _ E1 Hn1) by lia. cbn [bind].
    rewrite (pull_lift _ _ _ _ _ eq_refl Hn2) by lia. exact Hn2.
  - exists (S n1). rewrite pull_S, E1. apply settled_good.
Qed.

Lemma T_flat : forall (u : stage) f cur, Tm u -> Tm (FlatMapS f cur u).
Proof.
  intros u f cur Hu s2 Hs st. inversion Hs; subst. destruct cur' as [| y l].
  - eapply flat_loop; [exact Hu | apply Nat.lt_succ_diag_r | assumption].
  - exists 1. rewrite pull_S. apply settled_good.
Qed.

Lemma T_take : forall (u : stage), Tm u ->
  forall k u' st, sim u u' -> halts (fun n => take n k u' st).
Proof.
  intros u Hu. induction k as [| k IH]; intros u' st Hsim.
  - exists 1. rewrite take_S. apply settled_good.
  - destruct (Hu u' Hsim st) as [n1 Hn1].
    destruct (pull n1 u' st) as [e | [[[x |] u2] st']] eqn:E1.
    + exists (S n1). rewrite take_S, E1. bad_done Hn1.
    + assert (Hs2 : sim u u2) by (eapply sim_trans; [exact Hsim | eapply pull_sim; exact E1]).
      destruct (IH u2 st' Hs2) as [n2 Hn2].
      exists (S (Nat.max n1 n2)). rewrite take_S.
      rewrite (pull_lift _ _ _ _ _ E1 Hn1) by lia. cbn [bind].
      rewrite (take_lift _ _ _ _ _ _ eq_refl Hn2) by lia.
      apply settled_bind; [exact Hn2 |]. intros [[xs s3] st3] _. apply settled_good.
    + exists (S n1). rewrite take_S, E1. apply settled_good.
Qed.

Lemma T_buf : forall (u : stage) sc b, Tm u -> Tm (Buf sc b u).
Proof.
  intros u sc b Hu s2 Hs st. inversion Hs; subst. destruct b' as [| y l].
  - destruct (Hu u' H3 st) as [n1 Hn1].
    destruct (pull n1 u' st) as [e | [[[x |] u2] st']] eqn:E1.
    + exists (S n1). rewrite pull_S, E1. bad_done Hn1.
    + assert (Hs2 : sim u u2) by (eapply sim_trans; [exact H3 | eapply pull_sim; exact E1]).
      destruct (next_chunk sc') as [k sc2] eqn:Enc.
      destruct (T_take u Hu (k - 1) u2 st' Hs2) as [n2 Hn2].
      exists (S (Nat.max n1 n2)). rewrite pull_S.
      rewrite (pull_lift _ _ _ _ _ E1 Hn1) by lia. cbn [bind]. rewrite Enc.
      rewrite (take_lift _ _ _ _ _ _ eq_refl Hn2) by lia.
      apply settled_bind; [exact Hn2 |]. intros [[xs s3] st3] _. apply settled_good.
    + exists (S n1). rewrite pull_S, E1. apply settled_good.
  - exists 1. rewrite pull_S. apply settled_good.
Qed.

Lemma T_drain : forall (s : stage), Tm s ->
  forall k s', length (den s') < k -> sim s s' -> forall st, halts (fun n => drain n s' st).
Proof.
  intros s Hs. induction k as [| k IH]; intros s' Hlen Hsim st; [lia |].
  destruct (Hs s' Hsim st) as [n1 Hn1].
  destruct (pull n1 s' st) as [e | [[[x |] s2] st']] eqn:E1.
  - exists (S n1). rewrite drain_S, E1. bad_done Hn1.
  - pose proof (pull_sound _ _ _ _ _ _ E1) as Hd. cbn in Hd.
    assert (Hs2 : sim s s2) by (eapply sim_trans; [exact Hsim | eapply pull_sim; exact E1]).
    destruct (IH s2) with (st := st') as [n2 Hn2]; [rewrite Hd in Hlen; cbn in Hlen; lia | exact Hs2 |].
    exists (S (Nat.max n1 n2)). rewrite drain_S.
    rewrite (pull_lift _ _ _ _ _ E1 Hn1) by lia. cbn [bind].
    rewrite (drain_lift _ _ _ _ _ eq_refl Hn2) by lia.
    apply settled_bind; [exact Hn2 |]. intros [xs st3] _. apply settled_good.
  - exists (S n1). rewrite drain_S, E1. apply settled_good.
Qed.

Lemma nest_loop : forall (u : stage) inner nb fin, Tm u -> TmB inner ->
  forall k c u', length (den u') < k -> sim u u' ->
  forall st, halts (fun n => pull n (NestS c inner nb fin u') st).
Proof.
  intros u inner nb fin Hu Hin. induction k as [| k IH]; intros c u' Hlen Hsim st; [lia |].
  destruct (Hu u' Hsim st) as [n1 Hn1].
  destruct (pull n1 u' st) as [e | [[[x |] u2] st']] eqn:E1.
  - exists (S n1). rewrite pull_S, E1. bad_done Hn1.
  - pose proof (pull_sound _ _ _ _ _ _ E1) as Hd. cbn in Hd.
    assert (Hs2 : sim u u2) by (eapply sim_trans; [exact Hsim | eapply pull_sim; exact E1]).
    destruct (Hin c (Src (nb x)) st' (T_src (nb x))) as (n2 & Hn2 & Hn2t).
    destruct (build n2 c inner (Src (nb x)) st') as [e | [si st1]] eqn:E2.
    + exists (S (Nat.max n1 n2)). rewrite pull_S.
      rewrite (pull_lift _ _ _ _ _ E1 Hn1) by lia. cbn [bind].
      rewrite (build_lift _ _ _ _ _ _ _ E2 Hn2) by lia. bad_done Hn2.
    + pose proof (Hn2t si st1 eq_refl) as Hsi.
      destruct (T_drain si Hsi (S (length (den si))) si (Nat.lt_succ_diag_r _) (sim_refl si) st1) as [n3 Hn3].
      destruct (drain n3 si st1) as [e | [elems st2]] eqn:E3.
      * exists (S (Nat.max n1 (Nat.max n2 n3))). rewrite pull_S.
        rewrite (pull_lift _ _ _ _ _ E1 Hn1) by lia. cbn [bind].
        rewrite (build_lift _ _ _ _ _ _ _ E2 Hn2) by lia. cbn [bind].
        rewrite (drain_lift _ _ _ _ _ E3 Hn3) by lia. bad_done Hn3.
      * destruct (fin x elems) as [y |] eqn:Ef.
        -- exists (S (Nat.max n1 (Nat.max n2 n3))). rewrite pull_S.
           rewrite (pull_lift _ _ _ _ _ E1 Hn1) by lia. cbn [bind].
           rewrite (build_lift _ _ _ _ _ _ _ E2 Hn2) by lia. cbn [bind].
           rewrite (drain_lift _ _ _ _ _ E3 Hn3) by lia. cbn [bind]. rewrite Ef. apply settled_good.
        -- destruct (IH c u2) with (st := st2) as [n4 Hn4]; [rewrite Hd in Hlen; cbn in Hlen; lia | exact Hs2 |].
           exists (S (Nat.max (Nat.max n1 n4) (Nat.max n2 n3))). rewrite pull_S.
           rewrite (pull_lift _ _ _ _ _ E1 Hn1) by lia. cbn [bind].
           rewrite (build_lift _ _ _ _ _ _ _ E2 Hn2) by lia. cbn [bind].
           rewrite (drain_lift _ _ _ _ _ E3 Hn3) by lia. cbn [bind]. rewrite Ef.
           rewrite (pull_lift _ _ _ _ _ eq_refl Hn4) by lia. exact Hn4.
  - exists (S n1). rewrite pull_S, E1. apply settled_good.
Qed.

Lemma T_nest : forall (u : stage) c inner nb fin, Tm u -> TmB inner -> Tm (NestS c inner nb fin u).
Proof.
  intros u c inner nb fin Hu Hin s2 Hs st. inversion Hs; subst.
  eapply nest_loop; [exact Hu | exact Hin | apply Nat.lt_succ_diag_r | assumption].
Qed.

Lemma TmB_all : forall p : plan, TmB p.
Proof.
  induction p as [| sc k rest IHrest | own inner IHinner nb fin rest IHrest]; intros c up st Hup.
  - exists 1. rewrite build_S. split; [apply settled_good |].
    intros s' st' E. inversion E; subst. exact Hup.
  - destruct (take_cell c st) as [e | st1] eqn:Etc.
    + exists 1. rewrite build_S, Etc. cbn [bind]. split.
      * unfold take_cell in Etc. destruct (full st c); inversion Etc. intros Hx; discriminate Hx.
      * intros s' st' Hx; discriminate Hx.
    + destruct (first_chunk sc) as [k0 sc'] eqn:Efc.
      destruct (T_take up Hup k0 up st1 (sim_refl up)) as [n1 Hn1].
      destruct (take n1 k0 up st1) as [e | [[xs up'] st2]] eqn:E1.
      * exists (S n1). rewrite build_S, Etc. cbn [bind]. rewrite Efc, E1. split; [bad_done Hn1 |].
        intros s' st' Hx; discriminate Hx.
      * assert (Hup' : Tm up') by (eapply Tm_sim; [exact Hup | eapply take_sim; exact E1]).
        destruct (IHrest c (FlatMapS k [] (Buf sc' xs up')) (put_cell c st2)) as (n2 & Hn2 & Hn2t).
        { apply T_flat. apply T_buf. exact Hup'. }
        exists (S (Nat.max n1 n2)). rewrite build_S, Etc. cbn [bind]. rewrite Efc.
        rewrite (take_lift _ _ _ _ _ _ E1 Hn1) by lia. cbn [bind].
        rewrite (build_lift _ _ _ _ _ _ _ eq_refl Hn2) by lia. split; [exact Hn2 | exact Hn2t].
  - destruct (if own then clone_cell c st else (c, st)) as [c' st1] eqn:Ecl.
    destruct (IHrest c (NestS c' inner nb fin up) st1) as (n2 & Hn2 & Hn2t).
    { apply T_nest; [exact Hup | exact IHinner]. }
    exists (S n2). rewrite build_S, Ecl. split; [exact Hn2 | exact Hn2t].
Qed.

Lemma Tm_all : forall s : stage, Tm s.
Proof.
  induction s as [l | f cur u IH | sc b u IH | c inner nb fin u IH].
  - apply T_src.
  - apply T_flat. exact IH.
  - apply T_buf. exact IH.
  - apply T_nest; [exact IH | apply TmB_all].
Qed.

Lemma pull_halts : forall (s : stage) st, halts (fun n => pull n s st).
Proof. intros s st. apply (Tm_all s s (sim_refl s) st). Qed.

Lemma take_halts : forall k (s : stage) st, halts (fun n => take n k s st).
Proof. intros k s st. apply (T_take s (Tm_all s) k s st (sim_refl s)). Qed.

Lemma drain_halts : forall (s : stage) st, halts (fun n => drain n s st).
Proof.
  intros s st. apply (T_drain s (Tm_all s) (S (length (den s))) s (Nat.lt_succ_diag_r _) (sim_refl s) st).
Qed.

Lemma build_halts : forall c (p : plan) (up : stage) st, halts (fun n => build n c p up st).
Proof. intros c p up st. destruct (TmB_all p c up st (Tm_all up)) as (n & Hn & _). exists n. exact Hn. Qed.

(* ------------------------------------------------------------------ whole runs *)

Lemma run_le : forall n m (p : plan) src, n <= m -> le_out (run n p src) (run m p src).
Proof.
  intros n m p src H. unfold run.
  apply le_out_bind; [apply (proj2 (proj2 (proj2 (mono_all n)))); exact H |].
  intros [s st]. apply le_out_bind; [apply (proj1 (proj2 (proj2 (mono_all n)))); exact H |].
  intros r. apply le_out_refl.
Qed.

Lemma run_sound : forall n (p : plan) src, sat (fun l => l = denP p src) (run n p src).
Proof.
  intros n p src. unfold run.
  eapply sat_bind; [apply (proj2 (proj2 (proj2 (sound_all n)))) |].
  intros [s st] Hb. cbn in Hb.
  eapply sat_bind; [apply (proj1 (proj2 (proj2 (sound_all n)))) |].
  intros [l st'] Hd. cbn in *. rewrite Hd, Hb. reflexivity.
Qed.

Lemma run_safe : forall n (p : plan) src, well_cloned p -> safe (fun _ => True) (run n p src).
Proof.
  intros n p src Hp. unfold run.
  eapply safe_bind.
  { apply (proj2 (proj2 (proj2 (safe_all n)))); [exact Hp | exact I | constructor | reflexivity | intros []]. }
  intros [s st] (_ & Hw & Hf & _).
  eapply safe_bind; [apply (proj1 (proj2 (proj2 (safe_all n)))); assumption |].
  intros r _. exact I.
Qed.

Lemma run_halts : forall (p : plan) src, halts (fun n => run n p src).
Proof.
  intros p src. unfold run.
  destruct (build_halts 0 p (Src src) [true]) as [n1 Hn1].
  destruct (build n1 0 p (Src src) [true]) as [e | [s st]] eqn:E1.
  - exists n1. rewrite E1. bad_done Hn1.
  - destruct (drain_halts s st) as [n2 Hn2].
    exists (Nat.max n1 n2).
    rewrite (build_lift _ _ _ _ _ _ _ E1 Hn1) by lia. cbn [bind].
    rewrite (drain_lift _ _ _ _ _ eq_refl Hn2) by lia.
    apply settled_bind; [exact Hn2 |]. intros r _. apply settled_good.
Qed.

(* total correctness: with enough fuel the run returns exactly the schedule-free list semantics *)
Theorem run_total : forall (p : plan) src, well_cloned p ->
  exists n, forall m, n <= m -> run m p src = Good (denP p src).
Proof.
  intros p src Hp. destruct (run_halts p src) as [n Hn]. exists n. intros m Hle.
  rewrite (le_out_settled _ _ _ (run_le n m p src Hle) Hn).
  pose proof (run_sound n p src) as Hs. pose proof (run_safe n p src Hp) as Hf.
  destruct (run n p src) as [[| site] | l]; cbn in *.
  - exfalso. apply Hn. reflexivity.
  - contradiction.
  - subst l. reflexivity.
Qed.

Theorem run_never_panics : forall n (p : plan) src site,
  well_cloned p -> run n p src <> Bad (Panicked site).
Proof. intros n p src site Hp. eapply safe_no_panic. apply run_safe. exact Hp. Qed.

Theorem run_partial : forall n (p : plan) src l, run n p src = Good l -> l = denP p src.
Proof. intros n p src l H. pose proof (run_sound n p src) as Hs. rewrite H in Hs. exact Hs. Qed.

Lemma denP_same_plan : forall p q : plan, same_plan p q -> forall l, denP p l = denP q l.
Proof.
  induction p as [| sc k rest IH | own inner IHi nb fin rest IHr]; intros [| sc' k' rest' | own' inner' nb' fin' rest'] H l;
    cbn in H; try contradiction.
  - reflexivity.
  - destruct H as [-> H]. cbn. apply IH. exact H.
  - destruct H as (-> & -> & -> & Hi & Hr). cbn. rewrite (IHr _ Hr).
    f_equal. unfold omap. apply flat_map_ext. intros x. rewrite (IHi _ Hi). reflexivity.
Qed.

Lemma well_cloned_same_plan : forall p q : plan, same_plan p q -> well_cloned p -> well_cloned q.
Proof.
  induction p as [| sc k rest IH | own inner IHi nb fin rest IHr]; intros [| sc' k' rest' | own' inner' nb' fin' rest'] H Hw;
    cbn in *; try contradiction; auto.
  - destruct H as [_ H]. eapply IH; eassumption.
  - destruct H as (<- & _ & _ & Hi & Hr). destruct Hw as (Ho & Hwi & Hwr). repeat split; eauto.
Qed.

Lemma same_plan_refl : forall p : plan, same_plan p p.
Proof. induction p; cbn; auto. Qed.

(* the rows do not depend on the schedules of the resolvers (outer, and inside every closure) *)
Theorem plan_schedule_independent : forall (p q : plan) src, same_plan p q -> well_cloned p ->
  exists n, forall m, n <= m ->
    run m p src = Good (denP p src) /\ run m q src = Good (denP p src).
Proof.
  intros p q src Hpq Hp.
  destruct (run_total p src Hp) as [n1 H1].
  destruct (run_total q src (well_cloned_same_plan _ _ Hpq Hp)) as [n2 H2].
  exists (Nat.max n1 n2). intros m Hm. split.
  - apply H1. lia.
  - rewrite H2 by lia. rewrite (denP_same_plan _ _ Hpq). reflexivity.
Qed.

(* order: the pipeline is a list homomorphism in its source, so rows of earlier contexts come first *)
Lemma omap_app : forall (g : A -> option A) l1 l2, omap g (l1 ++ l2) = omap g l1 ++ omap g l2.
Proof. intros. unfold omap. apply flat_map_app. Qed.

Theorem denP_app : forall (p : plan) l1 l2, denP p (l1 ++ l2) = denP p l1 ++ denP p l2.
Proof.
  induction p as [| sc k rest IH | own inner IHi nb fin rest IHr]; intros l1 l2; cbn.
  - reflexivity.
  - rewrite flat_map_app. apply IH.
  - rewrite omap_app. apply IHr.
Qed.

Theorem take_prefix : forall n k (s : stage) st xs s' st',
  take n k s st = Good (xs, s', st') -> xs = firstn (length xs) (den s) /\ length xs <= k.
Proof.
  intros n k s st xs s' st' H. destruct (take_sound _ _ _ _ _ _ _ H) as [E Hl]. split; [| exact Hl].
  rewrite E. rewrite firstn_app, Nat.sub_diag, firstn_all. cbn. rewrite app_nil_r. reflexivity.
Qed.

(* ------------------------------------------------------------------ pipelines without closures that build (fold-free) *)

Lemma cells_nil_wc : forall s : stage, cells s = [] -> wc_stage s.
Proof. induction s; cbn; intros H; auto. discriminate H. Qed.

Lemma allfull_nil : forall (s : stage) st, cells s = [] -> allfull st s.
Proof. intros s st H. unfold allfull. rewrite H. constructor. Qed.

Theorem to_list_total : forall s : stage, cells s = [] ->
  exists n, forall m, n <= m -> to_list m s = Good (den s).
Proof.
  intros s Hc. destruct (drain_halts s []) as [n Hn]. exists n. intros m Hle. unfold to_list.
  rewrite (drain_lift _ _ _ _ _ eq_refl Hn Hle).
  pose proof (proj1 (proj2 (proj2 (safe_all n))) s [] (cells_nil_wc s Hc) (allfull_nil s [] Hc)) as Hf.
  destruct (drain n s []) as [[| site] | [l st']] eqn:E; cbn in *.
  - exfalso. apply Hn. reflexivity.
  - contradiction.
  - rewrite (drain_sound _ _ _ _ _ E). reflexivity.
Qed.

Theorem to_list_partial : forall n (s : stage) l, to_list n s = Good l -> l = den s.
Proof.
  intros n s l H. unfold to_list in H. destruct (drain n s []) as [e | [l' st']] eqn:E; cbn in H; [discriminate H |].
  inversion H; subst. eapply drain_sound. exact E.
Qed.

(* wrapping ANY schedule (also "pre-fetch everything") around a pipeline does not change its contents *)
Theorem buffered_denotes : forall (s : stage) sched, cells s = [] ->
  exists n, forall m, n <= m ->
    exists s', Buffered m sched s = Good s' /\ to_list m s' = Good (den s) /\ to_list m s = Good (den s).
Proof.
  intros s sched Hc. unfold Buffered. destruct (first_chunk sched) as [k0 sc'].
  destruct (take_halts k0 s []) as [n1 Hn1].
  pose proof (proj1 (proj2 (safe_all n1)) k0 s [] (cells_nil_wc s Hc) (allfull_nil s [] Hc)) as Hf.
  destruct (take n1 k0 s []) as [[| site] | [[xs s1] st1]] eqn:E1; cbn in Hf.
  - exfalso. apply Hn1. reflexivity.
  - contradiction.
  - destruct Hf as (_ & Hc1 & _).
    destruct (take_sound _ _ _ _ _ _ _ E1) as [Hd _].
    assert (Hcb : cells (Buf sc' xs s1) = []) by (cbn; congruence).
    destruct (to_list_total (Buf sc' xs s1) Hcb) as [n2 H2].
    destruct (to_list_total s Hc) as [n3 H3].
    exists (Nat.max n1 (Nat.max n2 n3)). intros m Hm. exists (Buf sc' xs s1).
    rewrite (take_lift _ _ _ _ _ _ E1 Hn1) by lia. cbn [bind]. split; [reflexivity |].
    rewrite H2 by lia. rewrite H3 by lia. cbn [den]. rewrite Hd. split; reflexivity.
Qed.

Theorem buffered_partial : forall n n' (s s' : stage) sched l,
  Buffered n sched s = Good s' -> to_list n' s' = Good l -> l = den s.
Proof.
  intros n n' s s' sched l Hb Hl. unfold Buffered in Hb. destruct (first_chunk sched) as [k0 sc'].
  destruct (take n k0 s []) as [e | [[xs s1] st1]] eqn:E1; cbn in Hb; [discriminate Hb |].
  inversion Hb; subst. rewrite (to_list_partial _ _ _ Hl). cbn.
  destruct (take_sound _ _ _ _ _ _ _ E1) as [Hd _]. symmetry. exact Hd.
Qed.

Lemma rebuf_den : forall s1 s2 : stage, rebuf s1 s2 -> den s1 = den s2.
Proof.
  intros s1 s2 H. induction H; cbn; try congruence.
  rewrite IHrebuf. unfold omap. apply flat_map_ext. intros x.
  rewrite (denP_same_plan _ _ H). reflexivity.
Qed.

Lemma rebuf_cells_nil : forall s1 s2 : stage, rebuf s1 s2 -> cells s1 = [] -> cells s2 = [].
Proof. intros s1 s2 H. induction H; cbn; intros Hc; auto. discriminate Hc. Qed.

(* replacing / inserting / removing buffered resolvers anywhere in a pipeline *)
Theorem pipeline_schedule_independent : forall s1 s2 : stage, rebuf s1 s2 -> cells s1 = [] ->
  exists n, forall m, n <= m -> to_list m s1 = Good (den s1) /\ to_list m s2 = Good (den s1).
Proof.
  intros s1 s2 H Hc.
  destruct (to_list_total s1 Hc) as [n1 H1].
  destruct (to_list_total s2 (rebuf_cells_nil _ _ H Hc)) as [n2 H2].
  exists (Nat.max n1 n2). intros m Hm. split; [apply H1; lia |].
  rewrite H2 by lia. rewrite (rebuf_den _ _ H). reflexivity.
Qed.

(* the invariant behind run_never_panics, for iterators in any state *)
Theorem pull_never_panics : forall n (s : stage) st site,
  wc_stage s -> Forall (fun c => full st c = true) (cells s) -> pull n s st <> Bad (Panicked site).
Proof. intros n s st site Hw Hf. eapply safe_no_panic. apply (proj1 (safe_all n)); assumption. Qed.

Theorem pull_restores_cells : forall n (s : stage) st o s' st',
  wc_stage s -> Forall (fun c => full st c = true) (cells s) ->
  pull n s st = Good (o, s', st') ->
  (exists e, st' = st ++ e /\ Forall (fun b => b = true) e) /\ cells s' = cells s.
Proof.
  intros n s st o s' st' Hw Hf E. pose proof (proj1 (safe_all n) s st Hw Hf) as H. rewrite E in H.
  destruct H as (He & Hc & _). split; assumption.
Qed.

End PullProofs.
