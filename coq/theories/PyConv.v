(* PyConv.v — model of pytrustfall/src/value.rs: conversion between Python objects and FieldValue
   (`impl FromPyObject for FieldValue` = extract, `impl IntoPyObject for FieldValue` = into_py) and of
   the two places of pytrustfall/src/shim.rs where converted values enter the engine.
   Model file: definitions only, no proofs (proofs are in PyConvProofs.v).

   CPython and pyo3 are outside this development.  A Python object is represented by what pyo3's
   primitive extractions can observe of it (see `pyobj`); the primitive extraction rules themselves
   (section "pyo3 primitives") are a trusted transcription of pyo3 0.29's conversions and are tied to
   the real binding only by the probe run of ./check C27. *)
From TF Require Import Values Show.
Open Scope Z_scope.

(* ---------------------------------------------------------------- Python objects
   PNone     : None
   PBool b   : True / False                    (type bool cannot be subclassed)
   PInt z    : an int (or int subclass, or object with __index__) that is not a bool; UNBOUNDED
   PFloat b  : a float (or subclass, or non-int object with __float__), as its binary64 bit pattern
   PStr s    : a str (or subclass) that encodes to UTF-8; s = the UTF-8 bytes
   PList l   : a list (or subclass)
   POther    : everything else (dict, tuple, bytes, object(), str with lone surrogates, ...) *)
Inductive pyobj :=
| PNone
| PBool (b : bool)
| PInt (z : Z)
| PFloat (bits : N)
| PStr (s : string)
| PList (l : list pyobj)
| POther.

(* Outcome of a conversion from Python: a value, or a Python exception (an ordinary error, not a
   panic).  The payload names the kind of ValueError raised by value.rs. *)
Inductive res_e (A : Type) := ROk (a : A) | Err (kind : string).
Arguments ROk {A} a.
Arguments Err {A} kind.

(* ---------------------------------------------------------------- pyo3 primitives (trusted) *)

(* PyAny::is_none *)
Definition py_is_none (p : pyobj) : bool := match p with PNone => true | _ => false end.

(* bool::extract — succeeds exactly on instances of bool *)
Definition extract_bool (p : pyobj) : option bool := match p with PBool b => Some b | _ => None end.

(* the integer a Python object denotes through PyNumber_Index; bool is a subclass of int *)
Definition py_index (p : pyobj) : option Z :=
  match p with PInt z => Some z | PBool b => Some (if b then 1 else 0) | _ => None end.

(* i64::extract — PyNumber_Index then PyLong_AsLongLong; OverflowError outside [-2^63, 2^63) *)
Definition extract_i64 (p : pyobj) : option Z :=
  match py_index p with
  | Some z => if (i64_min <=? z) && (z <=? i64_max) then Some z else None
  | None => None
  end.

(* u64::extract — PyNumber_Index then PyLong_AsUnsignedLongLong; OverflowError outside [0, 2^64) *)
Definition extract_u64 (p : pyobj) : option Z :=
  match py_index p with
  | Some z => if (0 <=? z) && (z <=? u64_max) then Some z else None
  | None => None
  end.

(* PyLong_AsDouble: the correctly rounded (round-half-to-even) binary64 value of an integer, or
   OverflowError (None) when the rounded value is not below 2^1024 *)
Definition z_to_f64 (z : Z) : option N :=
  if z =? 0 then Some 0%N else
  let a := Z.abs z in
  let n := Z.log2 a in
  let sign := if z <? 0 then 2 ^ 63 else 0 in
  if n <=? 52 then Some (Z.to_N (sign + (n + 1023) * 2 ^ 52 + (a * 2 ^ (52 - n) - 2 ^ 52)))
  else
    let sh := n - 52 in
    let q := Z.shiftr a sh in
    let r := a mod 2 ^ sh in
    let half := 2 ^ (sh - 1) in
    let q' := if (half <? r) || ((r =? half) && Z.odd q) then q + 1 else q in
    let mag := (n + 1023) * 2 ^ 52 + (q' - 2 ^ 52) in
    if 2047 * 2 ^ 52 <=? mag then None else Some (Z.to_N (sign + mag)).

(* f64::extract — exact floats directly, otherwise PyFloat_AsDouble, which accepts every object with
   __float__ or __index__ (so also ints and bools) *)
Definition extract_f64 (p : pyobj) : option N :=
  match p with
  | PFloat b => Some b
  | PInt z => z_to_f64 z
  | PBool b => z_to_f64 (if b then 1 else 0)
  | _ => None
  end.

(* String::extract — str instances whose text encodes to UTF-8 *)
Definition extract_string (p : pyobj) : option string := match p with PStr s => Some s | _ => None end.

(* ---------------------------------------------------------------- value.rs *)

(* FieldValue::is_null *)
Definition is_null (v : fv) : bool := match v with Null => true | _ => false end.

(* the loop `let first_non_null = loop { ... }`: the first non-null element together with the rest
   of the iterator *)
Fixpoint first_non_null (l : list fv) : option (fv * list fv) :=
  match l with
  | [] => None
  | x :: r => if is_null x then first_non_null r else Some (x, r)
  end.

(* "Ensure all non-null items in the list are of the same type": std::mem::discriminant equality of
   the pytrustfall-local FieldValue enum (same variant order as upstream, see Values.discriminant) *)
Definition homog_check (l : list fv) : bool :=
  match first_non_null l with
  | None => true
  | Some (first, rest) =>
      forallb (fun other => is_null other || (discriminant first =? discriminant other)) rest
  end.

Definition e_nonfinite : string := "nonfinite".     (* "float values may not be NaN or infinity" *)
Definition e_hetero : string := "hetero".           (* "Found elements of different (non-null) types" *)
Definition e_unsupported : string := "unsupported". (* "Value .. of type .. is not supported by Trustfall" *)

(* <FieldValue as FromPyObject>::extract — the cascade, in the order of the code *)
Fixpoint extract (p : pyobj) : res_e fv :=
  if py_is_none p then ROk Null else
  match extract_bool p with Some inner => ROk (Boolv inner) | None =>
  match extract_i64 p with Some inner => ROk (I64 inner) | None =>
  match extract_u64 p with Some inner => ROk (U64 inner) | None =>
  match extract_f64 p with
  | Some inner => if f64_finite inner then ROk (F64 inner) else Err e_nonfinite
  | None =>
  match extract_string p with Some inner => ROk (Str inner) | None =>
  match p with
  | PList l =>                                      (* value.cast::<PyList>() *)
      match (fix elems (l : list pyobj) : res_e (list fv) :=
               match l with
               | [] => ROk []
               | element :: rest =>
                   match extract element with       (* element.extract::<FieldValue>()? *)
                   | Err k => Err k
                   | ROk value => match elems rest with Err k => Err k | ROk vs => ROk (value :: vs) end
                   end
               end) l with
      | Err k => Err k
      | ROk converted => if homog_check converted then ROk (List converted) else Err e_hetero
      end
  | _ => Err e_unsupported
  end end end end end end.

(* the element loop of the list branch, as a separate function (equal to the local fix above) *)
Fixpoint extract_list (l : list pyobj) : res_e (list fv) :=
  match l with
  | [] => ROk []
  | element :: rest =>
      match extract element with
      | Err k => Err k
      | ROk value => match extract_list rest with Err k => Err k | ROk vs => ROk (value :: vs) end
      end
  end.

(* <FieldValue as IntoPyObject>::into_pyobject; the Enum arm is `todo!()` *)
Fixpoint into_py (v : fv) : res pyobj :=
  match v with
  | Null => Ok PNone
  | U64 x => Ok (PInt x)
  | I64 x => Ok (PInt x)
  | F64 x => Ok (PFloat x)
  | Str x => Ok (PStr x)
  | Boolv x => Ok (PBool x)
  | Enum _ => Panic "pytrustfall/value.rs:todo!() FieldValue::Enum"
  | List x =>
      do items <- (fix go (l : list fv) : res (list pyobj) :=
                     match l with
                     | [] => Ok []
                     | v :: r => do p <- into_py v; do ps <- go r; Ok (p :: ps)
                     end) x;
      Ok (PList items)
  end.

Fixpoint into_py_list (l : list fv) : res (list pyobj) :=
  match l with
  | [] => Ok []
  | v :: r => do p <- into_py v; do ps <- into_py_list r; Ok (p :: ps)
  end.

(* ---------------------------------------------------------------- shim.rs entry points *)

(* to_query_arguments: each argument value is extracted; a failure is raised as the Python exception *)
Definition arg_value (p : pyobj) : res_e fv := extract p.

(* PythonResolvePropertyIterator::next: `.extract().py_friendly_expect(..)` — a property value that
   does not convert is a Rust panic (surfacing in Python as pyo3's PanicException) *)
Definition property_value (p : pyobj) : res fv :=
  match extract p with
  | ROk v => Ok v
  | Err _ => Panic "pytrustfall/shim.rs:resolve_property() tuple element at index 1 is not a property value"
  end.

(* a property value returned by a Python adapter and sent back to Python as a query output *)
Definition property_output (p : pyobj) : res pyobj := do v <- property_value p; into_py v.

(* ---------------------------------------------------------------- renderers for the probe tie *)
Open Scope string_scope.

Fixpoint show_py (p : pyobj) : string :=
  match p with
  | PNone => "N"
  | PBool b => if b then "B1" else "B0"
  | PInt z => "I" ++ dz z
  | PFloat b => "D" ++ dn b
  | PStr s => "S" ++ hex s
  | PList l => "[" ++ String.concat "," (map show_py l) ++ "]"
  | POther => "O"
  end.

Definition show_res_e {A} (f : A -> string) (r : res_e A) : string :=
  match r with ROk a => "OK:" ++ f a | Err k => "ERR:" ++ k end.
