(* PyConvProofs.v — lemmas about the Python <-> FieldValue conversion model (C27). *)
From Coq Require Import Lia.
From TF Require Import Values ValuesProofs PyConv.
Open Scope Z_scope.

(* ---------- nested induction principle for Python objects ---------- *)
Section PyInd.
  Variable P : pyobj -> Prop.
  Hypothesis HNone : P PNone.
  Hypothesis HBool : forall b, P (PBool b).
  Hypothesis HInt : forall z, P (PInt z).
  Hypothesis HFloat : forall b, P (PFloat b).
  Hypothesis HStr : forall s, P (PStr s).
  Hypothesis HList : forall l, Forall P l -> P (PList l).
  Hypothesis HOther : P POther.
  Fixpoint pyobj_ind' (p : pyobj) : P p :=
    match p with
    | PNone => HNone | PBool b => HBool b | PInt z => HInt z | PFloat b => HFloat b
    | PStr s => HStr s | POther => HOther
    | PList l => HList l ((fix go (l : list pyobj) : Forall P l :=
                            match l with [] => Forall_nil _ | x :: xs => Forall_cons _ (pyobj_ind' x) (go xs) end) l)
    end.
End PyInd.

(* ---------- specification-side definitions ---------- *)

(* "the extracted value IS the Python value" *)
Inductive denotes : fv -> pyobj -> Prop :=
| D_null : denotes Null PNone
| D_bool b : denotes (Boolv b) (PBool b)
| D_i64 z : i64_min <= z <= i64_max -> denotes (I64 z) (PInt z)
| D_u64 z : 0 <= z <= u64_max -> denotes (U64 z) (PInt z)
| D_f64 b : f64_finite b = true -> denotes (F64 b) (PFloat b)
| D_str s : denotes (Str s) (PStr s)
| D_list vs ps : Forall2 denotes vs ps -> denotes (List vs) (PList ps).

Fixpoint enum_free (v : fv) : bool :=
  match v with Enum _ => false | List l => forallb enum_free l | _ => true end.

(* class K-py-bigint-float is the complement of no_bigint: some int outside [-2^63, 2^64) occurs *)
Fixpoint no_bigint (p : pyobj) : bool :=
  match p with
  | PInt z => (i64_min <=? z) && (z <=? u64_max)
  | PList l => forallb no_bigint l
  | _ => true
  end.

(* the variant that extract chooses for the Python image of a value *)
Definition pykind (v : fv) : Z :=
  match v with
  | Null => 0
  | I64 z | U64 z => if z <=? i64_max then 1 else 2
  | F64 _ => 3 | Str _ => 4 | Boolv _ => 5 | Enum _ => 6 | List _ => 7
  end.

(* the homogeneity check, generically in the key that identifies the variant (0 = null) *)
Section HomogBy.
  Variable A : Type.
  Variable key : A -> Z.
  Fixpoint first_nn_by (l : list A) : option (A * list A) :=
    match l with
    | [] => None
    | x :: r => if key x =? 0 then first_nn_by r else Some (x, r)
    end.
  Definition homog_by (l : list A) : bool :=
    match first_nn_by l with
    | None => true
    | Some (f, rest) => forallb (fun o => (key o =? 0) || (key f =? key o)) rest
    end.
  Definition same_key (l : list A) : Prop :=
    forall a b, In a l -> In b l -> key a <> 0 -> key b <> 0 -> key a = key b.

  Lemma homog_by_cons_null x r : key x = 0 -> homog_by (x :: r) = homog_by r.
  Proof. intros H. unfold homog_by. cbn [first_nn_by]. now rewrite H. Qed.

  Lemma homog_by_cons_nn x r : key x <> 0 ->
    homog_by (x :: r) = forallb (fun o => (key o =? 0) || (key x =? key o)) r.
  Proof.
    intros H. unfold homog_by. cbn [first_nn_by].
    destruct (Z.eqb_spec (key x) 0) as [E|_]; [contradiction|reflexivity].
  Qed.

  Lemma homog_by_same l : homog_by l = true <-> same_key l.
  Proof.
    induction l as [|x r IH].
    - split; [intros _ a b []|reflexivity].
    - destruct (Z.eq_dec (key x) 0) as [E|E].
      + rewrite (homog_by_cons_null x r E), IH. split.
        * intros H a b [<-|Ia] [<-|Ib] Ka Kb; try contradiction. now apply H.
        * intros H a b Ia Ib. apply H; now right.
      + rewrite (homog_by_cons_nn x r E), forallb_forall. split.
        * intros H.
          assert (K : forall a, In a (x :: r) -> key a <> 0 -> key a = key x).
          { intros a [<-|Ia] Ka; [reflexivity|].
            specialize (H a Ia). apply orb_prop in H. destruct H as [H|H].
            - apply Z.eqb_eq in H. contradiction.
            - apply Z.eqb_eq in H. now symmetry. }
          intros a b Ia Ib Ka Kb. rewrite (K a Ia Ka), (K b Ib Kb). reflexivity.
        * intros H o Io. destruct (Z.eqb_spec (key o) 0) as [|Ko]; [reflexivity|].
          cbn. apply Z.eqb_eq. apply H; [now left|now right|assumption|assumption].
  Qed.
End HomogBy.
Arguments first_nn_by {A} key l.
Arguments homog_by {A} key l.
Arguments same_key {A} key l.

(* every list inside v (at any depth) has a homogeneous Python image; the complement is the class
   K-py-mixed-int-list when the only difference is I64/U64 (ints on both sides of 2^63) *)
Fixpoint py_homog (v : fv) : bool :=
  match v with
  | List l => forallb py_homog l && homog_by pykind l
  | _ => true
  end.

(* ---------- unfolding lemmas ---------- *)
Lemma is_null_disc v : is_null v = (discriminant v =? 0).
Proof. destruct v; reflexivity. Qed.

Lemma homog_check_by l : homog_check l = homog_by discriminant l.
Proof.
  unfold homog_check, homog_by.
  assert (F : first_non_null l = first_nn_by discriminant l).
  { induction l as [|x r IH]; [reflexivity|]. cbn. rewrite is_null_disc, IH. reflexivity. }
  rewrite F. clear F. destruct (first_nn_by discriminant l) as [[f rest]|]; [|reflexivity].
  induction rest as [|o rest IHr]; [reflexivity|]. cbn. now rewrite is_null_disc, IHr.
Qed.

Lemma extract_PList l :
  extract (PList l) =
  match extract_list l with
  | Err k => Err k
  | ROk converted => if homog_check converted then ROk (List converted) else Err e_hetero
  end.
Proof.
  cbn [extract py_is_none extract_bool extract_i64 extract_u64 extract_f64 extract_string py_index].
  match goal with |- match ?f l with _ => _ end = _ => assert (E : f l = extract_list l) end.
  { induction l as [|x r IH]; [reflexivity|]. cbn [extract_list]. rewrite <- IH. reflexivity. }
  rewrite E. reflexivity.
Qed.

Lemma into_py_List l :
  into_py (List l) = do items <- into_py_list l; Ok (PList items).
Proof.
  cbn [into_py].
  match goal with |- bind (?f l) _ = _ => assert (E : f l = into_py_list l) end.
  { induction l as [|x r IH]; [reflexivity|]. cbn [into_py_list]. rewrite <- IH. reflexivity. }
  rewrite E. reflexivity.
Qed.

Definition in_i64 (z : Z) : bool := (i64_min <=? z) && (z <=? i64_max).
Definition in_u64 (z : Z) : bool := (0 <=? z) && (z <=? u64_max).

Lemma extract_PInt z :
  extract (PInt z) =
  if in_i64 z then ROk (I64 z)
  else if in_u64 z then ROk (U64 z)
  else match z_to_f64 z with
       | Some b => if f64_finite b then ROk (F64 b) else Err e_nonfinite
       | None => Err e_unsupported
       end.
Proof.
  unfold in_i64, in_u64.
  cbn [extract py_is_none extract_bool extract_i64 extract_u64 extract_f64 extract_string py_index].
  destruct ((i64_min <=? z) && (z <=? i64_max)); [reflexivity|].
  destruct ((0 <=? z) && (z <=? u64_max)); [reflexivity|].
  destruct (z_to_f64 z) as [b|]; [|reflexivity].
  destruct (f64_finite b); reflexivity.
Qed.

Lemma extract_PFloat b :
  extract (PFloat b) = if f64_finite b then ROk (F64 b) else Err e_nonfinite.
Proof. reflexivity. Qed.

Lemma extract_i64_range z : i64_min <= z <= i64_max -> extract (PInt z) = ROk (I64 z).
Proof.
  intros H. rewrite extract_PInt. unfold in_i64.
  replace (i64_min <=? z) with true by (symmetry; apply Z.leb_le; lia).
  replace (z <=? i64_max) with true by (symmetry; apply Z.leb_le; lia). reflexivity.
Qed.

Lemma extract_u64_range z : i64_max < z <= u64_max -> extract (PInt z) = ROk (U64 z).
Proof.
  intros H. rewrite extract_PInt. unfold in_i64, in_u64.
  replace (z <=? i64_max) with false by (symmetry; apply Z.leb_gt; lia).
  rewrite andb_false_r.
  replace (0 <=? z) with true by (symmetry; apply Z.leb_le; unfold i64_max in H; lia).
  replace (z <=? u64_max) with true by (symmetry; apply Z.leb_le; lia). reflexivity.
Qed.

(* ---------- extract is faithful (outside the big-int class) ---------- *)
Lemma extract_list_faithful l :
  Forall (fun p => forall v, no_bigint p = true -> extract p = ROk v -> denotes v p) l ->
  forall c, forallb no_bigint l = true -> extract_list l = ROk c -> Forall2 denotes c l.
Proof.
  induction 1 as [|p l Hp Hl IH]; intros c NB E.
  - cbn in E. injection E as <-. constructor.
  - cbn in NB. apply andb_prop in NB. destruct NB as [NBp NBl].
    cbn [extract_list] in E. destruct (extract p) as [v|k] eqn:Ep; [|discriminate].
    destruct (extract_list l) as [vs|k] eqn:El; [|discriminate].
    injection E as <-. constructor; [now apply Hp | now apply IH].
Qed.

Lemma extract_faithful_nb : forall p v, no_bigint p = true -> extract p = ROk v -> denotes v p.
Proof.
  induction p as [| b | z | b | s | l IH |] using pyobj_ind'; intros v NB E.
  - cbn in E. injection E as <-. constructor.
  - cbn in E. injection E as <-. constructor.
  - rewrite extract_PInt in E. cbn in NB. unfold in_i64, in_u64 in E.
    apply andb_prop in NB. destruct NB as [N1 N2]. apply Z.leb_le in N1, N2.
    destruct ((i64_min <=? z) && (z <=? i64_max)) eqn:E1.
    + injection E as <-. apply andb_prop in E1. destruct E1 as [A B].
      apply Z.leb_le in A, B. constructor. lia.
    + destruct ((0 <=? z) && (z <=? u64_max)) eqn:E2.
      * injection E as <-. apply andb_prop in E2. destruct E2 as [A B].
        apply Z.leb_le in A, B. constructor. lia.
      * exfalso. apply andb_false_iff in E1, E2.
        unfold i64_min, i64_max, u64_max in *.
        destruct E1 as [A|A]; apply Z.leb_gt in A; destruct E2 as [B|B]; apply Z.leb_gt in B; lia.
  - rewrite extract_PFloat in E. destruct (f64_finite b) eqn:F; [|discriminate].
    injection E as <-. now constructor.
  - cbn in E. injection E as <-. constructor.
  - rewrite extract_PList in E. cbn [no_bigint] in NB.
    destruct (extract_list l) as [c|k] eqn:El; [|discriminate].
    destruct (homog_check c); [|discriminate]. injection E as <-.
    constructor. now apply (extract_list_faithful l IH).
  - discriminate.
Qed.

(* the values that arrive are well-formed FieldValues (ranges, finite floats) without enums *)
Lemma extract_wf : forall p v, extract p = ROk v -> wf v = true /\ enum_free v = true.
Proof.
  induction p as [| b | z | b | s | l IH |] using pyobj_ind'; intros v E.
  - cbn in E. injection E as <-. now split.
  - cbn in E. injection E as <-. now split.
  - rewrite extract_PInt in E. unfold in_i64, in_u64 in E.
    destruct ((i64_min <=? z) && (z <=? i64_max)) eqn:E1; [injection E as <-; now split|].
    destruct ((0 <=? z) && (z <=? u64_max)) eqn:E2; [injection E as <-; now split|].
    destruct (z_to_f64 z) as [b|]; [|discriminate].
    destruct (f64_finite b) eqn:F; [|discriminate]. injection E as <-. now split.
  - rewrite extract_PFloat in E. destruct (f64_finite b) eqn:F; [|discriminate].
    injection E as <-. now split.
  - cbn in E. injection E as <-. now split.
  - rewrite extract_PList in E.
    destruct (extract_list l) as [c|k] eqn:El; [|discriminate].
    destruct (homog_check c); [|discriminate]. injection E as <-. cbn [wf enum_free].
    revert c El. induction IH as [|p l Hp Hl IHl]; intros c El.
    + cbn in El. injection El as <-. now split.
    + cbn [extract_list] in El. destruct (extract p) as [v|k] eqn:Ep; [|discriminate].
      destruct (extract_list l) as [vs|k] eqn:Els; [|discriminate]. injection El as <-.
      destruct (Hp v eq_refl) as [W1 F1]. destruct (IHl vs eq_refl) as [W2 F2].
      cbn. now rewrite W1, F1, W2, F2.
  - discriminate.
Qed.

(* ---------- Python -> Rust -> Python is the identity (outside the big-int class) ---------- *)
Lemma into_py_extract_nb : forall p v, no_bigint p = true -> extract p = ROk v -> into_py v = Ok p.
Proof.
  induction p as [| b | z | b | s | l IH |] using pyobj_ind'; intros v NB E.
  - cbn in E. now injection E as <-.
  - cbn in E. now injection E as <-.
  - rewrite extract_PInt in E. cbn in NB. unfold in_i64, in_u64 in E.
    destruct ((i64_min <=? z) && (z <=? i64_max)) eqn:E1; [now injection E as <-|].
    destruct ((0 <=? z) && (z <=? u64_max)) eqn:E2; [now injection E as <-|].
    exfalso. apply andb_prop in NB. destruct NB as [N1 N2]. apply Z.leb_le in N1, N2.
    apply andb_false_iff in E1, E2. unfold i64_min, i64_max, u64_max in *.
    destruct E1 as [A|A]; apply Z.leb_gt in A; destruct E2 as [B|B]; apply Z.leb_gt in B; lia.
  - rewrite extract_PFloat in E. destruct (f64_finite b); [|discriminate]. now injection E as <-.
  - cbn in E. now injection E as <-.
  - rewrite extract_PList in E. cbn [no_bigint] in NB.
    destruct (extract_list l) as [c|k] eqn:El; [|discriminate].
    destruct (homog_check c); [|discriminate]. injection E as <-.
    rewrite into_py_List.
    assert (G : into_py_list c = Ok l).
    { clear - IH NB El. revert c NB El. induction IH as [|p l Hp Hl IHl]; intros c NB El.
      - cbn in El. now injection El as <-.
      - cbn in NB. apply andb_prop in NB. destruct NB as [NBp NBl].
        cbn [extract_list] in El. destruct (extract p) as [v|k] eqn:Ep; [|discriminate].
        destruct (extract_list l) as [vs|k] eqn:Els; [|discriminate]. injection El as <-.
        cbn [into_py_list]. rewrite (Hp v NBp eq_refl). cbn. rewrite (IHl vs NBl eq_refl). reflexivity. }
    rewrite G. reflexivity.
  - discriminate.
Qed.

(* ---------- Rust -> Python -> Rust ---------- *)
Lemma lexT_all_eq (l' l : list fv) :
  Forall2 (fun a b => eqT a b = true) l' l -> lexT cmpT l' l = Eq.
Proof.
  induction 1 as [|a b l' l H _ IH]; [reflexivity|].
  cbn. unfold eqT in H. destruct (cmpT a b); try discriminate. exact IH.
Qed.

Lemma homog_by_transfer (vs' l : list fv) :
  Forall2 (fun v' v => discriminant v' = pykind v) vs' l ->
  homog_by discriminant vs' = homog_by pykind l.
Proof.
  intros F. unfold homog_by.
  assert (G : forall f g, discriminant f = pykind g ->
              forall r r', Forall2 (fun v' v => discriminant v' = pykind v) r r' ->
              forallb (fun o => (discriminant o =? 0) || (discriminant f =? discriminant o)) r =
              forallb (fun o => (pykind o =? 0) || (pykind g =? pykind o)) r').
  { intros f g Efg r r' Fr. induction Fr as [|a b r r' Hab _ IH]; [reflexivity|].
    cbn. rewrite IH, Hab, Efg. reflexivity. }
  induction F as [|a b vs' l Hab Fl IH]; [reflexivity|].
  cbn [first_nn_by]. rewrite Hab. destruct (pykind b =? 0); [exact IH|]. now apply G.
Qed.

Definition rt_rel (v' v : fv) : Prop := eqT v' v = true /\ discriminant v' = pykind v.

Lemma roundtrip_list l :
  Forall (fun v => wf v = true -> enum_free v = true ->
            exists p, into_py v = Ok p /\
              (if py_homog v then exists v', extract p = ROk v' /\ rt_rel v' v
               else exists k, extract p = Err k)) l ->
  forallb wf l = true -> forallb enum_free l = true ->
  exists ps, into_py_list l = Ok ps /\
    (if forallb py_homog l then exists vs', extract_list ps = ROk vs' /\ Forall2 rt_rel vs' l
     else exists k, extract_list ps = Err k).
Proof.
  induction 1 as [|x l Hx Hl IH]; intros W F.
  - exists []. split; [reflexivity|]. cbn. exists []. split; [reflexivity|constructor].
  - cbn in W, F. apply andb_prop in W, F. destruct W as [Wx Wl], F as [Fx Fl].
    destruct (Hx Wx Fx) as (p & Ep & Hp). destruct (IH Wl Fl) as (ps & Eps & Hps).
    exists (p :: ps). split.
    + cbn [into_py_list]. rewrite Ep. cbn. rewrite Eps. reflexivity.
    + cbn [forallb extract_list]. destruct (py_homog x).
      * destruct Hp as (v' & Ev' & Rv'). rewrite Ev'. cbn [andb].
        destruct (forallb py_homog l).
        -- destruct Hps as (vs' & Evs' & Rvs'). rewrite Evs'.
           exists (v' :: vs'). split; [reflexivity|now constructor].
        -- destruct Hps as (k & Ek). rewrite Ek. now exists k.
      * destruct Hp as (k & Ek). rewrite Ek. now exists k.
Qed.

Lemma roundtrip_strong : forall v, wf v = true -> enum_free v = true ->
  exists p, into_py v = Ok p /\
    (if py_homog v then exists v', extract p = ROk v' /\ rt_rel v' v
     else exists k, extract p = Err k).
Proof.
  induction v as [| z | z | b | s | b | s | l IH] using fv_ind'; intros W F.
  - exists PNone. split; [reflexivity|]. exists Null. repeat split.
  - exists (PInt z). split; [reflexivity|]. cbn [wf] in W. apply andb_prop in W. destruct W as [A B].
    apply Z.leb_le in A, B. cbn [py_homog]. exists (I64 z). split; [apply extract_i64_range; lia|].
    split; [apply eqT_refl|]. cbn [discriminant pykind].
    now replace (z <=? i64_max) with true by (symmetry; apply Z.leb_le; lia).
  - exists (PInt z). split; [reflexivity|]. cbn [wf] in W. apply andb_prop in W. destruct W as [A B].
    apply Z.leb_le in A, B. cbn [py_homog].
    destruct (Z.leb_spec z i64_max) as [L|L].
    + exists (I64 z). split; [apply extract_i64_range; unfold i64_min; lia|].
      split; [apply eqT_int_mixed|]. cbn [discriminant pykind].
      now replace (z <=? i64_max) with true by (symmetry; apply Z.leb_le; lia).
    + exists (U64 z). split; [apply extract_u64_range; lia|].
      split; [apply eqT_refl|]. cbn [discriminant pykind].
      now replace (z <=? i64_max) with false by (symmetry; apply Z.leb_gt; lia).
  - exists (PFloat b). split; [reflexivity|]. cbn in W. exists (F64 b). rewrite extract_PFloat, W.
    split; [reflexivity|]. split; [apply eqT_refl|reflexivity].
  - exists (PStr s). split; [reflexivity|]. exists (Str s). split; [reflexivity|].
    split; [apply eqT_refl|reflexivity].
  - exists (PBool b). split; [reflexivity|]. exists (Boolv b). split; [reflexivity|].
    split; [apply eqT_refl|reflexivity].
  - discriminate.
  - cbn [wf enum_free] in W, F. destruct (roundtrip_list l IH W F) as (ps & Eps & Hps).
    exists (PList ps). split; [rewrite into_py_List, Eps; reflexivity|].
    cbn [py_homog]. rewrite extract_PList. destruct (forallb py_homog l).
    + destruct Hps as (vs' & Evs' & Rvs'). rewrite Evs'. cbn [andb].
      assert (T : homog_check vs' = homog_by pykind l).
      { rewrite homog_check_by. apply homog_by_transfer.
        clear - Rvs'. induction Rvs' as [|a b r r' [_ H] _ IH]; constructor; assumption. }
      rewrite T. destruct (homog_by pykind l).
      * exists (List vs'). split; [reflexivity|]. split; [|reflexivity].
        unfold eqT. rewrite cmpT_list. rewrite lexT_all_eq; [reflexivity|].
        clear - Rvs'. induction Rvs' as [|a b r r' [H _] _ IH]; constructor; assumption.
      * now exists e_hetero.
    + destruct Hps as (k & Ek). rewrite Ek. now exists k.
Qed.

Lemma py_roundtrip_homog : forall v, wf v = true -> enum_free v = true -> py_homog v = true ->
  exists p v', into_py v = Ok p /\ extract p = ROk v' /\ eqT v' v = true.
Proof.
  intros v W F H. destruct (roundtrip_strong v W F) as (p & Ep & Hp). rewrite H in Hp.
  destruct Hp as (v' & Ev' & R & _). now exists p, v'.
Qed.

Lemma py_roundtrip_nonhomog : forall v, wf v = true -> enum_free v = true -> py_homog v = false ->
  exists p k, into_py v = Ok p /\ extract p = Err k.
Proof.
  intros v W F H. destruct (roundtrip_strong v W F) as (p & Ep & Hp). rewrite H in Hp.
  destruct Hp as (k & Ek). now exists p, k.
Qed.

Lemma into_py_total : forall v, enum_free v = true -> exists p, into_py v = Ok p.
Proof.
  induction v as [| z | z | b | s | b | s | l IH] using fv_ind'; intros F;
    try (eexists; reflexivity); try discriminate.
  cbn [enum_free] in F. rewrite into_py_List.
  assert (G : exists ps, into_py_list l = Ok ps).
  { induction IH as [|x l Hx Hl IHl]; [now exists []|].
    cbn in F. apply andb_prop in F. destruct F as [Fx Fl].
    destruct (Hx Fx) as (p & Ep). destruct (IHl Fl) as (ps & Eps).
    exists (p :: ps). cbn [into_py_list]. rewrite Ep. cbn. now rewrite Eps. }
  destruct G as (ps & Eps). rewrite Eps. now eexists.
Qed.

(* ---------- rejections ---------- *)
Lemma extract_other : extract POther = Err e_unsupported.
Proof. reflexivity. Qed.

Lemma extract_nonfinite b : f64_finite b = false -> extract (PFloat b) = Err e_nonfinite.
Proof. intros H. now rewrite extract_PFloat, H. Qed.

Lemma z_to_f64_huge z : 2 ^ 1024 <= Z.abs z -> z_to_f64 z = None.
Proof.
  intros H. unfold z_to_f64.
  assert (P1024 : 0 < 2 ^ 1024) by (apply Z.pow_pos_nonneg; lia).
  destruct (Z.eqb_spec z 0) as [->|NZ]; [cbn in H; lia|].
  set (a := Z.abs z) in *. set (n := Z.log2 a).
  assert (Ha : 0 < a) by lia.
  assert (Hn : 1024 <= n) by (apply Z.log2_le_pow2; assumption).
  destruct (Z.leb_spec n 52) as [L|_]; [lia|].
  cbv zeta.
  set (sh := n - 52). set (q := Z.shiftr a sh).
  assert (Hq : 2 ^ 52 <= q).
  { unfold q. rewrite Z.shiftr_div_pow2 by (unfold sh; lia).
    assert (Hlo : 2 ^ n <= a) by (apply Z.log2_spec; assumption).
    assert (Ppos : 0 < 2 ^ sh) by (apply Z.pow_pos_nonneg; unfold sh; lia).
    replace (2 ^ 52) with (2 ^ n / 2 ^ sh).
    - apply Z.div_le_mono; assumption.
    - rewrite <- Z.pow_sub_r by (unfold sh; lia). f_equal. unfold sh. lia. }
  match goal with |- (if 2047 * 2 ^ 52 <=? ?m then _ else _) = _ => assert (Hm : 2047 * 2 ^ 52 <= m) end.
  { destruct ((2 ^ (sh - 1) <? a mod 2 ^ sh) || ((a mod 2 ^ sh =? 2 ^ (sh - 1)) && Z.odd q));
      assert (0 < 2 ^ 52) by (apply Z.pow_pos_nonneg; lia); nia. }
  apply Z.leb_le in Hm. now rewrite Hm.
Qed.

Lemma extract_huge_int z : 2 ^ 1024 <= Z.abs z -> extract (PInt z) = Err e_unsupported.
Proof.
  intros H. rewrite extract_PInt, (z_to_f64_huge z H).
  assert (P : 2 ^ 65 <= 2 ^ 1024) by (apply Z.pow_le_mono_r; lia).
  unfold in_i64, in_u64, i64_min, i64_max, u64_max.
  assert (E1 : (- 2 ^ 63 <=? z) && (z <=? 2 ^ 63 - 1) = false).
  { apply andb_false_iff. destruct (Z.le_ge_cases 0 z).
    - right. apply Z.leb_gt. lia.
    - left. apply Z.leb_gt. lia. }
  assert (E2 : (0 <=? z) && (z <=? 2 ^ 64 - 1) = false).
  { apply andb_false_iff. destruct (Z.le_ge_cases 0 z).
    - right. apply Z.leb_gt. lia.
    - left. apply Z.leb_gt. lia. }
  now rewrite E1, E2.
Qed.

Lemma extract_list_err l : forall p k, In p l -> extract p = Err k -> exists k', extract_list l = Err k'.
Proof.
  induction l as [|x l IH]; intros p k I E; [destruct I|].
  cbn [extract_list]. destruct I as [->|I].
  - rewrite E. now exists k.
  - destruct (extract x) as [v|k0]; [|now exists k0].
    destruct (IH p k I E) as (k' & Ek'). rewrite Ek'. now exists k'.
Qed.

Lemma extract_PList_elem_err l p k : In p l -> extract p = Err k -> exists k', extract (PList l) = Err k'.
Proof.
  intros I E. rewrite extract_PList. destruct (extract_list_err l p k I E) as (k' & Ek').
  rewrite Ek'. now exists k'.
Qed.

Definition nonnull_disc (v : fv) : Z := discriminant v.

(* the list branch, completely: accepted iff every element converts and all non-null converted
   elements are of one variant (the check is shallow: nested lists all count as "list") *)
Lemma extract_PList_spec l v :
  extract (PList l) = ROk v <->
  exists c, extract_list l = ROk c /\ v = List c /\ same_key discriminant c.
Proof.
  rewrite extract_PList. split.
  - destruct (extract_list l) as [c|k]; [|discriminate].
    destruct (homog_check c) eqn:H; [|discriminate]. intros E. injection E as <-.
    exists c. repeat split. apply homog_by_same. now rewrite <- homog_check_by.
  - intros (c & -> & -> & S). apply homog_by_same in S. rewrite <- homog_check_by in S. now rewrite S.
Qed.

Lemma extract_PList_hetero l c a b :
  extract_list l = ROk c -> In a c -> In b c -> is_null a = false -> is_null b = false ->
  discriminant a <> discriminant b -> extract (PList l) = Err e_hetero.
Proof.
  intros E Ia Ib Na Nb D. rewrite extract_PList, E.
  destruct (homog_check c) eqn:H; [|reflexivity].
  exfalso. rewrite homog_check_by in H. apply homog_by_same in H. apply D.
  rewrite is_null_disc in Na, Nb. apply Z.eqb_neq in Na, Nb. now apply H.
Qed.

(* ---------- shim.rs: a property value that does not convert is a panic ---------- *)
Lemma property_value_spec p :
  (forall v, extract p = ROk v -> property_value p = Ok v) /\
  (forall k, extract p = Err k -> exists site, property_value p = Panic site).
Proof.
  unfold property_value. split.
  - intros v E. now rewrite E.
  - intros k E. rewrite E. now eexists.
Qed.

Lemma into_py_enum s : exists site, into_py (Enum s) = Panic site.
Proof. now eexists. Qed.

(* ---------- refutations of the unrestricted statements (concrete witnesses) ---------- *)
Definition big1 : Z := 2 ^ 64 + 1.
Definition big1_bits : N := 4895412794951729152%N.   (* the binary64 bit pattern of 2^64 *)

Lemma extract_big1 : extract (PInt big1) = ROk (F64 big1_bits).
Proof. vm_compute. reflexivity. Qed.

Lemma extract_faithful_refuted_w : exists p v, extract p = ROk v /\ ~ denotes v p.
Proof.
  exists (PInt big1), (F64 big1_bits). split; [exact extract_big1|].
  intros D. inversion D.
Qed.

Lemma extract_rejects_bigint_refuted_w :
  exists z, ~ (i64_min <= z <= u64_max) /\ exists v, extract (PInt z) = ROk v.
Proof.
  exists big1. split.
  - unfold big1, i64_min, u64_max. lia.
  - exists (F64 big1_bits). exact extract_big1.
Qed.

Lemma into_py_extract_refuted_w : exists p v, extract p = ROk v /\ into_py v <> Ok p.
Proof.
  exists (PInt big1), (F64 big1_bits). split; [exact extract_big1|].
  cbn. intros E. discriminate E.
Qed.

Definition mixed_ints : fv := List [I64 1; U64 (2 ^ 63)].

Lemma py_roundtrip_refuted_w :
  exists v, wf v = true /\ enum_free v = true /\
    forall p, into_py v = Ok p -> exists k, extract p = Err k.
Proof.
  exists mixed_ints. split; [vm_compute; reflexivity|]. split; [reflexivity|].
  intros p E. vm_compute in E. injection E as <-. exists e_hetero. vm_compute. reflexivity.
Qed.
