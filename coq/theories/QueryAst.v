(* QueryAst.v — the abstract GraphQL executable document handed to
   trustfall_core::graphql_query::query::parse_document: what query.rs / directives.rs read from an
   `async_graphql_parser::types::ExecutableDocument` (async-graphql-parser 7.x).
   Model file: definitions only.

   The text -> AST step (async_graphql_parser::parse_query, third party) is NOT modelled; the harness
   walks the real ExecutableDocument and prints it as a term of this type.

   Dropped because the code under study never branches on them: every `Pos` (errors carry the position
   of the offending node; for MultipleOperationsInDocument that position even depends on HashMap
   iteration order), descriptions.  HashMaps (`operations`, `fragments`) are association lists; the
   code only asks `.values().len()`, `.values().next()`, `.values().nth(2)`, none of which depends on
   the iteration order as far as the OUTCOME kind is concerned. *)
From TF Require Export Values.
Local Open Scope string_scope.

(* serde_json::Number (no arbitrary_precision): N::PosInt(u64) | N::NegInt(i64, always < 0) | N::Float(f64),
   the float as its bit pattern *)
Inductive qnum := NPos (n : Z) | NNeg (z : Z) | NFloat (bits : N).

(* async_graphql_value::Value (ConstValue is the same without Variable) *)
Inductive qvalue :=
| QVar (name : string)
| QNull
| QNum (n : qnum)
| QStr (s : string)
| QBool (b : bool)
| QBinary                       (* Value::Binary: cannot be written in query text *)
| QEnum (name : string)
| QList (l : list qvalue)
| QObject (fields : list (string * qvalue)).

(* Vec<(Positioned<Name>, Positioned<Value>)> *)
Definition qargs := list (string * qvalue).

(* types::Directive *)
Record directive := mkDir { d_name : string; d_args : qargs }.

(* types::Selection with types::Field / FragmentSpread / InlineFragment inlined *)
Inductive selection :=
| SField (alias : option string) (name : string) (args : qargs) (dirs : list directive)
         (sels : list selection)
| SSpread (name : string) (dirs : list directive)
| SInline (cond : option string) (dirs : list directive) (sels : list selection).

(* types::Field as a record (a view of the SField constructor) *)
Record field := mkField { f_alias : option string; f_name : string; f_args : qargs;
                          f_dirs : list directive; f_sels : list selection }.

Inductive op_kind := OpQuery | OpMutation | OpSubscription.

(* types::VariableDefinition: name, type text, default value (only `.first()` is inspected) *)
Record vardef := mkVarDef { vd_name : string; vd_type : string; vd_default : option qvalue }.

(* types::OperationDefinition *)
Record operation := mkOp { o_kind : op_kind; o_vars : list vardef; o_dirs : list directive;
                           o_sels : list selection }.

(* types::DocumentOperations: a single anonymous operation, or named operations *)
Inductive operations :=
| OpsSingle (o : operation)
| OpsMultiple (l : list (string * operation)).

(* types::FragmentDefinition *)
Record fragment := mkFrag { fr_cond : string; fr_dirs : list directive; fr_sels : list selection }.

(* types::ExecutableDocument *)
Record document := mkDoc { doc_ops : operations; doc_frags : list (string * fragment) }.

(* ---------- structural measures ---------- *)
(* nesting depth of selection sets (fuel for make_field_node) *)
Fixpoint sel_depth (s : selection) : nat :=
  match s with
  | SField _ _ _ _ sels | SInline _ _ sels =>
      S ((fix go (l : list selection) : nat :=
            match l with [] => O | x :: r => Nat.max (sel_depth x) (go r) end) sels)
  | SSpread _ _ => 1%nat
  end.
Fixpoint sels_depth (l : list selection) : nat :=
  match l with [] => O | x :: r => Nat.max (sel_depth x) (sels_depth r) end.

Definition is_spread (s : selection) : bool := match s with SSpread _ _ => true | _ => false end.
Definition is_inline (s : selection) : bool := match s with SInline _ _ _ => true | _ => false end.
