(* QueryParse.v — model of trustfall_core/src/graphql_query/query.rs (parse_document and everything
   it calls) and graphql_query/directives.rs (the seven `TryFrom<&Positioned<Directive>>` parsers,
   ensure_name_is_valid), plus `impl TryFrom<Value> for FieldValue` of ir/value.rs.
   Model file: definitions only, no proofs (proofs are in QueryParseProofs.v).

   Function-by-function transcription.  Every unwrap/expect/unreachable!/assert!/index is an explicit
   `Panic site`; every ParseError variant parse_document can return is a constructor of `parse_error`
   carrying the same identifying strings (positions dropped; the `Value` of InvalidFieldArgument and
   the Vec<char> of InvalidOutputName/InvalidTagName dropped).  A run is `pres A = res (parse_error + A)`:
   Ok (inr a) = Ok(a), Ok (inl e) = Err(e), Panic = a panic.

   Strings are byte strings.  The character-level tests of directives.rs (`starts_with('$')`,
   `is_ascii_alphabetic`, `is_ascii_alphanumeric`, `== '_'`) only ever accept ASCII characters, and a
   non-ASCII character consists of bytes >= 0x80 only, so the byte-level tests decide the same. *)
From TF Require Export QueryAst OpK.
From TF Require Import Show.
Local Open Scope string_scope.
Local Open Scope list_scope.
Local Open Scope nat_scope.

(* ================================================================== output types *)

(* directives.rs: OperatorArgument *)
Inductive oparg := VarRef (name : string) | TagRef (name : string).

(* ir::Operation<(), OperatorArgument>: the unary and the binary variants *)
Inductive unop := UIsNull | UIsNotNull.
Inductive binop :=
| BEquals | BNotEquals | BLessThan | BLessThanOrEqual | BGreaterThan | BGreaterThanOrEqual
| BContains | BNotContains | BOneOf | BNotOneOf | BHasPrefix | BNotHasPrefix | BHasSuffix
| BNotHasSuffix | BHasSubstring | BNotHasSubstring | BRegexMatches | BNotRegexMatches.

Definition opk_of_unop (u : unop) : opk := match u with UIsNull => IsNull | UIsNotNull => IsNotNull end.
Definition opk_of_binop (b : binop) : opk :=
  match b with
  | BEquals => Equals | BNotEquals => NotEquals | BLessThan => LessThan
  | BLessThanOrEqual => LessThanOrEqual | BGreaterThan => GreaterThan
  | BGreaterThanOrEqual => GreaterThanOrEqual | BContains => Contains | BNotContains => NotContains
  | BOneOf => OneOf | BNotOneOf => NotOneOf | BHasPrefix => HasPrefix | BNotHasPrefix => NotHasPrefix
  | BHasSuffix => HasSuffix | BNotHasSuffix => NotHasSuffix | BHasSubstring => HasSubstring
  | BNotHasSubstring => NotHasSubstring | BRegexMatches => RegexMatches
  | BNotRegexMatches => NotRegexMatches
  end.

(* FilterDirective { operation } *)
Inductive filter_dir := FDUnary (u : unop) | FDBinary (b : binop) (arg : oparg).
Definition fd_opk (f : filter_dir) : opk :=
  match f with FDUnary u => opk_of_unop u | FDBinary b _ => opk_of_binop b end.

(* TransformGroup { transform (always Count), output, tag, filter, retransform };
   OutputDirective / TagDirective are their `name: Option<Arc<str>>` *)
Inductive transform_group :=
  mkTG (outputs : list (option string)) (tags : list (option string)) (filters : list filter_dir)
       (retransform : option transform_group).
Definition tg_outputs (g : transform_group) := match g with mkTG o _ _ _ => o end.
Definition tg_tags (g : transform_group) := match g with mkTG _ t _ _ => t end.
Definition tg_filters (g : transform_group) := match g with mkTG _ _ f _ => f end.
Definition tg_retransform (g : transform_group) := match g with mkTG _ _ _ r => r end.

(* FoldGroup { fold: FoldDirective {}, transform } *)
Record fold_group := mkFG { fg_transform : option transform_group }.

(* FieldConnection (position dropped); arguments: BTreeMap = key-sorted list *)
Record field_conn := mkFC {
  fc_name : string; fc_alias : option string; fc_args : list (string * fv);
  fc_optional : bool;                 (* Option<OptionalDirective {}> *)
  fc_recurse : option Z;              (* Option<RecurseDirective { depth: NonZeroUsize }> *)
  fc_fold : option fold_group }.

(* FieldNode (position dropped) *)
Inductive field_node :=
  mkFN (name : string) (alias : option string) (coerced_to : option string)
       (filters : list filter_dir) (outputs : list (option string)) (tags : list (option string))
       (connections : list (field_conn * field_node)) (transform : option transform_group).
Definition fn_name (n : field_node) := match n with mkFN x _ _ _ _ _ _ _ => x end.
Definition fn_alias (n : field_node) := match n with mkFN _ x _ _ _ _ _ _ => x end.
Definition fn_coerced_to (n : field_node) := match n with mkFN _ _ x _ _ _ _ _ => x end.
Definition fn_filters (n : field_node) := match n with mkFN _ _ _ x _ _ _ _ => x end.
Definition fn_outputs (n : field_node) := match n with mkFN _ _ _ _ x _ _ _ => x end.
Definition fn_tags (n : field_node) := match n with mkFN _ _ _ _ _ x _ _ => x end.
Definition fn_connections (n : field_node) := match n with mkFN _ _ _ _ _ _ x _ => x end.
Definition fn_transform (n : field_node) := match n with mkFN _ _ _ _ _ _ _ x => x end.

(* Query { root_connection, root_field } *)
Record query := mkQuery { q_conn : field_conn; q_field : field_node }.

(* ================================================================== errors *)
Inductive parse_error :=
| EUnrecognizedDirective (dir : string)
| EUnsupportedDirectivePosition (dir msg : string)
| EMissingRequiredDirectiveArgument (dir arg : string)
| EUnrecognizedDirectiveArgument (dir arg : string)
| EDuplicatedDirectiveArgument (dir arg : string)
| EInappropriateTypeForDirectiveArgument (dir arg : string)
| EFilterExpectsListNotString (op value : string)
| EInvalidFieldArgument (fld arg : string)                  (* the Value is dropped *)
| EDocumentContainsNonInlineFragments
| EMultipleOperationsInDocument
| EMultipleQueryRoots
| EUnsupportedQueryRoot (what : string)
| EDirectiveNotInsideQueryRoot (dir : string)
| EDocumentNotAQuery
| EUnsupportedFilterOperator (op : string)
| EInvalidFilterOperandName (operand msg : string)
| EUnsupportedTransformOperator (op : string)
| EInvalidOutputName (name : string)                        (* the Vec<char> is dropped *)
| EInvalidTagName (name : string)                           (* the Vec<char> is dropped *)
| EUnsupportedSyntax (what : string)
| ENestedTypeCoercion
| ETypeCoercionWithSiblingFields
| EUnsupportedDuplicatedDirective (dir : string)
| EDuplicatedEdgeParam (param edge : string)
| EVariableDefinitionInQuery
| EOtherError (msg : string).
(* not produced by parse_document: InvalidGraphQL (the third-party parser's own error) *)

Definition pres (A : Type) := res (parse_error + A).
Definition pok {A} (a : A) : pres A := Ok (inr a).
Definition perr {A} (e : parse_error) : pres A := Ok (inl e).
Definition pbind {A B} (r : pres A) (f : A -> pres B) : pres B :=
  match r with
  | Ok (inr a) => f a
  | Ok (inl e) => Ok (inl e)
  | Panic s => Panic s
  end.
Notation "'dop' x <- r ; k" := (pbind r (fun x => k))
  (at level 200, x name, r at level 100, k at level 200).
Notation "'dop' ' p <- r ; k" := (pbind r (fun x => match x with p => k end))
  (at level 200, p pattern, r at level 100, k at level 200).

(* ================================================================== panic sites *)
(* query.rs *)
Definition site_nth : string := "query.rs:132 mult.values().nth(F1_index).expect(..)".
Definition site_multiple_empty : string := "query.rs:139 unreachable!: DocumentOperations::Multiple with no operations".
Definition site_root_items_index : string := "query.rs:172 root_items[1] on an empty selection set".
Definition site_root_unreachable : string := "query.rs:186 unreachable!: root_node with no items".
Definition site_sibling_index : string := "query.rs:268 selection_set.items[1]".
Definition site_inline_unreachable : string := "query.rs:287 unreachable!()".
Definition site_tg_assert : string := "query.rs:506 assert!(directive_iter.next().is_none())".
Definition site_root_optional : string := "query.rs:523 assert!(root_connection.optional.is_none())".
Definition site_root_recurse : string := "query.rs:524 assert!(root_connection.recurse.is_none())".
Definition site_root_fold : string := "query.rs:525 assert!(root_connection.fold.is_none())".
(* directives.rs *)
Definition site_first_char : string := "directives.rs:118 name.chars().next().unwrap()".
Definition site_prefix_unreachable : string := "directives.rs:140 unreachable!()".
Definition site_pop : string := "directives.rs:172-189 parsed_args.pop().unwrap()".
Definition site_output_node : string := "directives.rs:263 output_argument_node.unwrap()".
Definition site_tag_node : string := "directives.rs:411 tag_argument_node.unwrap()".
(* model *)
Definition site_node_fuel : string := "model fuel exhausted in make_field_node (fuel <= nesting depth: impossible)".

(* query.rs:131: the index passed to `.nth(..)`.  It is 2 in the code under study (defect F1: with
   exactly two operations `.nth(2)` is None and the `.expect` panics).  The one-line repair
   `nth(2)` -> `nth(1)` is modelled by changing this constant to 1. *)
Definition F1_index : nat := 1.  (* was 2 before the repair of F1 (fix: commit 5f9f7f1) *)

(* ================================================================== small helpers *)
(* Directive::get_argument: first argument of that name *)
Fixpoint get_argument (name : string) (args : qargs) : option qvalue :=
  match args with
  | [] => None
  | (n, v) :: r => if String.eqb n name then Some v else get_argument name r
  end.

Definition ascii_in (a : ascii) (lo hi : N) : bool :=
  let n := N_of_ascii a in (N.leb lo n && N.leb n hi)%bool.
(* char::is_ascii_alphabetic / is_ascii_alphanumeric on a byte *)
Definition is_ascii_alphabetic (a : ascii) : bool := (ascii_in a 65 90 || ascii_in a 97 122)%bool.
Definition is_ascii_alphanumeric (a : ascii) : bool := (is_ascii_alphabetic a || ascii_in a 48 57)%bool.
Definition is_underscore (a : ascii) : bool := Ascii.eqb a "_"%char.
(* the predicate `!c.is_ascii_alphanumeric() && c != '_'` *)
Definition invalid_name_char (a : ascii) : bool := (negb (is_ascii_alphanumeric a) && negb (is_underscore a))%bool.

Fixpoint str_exists (p : ascii -> bool) (s : string) : bool :=
  match s with EmptyString => false | String a r => (p a || str_exists p r)%bool end.

(* directives.rs: ensure_name_is_valid (Ok(()) = true) *)
Definition ensure_name_is_valid (name : string) : bool := negb (str_exists invalid_name_char name).

(* BTreeMap<Arc<str>, V>::insert_or_error: None = the key is occupied *)
Fixpoint amap_insert_new {V} (k : string) (v : V) (m : list (string * V)) : option (list (string * V)) :=
  match m with
  | [] => Some [(k, v)]
  | (k', v') :: r =>
      match String.compare k k' with
      | Lt => Some ((k, v) :: m)
      | Eq => None
      | Gt => match amap_insert_new k v r with Some r' => Some ((k', v') :: r') | None => None end
      end
  end.

(* ================================================================== ir/value.rs *)
(* convert_number_to_field_value: as_i64, then as_u64, then as_f64 (always Some without the
   arbitrary_precision feature, so the trailing unreachable!() has no counterpart here) *)
Definition convert_number (n : qnum) : fv :=
  match n with
  | NPos u => if Z.leb u i64_max then I64 u else U64 u
  | NNeg i => I64 i
  | NFloat b => F64 b
  end.

(* impl TryFrom<Value> for FieldValue (None = Err(String)); the list case stops at the first Err *)
Fixpoint fv_of_value (v : qvalue) : option fv :=
  match v with
  | QNull => Some Null
  | QNum n => Some (convert_number n)
  | QStr s => Some (Str s)
  | QBool b => Some (Boolv b)
  | QList l =>
      match (fix all (l : list qvalue) : option (list fv) :=
               match l with
               | [] => Some []
               | x :: r => match fv_of_value x with
                           | None => None
                           | Some y => match all r with Some r' => Some (y :: r') | None => None end
                           end
               end) l with
      | Some l' => Some (List l')
      | None => None
      end
  | QEnum n => Some (Enum n)
  | QBinary => None
  | QVar _ => None
  | QObject _ => None
  end.

(* ================================================================== directives.rs *)
Definition unop_of_name (s : string) : option unop :=
  if String.eqb s "is_null" then Some UIsNull
  else if String.eqb s "is_not_null" then Some UIsNotNull
  else None.

Definition binop_of_name (s : string) : option binop :=
  if String.eqb s "=" then Some BEquals
  else if String.eqb s "!=" then Some BNotEquals
  else if String.eqb s "<" then Some BLessThan
  else if String.eqb s "<=" then Some BLessThanOrEqual
  else if String.eqb s ">" then Some BGreaterThan
  else if String.eqb s ">=" then Some BGreaterThanOrEqual
  else if String.eqb s "contains" then Some BContains
  else if String.eqb s "not_contains" then Some BNotContains
  else if String.eqb s "one_of" then Some BOneOf
  else if String.eqb s "not_one_of" then Some BNotOneOf
  else if String.eqb s "has_prefix" then Some BHasPrefix
  else if String.eqb s "not_has_prefix" then Some BNotHasPrefix
  else if String.eqb s "has_suffix" then Some BHasSuffix
  else if String.eqb s "not_has_suffix" then Some BNotHasSuffix
  else if String.eqb s "has_substring" then Some BHasSubstring
  else if String.eqb s "not_has_substring" then Some BNotHasSubstring
  else if String.eqb s "regex" then Some BRegexMatches
  else if String.eqb s "not_regex" then Some BNotRegexMatches
  else None.

(* the closure mapped over the `value` list, on a Value::String(s) *)
Definition parse_operand (s : string) : pres oparg :=
  let bad_prefix :=
    perr (EInvalidFilterOperandName s
            ("Filter argument was expected to start with '$' or '%' but did not: " ++ s)) in
  match s with
  | EmptyString => bad_prefix
  | String c name =>
      if (Ascii.eqb c "$"%char || Ascii.eqb c "%"%char)%bool then
        (* s.split_at(1) *)
        let prefix := String c EmptyString in
        if String.eqb name "" then
          perr (EInvalidFilterOperandName s ("Filter argument is empty after '" ++ prefix ++ "' prefix."))
        else
          match name with
          | EmptyString => Panic site_first_char
          | String first_char _ =>
              if (negb (is_ascii_alphabetic first_char) && negb (is_underscore first_char))%bool then
                perr (EInvalidFilterOperandName s
                        ("Filter argument names must start with an ASCII letter or underscore character: " ++ name))
              else if str_exists invalid_name_char name then
                perr (EInvalidFilterOperandName s
                        ("Filter argument names must only contain ASCII alphanumerics or underscore characters: " ++ name))
              else if Ascii.eqb c "$"%char then pok (VarRef name)
              else if Ascii.eqb c "%"%char then pok (TagRef name)
              else Panic site_prefix_unreachable
          end
      else bad_prefix
  end.

(* .iter().map(..).collect::<Result<SmallVec<_>, _>>() over the `value` list *)
Fixpoint parse_operands (l : list qvalue) : pres (list oparg) :=
  match l with
  | [] => pok []
  | QStr s :: r => dop a <- parse_operand s; dop r' <- parse_operands r; pok (a :: r')
  | _ :: _ => perr (EInappropriateTypeForDirectiveArgument "@filter" "value")
  end.

(* the `for (argument_name, _) in arguments` loop of FilterDirective *)
Fixpoint filter_check_arg_names (args : qargs) : pres unit :=
  match args with
  | [] => pok tt
  | (n, _) :: r =>
      if (String.eqb n "op" || String.eqb n "value")%bool then filter_check_arg_names r
      else perr (EUnrecognizedDirectiveArgument "@filter" n)
  end.

(* SmallVec::pop *)
Definition pop_last {A} (l : list A) : option A := List.last (map Some l) None.

(* impl TryFrom<&Positioned<Directive>> for FilterDirective *)
Definition parse_filter (d : directive) : pres filter_dir :=
  match get_argument "op" (d_args d) with
  | None => perr (EMissingRequiredDirectiveArgument "@filter" "op")
  | Some op_argument =>
      match op_argument with
      | QStr op =>
          dop _ <- filter_check_arg_names (d_args d);
          dop parsed_args <-
            match get_argument "value" (d_args d) with
            | Some (QList l) => parse_operands l
            | Some (QStr argument_value) => perr (EFilterExpectsListNotString op argument_value)
            | Some _ => perr (EInappropriateTypeForDirectiveArgument "@filter" "value")
            | None => pok []
            end;
          let expected_arg_count := match unop_of_name op with Some _ => 0 | None => 1 end in
          if negb (Nat.eqb (List.length parsed_args) expected_arg_count) then
            perr (EOtherError ("Filter argument count mismatch: expected " ++ dnat expected_arg_count
                               ++ " but found " ++ dnat (List.length parsed_args)))
          else
            match unop_of_name op with
            | Some u => pok (FDUnary u)
            | None =>
                match binop_of_name op with
                | Some b =>
                    match pop_last parsed_args with
                    | Some a => pok (FDBinary b a)
                    | None => Panic site_pop
                    end
                | None => perr (EUnsupportedFilterOperator op)
                end
            end
      | _ => perr (EInappropriateTypeForDirectiveArgument "@filter" "op")
      end
  end.

(* the `seen_name` loop shared by @output / @tag / @transform / @recurse:
   a second `key` argument is DuplicatedDirectiveArgument, any other name is Unrecognized *)
Fixpoint single_arg_loop (dir key : string) (args : qargs) (seen : bool) : pres unit :=
  match args with
  | [] => pok tt
  | (n, _) :: r =>
      if String.eqb n key then
        if negb seen then single_arg_loop dir key r true
        else perr (EDuplicatedDirectiveArgument dir n)
      else perr (EUnrecognizedDirectiveArgument dir n)
  end.

(* impl TryFrom for OutputDirective / TagDirective (they differ in names, error variant, unwrap site) *)
Definition parse_named (dir : string) (bad_name : string -> parse_error) (site : string)
           (d : directive) : pres (option string) :=
  dop _ <- single_arg_loop dir "name" (d_args d) false;
  let argument_node := get_argument "name" (d_args d) in
  dop argument <-
    match argument_node with
    | None => pok None
    | Some (QStr s) => pok (Some s)
    | Some _ => perr (EInappropriateTypeForDirectiveArgument dir "name")
    end;
  match argument with
  | Some name =>
      if ensure_name_is_valid name then pok (Some name)
      else match argument_node with
           | Some _ => perr (bad_name name)
           | None => Panic site
           end
  | None => pok None
  end.
Definition parse_output := parse_named "@output" EInvalidOutputName site_output_node.
Definition parse_tag := parse_named "@tag" EInvalidTagName site_tag_node.

(* impl TryFrom for TransformDirective (kind is always Count) *)
Definition parse_transform (d : directive) : pres unit :=
  dop _ <- single_arg_loop "@transform" "op" (d_args d) false;
  match get_argument "op" (d_args d) with
  | None => perr (EMissingRequiredDirectiveArgument "@transform" "op")
  | Some (QStr s) =>
      if String.eqb s "count" then pok tt else perr (EUnsupportedTransformOperator s)
  | Some _ => perr (EInappropriateTypeForDirectiveArgument "@transform" "op")
  end.

(* impl TryFrom for OptionalDirective / FoldDirective *)
Definition parse_no_args (dir : string) (d : directive) : pres unit :=
  match d_args d with
  | (n, _) :: _ => perr (EUnrecognizedDirectiveArgument dir n)
  | [] => pok tt
  end.

(* impl TryFrom for RecurseDirective:  n.as_u64().and_then(|v| NonZeroUsize::new(v as usize)) *)
Definition parse_recurse (d : directive) : pres Z :=
  dop _ <- single_arg_loop "@recurse" "depth" (d_args d) false;
  match get_argument "depth" (d_args d) with
  | None => perr (EMissingRequiredDirectiveArgument "@recurse" "depth")
  | Some (QNum (NPos v)) =>
      if Z.eqb v 0 then perr (EInappropriateTypeForDirectiveArgument "@recurse" "depth") else pok v
  | Some _ => perr (EInappropriateTypeForDirectiveArgument "@recurse" "depth")
  end.

(* ================================================================== query.rs *)
(* enum ParsedDirective (positions dropped) *)
Inductive parsed_directive :=
| PDFilter (f : filter_dir)
| PDFold
| PDOptional
| PDOutput (name : option string)
| PDRecurse (depth : Z)
| PDTag (name : option string)
| PDTransform.

(* ParsedDirective::kind *)
Definition pd_kind (d : parsed_directive) : string :=
  match d with
  | PDFilter _ => "@filter" | PDFold => "@fold" | PDOptional => "@optional" | PDOutput _ => "@output"
  | PDRecurse _ => "@recurse" | PDTag _ => "@tag" | PDTransform => "@transform"
  end.

(* the body of the `for directive in directives` loop of make_directives *)
Definition make_directive (d : directive) : pres parsed_directive :=
  let n := d_name d in
  if String.eqb n "filter" then dop f <- parse_filter d; pok (PDFilter f)
  else if String.eqb n "output" then dop o <- parse_output d; pok (PDOutput o)
  else if String.eqb n "tag" then dop t <- parse_tag d; pok (PDTag t)
  else if String.eqb n "transform" then dop _ <- parse_transform d; pok PDTransform
  else if String.eqb n "optional" then dop _ <- parse_no_args "@optional" d; pok PDOptional
  else if String.eqb n "recurse" then dop r <- parse_recurse d; pok (PDRecurse r)
  else if String.eqb n "fold" then dop _ <- parse_no_args "@fold" d; pok PDFold
  else perr (EUnrecognizedDirective n).

(* fn make_directives *)
Fixpoint make_directives (ds : list directive) : pres (list parsed_directive) :=
  match ds with
  | [] => pok []
  | d :: r => dop p <- make_directive d; dop r' <- make_directives r; pok (p :: r')
  end.

(* fn make_transform_group: `l` is the state of the shared `directive_iter`; the accumulators are the
   three Vecs; the result also carries the iterator state after the call *)
Fixpoint make_transform_group (l : list parsed_directive)
         (output tag : list (option string)) (filter : list filter_dir)
  : pres (transform_group * list parsed_directive) :=
  let finish (retransform : option transform_group) (rest : list parsed_directive) :=
    (* assert!(directive_iter.next().is_none()) *)
    match rest with
    | [] => pok (mkTG output tag filter retransform, rest)
    | _ :: _ => Panic site_tg_assert
    end in
  match l with
  | [] => finish None []
  | PDFilter f :: r => make_transform_group r output tag (filter ++ [f])
  | PDOutput o :: r => make_transform_group r (output ++ [o]) tag filter
  | PDTag t :: r => make_transform_group r output (tag ++ [t]) filter
  | PDTransform :: r =>
      dop '(inner, rest) <- make_transform_group r [] [] [];
      finish (Some inner) rest
  | (PDFold | PDOptional | PDRecurse _) as d :: _ =>
      perr (EUnsupportedDirectivePosition (pd_kind d)
              "this directive cannot appear after a @transform directive")
  end.

(* fn make_fold_group *)
Definition make_fold_group (l : list parsed_directive) : pres fold_group :=
  match l with
  | PDTransform :: r =>
      dop '(g, _) <- make_transform_group r [] [] [];
      pok (mkFG (Some g))
  | PDFold :: _ => perr (EUnsupportedDuplicatedDirective "@fold")
  | d :: _ =>
      perr (EUnsupportedDirectivePosition (pd_kind d) "this directive cannot appear after a @fold directive")
  | [] => pok (mkFG None)
  end.

(* the try_fold building the `arguments` BTreeMap of make_field_connection *)
Fixpoint conn_arguments (fname : string) (args : qargs) (acc : list (string * fv))
  : pres (list (string * fv)) :=
  match args with
  | [] => pok acc
  | (n, v) :: r =>
      match fv_of_value v with
      | None => perr (EInvalidFieldArgument fname n)
      | Some x =>
          match amap_insert_new n x acc with
          | None => perr (EDuplicatedEdgeParam n fname)
          | Some acc' => conn_arguments fname r acc'
          end
      end
  end.

(* the `loop { match directives_iter.next() .. }` of make_field_connection:
   result = (optional, recurse, maybe_fold = Some(iterator state after the @fold)) *)
Fixpoint conn_loop (l : list parsed_directive) (optional : bool) (recurse : option Z)
  : pres (bool * option Z * option (list parsed_directive)) :=
  match l with
  | [] => pok (optional, recurse, None)
  | PDOptional :: r =>
      if negb optional then conn_loop r true recurse
      else perr (EUnsupportedDuplicatedDirective "@optional")
  | PDRecurse d :: r =>
      match recurse with
      | None => conn_loop r optional (Some d)
      | Some _ => perr (EUnsupportedDuplicatedDirective "@recurse")
      end
  | PDFold :: r => pok (optional, recurse, Some r)
  | PDTransform :: _ =>
      perr (EUnsupportedDirectivePosition "@transform"
              "Cannot transform an edge prior to a @fold directive. Consider adding @fold before the @transform here.")
  | (PDFilter _ | PDOutput _ | PDTag _) :: r => conn_loop r optional recurse
  end.

(* fn make_field_connection *)
Definition make_field_connection (f : field) : pres field_conn :=
  dop arguments <- conn_arguments (f_name f) (f_args f) [];
  dop directives <- make_directives (f_dirs f);
  dop '(optional, recurse, maybe_fold) <- conn_loop directives false None;
  dop fold_group <-
    match maybe_fold with
    | Some rest => dop g <- make_fold_group rest; pok (Some g)
    | None => pok None
    end;
  pok (mkFC (f_name f) (f_alias f) arguments optional recurse fold_group).

(* the `loop { match directives_iter.next() .. }` of make_field_node:
   result = (filter, output, tag, maybe_transform = Some(iterator state after the @transform)) *)
Fixpoint node_loop (l : list parsed_directive)
         (filter : list filter_dir) (output tag : list (option string))
  : list filter_dir * list (option string) * list (option string) * option (list parsed_directive) :=
  match l with
  | [] => (filter, output, tag, None)
  | PDFilter f :: r => node_loop r (filter ++ [f]) output tag
  | PDOutput o :: r => node_loop r filter (output ++ [o]) tag
  | PDTag t :: r => node_loop r filter output (tag ++ [t])
  | PDTransform :: r => (filter, output, tag, Some r)
  | (PDOptional | PDFold | PDRecurse _) :: r => node_loop r filter output tag
  end.

(* the inline-fragment analysis of make_field_node: (coerced_to, field_selections) *)
Definition split_coercion (sels : list selection) : pres (option string * list selection) :=
  match List.find is_inline sels with
  | Some s =>
      if Nat.ltb 1 (List.length sels) then
        match nth_error sels 1 with
        | Some _ => perr ETypeCoercionWithSiblingFields
        | None => Panic site_sibling_index
        end
      else
        match s with
        | SInline cond _ isels => pok (cond, isels)
        | _ => Panic site_inline_unreachable
        end
  | None => pok (None, sels)
  end.

(* fn make_field_node, with fuel for the recursion into the selected sub-fields *)
Fixpoint make_field_node (fuel : nat) (f : field) : pres field_node :=
  match fuel with
  | O => Panic site_node_fuel
  | S fuel' =>
      match List.find is_spread (f_sels f) with
      | Some _ => perr (EUnsupportedSyntax "fragment spread")
      | None =>
          dop '(coerced_to, field_selections) <- split_coercion (f_sels f);
          dop directives <- make_directives (f_dirs f);
          let '(filter, output, tag, maybe_transform) := node_loop directives [] [] [] in
          dop transform_group <-
            match maybe_transform with
            | Some rest => dop '(g, _) <- make_transform_group rest [] [] []; pok (Some g)
            | None => pok None
            end;
          dop connections <-
            (fix conns (l : list selection) : pres (list (field_conn * field_node)) :=
               match l with
               | [] => pok []
               | SSpread _ _ :: _ => perr (EUnsupportedSyntax "fragment spread")
               | SInline _ _ _ :: _ => perr ENestedTypeCoercion
               | SField a n args dirs sels :: r =>
                   let sub := mkField a n args dirs sels in
                   dop edge <- make_field_connection sub;
                   dop vertex <- make_field_node fuel' sub;
                   dop r' <- conns r;
                   pok ((edge, vertex) :: r')
               end) field_selections;
          pok (mkFN (f_name f) (f_alias f) coerced_to filter output tag connections transform_group)
      end
  end.

Definition field_fuel (f : field) : nat := S (S (sels_depth (f_sels f))).

(* fn parse_operation_definition: Ok = the root field *)
Definition parse_operation_definition (op : operation) : pres field :=
  match o_kind op with
  | OpMutation | OpSubscription => perr EDocumentNotAQuery
  | OpQuery =>
      match o_vars op with
      | _ :: _ => perr EVariableDefinitionInQuery
      | [] =>
          match o_dirs op with
          | first_directive :: _ => perr (EDirectiveNotInsideQueryRoot (d_name first_directive))
          | [] =>
              let root_items := o_sels op in
              if negb (Nat.eqb (List.length root_items) 1) then
                match nth_error root_items 1 with
                | Some _ => perr EMultipleQueryRoots
                | None => Panic site_root_items_index
                end
              else
                match root_items with
                | SField a n args dirs sels :: _ => pok (mkField a n args dirs sels)
                | SSpread _ _ :: _ => perr (EUnsupportedQueryRoot "a fragment spread")
                | SInline _ _ _ :: _ => perr (EUnsupportedQueryRoot "an inline fragment")
                | [] => Panic site_root_unreachable
                end
          end
      end
  end.

(* fn try_get_query_root *)
Definition try_get_query_root (d : document) : pres field :=
  match doc_frags d with
  | _ :: _ => perr EDocumentContainsNonInlineFragments
  | [] =>
      match doc_ops d with
      | OpsMultiple mult =>
          if Nat.ltb 1 (List.length mult) then
            match nth_error mult F1_index with
            | Some _ => perr EMultipleOperationsInDocument
            | None => Panic site_nth
            end
          else
            match mult with
            | (_, node) :: _ => parse_operation_definition node
            | [] => Panic site_multiple_empty
            end
      | OpsSingle op => parse_operation_definition op
      end
  end.

(* pub fn parse_document *)
Definition parse_doc (d : document) : pres query :=
  dop query_root <- try_get_query_root d;
  match f_dirs query_root with
  | dir :: _ => perr (EDirectiveNotInsideQueryRoot (d_name dir))
  | [] =>
      dop root_connection <- make_field_connection query_root;
      if fc_optional root_connection then Panic site_root_optional
      else match fc_recurse root_connection with
           | Some _ => Panic site_root_recurse
           | None =>
               match fc_fold root_connection with
               | Some _ => Panic site_root_fold
               | None =>
                   dop root_field <- make_field_node (field_fuel query_root) query_root;
                   pok (mkQuery root_connection root_field)
               end
           end
  end.

(* ================================================================== known-defect classes (stage 1) *)
(* K-two-operations (defect F1): no fragment definitions and more than one but at most F1_index named
   operations, i.e. exactly two.  (With the repaired index 1 the class is empty.) *)
Definition k_two_operations (d : document) : bool :=
  match doc_frags d, doc_ops d with
  | [], OpsMultiple mult => (Nat.ltb 1 (List.length mult) && Nat.leb (List.length mult) F1_index)%bool
  | _, _ => false
  end.

(* the operation try_get_query_root hands to parse_operation_definition, if any *)
Definition selected_operation (d : document) : option operation :=
  match doc_frags d, doc_ops d with
  | [], OpsSingle op => Some op
  | [], OpsMultiple [(_, op)] => Some op
  | _, _ => None
  end.

(* K-no-operations (AST only: the parser never produces `Multiple` with an empty map) *)
Definition k_no_operations (d : document) : bool :=
  match doc_frags d, doc_ops d with
  | [], OpsMultiple [] => true
  | _, _ => false
  end.

(* K-empty-root-selection-set (AST only: the grammar requires at least one selection): the selected
   operation is a query without variable definitions and directives whose selection set is empty *)
Definition k_empty_root_selection (d : document) : bool :=
  match selected_operation d with
  | Some (mkOp OpQuery [] [] []) => true
  | _ => false
  end.

Definition known1 (d : document) : bool :=
  (k_two_operations d || k_no_operations d || k_empty_root_selection d)%bool.
Definition Known1 (d : document) : Prop := known1 d = true.

(* ================================================================== rendering (correspondence check) *)
Local Open Scope string_scope.
Definition show_str (s : string) : string := hex s.
Definition show_ostr (o : option string) : string := show_opt hex o.
Definition show_list {A} (f : A -> string) (l : list A) : string := "[" ++ String.concat "," (map f l) ++ "]".

Definition show_oparg (a : oparg) : string :=
  match a with VarRef n => "$" ++ hex n | TagRef n => "%" ++ hex n end.
Definition show_filter_dir (f : filter_dir) : string :=
  match f with
  | FDUnary u => "F(" ++ opk_name (opk_of_unop u) ++ ")"
  | FDBinary b a => "F(" ++ opk_name (opk_of_binop b) ++ " " ++ show_oparg a ++ ")"
  end.
Fixpoint show_tg (g : transform_group) : string :=
  match g with
  | mkTG o t f r =>
      "TG(" ++ show_list show_ostr o ++ show_list show_ostr t ++ show_list show_filter_dir f
      ++ match r with Some g' => show_tg g' | None => "-" end ++ ")"
  end.
Definition show_otg (o : option transform_group) : string :=
  match o with Some g => show_tg g | None => "-" end.
Definition show_arg (a : string * fv) : string := hex (fst a) ++ "=" ++ show_fv (snd a).
Definition show_conn (c : field_conn) : string :=
  "C(" ++ hex (fc_name c) ++ "," ++ show_ostr (fc_alias c) ++ "," ++ show_list show_arg (fc_args c)
  ++ "," ++ show_bool (fc_optional c) ++ "," ++ show_opt dz (fc_recurse c) ++ ","
  ++ match fc_fold c with Some g => "fold" ++ show_otg (fg_transform g) | None => "-" end ++ ")".
Fixpoint show_node (n : field_node) : string :=
  match n with
  | mkFN name alias co f o t conns tg =>
      "N(" ++ hex name ++ "," ++ show_ostr alias ++ "," ++ show_ostr co ++ ","
      ++ show_list show_filter_dir f ++ show_list show_ostr o ++ show_list show_ostr t ++ show_otg tg
      ++ "[" ++ String.concat "," (map (fun cn => show_conn (fst cn) ++ show_node (snd cn)) conns) ++ "])"
  end.
Definition show_query (q : query) : string := "Q(" ++ show_conn (q_conn q) ++ show_node (q_field q) ++ ")".

Definition show_parse_error (e : parse_error) : string :=
  match e with
  | EUnrecognizedDirective d => "UnrecognizedDirective " ++ hex d
  | EUnsupportedDirectivePosition d m => "UnsupportedDirectivePosition " ++ hex d ++ " " ++ hex m
  | EMissingRequiredDirectiveArgument d a => "MissingRequiredDirectiveArgument " ++ hex d ++ " " ++ hex a
  | EUnrecognizedDirectiveArgument d a => "UnrecognizedDirectiveArgument " ++ hex d ++ " " ++ hex a
  | EDuplicatedDirectiveArgument d a => "DuplicatedDirectiveArgument " ++ hex d ++ " " ++ hex a
  | EInappropriateTypeForDirectiveArgument d a => "InappropriateTypeForDirectiveArgument " ++ hex d ++ " " ++ hex a
  | EFilterExpectsListNotString o v => "FilterExpectsListNotString " ++ hex o ++ " " ++ hex v
  | EInvalidFieldArgument f a => "InvalidFieldArgument " ++ hex f ++ " " ++ hex a
  | EDocumentContainsNonInlineFragments => "DocumentContainsNonInlineFragments"
  | EMultipleOperationsInDocument => "MultipleOperationsInDocument"
  | EMultipleQueryRoots => "MultipleQueryRoots"
  | EUnsupportedQueryRoot w => "UnsupportedQueryRoot " ++ hex w
  | EDirectiveNotInsideQueryRoot d => "DirectiveNotInsideQueryRoot " ++ hex d
  | EDocumentNotAQuery => "DocumentNotAQuery"
  | EUnsupportedFilterOperator o => "UnsupportedFilterOperator " ++ hex o
  | EInvalidFilterOperandName o m => "InvalidFilterOperandName " ++ hex o ++ " " ++ hex m
  | EUnsupportedTransformOperator o => "UnsupportedTransformOperator " ++ hex o
  | EInvalidOutputName n => "InvalidOutputName " ++ hex n
  | EInvalidTagName n => "InvalidTagName " ++ hex n
  | EUnsupportedSyntax w => "UnsupportedSyntax " ++ hex w
  | ENestedTypeCoercion => "NestedTypeCoercion"
  | ETypeCoercionWithSiblingFields => "TypeCoercionWithSiblingFields"
  | EUnsupportedDuplicatedDirective d => "UnsupportedDuplicatedDirective " ++ hex d
  | EDuplicatedEdgeParam p e => "DuplicatedEdgeParam " ++ hex p ++ " " ++ hex e
  | EVariableDefinitionInQuery => "VariableDefinitionInQuery"
  | EOtherError m => "OtherError " ++ hex m
  end.

Definition show_pres {A} (f : A -> string) (r : pres A) : string :=
  match r with
  | Ok (inr a) => "OK " ++ f a
  | Ok (inl e) => "ERR " ++ show_parse_error e
  | Panic _ => "PANIC"
  end.
Definition show_parse_doc (d : document) : string := show_pres show_query (parse_doc d).
