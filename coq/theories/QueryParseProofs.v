(* QueryParseProofs.v — parse_document never panics outside the known classes (stage 1 of C10). *)
From Coq Require Import Lia.
From TF Require Import Values QueryAst QueryParse.
Local Open Scope string_scope.
Local Open Scope list_scope.

(* "does not panic" *)
Definition np {A} (r : res A) : Prop := exists a, r = Ok a.

Lemma np_ok : forall A (a : A), np (Ok a).
Proof. intros; eexists; reflexivity. Qed.
Lemma np_pok : forall A (a : A), np (pok a).
Proof. intros; eexists; reflexivity. Qed.
Lemma np_perr : forall A e, np (@perr A e).
Proof. intros; eexists; reflexivity. Qed.
#[export] Hint Resolve np_ok np_pok np_perr : np.

Lemma np_pbind : forall A B (r : pres A) (f : A -> pres B),
  np r -> (forall a, r = Ok (inr a) -> np (f a)) -> np (pbind r f).
Proof.
  intros A B r f [x Hx] Hf. subst r. destruct x as [e | a]; cbn.
  - eexists; reflexivity.
  - apply Hf; reflexivity.
Qed.

Ltac npb := apply np_pbind; [ | intros ? ? ].
Tactic Notation "npbn" ident(x) ident(H) := apply np_pbind; [ | intros x H ].

(* ---------------------------------------------------------------- directives.rs *)
Lemma parse_operand_np : forall s, np (parse_operand s).
Proof.
  intros s. unfold parse_operand. destruct s as [| c name]; auto with np.
  destruct (Ascii.eqb c "$" || Ascii.eqb c "%")%bool eqn:Hc; auto with np.
  destruct name as [| first rest]; [cbn; auto with np |].
  replace (String.eqb (String first rest) "") with false by reflexivity.
  destruct (negb (is_ascii_alphabetic first) && negb (is_underscore first))%bool; auto with np.
  destruct (str_exists invalid_name_char (String first rest)); auto with np.
  destruct (Ascii.eqb c "$") eqn:H1; auto with np.
  destruct (Ascii.eqb c "%") eqn:H2; auto with np.
  discriminate Hc.
Qed.

Lemma parse_operands_np : forall l, np (parse_operands l).
Proof.
  induction l as [| v r IH]; cbn; auto with np.
  destruct v; auto with np.
  npb; [apply parse_operand_np |]. npb; [exact IH |]. auto with np.
Qed.

Lemma filter_check_arg_names_np : forall args, np (filter_check_arg_names args).
Proof.
  induction args as [| [n v] r IH]; cbn; auto with np.
  destruct (String.eqb n "op" || String.eqb n "value")%bool; auto with np.
Qed.

Lemma pop_last_one : forall A (l : list A), List.length l = 1%nat -> exists a, pop_last l = Some a.
Proof.
  intros A l H. destruct l as [| a [| b r]]; try discriminate. exists a. reflexivity.
Qed.

Lemma parse_filter_np : forall d, np (parse_filter d).
Proof.
  intros d. unfold parse_filter.
  destruct (get_argument "op" (d_args d)) as [opv |]; auto with np.
  destruct opv; auto with np.
  npb; [apply filter_check_arg_names_np |].
  npb.
  { destruct (get_argument "value" (d_args d)) as [v |]; auto with np.
    destruct v; auto with np. apply parse_operands_np. }
  destruct (unop_of_name s) eqn:Hu.
  - destruct (negb (Nat.eqb (List.length a0) 0)); auto with np.
  - destruct (negb (Nat.eqb (List.length a0) 1)) eqn:Hlen; auto with np.
    destruct (binop_of_name s); auto with np.
    apply Bool.negb_false_iff in Hlen. apply Nat.eqb_eq in Hlen.
    destruct (pop_last_one _ a0 Hlen) as [x Hx]. rewrite Hx. auto with np.
Qed.

Lemma single_arg_loop_np : forall dir key args seen, np (single_arg_loop dir key args seen).
Proof.
  intros dir key args. induction args as [| [n v] r IH]; intros seen; cbn; auto with np.
  destruct (String.eqb n key); auto with np.
  destruct seen; cbn; auto with np.
Qed.

Lemma parse_named_np : forall dir bad site d, np (parse_named dir bad site d).
Proof.
  intros dir bad site d. unfold parse_named.
  npb; [apply single_arg_loop_np |].
  destruct (get_argument "name" (d_args d)) as [v |] eqn:Hn.
  - npb; [destruct v; auto with np |].
    destruct a0; auto with np.
    destruct (ensure_name_is_valid s); auto with np.
  - cbn. auto with np.
Qed.

Lemma parse_transform_np : forall d, np (parse_transform d).
Proof.
  intros d. unfold parse_transform. npb; [apply single_arg_loop_np |].
  destruct (get_argument "op" (d_args d)) as [v |]; auto with np.
  destruct v; auto with np. destruct (String.eqb s "count"); auto with np.
Qed.

Lemma parse_no_args_np : forall dir d, np (parse_no_args dir d).
Proof. intros dir d. unfold parse_no_args. destruct (d_args d) as [| [n v] r]; auto with np. Qed.

Lemma parse_recurse_np : forall d, np (parse_recurse d).
Proof.
  intros d. unfold parse_recurse. npb; [apply single_arg_loop_np |].
  destruct (get_argument "depth" (d_args d)) as [v |]; auto with np.
  destruct v; auto with np. destruct n; auto with np. destruct (Z.eqb n 0); auto with np.
Qed.

(* ---------------------------------------------------------------- query.rs: directives *)
Lemma make_directive_np : forall d, np (make_directive d).
Proof.
  intros d. unfold make_directive.
  repeat match goal with |- np (if ?c then _ else _) => destruct c end; auto with np.
  - npb; [apply parse_filter_np | auto with np].
  - npb; [apply parse_named_np | auto with np].
  - npb; [apply parse_named_np | auto with np].
  - npb; [apply parse_transform_np | auto with np].
  - npb; [apply parse_no_args_np | auto with np].
  - npb; [apply parse_recurse_np | auto with np].
  - npb; [apply parse_no_args_np | auto with np].
Qed.

Lemma make_directives_np : forall ds, np (make_directives ds).
Proof.
  induction ds as [| d r IH]; cbn; auto with np.
  npb; [apply make_directive_np |]. npb; [exact IH |]. auto with np.
Qed.

(* make_transform_group never panics and always exhausts the iterator *)
Lemma make_transform_group_spec : forall l o t f,
  exists r, make_transform_group l o t f = Ok r /\
            forall g rest, r = inr (g, rest) -> rest = [].
Proof.
  induction l as [| d r IH]; intros o t f.
  - cbn. eexists; split; [reflexivity |]. intros g rest H. inversion H; reflexivity.
  - destruct d; cbn [make_transform_group].
    + apply IH.
    + eexists; split; [reflexivity |]. intros g rest H; discriminate H.
    + eexists; split; [reflexivity |]. intros g rest H; discriminate H.
    + apply IH.
    + eexists; split; [reflexivity |]. intros g rest H; discriminate H.
    + apply IH.
    + destruct (IH [] [] []) as [x [Hx Hrest]]. rewrite Hx.
      destruct x as [e | [inner rest]]; cbn.
      * eexists; split; [reflexivity |]. intros g rest H; discriminate H.
      * rewrite (Hrest inner rest eq_refl).
        eexists; split; [reflexivity |]. intros g rest' H. inversion H; reflexivity.
Qed.

Lemma make_transform_group_np : forall l o t f, np (make_transform_group l o t f).
Proof. intros. destruct (make_transform_group_spec l o t f) as [r [H _]]. exists r; exact H. Qed.

Lemma make_fold_group_np : forall l, np (make_fold_group l).
Proof.
  intros l. unfold make_fold_group. destruct l as [| d r]; auto with np.
  destruct d; auto with np.
  npb; [apply make_transform_group_np |]. destruct a as [g rest]. auto with np.
Qed.

Lemma conn_arguments_np : forall fname args acc, np (conn_arguments fname args acc).
Proof.
  intros fname args. induction args as [| [n v] r IH]; intros acc; cbn; auto with np.
  destruct (fv_of_value v); auto with np.
  destruct (amap_insert_new n f acc); auto with np.
Qed.

Lemma conn_loop_np : forall l o r, np (conn_loop l o r).
Proof.
  induction l as [| d l IH]; intros o r; cbn; auto with np.
  destruct d; auto with np.
  - destruct (negb o); auto with np.
  - destruct r; auto with np.
Qed.

Lemma make_field_connection_np : forall f, np (make_field_connection f).
Proof.
  intros f. unfold make_field_connection.
  npb; [apply conn_arguments_np |].
  npb; [apply make_directives_np |].
  npb; [apply conn_loop_np |].
  destruct a1 as [[optional recurse] maybe_fold].
  npb; [| auto with np].
  destruct maybe_fold as [rest |]; auto with np.
  npb; [apply make_fold_group_np | auto with np].
Qed.

(* a field without directives gives a connection without @optional / @recurse / @fold *)
Lemma make_field_connection_no_dirs : forall f c,
  f_dirs f = [] -> make_field_connection f = Ok (inr c) ->
  fc_optional c = false /\ fc_recurse c = None /\ fc_fold c = None.
Proof.
  intros f c Hd H. unfold make_field_connection in H. rewrite Hd in H.
  destruct (conn_arguments (f_name f) (f_args f) []) as [[e | a] | s]; cbn in H; try discriminate.
  inversion H; subst c. cbn. auto.
Qed.

(* ---------------------------------------------------------------- query.rs: make_field_node *)
Lemma sel_depth_field : forall a n args dirs sels,
  sel_depth (SField a n args dirs sels) = S (sels_depth sels).
Proof.
  intros. reflexivity.
Qed.
Lemma sel_depth_inline : forall c dirs sels,
  sel_depth (SInline c dirs sels) = S (sels_depth sels).
Proof.
  intros. reflexivity.
Qed.

Lemma sels_depth_in : forall l x, In x l -> (sel_depth x <= sels_depth l)%nat.
Proof.
  induction l as [| y r IH]; intros x Hin; [destruct Hin |].
  cbn [sels_depth]. destruct Hin as [-> | Hin]; [lia |]. specialize (IH x Hin). lia.
Qed.

Lemma split_coercion_spec : forall sels,
  exists r, split_coercion sels = Ok r /\
            forall c fs, r = inr (c, fs) -> (sels_depth fs <= sels_depth sels)%nat.
Proof.
  intros sels. unfold split_coercion.
  destruct (List.find is_inline sels) as [s |] eqn:Hf.
  - destruct (Nat.ltb 1 (List.length sels)) eqn:Hlen.
    + apply Nat.ltb_lt in Hlen.
      destruct (nth_error sels 1) eqn:Hn.
      * eexists; split; [reflexivity |]. intros c fs H; discriminate H.
      * apply nth_error_None in Hn. lia.
    + apply Nat.ltb_ge in Hlen. apply List.find_some in Hf. destruct Hf as [Hin Hs].
      destruct s; try discriminate Hs.
      eexists; split; [reflexivity |]. intros c fs H. inversion H; subst c fs.
      pose proof (sels_depth_in _ _ Hin) as Hle. rewrite sel_depth_inline in Hle. lia.
  - eexists; split; [reflexivity |]. intros c fs H. inversion H; subst. lia.
Qed.

Lemma make_field_node_np : forall fuel f,
  (sels_depth (f_sels f) < fuel)%nat -> np (make_field_node fuel f).
Proof.
  induction fuel as [| fuel IH]; intros f Hd; [lia |].
  cbn [make_field_node].
  destruct (List.find is_spread (f_sels f)); auto with np.
  destruct (split_coercion_spec (f_sels f)) as [r [Hr Hdepth]].
  npbn cf Hcf; [exists r; exact Hr |].
  destruct cf as [coerced_to field_selections].
  rewrite Hr in Hcf. inversion Hcf; subst r. specialize (Hdepth _ _ eq_refl).
  npbn directives Hdirs; [apply make_directives_np |].
  destruct (node_loop directives [] [] []) as [[[filter output] tag] maybe_transform].
  npbn tg Htg.
  { destruct maybe_transform as [rest |]; auto with np.
    npbn gr Hgr; [apply make_transform_group_np |]. destruct gr as [g rest']. auto with np. }
  npbn conns Hconns; [| auto with np].
  assert (Hall : forall x, In x field_selections -> (sel_depth x <= fuel)%nat).
  { intros x Hin. pose proof (sels_depth_in _ _ Hin). lia. }
  clear Hdepth Hcf Hr. induction field_selections as [| x rest IHl]; auto with np.
  destruct x as [al n args dirs sels | |]; auto with np.
  npbn edge Hedge; [apply make_field_connection_np |].
  npbn vertex Hvertex.
  { apply IH. cbn [f_sels].
    pose proof (Hall _ (or_introl eq_refl)) as Hx. rewrite sel_depth_field in Hx. lia. }
  npbn r' Hr'; [| auto with np].
  apply IHl. intros y Hy. apply Hall. right; exact Hy.
Qed.

(* ---------------------------------------------------------------- query.rs: the document root *)
Lemma parse_operation_definition_np : forall op,
  op <> mkOp OpQuery [] [] [] -> np (parse_operation_definition op).
Proof.
  intros [kind vars dirs sels] Hne. unfold parse_operation_definition. cbn.
  destruct kind; auto with np.
  destruct vars; auto with np.
  destruct dirs; auto with np.
  destruct sels as [| s1 [| s2 r]].
  - exfalso; apply Hne; reflexivity.
  - cbn. destruct s1; auto with np.
  - cbn. auto with np.
Qed.

Lemma try_get_query_root_np : forall d, ~ Known1 d -> np (try_get_query_root d).
Proof.
  intros [ops frags] Hk. unfold Known1, known1 in Hk.
  unfold try_get_query_root. cbn [doc_frags doc_ops].
  destruct frags; auto with np.
  destruct ops as [op | mult].
  - apply parse_operation_definition_np. intros ->. apply Hk. reflexivity.
  - destruct (Nat.ltb 1 (List.length mult)) eqn:Hlen.
    + destruct (nth_error mult F1_index) eqn:Hn; [auto with np |].
      exfalso. apply Hk. apply nth_error_None in Hn. apply Nat.leb_le in Hn.
      unfold k_two_operations. cbn [doc_frags doc_ops]. rewrite Hlen, Hn. reflexivity.
    + destruct mult as [| [n op] rest].
      * exfalso. apply Hk. unfold k_two_operations. cbn [doc_frags doc_ops].
        rewrite Hlen. reflexivity.
      * destruct rest; [| discriminate Hlen].
        apply parse_operation_definition_np. intros ->. apply Hk.
        unfold k_two_operations. cbn [doc_frags doc_ops]. rewrite Hlen. reflexivity.
Qed.

Lemma field_fuel_ok : forall f, (sels_depth (f_sels f) < field_fuel f)%nat.
Proof. intros f. unfold field_fuel. lia. Qed.

(* parse_document never panics outside the known classes *)
Theorem parse_document_total : forall d, ~ Known1 d -> exists r, parse_doc d = Ok r.
Proof.
  intros d Hk. change (np (parse_doc d)). unfold parse_doc.
  npbn root Hroot; [apply try_get_query_root_np; exact Hk |].
  destruct (f_dirs root) eqn:Hd; auto with np.
  npbn rc Hrc; [apply make_field_connection_np |].
  destruct (make_field_connection_no_dirs _ _ Hd Hrc) as [Ho [Hr Hf]].
  rewrite Ho, Hr, Hf.
  npb; [apply make_field_node_np; apply field_fuel_ok | auto with np].
Qed.

Theorem parse_document_panic_known : forall d site, parse_doc d = Panic site -> Known1 d.
Proof.
  intros d site H. unfold Known1. destruct (known1 d) eqn:Hk; [reflexivity |].
  destruct (parse_document_total d) as [r Hr].
  - unfold Known1. rewrite Hk. discriminate.
  - rewrite Hr in H. discriminate H.
Qed.

(* the classes are exactly the documents on which parse_document panics (stage 1 is tight) *)
Theorem parse_document_panics_iff : forall d, (exists site, parse_doc d = Panic site) <-> Known1 d.
Proof.
  intros d. split.
  - intros [site H]. eapply parse_document_panic_known; exact H.
  - intros Hk. unfold Known1, known1 in Hk.
    destruct d as [ops frags]. unfold parse_doc, try_get_query_root.
    unfold k_two_operations, k_no_operations, k_empty_root_selection, selected_operation in Hk.
    cbn [doc_frags doc_ops] in *. destruct frags; [| discriminate Hk].
    destruct ops as [op | mult].
    + cbn in Hk. destruct op as [[] [] [] []]; try discriminate Hk. eexists; reflexivity.
    + destruct (Nat.ltb 1 (List.length mult)) eqn:Hlen.
      * destruct (Nat.leb (List.length mult) F1_index) eqn:Hle.
        -- apply Nat.leb_le in Hle. apply nth_error_None in Hle. rewrite Hle. eexists; reflexivity.
        -- destruct mult as [| p1 [| p2 rest]]; try discriminate Hlen.
           destruct p1; cbn in Hk; discriminate Hk.
      * destruct mult as [| [n op] [| p2 rest]]; try discriminate Hlen.
        -- eexists; reflexivity.
        -- cbn in Hk. destruct op as [[] [] [] []]; try discriminate Hk. eexists; reflexivity.
Qed.

(* ---------------------------------------------------------------- witnesses *)
Definition simple_root (name : string) : selection :=
  SField None name [] [] [SField None "value" [] [mkDir "output" []] []].
Definition simple_op : operation := mkOp OpQuery [] [] [simple_root "Four"].

(* F1: a document with exactly two operations used to panic in try_get_query_root *)
Definition f1_doc : document := mkDoc (OpsMultiple [("A", simple_op); ("B", simple_op)]) [].
(* since the repair of F1 (`nth(2)` -> `nth(1)`) it is an ordinary error *)
Lemma f1_doc_is_error : exists e, parse_doc f1_doc = Ok (inl e).
Proof. vm_compute. eexists. reflexivity. Qed.

(* three operations are an ordinary error *)
Lemma three_ops_error :
  parse_doc (mkDoc (OpsMultiple [("A", simple_op); ("B", simple_op); ("C", simple_op)]) [])
  = perr EMultipleOperationsInDocument.
Proof. vm_compute. reflexivity. Qed.
