(* Run.v — entry points evaluated by the correspondence check (cases_*.v), and their renderers. *)
From TF Require Export Exec Sem Show.
Local Open Scope string_scope.
Local Open Scope list_scope.

(* the regex oracle as a finite table written by the harness from the real `regex` crate:
   invalid patterns are listed in `bad`; (pattern, haystack) pairs not listed do not match *)
Definition re_table (bad : list string) (hits : list (string * string)) (p s : string) : option bool :=
  if mem_str p bad then None
  else Some (existsb (fun ph => String.eqb (fst ph) p && String.eqb (snd ph) s) hits).

Definition show_row (r : list (string * fv)) : string :=
  String.concat ";" (map (fun kv => (fst kv ++ "=" ++ show_fv (snd kv))%string) r).
Definition show_rows (rs : list (list (string * fv))) : string :=
  String.concat "|" (map show_row rs).

Definition run_exec (re : string -> string -> option bool) (d : dataset) (rq : raw_query)
           (args : list (string * fv)) : string :=
  match lower_query rq with
  | Panic _ => "PANIC"
  | Ok q => match interpret re (graph_of_dataset d) args q with
            | Panic s => "PANIC"
            | Ok rows => ("ROWS:" ++ show_rows rows)%string
            end
  end.

(* same, but keeping the panic site (diagnostics) *)
Definition run_exec_site (re : string -> string -> option bool) (d : dataset) (rq : raw_query)
           (args : list (string * fv)) : string :=
  match lower_query rq with
  | Panic s => ("PANIC@" ++ s)%string
  | Ok q => match interpret re (graph_of_dataset d) args q with
            | Panic s => ("PANIC@" ++ s)%string
            | Ok rows => ("ROWS:" ++ show_rows rows)%string
            end
  end.

(* the specification side: rows the query language defines *)
Definition run_sem (re : string -> string -> option bool) (d : dataset) (rq : raw_query)
           (args : list (string * fv)) : string :=
  match lower_query rq with
  | Panic _ => "PANIC"
  | Ok q => ("ROWS:" ++ show_rows (sem re (graph_of_dataset d) args q))%string
  end.
