(* RunHyps.v — does a (raw query, arguments) world meet the hypotheses of the whole-query refinement
   theorem (SimFinal.interpret_refines_sem)?  Evaluated on every world the harness generates, so that the
   evidence says how many worlds are decided by theorem + correspondence and how many by the
   specification oracle alone.  "HYP:yes+min" marks worlds that contain a fold truncated by take(min). *)
From TF Require Import Exec Lower Run SimGen WfCheck SemT EraseSem SimFinal.
Local Open Scope string_scope.

Fixpoint has_truncation (args : list (string * fv)) (c : ir_component) {struct c} : bool :=
  match c with
  | mkComp _ vs ss _ =>
      (fix go (todo : list step) : bool :=
         match todo with
         | [] => false
         | SEdge _ :: r => go r
         | SFold h sub :: r =>
             (match trunc_of args vs ss h sub with Some _ => true | None => false end) || has_truncation args sub || go r
         end) ss
  end.

Definition run_hyps (rq : raw_query) (args : list (string * fv)) : string :=
  match lower_query rq with
  | Panic _ => "HYP:lowering-panics"
  | Ok q => if refine_hyps args q
            then (if has_truncation args (q_comp q) then "HYP:yes+min" else "HYP:yes")
            else "HYP:no"
  end.
