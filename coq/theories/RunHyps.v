(* RunHyps.v — does a (raw query, arguments) world meet the hypotheses of the whole-query refinement
   theorem?  Evaluated on every world the harness generates, so that the evidence says how many worlds
   are decided by theorem + correspondence and how many by the specification oracle alone. *)
From TF Require Import Exec Lower Run SimGen WfCheck.
Local Open Scope string_scope.

Definition run_hyps (rq : raw_query) (args : list (string * fv)) : string :=
  match lower_query rq with
  | Panic _ => "HYP:lowering-panics"
  | Ok q => if spec_hyps args q then "HYP:yes" else "HYP:no"
  end.
