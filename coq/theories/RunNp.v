(* RunNp.v — does a (raw query, arguments) world meet the static conditions of the C09 theorem
   (NoPanic.np_ok)?  Evaluated on every world of the C09 check. *)
From TF Require Import Exec Lower Run NoPanic.
Local Open Scope string_scope.

Definition run_np (rq : raw_query) (args : list (string * fv)) : string :=
  match lower_query rq with
  | Panic _ => "NP:lowering-panics"
  | Ok q => if np_ok args q then "NP:yes" else "NP:no"
  end.
