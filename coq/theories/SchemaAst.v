(* SchemaAst.v — the abstract schema document handed to trustfall_core::schema::Schema::new:
   what the checks of schema/mod.rs read from an `async_graphql_parser::types::ServiceDocument`.
   Model file: definitions only.

   Supported constructs (property C19): schema blocks, directive definitions, scalar definitions,
   object and interface type definitions, in document order.  Not represented (they hit documented
   `unimplemented!`s and are outside the property): `extend`, enum, union and input-object definitions.
   Ignored because Schema::new never reads them: descriptions, directives applied to definitions,
   the mutation/subscription roots of a schema block, the arguments/locations of directive definitions.

   Types are the parser's own `Type` (`gty` of Ty.v: named or list, with nullability), because
   `is_subtype` works on that representation and everything else goes through `Type::from_type`.
   A parameter's default value is the outcome of `FieldValue::try_from(ConstValue)`. *)
From TF Require Export Values TyDef Ty.
Local Open Scope string_scope.

(* default value of a field parameter *)
Inductive dflt :=
| NoDefault                 (* `default_value: None` *)
| BadDefault                (* Some(v), and v.try_into::<FieldValue>() is Err (object / binary values) *)
| Default (v : fv).         (* Some(v), converted *)

(* InputValueDefinition: name, type, default *)
Record arg := mkArg { a_name : string; a_ty : gty; a_default : dflt }.
(* FieldDefinition: name, arguments, type *)
Record fld := mkFld { f_name : string; f_args : list arg; f_ty : gty }.

Inductive vkind := VObject | VInterface.
(* TypeDefinition with TypeKind::Object / TypeKind::Interface *)
Record tdef := mkT { t_name : string; t_kind : vkind; t_impl : list string; t_fields : list fld }.

(* TypeSystemDefinition *)
Inductive def :=
| DSchema (query : option string)   (* schema { query: Q }; `None` can only be built programmatically:
                                       the parser rejects a non-extend schema block without `query` *)
| DDirective (name : string)
| DScalar (name : string)
| DType (t : tdef).

Definition doc := list def.

(* ---------- structural views of the parser's Type ---------- *)
(* name at the bottom of the list nesting *)
Fixpoint gbase (g : gty) : string :=
  match g with GNamed s _ => s | GList i _ => gbase i end.
(* number of list levels *)
Fixpoint gdepth (g : gty) : nat :=
  match g with GNamed _ _ => O | GList i _ => S (gdepth i) end.
(* Display for async_graphql_parser::types::Type *)
Fixpoint gty_text (g : gty) : string :=
  match g with
  | GNamed s nl => s ++ (if nl then "" else "!")
  | GList i nl => "[" ++ gty_text i ++ "]" ++ (if nl then "" else "!")
  end.

(* ---------- projections of a document ---------- *)
Fixpoint doc_types (d : doc) : list tdef :=
  match d with
  | [] => []
  | DType t :: r => t :: doc_types r
  | _ :: r => doc_types r
  end.
Fixpoint doc_scalars (d : doc) : list string :=
  match d with
  | [] => []
  | DScalar n :: r => n :: doc_scalars r
  | _ :: r => doc_scalars r
  end.
Fixpoint doc_directives (d : doc) : list string :=
  match d with
  | [] => []
  | DDirective n :: r => n :: doc_directives r
  | _ :: r => doc_directives r
  end.
Fixpoint doc_schemas (d : doc) : list (option string) :=
  match d with
  | [] => []
  | DSchema q :: r => q :: doc_schemas r
  | _ :: r => doc_schemas r
  end.

Definition mem (s : string) (l : list string) : bool := existsb (String.eqb s) l.

(* HashMap<Arc<str>, TypeDefinition>::get by name (first definition of that name) *)
Fixpoint find_type (n : string) (ts : list tdef) : option tdef :=
  match ts with
  | [] => None
  | t :: r => if String.eqb (t_name t) n then Some t else find_type n r
  end.
Definition has_type (n : string) (ts : list tdef) : bool :=
  match find_type n ts with Some _ => true | None => false end.

Fixpoint find_field (n : string) (fs : list fld) : option fld :=
  match fs with
  | [] => None
  | f :: r => if String.eqb (f_name f) n then Some f else find_field n r
  end.

Definition builtin_scalar (s : string) : bool :=
  String.eqb s "Int" || String.eqb s "Float" || String.eqb s "String" || String.eqb s "Boolean" || String.eqb s "ID".

(* str::starts_with(RESERVED_PREFIX) *)
Definition reserved_name (s : string) : bool := String.prefix "__" s.
