(* SchemaNew.v — model of trustfall_core/src/schema/mod.rs: Schema::new and every check it runs.
   Model file: definitions only, no proofs (proofs are in SchemaProofs.v).

   Function-by-function transcription.  Every assert!/expect/unwrap/unreachable!/index panic is an
   explicit `Panic site`; every InvalidSchemaError variant Schema::new can return is a constructor of
   `schema_error` carrying the same identifying strings (all of them except the Debug/Display text of
   a rejected default VALUE).  The result is `res (list schema_error)`: `Ok []` = the schema is
   accepted, `Ok (e :: _)` = Err(e) / Err(MultipleErrors(..)) in the order of the Rust Vec.

   Iteration order.  Every loop over the `vertex_types` HashMap is `.iter().sorted_by_key(name)`, all
   other loops run over Vecs (document order), BTreeMaps or BTreeSets (key order).  The HashMaps
   (`vertex_types`, `fields`, `directives`, `scalars`) are otherwise only used for lookups.  So neither
   the set nor the ORDER of the reported errors depends on hash iteration order (relevant for C14),
   and the model reproduces the exact order: sorted containers are sorted lists (byte-wise string
   order = Rust's `str` order), HashMaps are association lists in insertion order. *)
From TF Require Export SchemaAst.
From TF Require Import Show.
Local Open Scope string_scope.
Local Open Scope nat_scope.
Local Open Scope list_scope.   (* `++` is list append until the rendering section *)

(* ---------- InvalidSchemaError (the variants Schema::new produces) ---------- *)
Inductive schema_error :=
| EDuplicateType (n : string)                                  (* DuplicateTypeOrInterfaceDefinition *)
| EDuplicateField (t f : string)                               (* DuplicateFieldDefinition *)
| EWidening (f t i fty pty : string)                           (* InvalidTypeWideningOfInheritedField *)
| EParamNarrowing (f t i p pty ppty : string)                  (* InvalidTypeNarrowingOfInheritedFieldParameter *)
| EMissingParams (f t i : string) (ps : list string)           (* InheritedFieldMissingParameters *)
| EUnexpectedParams (f t i : string) (ps : list string)        (* InheritedFieldUnexpectedParameters *)
| EBadDefault (t f p pty : string)                             (* InvalidDefaultValueForFieldParameter (value text dropped) *)
| ECircular (ts : list string)                                 (* CircularImplementsRelationships *)
| EMissingTransitive (t i j : string)                          (* MissingTransitiveInterfaceImplementation *)
| EMissingField (t i f fty : string)                           (* MissingRequiredField *)
| EAmbiguous (t f fty : string) (anc : list string)            (* AmbiguousFieldOrigin *)
| EPropertyParams (t f fty : string) (ps : list string)        (* PropertyFieldWithParameters *)
| EInvalidEdgeType (t f fty : string)                          (* InvalidEdgeType *)
| EUnknownType (f fty : string)                                (* UnknownPropertyOrEdgeType *)
| ERootProperty (t f fty : string)                             (* PropertyFieldOnRootQueryType *)
| EEdgeToRoot (t f fty : string)                               (* EdgePointsToRootQueryType *)
| EReservedField (t f : string)                                (* ReservedFieldName *)
| EReservedType (t : string)                                   (* ReservedTypeName *)
| ENonExistent (t i : string)                                  (* ImplementingNonExistentType *)
| ENonInterface (t i : string).                                (* ImplementingNonInterface *)

(* ---------- panic sites ---------- *)
Definition site_len : string := "schema/mod.rs:115 doc.definitions.len() - 1 on an empty document".
Definition site_dup_schema : string := "schema/mod.rs:124 assert!(schema.is_none())".
Definition site_dup_directive : string := "schema/mod.rs:134 directives.insert_or_error(..).unwrap()".
Definition site_builtin : string := "schema/mod.rs:139 assert!(!get_builtin_scalars().contains(type_name))".
Definition site_dup_scalar : string := "schema/mod.rs:147 scalars.insert_or_error(..).unwrap()".
Definition site_no_schema : string := "schema/mod.rs:198 expect: Schema definition was not present.".
Definition site_no_query : string := "schema/mod.rs:200 expect: No query type was declared in the schema".
Definition site_query_undefined : string := "schema/mod.rs:203 expect: The query type set in the schema object was never defined.".
Definition site_query_interface : string := "schema/mod.rs:206 unreachable!() (query type is not an object type)".
Definition site_no_origins : string := "schema/mod.rs:249 expect: no field origins but also no errors".
Definition site_amb_index : string := "schema/mod.rs:494 fields[key]".
Definition site_fo_type_index : string := "schema/mod.rs:769 vertex_types[type_name]".
Definition site_fo_origin_index : string := "schema/mod.rs:781 field_origins[&(interface, field)]".
Definition site_fo_insert : string := "schema/mod.rs:800 field_origins.insert_or_error(..).unwrap()".
Definition site_fo_get_mut : string := "schema/mod.rs:805 required_resolutions.get_mut(next_type).unwrap()".
Definition site_fo_fuel : string := "model fuel exhausted in get_field_origins (more pops than vertex types: impossible)".
(* further sites come from Ty.v: site_from_type (types/base.rs:270) and site_enum (types/base.rs:380) *)

(* ---------- generic loops ---------- *)
(* a loop that appends the errors of each iteration and propagates panics *)
Fixpoint rflat {A B} (f : A -> res (list B)) (l : list A) : res (list B) :=
  match l with
  | [] => Ok []
  | x :: r => do a <- f x; do b <- rflat f r; Ok (a ++ b)
  end.
(* a loop threading mutable state *)
Fixpoint rfold {A S} (f : S -> A -> res S) (l : list A) (s : S) : res S :=
  match l with
  | [] => Ok s
  | x :: r => do s' <- f s x; rfold f r s'
  end.

(* ---------- sorted containers ---------- *)
(* BTreeSet<&str>::insert *)
Fixpoint sset_insert (x : string) (s : list string) : list string :=
  match s with
  | [] => [x]
  | y :: r => match String.compare x y with
              | Lt => x :: s
              | Eq => s
              | Gt => y :: sset_insert x r
              end
  end.
(* iter().collect::<BTreeSet<_>>() *)
Definition sset_of (l : list string) : list string := fold_left (fun s x => sset_insert x s) l [].
(* BTreeSet::remove *)
Definition sset_remove (x : string) (s : list string) : list string :=
  filter (fun y => negb (String.eqb x y)) s.

(* BTreeMap<&str, V> : insert (replacing), get, remove *)
Fixpoint smap_insert {V} (k : string) (v : V) (m : list (string * V)) : list (string * V) :=
  match m with
  | [] => [(k, v)]
  | (k', v') :: r => match String.compare k k' with
                     | Lt => (k, v) :: m
                     | Eq => (k, v) :: r
                     | Gt => (k', v') :: smap_insert k v r
                     end
  end.
Fixpoint smap_get {V} (k : string) (m : list (string * V)) : option V :=
  match m with
  | [] => None
  | (k', v) :: r => if String.eqb k k' then Some v else smap_get k r
  end.
Definition smap_has {V} (k : string) (m : list (string * V)) : bool :=
  match smap_get k m with Some _ => true | None => false end.
(* `*map.get_mut(k).unwrap() = v` / Entry::and_modify: in-place change of the value stored under k *)
Definition smap_update {V} (k : string) (v : V) (m : list (string * V)) : list (string * V) :=
  map (fun kv => if String.eqb k (fst kv) then (fst kv, v) else kv) m.
Definition smap_remove {V} (k : string) (m : list (string * V)) : list (string * V) :=
  filter (fun kv => negb (String.eqb k (fst kv))) m.

(* keys (type name, field name): BTreeMap<(Arc<str>, Arc<str>), _> and HashMap<(Arc<str>, Arc<str>), _> *)
Definition okey := (string * string)%type.
Definition okey_eqb (a b : okey) : bool := String.eqb (fst a) (fst b) && String.eqb (snd a) (snd b).
Definition okey_cmp (a b : okey) : comparison :=
  match String.compare (fst a) (fst b) with
  | Eq => String.compare (snd a) (snd b)
  | c => c
  end.
Fixpoint omap_get {V} (k : okey) (m : list (okey * V)) : option V :=
  match m with
  | [] => None
  | (k', v) :: r => if okey_eqb k k' then Some v else omap_get k r
  end.
(* sorted insertion of a key known to be absent *)
Fixpoint omap_insert {V} (k : okey) (v : V) (m : list (okey * V)) : list (okey * V) :=
  match m with
  | [] => [(k, v)]
  | (k', v') :: r => match okey_cmp k k' with
                     | Gt => (k', v') :: omap_insert k v r
                     | _ => (k, v) :: m
                     end
  end.

(* vertex_types.iter().sorted_by_key(|(name, _)| *name) : stable insertion sort on the name *)
Fixpoint tins (t : tdef) (l : list tdef) : list tdef :=
  match l with
  | [] => [t]
  | u :: r => if String.leb (t_name t) (t_name u) then t :: l else u :: tins t r
  end.
Definition sort_types (ts : list tdef) : list tdef := fold_right tins [] ts.

(* ---------- Schema::new, first loop ---------- *)
Record st1 := mkSt1 {
  s_schema : option (option string);          (* schema: Option<SchemaDefinition> (its `query`) *)
  s_dirs : list string;                       (* directives (keys) *)
  s_scalars : list string;                    (* scalars (keys) *)
  s_types : list tdef;                        (* vertex_types, insertion order *)
  s_fields : list (okey * fld)                (* fields, insertion order *)
}.
Definition st1_empty : st1 := mkSt1 None [] [] [] [].

Inductive step1 := Cont (s : st1) | Early (e : schema_error).

(* the `for field in field_defs` loop: Err on the first (type, field) key already present *)
Fixpoint add_fields (tn : string) (fs : list fld) (acc : list (okey * fld)) : schema_error + list (okey * fld) :=
  match fs with
  | [] => inr acc
  | f :: r =>
      match omap_get (tn, f_name f) acc with
      | Some _ => inl (EDuplicateField tn (f_name f))
      | None => add_fields tn r (acc ++ [((tn, f_name f), f)])
      end
  end.

Definition process_def (s : st1) (d : def) : res step1 :=
  match d with
  | DSchema q =>
      match s_schema s with
      | Some _ => Panic site_dup_schema
      | None => Ok (Cont (mkSt1 (Some q) (s_dirs s) (s_scalars s) (s_types s) (s_fields s)))
      end
  | DDirective n =>
      if mem n (s_dirs s) then Panic site_dup_directive
      else Ok (Cont (mkSt1 (s_schema s) (s_dirs s ++ [n]) (s_scalars s) (s_types s) (s_fields s)))
  | DScalar n =>
      if builtin_scalar n then Panic site_builtin
      else if mem n (s_scalars s) then Panic site_dup_scalar
      else Ok (Cont (mkSt1 (s_schema s) (s_dirs s) (s_scalars s ++ [n]) (s_types s) (s_fields s)))
  | DType t =>
      if builtin_scalar (t_name t) then Panic site_builtin
      else if has_type (t_name t) (s_types s) then Ok (Early (EDuplicateType (t_name t)))
      else match add_fields (t_name t) (t_fields t) (s_fields s) with
           | inl e => Ok (Early e)
           | inr fields' => Ok (Cont (mkSt1 (s_schema s) (s_dirs s) (s_scalars s) (s_types s ++ [t]) fields'))
           end
  end.

Fixpoint loop1 (d : doc) (s : st1) : res step1 :=
  match d with
  | [] => Ok (Cont s)
  | x :: r =>
      do o <- process_def s x;
      match o with
      | Early e => Ok (Early e)
      | Cont s' => loop1 r s'
      end
  end.

(* ---------- is_named_type_subtype / is_subtype ---------- *)
Definition named_subtype (vts : list tdef) (parent child : string) : bool :=
  match has_type parent vts, find_type child vts with
  | false, None => String.eqb parent child
  | true, Some c => String.eqb parent child || mem parent (t_impl c)
  | _, _ => false
  end.

Fixpoint is_subtype (vts : list tdef) (parent child : gty) : bool :=
  if negb (gnullable parent) && gnullable child then false
  else match parent, child with
       | GNamed p _, GNamed c _ => named_subtype vts p c
       | GList p _, GList c _ => is_subtype vts p c
       | _, _ => false
       end.

(* ---------- check_required_transitive_implementations ---------- *)
Definition transitive_one (vts : list tdef) (tn : string) (impls : list string) (i : string) : list schema_error :=
  match find_type i vts with
  | Some idef =>
      match t_kind idef with
      | VInterface =>
          flat_map (fun j => if negb (String.eqb j tn) && negb (mem j impls)
                             then [EMissingTransitive tn i j] else []) (t_impl idef)
      | VObject => [ENonInterface tn i]
      end
  | None => [ENonExistent tn i]
  end.
Definition check_transitive (vts : list tdef) : list schema_error :=
  flat_map (fun t => let impls := sset_of (t_impl t) in
                     flat_map (transitive_one vts (t_name t) impls) impls) (sort_types vts).

(* ---------- check_field_type_narrowing ---------- *)
(* arguments.iter().map(|arg| (name, &ty)).collect::<BTreeMap<_, _>>() : a later duplicate replaces *)
Definition pmap (args : list arg) : list (string * gty) :=
  fold_left (fun m a => smap_insert (a_name a) (a_ty a) m) args [].

Definition narrowing_param (fn tn impl : string) (pparams : list (string * gty)) (p : string * gty)
  : res (list schema_error) :=
  match smap_get (fst p) pparams with
  | None => Ok []
  | Some ppty =>
      do a <- from_type (snd p);
      do b <- from_type ppty;
      if ty_sub a b then Ok []
      else Ok [EParamNarrowing fn tn impl (fst p) (gty_text (snd p)) (gty_text ppty)]
  end.

Definition narrowing_one (vts : list tdef) (fields : list (okey * fld)) (tn : string) (f : fld)
  (impl : string) : res (list schema_error) :=
  let fparams := pmap (f_args f) in
  match omap_get (impl, f_name f) fields with
  | None => Ok []
  | Some pf =>
      let e1 := if is_subtype vts (f_ty pf) (f_ty f) then []
                else [EWidening (f_name f) tn impl (gty_text (f_ty f)) (gty_text (f_ty pf))] in
      let pparams := pmap (f_args pf) in
      let missing := filter (fun n => negb (smap_has n fparams)) (map fst pparams) in
      let e2 := match missing with [] => [] | _ => [EMissingParams (f_name f) tn impl missing] end in
      let unexpected := filter (fun n => negb (smap_has n pparams)) (map fst fparams) in
      let e3 := match unexpected with [] => [] | _ => [EUnexpectedParams (f_name f) tn impl unexpected] end in
      do e4 <- rflat (narrowing_param (f_name f) tn impl pparams) fparams;
      Ok (e1 ++ e2 ++ e3 ++ e4)
  end.

Definition check_narrowing (vts : list tdef) (fields : list (okey * fld)) : res (list schema_error) :=
  rflat (fun t => rflat (fun f => rflat (narrowing_one vts fields (t_name t) f) (t_impl t)) (t_fields t))
        (sort_types vts).

(* ---------- check_fields_required_by_interface_implementations ---------- *)
Definition required_one (vts : list tdef) (fields : list (okey * fld)) (tn impl : string) : list schema_error :=
  match find_type impl vts with
  | None => []
  | Some idef =>
      flat_map (fun f => match omap_get (tn, f_name f) fields with
                         | Some _ => []
                         | None => [EMissingField tn impl (f_name f) (gty_text (f_ty f))]
                         end) (t_fields idef)
  end.
Definition check_required_fields (vts : list tdef) (fields : list (okey * fld)) : list schema_error :=
  flat_map (fun t => flat_map (required_one vts fields (t_name t)) (t_impl t)) (sort_types vts).

(* ---------- check_type_and_property_and_edge_invariants ---------- *)
Definition check_default (tn fn : string) (a : arg) : res (list schema_error) :=
  match a_default a with
  | NoDefault => Ok []
  | BadDefault => Ok [EBadDefault tn fn (a_name a) (gty_text (a_ty a))]
  | Default v =>
      do pt <- from_type (a_ty a);
      do b <- ty_valid pt v;
      if b then Ok [] else Ok [EBadDefault tn fn (a_name a) (gty_text (a_ty a))]
  end.

Definition check_field_invariants (vts : list tdef) (qname tn : string) (f : fld) : res (list schema_error) :=
  let e0 := if reserved_name (f_name f) then [EReservedField tn (f_name f)] else [] in
  do ft <- from_type (f_ty f);
  let base := ty_base_type ft in
  if builtin_scalar base then
    Ok (e0 ++ match f_args f with
              | [] => []
              | _ => [EPropertyParams tn (f_name f) (ty_display ft) (map a_name (f_args f))]
              end)
  else if has_type base vts then
    if String.eqb base qname then Ok (e0 ++ [EEdgeToRoot tn (f_name f) (ty_display ft)])
    else
      do ed <- rflat (check_default tn (f_name f)) (f_args f);
      let el := match ty_as_list ft with
                | Some inner => if ty_is_list inner then [EInvalidEdgeType tn (f_name f) (ty_display ft)] else []
                | None => []
                end in
      Ok (e0 ++ ed ++ el)
  else Ok (e0 ++ [EUnknownType (f_name f) (ty_display ft)]).

Definition check_invariants (qname : string) (vts : list tdef) : res (list schema_error) :=
  rflat (fun t =>
           let e0 := if reserved_name (t_name t) then [EReservedType (t_name t)] else [] in
           do ef <- rflat (check_field_invariants vts qname (t_name t)) (t_fields t);
           Ok (e0 ++ ef)) (sort_types vts).

(* ---------- check_root_query_type_invariants ---------- *)
Definition check_root (qt : tdef) : res (list schema_error) :=
  rflat (fun f => do ft <- from_type (f_ty f);
                  if builtin_scalar (ty_base_type ft)
                  then Ok [ERootProperty (t_name qt) (f_name f) (ty_display ft)] else Ok [])
        (t_fields qt).

(* ---------- FieldOrigin and its Add ---------- *)
Inductive origin :=
| Single (a : string)                 (* SingleAncestor *)
| Multiple (s : list string).         (* MultipleAncestors(BTreeSet) *)

Definition origin_add (l r : origin) : origin :=
  match l, r with
  | Single a, Single b => if String.eqb a b then Single a else Multiple (sset_insert b (sset_insert a []))
  | Single s, Multiple m => Multiple (sset_insert s m)
  | Multiple m, Single s => Multiple (sset_insert s m)
  | Multiple a, Multiple b => Multiple (fold_left (fun s x => sset_insert x s) b a)
  end.

(* ---------- get_field_origins ---------- *)
(* required_resolutions: for each type (name order) the defined types it implements *)
Definition required_resolutions (vts : list tdef) : list (string * list string) :=
  map (fun t => (t_name t, sset_of (filter (fun n => has_type n vts) (t_impl t)))) (sort_types vts).
(* the initial queue: types with nothing to wait for, in name order *)
Definition initial_queue (vts : list tdef) : list string :=
  map fst (filter (fun p => match snd p with [] => true | _ => false end) (required_resolutions vts)).
(* resolvers.get(x): the BTreeSet of the names of the types whose `implements` list mentions x
   (built by a fold over the name-sorted types; names are distinct, so this is the sorted filter) *)
Definition resolvers_of (vts : list tdef) (x : string) : list string :=
  map t_name (filter (fun t => mem x (t_impl t)) (sort_types vts)).

(* implemented_fields.entry(name).and_modify(|o| *o = o + parent).or_insert_with(|| parent.clone()) *)
Definition impl_add (m : list (string * origin)) (fname : string) (po : origin) : list (string * origin) :=
  match smap_get fname m with
  | Some o => smap_update fname (origin_add o po) m
  | None => smap_insert fname po m
  end.

(* the `for implemented_interface in implements { for field in parent_fields {..} }` loops *)
Definition inherited_origins (vts : list tdef) (origins : list (okey * origin)) (defn : tdef)
  : res (list (string * origin)) :=
  rfold (fun acc iface =>
           match find_type iface vts with
           | None => Ok acc
           | Some idef =>
               rfold (fun acc2 pf =>
                        match omap_get (iface, f_name pf) origins with
                        | None => Panic site_fo_origin_index
                        | Some po => Ok (impl_add acc2 (f_name pf) po)
                        end) (t_fields idef) acc
           end) (t_impl defn) [].

(* the `for field in fields` loop *)
Definition own_origins (tn : string) (defn : tdef) (inherited : list (string * origin))
  (origins : list (okey * origin)) : res (list (string * origin) * list (okey * origin)) :=
  rfold (fun st f =>
           let '(inh, org) := st in
           let o := match smap_get (f_name f) inh with Some o => o | None => Single tn end in
           match omap_get (tn, f_name f) org with
           | Some _ => Panic site_fo_insert
           | None => Ok (smap_remove (f_name f) inh, omap_insert (tn, f_name f) o org)
           end) (t_fields defn) (inherited, origins).

(* the `for next_type in next_types` loop *)
Definition release_waiters (tn : string) (waiters : list string)
  (queue : list string) (req : list (string * list string)) : res (list string * list (string * list string)) :=
  rfold (fun st next =>
           let '(q, rq) := st in
           match smap_get next rq with
           | None => Panic site_fo_get_mut
           | Some remaining =>
               if mem tn remaining then
                 let rem' := sset_remove tn remaining in
                 let rq' := smap_update next rem' rq in   (* `remaining` is a &mut into the map *)
                 match rem' with
                 | [] => Ok (q ++ [next], rq')
                 | _ => Ok (q, rq')
                 end
               else Ok (q, rq)
           end) waiters (queue, req).

(* while let Some(type_name) = queue.pop_front() *)
Fixpoint fo_loop (fuel : nat) (vts : list tdef) (origins : list (okey * origin))
  (queue : list string) (req : list (string * list string))
  : res (list (okey * origin) * list (string * list string)) :=
  match fuel with
  | O => Panic site_fo_fuel
  | S fuel' =>
      match queue with
      | [] => Ok (origins, req)
      | tn :: q =>
          match find_type tn vts with
          | None => Panic site_fo_type_index
          | Some defn =>
              do inh <- inherited_origins vts origins defn;
              do oo <- own_origins tn defn inh origins;
              do qr <- release_waiters tn (resolvers_of vts tn) q req;
              fo_loop fuel' vts (snd oo) (fst qr) (snd qr)
          end
      end
  end.

(* the final loop over required_resolutions: the first type that still waits *)
Fixpoint first_circular (req : list (string * list string)) : option schema_error :=
  match req with
  | [] => None
  | (n, rem) :: r =>
      match rem with
      | [] => first_circular r
      | _ => Some (ECircular (sset_insert n rem))
      end
  end.

Definition fo_fuel (vts : list tdef) : nat := S (List.length vts).

Definition get_field_origins (vts : list tdef) : res (schema_error + list (okey * origin)) :=
  do r <- fo_loop (fo_fuel vts) vts [] (initial_queue vts) (required_resolutions vts);
  match first_circular (snd r) with
  | Some e => Ok (inl e)
  | None => Ok (inr (fst r))
  end.

(* ---------- check_ambiguous_field_origins ---------- *)
Definition check_ambiguous (fields : list (okey * fld)) (origins : list (okey * origin)) : res (list schema_error) :=
  rflat (fun kv =>
           match snd kv with
           | Multiple anc =>
               match omap_get (fst kv) fields with
               | None => Panic site_amb_index
               | Some f => Ok [EAmbiguous (fst (fst kv)) (snd (fst kv)) (gty_text (f_ty f)) anc]
               end
           | Single _ => Ok []
           end) origins.

(* ---------- Schema::new ---------- *)
Definition run_checks (qt : tdef) (vts : list tdef) (fields : list (okey * fld)) : res (list schema_error) :=
  let e1 := check_transitive vts in
  do e2 <- check_narrowing vts fields;
  let e3 := check_required_fields vts fields in
  do e4 <- check_invariants (t_name qt) vts;
  do e5 <- check_root qt;
  do fo <- get_field_origins vts;
  do e6o <- match fo with
            | inr origins => do e <- check_ambiguous fields origins; Ok (e, Some origins)
            | inl e => Ok ([e], None)
            end;
  let errors := e1 ++ e2 ++ e3 ++ e4 ++ e5 ++ fst e6o in
  match errors with
  | [] => match snd e6o with Some _ => Ok [] | None => Panic site_no_origins end
  | _ => Ok errors
  end.

Definition schema_new (d : doc) : res (list schema_error) :=
  match d with
  | [] => Panic site_len
  | _ =>
      do o <- loop1 d st1_empty;
      match o with
      | Early e => Ok [e]
      | Cont s =>
          match s_schema s with
          | None => Panic site_no_schema
          | Some None => Panic site_no_query
          | Some (Some q) =>
              match find_type q (s_types s) with
              | None => Panic site_query_undefined
              | Some qt =>
                  match t_kind qt with
                  | VInterface => Panic site_query_interface
                  | VObject => run_checks qt (s_types s) (s_fields s)
                  end
              end
          end
      end
  end.

(* ---------- rendering for the correspondence check (mirrored by harness/src/bin/tfh_c19.rs) ---------- *)
Local Open Scope string_scope.
Definition sl (l : list string) : string := "[" ++ String.concat ";" l ++ "]".
Definition cs (l : list string) : string := String.concat "," l.
Definition show_err (e : schema_error) : string :=
  match e with
  | EDuplicateType n => "DuplicateType(" ++ n ++ ")"
  | EDuplicateField t f => "DuplicateField(" ++ cs [t; f] ++ ")"
  | EWidening f t i a b => "Widening(" ++ cs [f; t; i; a; b] ++ ")"
  | EParamNarrowing f t i p a b => "ParamNarrowing(" ++ cs [f; t; i; p; a; b] ++ ")"
  | EMissingParams f t i ps => "MissingParams(" ++ cs [f; t; i; sl ps] ++ ")"
  | EUnexpectedParams f t i ps => "UnexpectedParams(" ++ cs [f; t; i; sl ps] ++ ")"
  | EBadDefault t f p a => "BadDefault(" ++ cs [t; f; p; a] ++ ")"
  | ECircular ts => "Circular(" ++ sl ts ++ ")"
  | EMissingTransitive t i j => "MissingTransitive(" ++ cs [t; i; j] ++ ")"
  | EMissingField t i f a => "MissingField(" ++ cs [t; i; f; a] ++ ")"
  | EAmbiguous t f a anc => "Ambiguous(" ++ cs [t; f; a; sl anc] ++ ")"
  | EPropertyParams t f a ps => "PropertyParams(" ++ cs [t; f; a; sl ps] ++ ")"
  | EInvalidEdgeType t f a => "InvalidEdgeType(" ++ cs [t; f; a] ++ ")"
  | EUnknownType f a => "UnknownType(" ++ cs [f; a] ++ ")"
  | ERootProperty t f a => "RootProperty(" ++ cs [t; f; a] ++ ")"
  | EEdgeToRoot t f a => "EdgeToRoot(" ++ cs [t; f; a] ++ ")"
  | EReservedField t f => "ReservedField(" ++ cs [t; f] ++ ")"
  | EReservedType t => "ReservedType(" ++ t ++ ")"
  | ENonExistent t i => "NonExistent(" ++ cs [t; i] ++ ")"
  | ENonInterface t i => "NonInterface(" ++ cs [t; i] ++ ")"
  end.

Definition show_schema_result (r : res (list schema_error)) : string :=
  match r with
  | Panic _ => "PANIC"
  | Ok [] => "OK"
  | Ok es => "ERR:" ++ String.concat "|" (map show_err es)
  end.
